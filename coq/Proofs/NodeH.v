(* History theorems (whole runs) for C18 (shutdown), C06 (the capabilities-exchange gate) and C11 (watchdog),
   lifted from the per-step facts of NodeA / NodeB / NodeC.

   0. kq / calm / just / res: what every part of the node does to the stop flag, to the "quiet" connection
      states, and which DWR / CER / dial it may emit
   A. C18_history_stopping_is_forever
   B. C18_history_quiet, C18_history_newcomers_refused (+ refuted variants for EStart / EConnDone)
   C. C06_history_gate (+ refuted variant for DISCONNECTING)
   D. C11_history_one_dwr
   E. examples by vm_compute. *)
From DV Require Import Prelude.Base Model.Node.
From DV Require Import Proofs.NodeA.
From DV Require Proofs.NodeB Proofs.NodeC Proofs.NodeD Proofs.NodeF Proofs.NodeG.
From Coq Require String.
Local Open Scope Z_scope.

Notation strace := NodeF.strace.

(* ================================================================================== *)
(* 0. the relation kept by every part of the node                                      *)
(* ================================================================================== *)
(* states in which the watchdog sends nothing and from which READY is reached only by a DWA *)
Definition qs (s : cstate) : bool :=
  match s with SReadyWaitDwa | SDisconnecting | SClosing | SClosed => true | _ => false end.

(* connection cid was numbered already and is absent or in a quiet state *)
Definition W (cid : nat) (n : node) : Prop :=
  (cid < n_next_cid n)%nat /\ forall c, get_conn n cid = Some c -> qs (c_state c) = true.

(* the stop flag is kept, numbers only grow, every connection afterwards is new or comes from the one of that
   number before; connection cid stays quiet if it was *)
Definition kq (cid : nat) (n n' : node) : Prop :=
  (n_stopping n = true -> n_stopping n' = true) /\ (n_next_cid n <= n_next_cid n')%nat /\
  forall j c', get_conn n' j = Some c' ->
    (n_next_cid n <= j < n_next_cid n')%nat \/
    exists c, get_conn n j = Some c /\ (j = cid -> qs (c_state c) = true -> qs (c_state c') = true).

Lemma kq_refl cid n : kq cid n n.
Proof. split; [auto|]. split; [lia|]. intros j c' H. right. exists c'. auto. Qed.

Lemma kq_trans cid a b c : kq cid a b -> kq cid b c -> kq cid a c.
Proof.
  intros [S1 [N1 H1]] [S2 [N2 H2]]. split; [auto|]. split; [lia|].
  intros j c' Hc'. destruct (H2 j c' Hc') as [Hn|[cb [Hcb Hq2]]]; [left; lia|].
  destruct (H1 j cb Hcb) as [Hn|[ca [Hca Hq1]]]; [left; lia|].
  right. exists ca. split; [exact Hca|]. auto.
Qed.

Lemma kq_sub cid n n' :
  n_stopping n' = n_stopping n -> n_next_cid n' = n_next_cid n ->
  (forall j c', get_conn n' j = Some c' ->
     exists c, get_conn n j = Some c /\ (j = cid -> qs (c_state c) = true -> qs (c_state c') = true)) ->
  kq cid n n'.
Proof. intros S N H. split; [congruence|]. split; [lia|]. intros j c' Hc'. right. apply H, Hc'. Qed.

Lemma kq_same cid n n' :
  n_conns n' = n_conns n -> n_stopping n' = n_stopping n -> n_next_cid n' = n_next_cid n -> kq cid n n'.
Proof.
  intros C S N. apply kq_sub; [exact S|exact N|]. intros j c' Hc'. exists c'.
  rewrite <- (get_conn_ext n' n j C). auto.
Qed.

Lemma kq_upd cid n j f :
  idp f ->
  (j = cid -> forall c, get_conn n cid = Some c -> qs (c_state c) = true -> qs (c_state (f c)) = true) ->
  kq cid n (set_conns n (upd_conn (n_conns n) j f)).
Proof.
  intros Hf Hq. apply kq_sub; [reflexivity|reflexivity|]. intros i c' Hc'.
  rewrite (get_conn_upd n j i f Hf) in Hc'. destruct (Nat.eqb i j) eqn:E.
  - apply Nat.eqb_eq in E. subst i. destruct (get_conn n j) as [c|] eqn:Hc; [|discriminate].
    injection Hc' as <-. exists c. split; [reflexivity|]. intros -> Hqs. eapply Hq; eauto.
  - exists c'. auto.
Qed.

Lemma kq_W cid n n' : kq cid n n' -> W cid n -> W cid n'.
Proof.
  intros [_ [N H]] [Hlt Hw]. split; [lia|]. intros c' Hc'.
  destruct (H cid c' Hc') as [Hn|[c [Hc Hq]]]; [lia|]. apply Hq; [reflexivity|]. apply Hw, Hc.
Qed.

Lemma kq_fresh cid n n' : kq cid n n' -> conns_fresh n -> conns_fresh n'.
Proof.
  intros [_ [N H]] Hf j c' Hc'. destruct (H j c' Hc') as [Hn|[c [Hc _]]]; [lia|]. apply Hf in Hc. lia.
Qed.

Lemma kq_cupd cid n n' i F :
  cupd n n' i F -> n_stopping n' = n_stopping n -> n_next_cid n' = n_next_cid n ->
  (i = cid -> forall c, get_conn n cid = Some c -> qs (c_state c) = true -> qs (c_state (F c)) = true) ->
  kq cid n n'.
Proof.
  intros Hu S N Hq. apply kq_sub; [exact S|exact N|]. intros j c' Hc'. rewrite (Hu j) in Hc'.
  destruct (Nat.eqb j i) eqn:E.
  - apply Nat.eqb_eq in E. subst j. destruct (get_conn n i) as [c|] eqn:Hc; [|discriminate].
    injection Hc' as <-. exists c. split; [reflexivity|]. intros -> Hqs. eapply Hq; eauto.
  - exists c'. auto.
Qed.

Lemma kq_cupd_frame cid n n' i F :
  cupd n n' i F -> frame n n' ->
  (i = cid -> forall c, get_conn n cid = Some c -> qs (c_state c) = true -> qs (c_state (F c)) = true) ->
  kq cid n n'.
Proof. intros Hu [_ [N [S _]]] Hq. eapply kq_cupd; eauto. Qed.

(* ---- outputs ----------------------------------------------------------------------------- *)
(* a message that is not a watchdog or capabilities-exchange REQUEST *)
Definition calmm (m : omsg) : Prop := o_req m = true -> o_cmd m <> DW /\ o_cmd m <> CE.
(* an output that is neither a dial nor a queued DWR / CER *)
Definition calm (o : output) : Prop :=
  match o with ODial _ => False | OQueue _ m => calmm m | _ => True end.

Definition cres (cid : nat) (n : node) (r : node * list output) : Prop :=
  kq cid n (fst r) /\ List.Forall calm (snd r).

Lemma cres_nil cid n n' : kq cid n n' -> cres cid n (n', []).
Proof. intros H. split; [exact H|constructor]. Qed.
Lemma cres_refl cid n : cres cid n (n, []).
Proof. apply cres_nil, kq_refl. Qed.
Lemma cres_app cid n n1 o1 n2 o2 :
  cres cid n (n1, o1) -> cres cid n1 (n2, o2) -> cres cid n (n2, (o1 ++ o2)%list).
Proof.
  intros [H1 H2] [H3 H4]. cbn [fst snd] in *. split; cbn [fst snd]; [eapply kq_trans; eassumption|].
  apply List.Forall_app. split; assumption.
Qed.
Lemma cres_pre cid n n0 r : kq cid n n0 -> cres cid n0 r -> cres cid n r.
Proof. intros H [H1 H2]. split; [eapply kq_trans; eassumption|exact H2]. Qed.
Lemma cres_post cid n n1 o n2 : cres cid n (n1, o) -> kq cid n1 n2 -> cres cid n (n2, o).
Proof. intros [H1 H2] H. cbn [fst snd] in *. split; cbn [fst snd]; [eapply kq_trans; eassumption|exact H2]. Qed.
Lemma cres_cons cid n n1 o1 x : calm x -> cres cid n (n1, o1) -> cres cid n (n1, x :: o1).
Proof. intros Hx [H1 H2]. split; [exact H1|constructor; assumption]. Qed.

Lemma calmm_answer m r f : calmm (answer_of m r f).
Proof. intros H. discriminate H. Qed.

Lemma send_message_kq cid n j m : kq cid n (fst (send_message n j m)).
Proof.
  eapply kq_cupd_frame; [apply send_message_cupd|apply send_message_frame|]. intros _ c _ H. exact H.
Qed.

Lemma send_message_c cid n j m : calmm m -> cres cid n (send_message n j m).
Proof. intros Hm. split; [apply send_message_kq|]. rewrite send_message_out. constructor; [exact Hm|constructor]. Qed.

Lemma close_conn_kq cid n j r : kq cid n (fst (close_conn n j r)).
Proof.
  destruct (close_conn_wframe n j r) as [_ [N [S _]]]. apply kq_sub; [exact S|exact N|].
  intros i c' Hc'. rewrite close_conn_get in Hc'. destruct (Nat.eqb i j); [discriminate|]. exists c'. auto.
Qed.

Lemma close_conn_c cid n j r : cres cid n (close_conn n j r).
Proof.
  split; [apply close_conn_kq|]. destruct (NodeB.close_conn_out n j r) as [-> | ->]; repeat constructor.
Qed.

Lemma close_all_c cid l r : forall n, cres cid n (close_all n l r).
Proof.
  induction l as [|k l IH]; intros n; cbn [close_all]; [apply cres_refl|].
  pose proof (close_conn_c cid n k r) as G1. destruct (close_conn n k r) as [n1 o1].
  pose proof (IH n1) as G2. destruct (close_all n1 l r) as [n2 o2]. eapply cres_app; eassumption.
Qed.

Lemma assign_peer_conn_kq cid n j : kq cid n (assign_peer_conn n j).
Proof.
  apply kq_same; [apply assign_peer_conn_conns| |];
    unfold assign_peer_conn; destruct (get_conn n j) as [c|]; try reflexivity;
    destruct (String.eqb (c_host c) _); try reflexivity;
    destruct (get_peer n (c_host c)); try reflexivity;
    destruct (mem_nat j (n_half_ready n)); reflexivity.
Qed.

(* a connection is flagged ready only if it was not quiet (it was CONNECTED) *)
Lemma flag_ready_kq cid n j :
  (j = cid -> forall c, get_conn n cid = Some c -> qs (c_state c) = false) -> kq cid n (flag_ready n j).
Proof.
  intros Hq. eapply kq_trans; [apply (kq_upd cid n j (fun c => set_cstate c SReady))|apply kq_same; reflexivity].
  - apply idp_cstate.
  - intros E c Hc Hqs. rewrite (Hq E c Hc) in Hqs. discriminate.
Qed.

(* ---- recv_cer / recv_cea ------------------------------------------------------------------- *)
Definition stc (j : nat) (x : node) : Prop := forall c, get_conn x j = Some c -> c_state c = SConnected.

Lemma stc_upd j x i f : idp f -> (forall c, c_state (f c) = c_state c) -> stc j x ->
  stc j (set_conns x (upd_conn (n_conns x) i f)).
Proof.
  intros Hf Hs H c Hc. rewrite (get_conn_upd x i j f Hf) in Hc. destruct (Nat.eqb j i); [|apply H, Hc].
  destruct (get_conn x j) as [c0|] eqn:E; [|discriminate]. injection Hc as <-. rewrite Hs. apply H. exact E.
Qed.

Lemma stc_close_all j x l r : stc j x -> stc j (fst (close_all x l r)).
Proof. intros H c Hc. rewrite mclose_all_get in Hc. destruct (mem_nat j l); [discriminate|apply H, Hc]. Qed.

Lemma stc_assign j x i : stc j x -> stc j (assign_peer_conn x i).
Proof. intros H c Hc. apply H. rewrite <- Hc. apply get_conn_ext. symmetry. apply assign_peer_conn_conns. Qed.

Lemma flag_ready_kq' cid x j : stc j x -> kq cid x (flag_ready x j).
Proof. intros H. apply flag_ready_kq. intros -> c Hc. rewrite (H c Hc). reflexivity. Qed.

Lemma kq_upd_keep cid n j f : idp f -> (forall c, c_state (f c) = c_state c) ->
  kq cid n (set_conns n (upd_conn (n_conns n) j f)).
Proof. intros Hf Hs. apply kq_upd; [exact Hf|]. intros _ c _ H. rewrite Hs. exact H. Qed.

Lemma kq_upd_to cid n j s : qs s = true -> kq cid n (set_conns n (upd_conn (n_conns n) j (fun c => set_cstate c s))).
Proof. intros Hs. apply kq_upd; [apply idp_cstate|]. intros _ c _ _. exact Hs. Qed.

Lemma recv_cer_c cid n j m : cres cid n (recv_cer n j m).
Proof.
  unfold recv_cer. destruct (get_conn n j) as [c0|] eqn:Hc0; [|apply cres_refl].
  destruct (cstate_eqb (c_state c0) SConnected) eqn:Es; cbn [negb]; [|apply cres_nil, kq_same; reflexivity].
  apply cstate_eqb_eq in Es.
  assert (St : stc j n) by (intros c Hc; congruence).
  destruct (pres_get (m_origin m)) as [host|]; [|apply cres_refl].
  destruct (get_peer n host) as [p|].
  - cbv zeta.
    match goal with |- context [close_all ?x _ _] => set (n0 := x) end.
    assert (K0 : kq cid n n0).
    { apply kq_upd_keep; [solve_idp|]. intros c. destruct (String.eqb (c_node_name c) _); reflexivity. }
    assert (St0 : stc j n0).
    { apply stc_upd; [solve_idp| |exact St]. intros c. destruct (String.eqb (c_node_name c) _); reflexivity. }
    assert (L : cres cid n (send_message (set_conns n0 (upd_conn (n_conns n0) j (fun c => set_cstate c SClosing))) j
                                 (answer_of m (Some RC_ELECTION_LOST) []))).
    { eapply cres_pre; [eapply kq_trans; [exact K0|apply (kq_upd_to cid n0 j SClosing); reflexivity]|].
      apply send_message_c, calmm_answer. }
    pose proof (close_all_c cid (election_rivals n0 j host) R_CLEAN n0) as G.
    pose proof (stc_close_all j n0 (election_rivals n0 j host) R_CLEAN St0) as St1.
    clearbody n0.
    destruct (close_all n0 (election_rivals n0 j host) R_CLEAN) as [n1 oel]. cbn [fst] in St1.
    assert (G' : cres cid n (n1, oel)) by (eapply cres_pre; eassumption).
    assert (A : cres cid n (let '(n2, o) := send_message n1 j (answer_of m (Some RC_NO_COMMON_APP) []) in (n2, (oel ++ o)%list))).
    { pose proof (send_message_c cid n1 j _ (calmm_answer m (Some RC_NO_COMMON_APP) [])) as G2.
      destruct (send_message n1 j (answer_of m (Some RC_NO_COMMON_APP) [])) as [n2 o]. eapply cres_app; eassumption. }
    match goal with |- context [flag_ready (assign_peer_conn ?x j) j] => set (n2 := x) end.
    assert (K3 : kq cid n1 (flag_ready (assign_peer_conn n2 j) j)).
    { assert (K2 : kq cid n1 n2) by (apply kq_upd_keep; [solve_idp|reflexivity]).
      assert (St2 : stc j n2) by (apply stc_upd; [solve_idp|reflexivity|exact St1]).
      eapply kq_trans; [exact K2|]. eapply kq_trans; [apply assign_peer_conn_kq|].
      apply flag_ready_kq', stc_assign, St2. }
    set (n3 := flag_ready (assign_peer_conn n2 j) j) in *. clearbody n3. clear n2.
    assert (B : cres cid n (let '(n4, o) := send_message n3 j (answer_of m (Some RC_SUCCESS) []) in (n4, (oel ++ o)%list))).
    { pose proof (send_message_c cid n3 j _ (calmm_answer m (Some RC_SUCCESS) [])) as G2.
      destruct (send_message n3 j (answer_of m (Some RC_SUCCESS) [])) as [n4 o].
      eapply cres_app; [exact G'|]. eapply cres_pre; eassumption. }
    destruct (election_rivals n0 j host) as [|k0 ks].
    + destruct (inter_z (node_auth n1) (m_auth m)); [|exact B].
      destruct (inter_z (node_acct n1) (m_acct m)); [|exact B].
      destruct (mem_z APP_RELAY (m_auth m) || mem_z APP_RELAY (m_acct m)); [exact B|exact A].
    + destruct (String.ltb host (g_host (n_cfg n0))); [|exact L].
      destruct (inter_z (node_auth n1) (m_auth m)); [|exact B].
      destruct (inter_z (node_acct n1) (m_acct m)); [|exact B].
      destruct (mem_z APP_RELAY (m_auth m) || mem_z APP_RELAY (m_acct m)); [exact B|exact A].
  - eapply cres_pre; [apply (kq_upd_to cid n j SClosing); reflexivity|]. apply send_message_c, calmm_answer.
Qed.

Lemma recv_cea_c cid n j m : cres cid n (recv_cea n j m).
Proof.
  unfold recv_cea.
  assert (B : cres cid n (close_conn n j R_CER_REJECTED)) by apply close_conn_c.
  destruct (get_conn n j) as [c0|] eqn:Hc0; [|apply cres_refl].
  destruct (cstate_eqb (c_state c0) SConnected) eqn:Es; cbn [negb]; [|apply cres_refl].
  apply cstate_eqb_eq in Es.
  assert (St : stc j n) by (intros c Hc; congruence).
  match goal with |- context [match pres_get (m_origin m) with Some h => @?f h | None => ?y end] =>
    assert (A : cres cid n (match pres_get (m_origin m) with Some h => f h | None => y end)) end.
  { destruct (pres_get (m_origin m)) as [host|]; [|apply cres_refl]. cbv beta.
    destruct (negb (String.eqb (c_node_name c0) String.EmptyString) && negb (String.eqb host (c_node_name c0))); [exact B|].
    apply cres_nil.
    match goal with |- context [assign_peer_conn ?x j] => set (n1 := x) end.
    assert (K1 : kq cid n n1) by (apply kq_upd_keep; [solve_idp|reflexivity]).
    assert (St1 : stc j n1) by (apply stc_upd; [solve_idp|reflexivity|exact St]).
    eapply kq_trans; [exact K1|]. eapply kq_trans; [apply assign_peer_conn_kq|].
    apply flag_ready_kq', stc_assign, St1. }
  cbv beta in A.
  destruct (m_result m) as [| |z]; try exact B.
  destruct z as [|p|p]; try exact B.
  do 11 (destruct p as [p|p|]; try exact B). exact A.
Qed.

Lemma recv_dwr_c cid n j m : cres cid n (recv_dwr n j m).
Proof. apply send_message_c, calmm_answer. Qed.

(* a DWA on another connection than cid *)
Lemma recv_dwa_c cid n j : j <> cid -> cres cid n (recv_dwa n j).
Proof. intros Hne. apply cres_nil. apply kq_upd; [solve_idp|]. intros E. contradiction. Qed.

Lemma recv_dpr_c cid n j m : cres cid n (recv_dpr n j m).
Proof.
  unfold recv_dpr. eapply cres_pre; [|apply send_message_c, calmm_answer].
  set (n1 := set_conns n (upd_conn (n_conns n) j (fun c => set_cstate c SDisconnecting))).
  assert (K1 : kq cid n n1) by (apply (kq_upd_to cid n j SDisconnecting); reflexivity). clearbody n1.
  destruct (get_conn n1 j) as [c|]; [|exact K1].
  destruct (find_conn_peer n1 c) as [p|]; [|exact K1].
  eapply kq_trans; [exact K1|apply kq_same; reflexivity].
Qed.

Lemma recv_dpa_c cid n j : cres cid n (recv_dpa n j).
Proof.
  unfold recv_dpa. set (n1 := set_conns n (upd_conn (n_conns n) j (fun c => set_cstate c SClosing))).
  assert (K1 : kq cid n n1) by (apply (kq_upd_to cid n j SClosing); reflexivity). clearbody n1.
  destruct (get_conn n1 j) as [c|]; [|apply cres_nil, K1].
  destruct (c_out c); [|apply cres_nil, K1].
  eapply cres_pre; [exact K1|]. apply close_conn_c.
Qed.

Lemma recv_app_request_c cid n j m : cres cid n (recv_app_request n j m).
Proof.
  unfold recv_app_request.
  destruct (get_conn n j) as [c|]; [|apply cres_refl].
  destruct (m_drealm m) as [| |realm]; try (apply send_message_c, calmm_answer).
  destruct (route_lookup n realm) as [entries|]; [|apply send_message_c, calmm_answer].
  destruct (List.find _ entries) as [[[i|] l]|]; try (apply send_message_c, calmm_answer).
  destruct (handler_raises m).
  - cbv zeta.
    match goal with |- context [send_message ?x j ?a] =>
      pose proof (send_message_c cid x j a (calmm_answer _ _ _)) as G; destruct (send_message x j a) as [n2 o] end.
    apply cres_cons; [exact I|]. eapply cres_pre; [|exact G]. apply kq_same; reflexivity.
  - split; [apply kq_same; reflexivity|]. constructor; [exact I|constructor].
Qed.

Lemma recv_app_answer_c cid n m : cres cid n (recv_app_answer n m).
Proof.
  unfold recv_app_answer.
  destruct (List.find _ (n_app_waiting n)) as [[[h e] i]|]; [|apply cres_refl].
  destruct (List.nth_error (n_apps n) i) as [a|]; [|apply cres_refl].
  destruct (mem_z (m_hbh m) (List.map fst (a_waiting a)));
    (split; [apply kq_same; reflexivity|]; constructor; [exact I|constructor]).
Qed.

(* ---- dispatch ------------------------------------------------------------------------------ *)
(* a Device-Watchdog-Answer *)
Definition isdwa (m : msg) : bool := cmd_eqb (m_cmd m) DW && negb (m_req m).

Lemma rm_n0_kq cid n j m : kq cid n (NodeB.rm_n0 n j m).
Proof.
  apply kq_same; [apply NodeB.rm_n0_conns| |];
    unfold NodeB.rm_n0, NodeB.rm_record; destruct (m_origin m), (m_req m); reflexivity.
Qed.

Lemma receive_message_c cid n j m : (j = cid -> isdwa m = false) -> cres cid n (receive_message n j m).
Proof.
  intros Hd. rewrite NodeB.receive_message_unfold. eapply cres_pre; [apply (rm_n0_kq cid n j m)|].
  set (n0 := NodeB.rm_n0 n j m). clearbody n0.
  destruct (if m_req m && g_validate (n_cfg n0) then m_missing m else []); [|apply send_message_c, calmm_answer].
  destruct (NodeB.rm_dup n0 m); [apply send_message_c, calmm_answer|].
  unfold NodeB.rm_handle, isdwa in *. destruct (m_req m), (m_cmd m); cbn [cmd_eqb negb andb] in Hd.
  - destruct (m_origin m); first [apply recv_cer_c|apply send_message_c, calmm_answer].
  - apply recv_dwr_c.
  - apply recv_dpr_c.
  - apply recv_app_request_c.
  - apply recv_cea_c.
  - apply recv_dwa_c. intros E. specialize (Hd E). discriminate.
  - apply recv_dpa_c.
  - apply recv_app_answer_c.
Qed.

Lemma dispatch_c cid n j m : (j = cid -> isdwa m = false) -> cres cid n (dispatch n j m).
Proof.
  intros Hd. unfold dispatch. destruct (get_conn n j) as [c|]; [|apply cres_refl].
  destruct (gate_passes c m); [apply receive_message_c, Hd|apply cres_refl].
Qed.

Lemma dispatch_all_c cid j ms : (j = cid -> List.existsb isdwa ms = false) ->
  forall n, cres cid n (dispatch_all n j ms).
Proof.
  induction ms as [|m r IH]; intros Hd n; cbn [dispatch_all]; [apply cres_refl|].
  assert (H1 : j = cid -> isdwa m = false).
  { intros E. specialize (Hd E). cbn [List.existsb] in Hd. apply Bool.orb_false_iff in Hd. apply Hd. }
  assert (H2 : j = cid -> List.existsb isdwa r = false).
  { intros E. specialize (Hd E). cbn [List.existsb] in Hd. apply Bool.orb_false_iff in Hd. apply Hd. }
  pose proof (dispatch_c cid n j m H1) as G1. destruct (dispatch n j m) as [n1 o1].
  pose proof (IH H2 n1) as G2. destruct (dispatch_all n1 j r) as [n2 o2]. eapply cres_app; eassumption.
Qed.

(* ---- flush ------------------------------------------------------------------------------------ *)
Lemma forall_calm_send j l : List.Forall calm (List.map (OSend j) l).
Proof. apply List.Forall_forall. intros x Hx. apply List.in_map_iff in Hx. destruct Hx as [m [<- _]]. exact I. Qed.

Lemma flush_conns_c cid l : forall n, cres cid n (flush_conns n l).
Proof.
  induction l as [|j r IH]; intros n; cbn [flush_conns]; [apply cres_refl|].
  match goal with |- context [let '(_, _) := ?X in _] => assert (G1 : cres cid n X) end.
  { destruct (get_conn n j) as [c|]; [|apply cres_refl].
    destruct (c_stalled c || negb (c_sock_open c)); [apply cres_refl|].
    assert (F : kq cid n (set_conns n (upd_conn (n_conns n) j (fun c0 => set_cout c0 [])))).
    { apply kq_upd_keep; [solve_idp|reflexivity]. }
    pose proof (forall_calm_send j (c_out c)) as HO.
    destruct (c_out c) as [|m0 ms] eqn:Eo; [apply cres_nil, F|].
    destruct (cstate_eqb (c_state c) SClosing).
    - pose proof (close_conn_c cid (set_conns n (upd_conn (n_conns n) j (fun c0 => set_cout c0 []))) j R_CLEAN) as G.
      destruct (close_conn _ j R_CLEAN) as [n'' oc].
      change (cres cid n (n'', ((List.map (OSend j) (m0 :: ms)) ++ oc)%list)).
      eapply cres_app; [|exact G]. split; [exact F|exact HO].
    - split; [exact F|exact HO]. }
  match goal with |- context [let '(_, _) := ?X in _] => destruct X as [n1 o1] end.
  pose proof (IH n1) as G2. destruct (flush_conns n1 r) as [n2 o2].
  eapply cres_app; eassumption.
Qed.

Lemma flush_c cid n : cres cid n (flush n).
Proof. apply flush_conns_c. Qed.

Lemma send_dpr_c cid n j : cres cid n (send_dpr n j).
Proof.
  destruct (send_dpr_spec n j) as [m [Ho [Hk [Hr [Hu Hf]]]]]. split.
  - eapply kq_cupd_frame; [exact Hu|exact Hf|]. intros _ c _ _. reflexivity.
  - rewrite Ho. constructor; [|constructor]. intros _. rewrite Hk. split; discriminate.
Qed.

(* ================================================================================== *)
(* 0b. the I/O thread: which DWR / CER / dial it may emit                               *)
(* ================================================================================== *)
(* a watchdog request queued on connection cid *)
Definition isdwr (cid : nat) (o : output) : Prop :=
  match o with OQueue j m => j = cid /\ o_req m = true /\ o_cmd m = DW | _ => False end.

(* a dial or CER needs a node that is not stopping; a DWR needs a node that is not stopping and, on connection
   cid, a connection that is not quiet; `lax` is the licence that waives the requirement (EStart and a successful
   EConnDone dial / send a CER whatever the stop flag is; with lax := True only kq is claimed) *)
Definition just (cid : nat) (lax lw : Prop) (n : node) (o : output) : Prop :=
  match o with
  | ODial _ => n_stopping n = false \/ lax
  | OQueue j m => o_req m = true ->
      (o_cmd m = DW -> (n_stopping n = false /\ (j = cid -> ~ W cid n)) \/ lw) /\
      (o_cmd m = CE -> n_stopping n = false \/ lax)
  | _ => True
  end.

Definition res (cid : nat) (lax lw : Prop) (n : node) (r : node * list output) : Prop :=
  kq cid n (fst r) /\ List.Forall (just cid lax lw n) (snd r) /\
  (conns_fresh n -> List.Exists (isdwr cid) (snd r) -> W cid (fst r) \/ lw).

Lemma calm_just cid lax lw n o : calm o -> just cid lax lw n o.
Proof.
  destruct o; cbn; auto; try contradiction. intros H Hr. destruct (H Hr) as [H1 H2]. split; intros E; contradiction.
Qed.
Lemma calm_not_dwr cid o : calm o -> ~ isdwr cid o.
Proof. destruct o; cbn; auto. intros H [_ [Hr Hk]]. destruct (H Hr) as [H1 _]. contradiction. Qed.
Lemma forall_calm_not_dwr cid l : List.Forall calm l -> ~ List.Exists (isdwr cid) l.
Proof.
  intros H E. apply List.Exists_exists in E. destruct E as [o [Hin Ho]].
  rewrite List.Forall_forall in H. exact (calm_not_dwr cid o (H o Hin) Ho).
Qed.

Lemma res_of_cres cid lax lw n r : cres cid n r -> res cid lax lw n r.
Proof.
  intros [H1 H2]. split; [exact H1|]. split.
  - eapply List.Forall_impl; [|exact H2]. intros o. apply calm_just.
  - intros _ E. exfalso. exact (forall_calm_not_dwr cid _ H2 E).
Qed.
Lemma res_refl cid lax lw n : res cid lax lw n (n, []).
Proof. apply res_of_cres, cres_refl. Qed.

Lemma just_pre cid lax lw n n1 o : kq cid n n1 -> just cid lax lw n1 o -> just cid lax lw n o.
Proof.
  intros K. pose proof K as [S _].
  assert (S' : n_stopping n1 = false -> n_stopping n = false).
  { intros H1. destruct (n_stopping n); [rewrite S in H1 by reflexivity; discriminate|reflexivity]. }
  destruct o; cbn; auto; [|intros [H|H]; auto].
  intros H Hr. destruct (H Hr) as [H1 H2]. split; [|intros Hk; destruct (H2 Hk); auto].
  intros Hk. destruct (H1 Hk) as [[H3 H4]|Hl]; [left|right; exact Hl].
  split; [auto|]. intros E Hw. apply (H4 E). eapply kq_W; eassumption.
Qed.

Lemma res_app cid lax lw n n1 o1 n2 o2 :
  res cid lax lw n (n1, o1) -> res cid lax lw n1 (n2, o2) -> res cid lax lw n (n2, (o1 ++ o2)%list).
Proof.
  intros [K1 [J1 D1]] [K2 [J2 D2]]. cbn [fst snd] in *.
  split; [eapply kq_trans; eassumption|]. split.
  - apply List.Forall_app. split; [exact J1|]. eapply List.Forall_impl; [|exact J2].
    intros o. apply just_pre, K1.
  - intros Hf E. apply List.Exists_app in E. destruct E as [E|E].
    + destruct (D1 Hf E) as [Hw|Hl]; [left|right; exact Hl]. eapply kq_W; eassumption.
    + apply D2; [eapply kq_fresh; eassumption|exact E].
Qed.

Lemma res_pre cid lax lw n n0 r : kq cid n n0 -> res cid lax lw n0 r -> res cid lax lw n r.
Proof.
  intros K R. destruct r as [n2 o2]. change o2 with ([] ++ o2)%list.
  eapply res_app; [apply res_of_cres, cres_nil, K|exact R].
Qed.
Lemma res_post cid lax lw n n1 o n2 : res cid lax lw n (n1, o) -> kq cid n1 n2 -> res cid lax lw n (n2, o).
Proof.
  intros R K. rewrite <- (List.app_nil_r o). eapply res_app; [exact R|apply res_of_cres, cres_nil, K].
Qed.
Lemma res_cons cid lax lw n n1 o1 x : just cid lax lw n x -> ~ isdwr cid x -> res cid lax lw n (n1, o1) -> res cid lax lw n (n1, x :: o1).
Proof.
  intros Hx Hd [K [J D]]. cbn [fst snd] in *. split; [exact K|]. split.
  - constructor; assumption.
  - intros Hf E. inversion E; subst; [contradiction|auto].
Qed.

(* a message handed over by an application: calm, or waived *)
Lemma send_message_r cid (lax lw : Prop) n j m : calmm m \/ (lax /\ lw) -> res cid lax lw n (send_message n j m).
Proof.
  intros [Hm|[Hl Hw]]; [apply res_of_cres, send_message_c, Hm|].
  split; [apply send_message_kq|]. rewrite send_message_out. split.
  - constructor; [|constructor]. intros _. split; intros _; right; assumption.
  - intros _ _. right. exact Hw.
Qed.

Lemma kq_add cid n n' c :
  n_conns n' = (n_conns n ++ [c])%list -> c_id c = n_next_cid n -> n_next_cid n' = S (n_next_cid n) ->
  n_stopping n' = n_stopping n -> kq cid n n'.
Proof.
  intros Hc Hid Hn Hs. split; [congruence|]. split; [lia|]. intros j c' H.
  unfold get_conn in H. rewrite Hc, find_app_conn in H. fold (get_conn n j) in H.
  destruct (get_conn n j) as [x|] eqn:Hx.
  - right. exists x. split; [reflexivity|]. inversion H; subst. auto.
  - left. destruct (Nat.eqb (c_id c) j) eqn:E; [|discriminate]. apply Nat.eqb_eq in E. lia.
Qed.

Lemma kq_fresh_upd cid n n3 i F :
  kq cid n n3 -> (n_next_cid n <= i < n_next_cid n3)%nat -> idp F ->
  kq cid n (set_conns n3 (upd_conn (n_conns n3) i F)).
Proof.
  intros [H1 [H2 H3]] Hi HF. split; [exact H1|]. split; [exact H2|]. intros j c' Hc'.
  destruct (Nat.eq_dec j i) as [->|Hne]; [left; exact Hi|].
  rewrite get_conn_upd_other in Hc' by assumption. apply H3, Hc'.
Qed.

Lemma send_cer_r cid lax lw n j : n_stopping n = false \/ lax -> res cid lax lw n (send_cer n j).
Proof.
  intros Hl. destruct (send_cer_spec n j) as [m [Ho [Hk [Hr [Hu Hf]]]]]. split; [|split].
  - eapply kq_cupd_frame; [exact Hu|exact Hf|]. intros _ c _ H. exact H.
  - rewrite Ho. constructor; [|constructor]. intros _. split; [rewrite Hk; discriminate|intros _; exact Hl].
  - rewrite Ho. intros _ E. inversion E as [? ? H|? ? H]; subst; [|inversion H].
    destruct H as [_ [_ H]]. congruence.
Qed.

Lemma qs_wdmark now c : qs (c_state c) = true -> qs (c_state (wdmark now c)) = true.
Proof. unfold wdmark. destruct (c_state c) eqn:E; cbn; rewrite ?E; auto. Qed.

Lemma send_dwr_r cid lax lw n j c :
  n_stopping n = false -> get_conn n j = Some c -> c_state c = SReady -> res cid lax lw n (send_dwr n j).
Proof.
  intros Hs Hc Hst. destruct (send_dwr_spec n j) as [m [Ho [Hk [Hr [Hu Hf]]]]].
  assert (K : kq cid n (fst (send_dwr n j))).
  { eapply kq_cupd_frame; [exact Hu|exact Hf|]. intros _ c0 _ H. apply qs_wdmark. exact H. }
  split; [exact K|]. split.
  - rewrite Ho. constructor; [|constructor]. intros _. split; [|rewrite Hk; discriminate].
    intros _. left. split; [exact Hs|]. intros -> [_ Hw]. specialize (Hw c Hc). rewrite Hst in Hw. discriminate.
  - rewrite Ho. intros Hfr E. inversion E as [? ? H|? ? H]; subst; [|inversion H]. destruct H as [-> _].
    left. split.
    + destruct K as [_ [N _]]. apply Hfr in Hc. lia.
    + intros c' Hc'. rewrite (Hu cid), Nat.eqb_refl, Hc in Hc'. injection Hc' as <-.
      unfold wdmark. cbn. rewrite Hst. reflexivity.
Qed.

Lemma check_timers_r cid lax lw n j : res cid lax lw n (check_timers n j).
Proof.
  unfold check_timers. destruct (n_stopping n) eqn:Hs; [apply res_refl|].
  destruct (get_conn n j) as [c|] eqn:Hc; [|apply res_refl].
  destruct (c_state c) eqn:Hst; try apply res_refl;
    match goal with |- context [if ?b then _ else _] => destruct b end;
    first [apply res_refl | apply res_of_cres, close_conn_c | eapply send_dwr_r; eassumption].
Qed.

Lemma timers_all_r cid lax lw l : forall n, res cid lax lw n (timers_all n l).
Proof.
  induction l as [|c r IH]; intros n; cbn [timers_all]; [apply res_refl|].
  pose proof (check_timers_r cid lax lw n c) as G1. destruct (check_timers n c) as [n1 o1].
  pose proof (IH n1) as G2. destruct (timers_all n1 r) as [n2 o2]. eapply res_app; eassumption.
Qed.

Lemma connect_to_peer_r cid lax lw n name h0 dr :
  n_stopping n = false \/ lax -> res cid lax lw n (connect_to_peer n name h0 dr).
Proof.
  intros Hl. unfold connect_to_peer. destruct (get_peer n name) as [p|]; [|apply res_refl].
  destruct (p_conn p); [apply res_refl|]. destruct (negb (p_has_addr p)); [apply res_refl|].
  set (k := n_next_cid n). set (c := new_conn k false SConnecting name (n_now n) h0).
  match goal with |- context [close_conn ?x k R_SOCKET_FAIL] => set (n3 := x) end.
  assert (H3 : kq cid n n3) by (apply (kq_add cid n n3 c); reflexivity).
  assert (S3 : n_stopping n3 = n_stopping n) by reflexivity.
  assert (Hd : forall x, just cid lax lw x (ODial name) -> just cid lax lw x (ODial name)) by auto.
  destruct dr.
  - assert (H4 : kq cid n (set_conns n3 (upd_conn (n_conns n3) k (fun c => set_cstate c SConnected))))
      by (apply kq_fresh_upd; [exact H3|cbn; unfold k; lia|solve_idp]).
    match goal with |- context [send_cer ?x k] =>
      assert (H5 : res cid lax lw x (send_cer x k)) by (apply send_cer_r; exact Hl);
      destruct (send_cer x k) as [n5 o] end.
    apply res_cons; [exact Hl|intros []|]. eapply res_pre; eassumption.
  - pose proof (close_conn_c cid n3 k R_SOCKET_FAIL) as H4.
    destruct (close_conn n3 k R_SOCKET_FAIL) as [n4 o].
    apply res_cons; [exact Hl|intros []|]. eapply res_pre; [exact H3|]. apply res_of_cres, H4.
  - apply res_cons; [exact Hl|intros []|]. apply res_of_cres, cres_nil, H3.
Qed.

Lemma reconnect_all_r cid lax lw names : forall n ds, res cid lax lw n (fst (reconnect_all n names ds)).
Proof.
  induction names as [|nm r IH]; intros n ds; cbn [reconnect_all]; [apply res_refl|].
  destruct (get_peer n nm) as [p|]; [|apply IH].
  destruct (wants_reconnect n p && p_has_addr p) eqn:Ew; [|apply IH].
  assert (Hs : n_stopping n = false \/ lax).
  { left. apply Bool.andb_true_iff in Ew. destruct Ew as [Ew _]. unfold wants_reconnect in Ew.
    destruct (n_stopping n); [discriminate|reflexivity]. }
  destruct ds as [|[h0 dr] dl].
  - pose proof (connect_to_peer_r cid lax lw n nm 0 DialOk Hs) as G1. destruct (connect_to_peer n nm 0 DialOk) as [n1 o1].
    pose proof (IH n1 []) as G2. destruct (reconnect_all n1 r []) as [[n2 o2] d2]. cbn [fst] in *.
    eapply res_app; eassumption.
  - pose proof (connect_to_peer_r cid lax lw n nm h0 dr Hs) as G1. destruct (connect_to_peer n nm h0 dr) as [n1 o1].
    pose proof (IH n1 dl) as G2. destruct (reconnect_all n1 r dl) as [[n2 o2] d2]. cbn [fst] in *.
    eapply res_app; eassumption.
Qed.

Lemma io_iteration_r cid lax lw n ds : res cid lax lw n (fst (io_iteration n ds)).
Proof.
  unfold io_iteration.
  pose proof (timers_all_r cid lax lw (List.map c_id (n_conns n)) n) as G1.
  destruct (timers_all n (List.map c_id (n_conns n))) as [n1 o1].
  pose proof (reconnect_all_r cid lax lw (List.map p_name (n_peers n1)) n1 ds) as G2.
  destruct (reconnect_all n1 (List.map p_name (n_peers n1)) ds) as [[n2 o2] ds']. cbn [fst] in *.
  eapply res_post; [eapply res_app; eassumption|]. apply kq_same; reflexivity.
Qed.

Lemma settle_r cid lax lw n ds : res cid lax lw n (fst (settle n ds)).
Proof.
  unfold settle. pose proof (flush_c cid n) as G1. destruct (flush n) as [n1 o1].
  pose proof (io_iteration_r cid lax lw n1 ds) as G2. destruct (io_iteration n1 ds) as [[n2 o2] ds']. cbn [fst] in *.
  pose proof (flush_c cid n2) as G3. destruct (flush n2) as [n3 o3]. cbn [fst].
  eapply res_app; [apply res_of_cres, G1|]. eapply res_app; [exact G2|apply res_of_cres, G3].
Qed.

Lemma settle'_r cid lax lw n ds : res cid lax lw n (settle' n ds).
Proof. unfold settle'. pose proof (settle_r cid lax lw n ds) as G. destruct (settle n ds) as [[n1 o1] d]. exact G. Qed.

Lemma then_settle_r cid lax lw n n1 o1 ds :
  res cid lax lw n (n1, o1) -> res cid lax lw n (let '(n2, o2) := settle' n1 ds in (n2, (o1 ++ o2)%list)).
Proof.
  intros G. pose proof (settle'_r cid lax lw n1 ds) as G2. destruct (settle' n1 ds) as [n2 o2].
  eapply res_app; eassumption.
Qed.

Lemma settle_app_r cid lax lw n ds : res cid lax lw n (fst (settle_app n ds)).
Proof.
  unfold settle_app.
  pose proof (io_iteration_r cid lax lw n ds) as G2. destruct (io_iteration n ds) as [[n2 o2] ds']. cbn [fst] in *.
  pose proof (flush_c cid n2) as G3. destruct (flush n2) as [n3 o3]. cbn [fst].
  eapply res_app; [exact G2|apply res_of_cres, G3].
Qed.

Lemma settle_app'_r cid lax lw n ds : res cid lax lw n (settle_app' n ds).
Proof. unfold settle_app'. pose proof (settle_app_r cid lax lw n ds) as G. destruct (settle_app n ds) as [[n1 o1] d]. exact G. Qed.

Lemma then_settle_app_r cid lax lw n n1 o1 ds :
  res cid lax lw n (n1, o1) -> res cid lax lw n (let '(n2, o2) := settle_app' n1 ds in (n2, (o1 ++ o2)%list)).
Proof.
  intros G. pose proof (settle_app'_r cid lax lw n1 ds) as G2. destruct (settle_app' n1 ds) as [n2 o2].
  eapply res_app; eassumption.
Qed.

Lemma wake_r cid lax lw target fuel :
  forall n ds acc n0, res cid lax lw n0 (n, acc) -> res cid lax lw n0 (wake target fuel n ds acc).
Proof.
  induction fuel as [|f IH]; intros n ds acc n0 R.
  - rewrite wake_O. eapply res_post; [exact R|apply kq_same; reflexivity].
  - rewrite wake_S. destruct (n_io_deadline n <=? target).
    + set (n1 := set_time n (n_io_deadline n) (n_io_deadline n)).
      pose proof (settle_r cid lax lw n1 ds) as G. destruct (settle n1 ds) as [[n2 o2] ds2]. cbn [fst] in G.
      apply IH. eapply res_app; [exact R|]. eapply res_pre; [|exact G]. apply kq_same; reflexivity.
    + eapply res_post; [exact R|apply kq_same; reflexivity].
Qed.

Lemma dpr_all_r cid lax lw l :
  forall n acc n0, res cid lax lw n0 (n, acc) -> res cid lax lw n0 (dpr_all l n acc).
Proof.
  induction l as [|c r IH]; intros n acc n0 R; cbn [dpr_all]; [exact R|].
  destruct (get_conn n c) as [cn|]; [|apply IH, R].
  destruct (is_ready_state (c_state cn)); [|apply IH, R].
  pose proof (send_dpr_c cid n c) as G. destruct (send_dpr n c) as [n1 o1].
  apply IH. eapply res_app; [exact R|apply res_of_cres, G].
Qed.

Lemma shutdown_all_r cid lax lw l :
  forall n acc n0, res cid lax lw n0 (n, acc) -> res cid lax lw n0 (shutdown_all l n acc).
Proof.
  induction l as [|c r IH]; intros n acc n0 R; cbn [shutdown_all]; [exact R|].
  pose proof (close_conn_c cid n c R_SHUTDOWN) as G. destruct (close_conn n c R_SHUTDOWN) as [n1 o1].
  apply IH. eapply res_app; [exact R|apply res_of_cres, G].
Qed.

Lemma start_all_r cid (lax lw : Prop) names : lax ->
  forall n ds acc n0, res cid lax lw n0 (n, acc) -> res cid lax lw n0 (fst (start_all names n ds acc)).
Proof.
  intros Hl. induction names as [|nm r IH]; intros n ds acc n0 R; cbn [start_all]; [exact R|].
  destruct (get_peer n nm) as [p|]; [|apply IH, R].
  destruct (p_persistent p); [|apply IH, R].
  destruct ds as [|[h0 dr] dl].
  - pose proof (connect_to_peer_r cid lax lw n nm 0 DialOk (or_intror Hl)) as G.
    destruct (connect_to_peer n nm 0 DialOk) as [n1 o1]. apply IH. eapply res_app; eassumption.
  - pose proof (connect_to_peer_r cid lax lw n nm h0 dr (or_intror Hl)) as G.
    destruct (connect_to_peer n nm h0 dr) as [n1 o1]. apply IH. eapply res_app; eassumption.
Qed.

(* ---- step --------------------------------------------------------------------------------------- *)
Lemma kq_grow cid n n' :
  n_conns n' = n_conns n -> (n_stopping n = true -> n_stopping n' = true) -> (n_next_cid n <= n_next_cid n')%nat ->
  kq cid n n'.
Proof.
  intros C S N. split; [exact S|]. split; [exact N|]. intros j c' Hc'. right. exists c'.
  rewrite <- (get_conn_ext n' n j C). auto.
Qed.

Lemma route_answer_kq cid n m : kq cid n (snd (route_answer n m)).
Proof.
  unfold route_answer.
  match goal with |- context [List.find ?f ?l] => destruct (List.find f l) as [[host ?]|] end; [|apply kq_refl].
  match goal with |- context [List.find ?f ?l] => destruct (List.find f l) as [c|] end;
    [destruct (is_ready_state (c_state c))|]; cbn [snd]; apply kq_same; reflexivity.
Qed.

(* what the event must satisfy: EStart and a successful EConnDone dial / send a CER whatever the stop flag is
   (licence lax); the messages handed over by applications are theirs; a read on cid holds no DWA *)
Definition ev_ok (cid : nat) (lax lw : Prop) (e : event) : Prop :=
  match e with
  | EStart => lax
  | EConnDone _ ok => ok = true -> lax
  | EAppAnswer _ m => calmm m \/ (lax /\ lw)
  | EAppRequest _ m _ _ _ => (o_cmd m <> DW /\ o_cmd m <> CE) \/ (lax /\ lw)
  | ERecv j ms => j = cid -> List.existsb isdwa ms = false
  | _ => True
  end.

Lemma step_r_accept cid lax lw n ds h : res cid lax lw n (step n ds (EAccept h)).
Proof.
  cbn [step]. destruct (n_stopping n) eqn:Hs.
  - apply res_of_cres. split; [apply kq_grow; cbn; auto|]. constructor; [exact I|constructor].
  - match goal with |- context [settle' ?x ds] => set (n2 := x) end.
    eapply res_pre; [|apply settle'_r].
    apply (kq_add cid n n2 (new_conn (n_next_cid n) true SConnected String.EmptyString (n_now n) h));
      try reflexivity. cbn. symmetry. exact Hs.
Qed.

Lemma step_r_recv cid lax lw n ds j ms :
  (j = cid -> List.existsb isdwa ms = false) -> res cid lax lw n (step n ds (ERecv j ms)).
Proof.
  intros Hd. cbn [step]. destruct (get_conn n j); [|apply res_refl].
  pose proof (io_iteration_r cid lax lw n ds) as G1. destruct (io_iteration n ds) as [[n1 o1] ds1]. cbn [fst] in G1.
  pose proof (dispatch_all_c cid j ms Hd (upd_last_read n1 j)) as D.
  destruct (dispatch_all (upd_last_read n1 j) j ms) as [n3 o3].
  pose proof (settle'_r cid lax lw n3 ds1) as G4. destruct (settle' n3 ds1) as [n4 o4].
  eapply res_app; [exact G1|]. eapply res_app; [|exact G4].
  eapply res_pre; [|apply res_of_cres, D]. apply kq_upd_keep; [solve_idp|reflexivity].
Qed.

Lemma step_r_conn_done cid (lax lw : Prop) n ds j ok : (ok = true -> lax) -> res cid lax lw n (step n ds (EConnDone j ok)).
Proof.
  intros Hl. cbn [step]. destruct (get_conn n j) as [c|] eqn:Hc; [|apply res_refl].
  destruct (cstate_eqb (c_state c) SConnecting) eqn:Es; [|apply res_refl]. apply cstate_eqb_eq in Es.
  destruct ok.
  - cbv zeta. match goal with |- context [send_cer ?x j] => set (n2 := x) end.
    assert (K2 : kq cid n n2).
    { eapply kq_trans; [apply (kq_upd cid n j (fun c => set_cstate c SConnected)); [solve_idp|]|].
      - intros -> c0 Hc0 Hq. rewrite Hc in Hc0. injection Hc0 as <-. rewrite Es in Hq. discriminate.
      - unfold n2. match goal with |- context [find_conn_peer ?a ?b] => destruct (find_conn_peer a b) as [p|] end;
          [apply kq_same; reflexivity|apply kq_refl]. }
    clearbody n2.
    pose proof (send_cer_r cid lax lw n2 j (or_intror (Hl eq_refl))) as G3. destruct (send_cer n2 j) as [n3 o3].
    pose proof (io_iteration_r cid lax lw n3 ds) as G4. destruct (io_iteration n3 ds) as [[n4 o4] ds4]. cbn [fst] in G4.
    pose proof (settle'_r cid lax lw n4 ds4) as G5. destruct (settle' n4 ds4) as [n5 o5].
    eapply res_pre; [exact K2|]. eapply res_app; [exact G3|]. eapply res_app; eassumption.
  - pose proof (close_conn_c cid n j R_FAILED_CONNECT) as G.
    destruct (close_conn n j R_FAILED_CONNECT) as [n1 o1]. apply then_settle_r, res_of_cres, G.
Qed.

Lemma step_r_app_request cid (lax lw : Prop) n ds i m realm pick tmo :
  (o_cmd m <> DW /\ o_cmd m <> CE) \/ (lax /\ lw) -> res cid lax lw n (step n ds (EAppRequest i m realm pick tmo)).
Proof.
  intros Hok. cbn [step].
  match goal with |- context [let '(n0, e2e) := ?r in _] => set (r0 := r) end.
  assert (H0 : kq cid n (fst r0)) by (unfold r0; destruct (o_e2e m =? 0); [apply kq_same; reflexivity|apply kq_refl]).
  destruct r0 as [n0 e2e]. cbn [fst] in H0.
  assert (NR : res cid lax lw n (n0, [ONotRoutable])).
  { apply res_of_cres. split; [exact H0|constructor; [exact I|constructor]]. }
  destruct (route_request n0 i realm) as [[|p0 us]|]; try exact NR.
  match goal with |- context [match ?ch with Some _ => _ | None => (n0, [ONotRoutable]) end] => destruct ch as [p|] end;
    [|exact NR].
  destruct (p_conn p) as [k|]; [|exact NR].
  destruct (get_conn n0 k) as [c|]; [|exact NR].
  match goal with |- context [let '(n1, hbh) := ?r in _] => set (r1 := r) end.
  assert (H1 : kq cid n0 (fst r1)).
  { unfold r1. destruct (o_hbh m =? 0); [|apply kq_refl]. cbn [fst]. apply kq_upd_keep; [solve_idp|reflexivity]. }
  destruct r1 as [n1 hbh]. cbn [fst] in H1.
  match goal with |- context [send_message ?x k ?mm] => set (n3 := x); set (m' := mm) end.
  assert (H3 : kq cid n1 n3) by (apply kq_same; reflexivity).
  assert (Hm' : calmm m' \/ (lax /\ lw)) by (destruct Hok as [Hok|Hl]; [left; intros _; exact Hok|right; exact Hl]).
  clearbody n3 m'.
  pose proof (send_message_r cid lax lw n3 k m' Hm') as H4. destruct (send_message n3 k m') as [n4 o4].
  apply then_settle_app_r.
  eapply res_pre; [exact H0|]. eapply res_pre; [exact H1|]. eapply res_pre; eassumption.
Qed.

(* every step keeps kq, justifies each dial / CER / DWR, and leaves cid quiet after a DWR on it *)
Lemma step_r cid (lax lw : Prop) n ds e : ev_ok cid lax lw e -> res cid lax lw n (step n ds e).
Proof.
  intros Hok.
  destruct e as [hbh0|j ms|j|j hard|j ok|j b|dt|i m|i m realm pick timeout|force|tclose tend|]; cbn [ev_ok] in Hok.
  - apply step_r_accept.
  - apply step_r_recv, Hok.
  - (* EPeerClose *)
    cbn [step]. pose proof (close_conn_c cid n j R_GONE) as G. destruct (close_conn n j R_GONE) as [n1 o1].
    apply then_settle_r, res_of_cres, G.
  - (* EReadErr *)
    cbn [step].
    assert (G : cres cid n (if hard then close_conn n j R_SOCKET_FAIL else (n, []))).
    { destruct hard; [apply close_conn_c|apply cres_refl]. }
    destruct (if hard then close_conn n j R_SOCKET_FAIL else (n, [])) as [n1 o1].
    apply then_settle_r, res_of_cres, G.
  - apply step_r_conn_done, Hok.
  - (* EStall *)
    cbn [step]. destruct (get_conn n j) as [c|]; [|apply res_refl].
    cbv zeta.
    assert (K : kq cid n (set_conns n (upd_conn (n_conns n) j (fun c0 => set_csock c0 (c_sock_open c0) b (c_workers c0)))))
      by (apply kq_upd_keep; [solve_idp|reflexivity]).
    destruct b; [apply res_of_cres, cres_nil, K|]. destruct (c_out c); [apply res_of_cres, cres_nil, K|].
    eapply res_pre; [exact K|apply settle'_r].
  - (* ETick *)
    rewrite step_tick. apply wake_r, res_refl.
  - (* EAppAnswer *)
    cbn [step]. pose proof (route_answer_kq cid n m) as F. destruct (route_answer n m) as [[k|] n1]; cbn [snd] in F.
    + pose proof (send_message_r cid lax lw n1 k m Hok) as G. destruct (send_message n1 k m) as [n2 o2].
      apply then_settle_app_r. eapply res_pre; eassumption.
    + apply res_of_cres. split; [exact F|constructor; [exact I|constructor]].
  - apply step_r_app_request, Hok.
  - (* EStop *)
    rewrite step_stop. cbv zeta. set (n0 := set_misc n true (n_next_cid n) (n_e2e n)).
    assert (K0 : kq cid n n0) by (apply kq_grow; cbn; auto).
    destruct force; [apply res_of_cres, cres_nil, K0|].
    pose proof (dpr_all_r cid lax lw (List.map c_id (n_conns n0)) n0 [] n0 (res_refl cid lax lw n0)) as G.
    destruct (dpr_all (List.map c_id (n_conns n0)) n0 []) as [n1 o1].
    eapply res_pre; [exact K0|]. apply then_settle_r, G.
  - (* EStopFinish *)
    rewrite step_stop_finish. cbv zeta. set (n0 := set_time n tclose (n_io_deadline n)).
    pose proof (shutdown_all_r cid lax lw (List.map c_id (n_conns n0)) n0 [] n0 (res_refl cid lax lw n0)) as G.
    destruct (shutdown_all (List.map c_id (n_conns n0)) n0 []) as [n1 o1].
    eapply res_pre; [apply (kq_same cid n n0); reflexivity|].
    eapply res_post; [exact G|apply kq_same; reflexivity].
  - (* EStart *)
    rewrite step_start.
    pose proof (start_all_r cid lax lw (List.map p_name (n_peers n)) Hok n ds [] n (res_refl cid lax lw n)) as G.
    destruct (start_all (List.map p_name (n_peers n)) n ds []) as [[n1 o1] ds1]. cbn [fst] in G.
    apply then_settle_r, G.
Qed.

(* ================================================================================== *)
(* histories: splitting a history at one of its points; invariants along a history     *)
(* ================================================================================== *)
Lemma strace_split n0 evs pre x post :
  strace n0 evs = (pre ++ x :: post)%list ->
  exists evs1 ds evs2,
    evs = (evs1 ++ (ds, fst (snd x)) :: evs2)%list /\ fst x = fst (run n0 evs1) /\
    snd (snd x) = snd (step (fst x) ds (fst (snd x))) /\
    pre = strace n0 evs1 /\ post = strace (fst (step (fst x) ds (fst (snd x)))) evs2.
Proof.
  revert n0 evs. induction pre as [|y pre IH]; intros n0 evs H.
  - destruct evs as [|[ds e] r]; [discriminate|]. rewrite NodeF.strace_cons in H. cbn [List.app fst snd] in H.
    injection H as <- <-. exists [], ds, r. cbn [fst snd List.app]. repeat split.
  - destruct evs as [|de r]; [discriminate|]. rewrite NodeF.strace_cons in H. cbn [List.app] in H.
    injection H as <- H. destruct (IH _ _ H) as (evs1 & ds & evs2 & -> & E1 & E2 & -> & ->).
    exists (de :: evs1), ds, evs2. rewrite NodeD.run_cons, NodeF.strace_cons. cbn [List.app]. repeat split; assumption.
Qed.

Lemma strace_inv (P : node -> Prop) :
  (forall n ds e, P n -> P (fst (step n ds e))) ->
  forall evs n, P n -> (forall x, List.In x (strace n evs) -> P (fst x)) /\ P (fst (run n evs)).
Proof.
  intros HP. induction evs as [|de r IH]; intros n Hn.
  - split; [intros x []|exact Hn].
  - rewrite NodeF.strace_cons, NodeD.run_cons. destruct (IH _ (HP n (fst de) (snd de) Hn)) as [H1 H2].
    split; [|exact H2]. intros x [<-|Hx]; [exact Hn|apply H1, Hx].
Qed.

(* ================================================================================== *)
(* A. C18: stopping is forever                                                         *)
(* ================================================================================== *)
Definition other_cid (e : event) : nat := match e with ERecv j _ => S j | _ => O end.

Lemma ev_ok_waived e : ev_ok (other_cid e) True True e.
Proof. destruct e; cbn; auto. intros E. exfalso. lia. Qed.

(* C18: every step keeps the stop flag once it is set *)
Theorem C18_step_keeps_stopping n ds e : n_stopping n = true -> n_stopping (fst (step n ds e)) = true.
Proof. intros Hs. destruct (step_r (other_cid e) True True n ds e (ev_ok_waived e)) as [[S _] _]. auto. Qed.

(* C18: Node.stop() sets the stop flag *)
Theorem C18_stop_sets_flag n ds f : n_stopping (fst (step n ds (EStop f))) = true.
Proof.
  rewrite step_stop. cbv zeta. set (n0 := set_misc n true (n_next_cid n) (n_e2e n)).
  destruct f; [reflexivity|].
  pose proof (dpr_all_r O True True (List.map c_id (n_conns n0)) n0 [] n0 (res_refl O True True n0)) as [[S1 _] _].
  destruct (dpr_all (List.map c_id (n_conns n0)) n0 []) as [n1 o1]. cbn [fst] in S1.
  pose proof (settle'_r O True True n1 ds) as [[S2 _] _]. destruct (settle' n1 ds) as [n2 o2]. cbn [fst] in *.
  apply S2, S1. reflexivity.
Qed.

(* C18: once stop() has been called, the stop flag is set in every later state of the run *)
Theorem C18_history_stopping_is_forever n0 evs pre n1 f outs post :
  strace n0 evs = (pre ++ (n1, (EStop f, outs)) :: post)%list ->
  (forall nk e o, List.In (nk, (e, o)) post -> n_stopping nk = true) /\
  n_stopping (fst (run n0 evs)) = true.
Proof.
  intros H. destruct (strace_split _ _ _ _ _ H) as (evs1 & ds & evs2 & -> & E1 & _ & _ & ->).
  cbn [fst snd] in *.
  destruct (strace_inv (fun n => n_stopping n = true) C18_step_keeps_stopping evs2 _
              (C18_stop_sets_flag n1 ds f)) as [H1 H2].
  split.
  - intros nk e o Hin. apply (H1 _ Hin).
  - rewrite NodeF.run_app, NodeD.run_cons. cbn [fst snd]. rewrite <- E1. exact H2.
Qed.

(* ================================================================================== *)
(* B. C18: quiet while stopping                                                        *)
(* ================================================================================== *)
(* events that may still dial or send a CER while the node is stopping (see C18_*_refuted in Examples), and
   the messages of applications: an answer is an answer, a request is not a base-protocol DWR / CER *)
Definition benign (e : event) : Prop :=
  match e with
  | EStart => False
  | EConnDone _ ok => ok = false
  | EAppAnswer _ m => o_req m = false
  | EAppRequest _ m _ _ _ => o_cmd m <> DW /\ o_cmd m <> CE
  | _ => True
  end.

Lemma benign_ev_ok e : benign e -> ev_ok (other_cid e) False False e.
Proof.
  destruct e; cbn; auto.
  - intros _ E. exfalso. lia.
  - intros -> E. discriminate.
  - intros H. left. intros Hr. congruence.
Qed.

Lemma just_stopping_calm cid n o : n_stopping n = true -> just cid False False n o -> calm o.
Proof.
  intros Hs. destruct o; cbn; auto.
  - intros H Hr. destruct (H Hr) as [H1 H2]. split; intros E.
    + destruct (H1 E) as [[H3 _]|[]]. congruence.
    + destruct (H2 E) as [H3|[]]. congruence.
  - intros [H|[]]. congruence.
Qed.

(* C18: a step of a stopping node dials nobody and queues no DWR and no CER *)
Theorem C18_step_quiet n ds e :
  n_stopping n = true -> benign e -> List.Forall calm (snd (step n ds e)).
Proof.
  intros Hs Hb. destruct (step_r (other_cid e) False False n ds e (benign_ev_ok e Hb)) as [_ [J _]].
  eapply List.Forall_impl; [|exact J]. intros o. apply just_stopping_calm, Hs.
Qed.

(* C18: the step of stop() itself queues DPRs but dials nobody and queues no DWR and no CER *)
Theorem C18_stop_step_quiet n ds f : List.Forall calm (snd (step n ds (EStop f))).
Proof.
  rewrite step_stop. cbv zeta. set (n0 := set_misc n true (n_next_cid n) (n_e2e n)).
  destruct f; [constructor|].
  pose proof (dpr_all_r O False False (List.map c_id (n_conns n0)) n0 [] n0 (res_refl O False False n0)) as G.
  destruct (dpr_all (List.map c_id (n_conns n0)) n0 []) as [n1 o1].
  pose proof (then_settle_r O False False n0 n1 o1 ds G) as [_ [J _]].
  destruct (settle' n1 ds) as [n2 o2]. cbn [snd] in *.
  eapply List.Forall_impl; [|exact J]. intros o. apply just_stopping_calm. reflexivity.
Qed.

(* the points of a history after a point *)
Lemma strace_after n0 evs pre x post nk e o :
  strace n0 evs = (pre ++ x :: post)%list -> List.In (nk, (e, o)) post ->
  exists ds n2 evs2 evs3, n2 = fst (step (fst x) ds (fst (snd x))) /\
    nk = fst (run n2 evs2) /\ (exists dk, o = snd (step nk dk e)) /\ post = strace n2 (evs2 ++ evs3)%list.
Proof.
  intros H Hin. destruct (strace_split _ _ _ _ _ H) as (evs1 & ds & evs2 & -> & E1 & _ & _ & Hp).
  rewrite Hp in Hin. destruct (NodeF.strace_In _ _ _ _ _ Hin) as (ea & dk & eb & -> & -> & ->).
  exists ds, (fst (step (fst x) ds (fst (snd x)))), ea, ((dk, e) :: eb). repeat split; try assumption.
  exists dk. reflexivity.
Qed.

(* C18: after stop() has been called, no later (benign) event of the history dials a peer or queues a DWR or a
   CER: answers (DWA, DPA, 5012, ...), DPRs and application requests are all that is still queued *)
Theorem C18_history_quiet n0 evs pre n1 f outs post :
  strace n0 evs = (pre ++ (n1, (EStop f, outs)) :: post)%list ->
  List.Forall calm outs /\
  forall nk e o, List.In (nk, (e, o)) post -> benign e ->
    (forall p, ~ List.In (ODial p) o) /\
    (forall cid m, List.In (OQueue cid m) o -> o_req m = true -> o_cmd m <> DW /\ o_cmd m <> CE).
Proof.
  intros H. split.
  - destruct (strace_split _ _ _ _ _ H) as (_ & ds & _ & _ & _ & E & _). cbn [fst snd] in E. rewrite E.
    apply C18_stop_step_quiet.
  - intros nk e o Hin Hb.
    destruct (C18_history_stopping_is_forever _ _ _ _ _ _ _ H) as [Hst _]. specialize (Hst _ _ _ Hin).
    destruct (strace_after _ _ _ _ _ _ _ _ H Hin) as (_ & _ & _ & _ & _ & _ & [dk ->] & _).
    pose proof (C18_step_quiet nk dk e Hst Hb) as HC. rewrite List.Forall_forall in HC. split.
    + intros p Hp. exact (HC _ Hp).
    + intros cid m Hq. exact (HC _ Hq).
Qed.

(* C18: every connection attempt after stop() is closed at once (NODE_SHUTDOWN) and registers nothing *)
Theorem C18_history_newcomers_refused n0 evs pre n1 f outs post nk h o :
  strace n0 evs = (pre ++ (n1, (EStop f, outs)) :: post)%list ->
  List.In (nk, (EAccept h, o)) post ->
  o = [OClose (n_next_cid nk) R_SHUTDOWN] /\ forall ds, n_conns (fst (step nk ds (EAccept h))) = n_conns nk.
Proof.
  intros H Hin.
  destruct (C18_history_stopping_is_forever _ _ _ _ _ _ _ H) as [Hst _]. specialize (Hst _ _ _ Hin).
  destruct (strace_after _ _ _ _ _ _ _ _ H Hin) as (_ & _ & _ & _ & _ & _ & [dk ->] & _).
  split; [apply (C18_newcomers_refused nk dk h Hst)|]. intros ds. apply (C18_newcomers_refused nk ds h Hst).
Qed.

(* ================================================================================== *)
(* C. C06: the gate, along a history                                                   *)
(* ================================================================================== *)
Notation read_state := NodeD.read_state.

(* the states in which the gate drops application traffic *)
Definition gated (s : cstate) : bool := match s with SConnected | SClosing | SClosed => true | _ => false end.

(* a delivery comes from the dispatch of that very message, on a connection whose gate is open *)
Lemma dispatch_deliver n cid m i m' :
  List.In (ODeliver i m') (snd (dispatch n cid m)) ->
  m' = m /\ exists c, get_conn n cid = Some c /\ gated (c_state c) = false.
Proof.
  intros Hin. split.
  - pose proof (NodeB.dispatch_shape n cid m) as Hs.
    inversion Hs as [pre code f Hreq Hpq Hpd Ho | j k Hreq Hk Hh Ho | j k Hreq Hk Hh Ho | outs' Hnq Hnd Ho];
      [rewrite <- Ho in Hin|rewrite <- Ho in Hin|rewrite <- Ho in Hin|].
    + apply List.in_app_or in Hin. destruct Hin as [Hd|[Hd|[]]]; [|discriminate Hd].
      exfalso. exact (NodeB.nd_not_in _ Hpd _ _ Hd).
    + destruct Hin as [E|[]]. congruence.
    + destruct Hin as [E|[E|[]]]; [congruence|discriminate E].
    + exfalso. exact (NodeB.nd_not_in _ Hnd _ _ Hin).
  - unfold dispatch in Hin. destruct (get_conn n cid) as [c|] eqn:Hc; [|destruct Hin].
    exists c. split; [reflexivity|]. destruct (gate_passes c m) eqn:Hg; [|destruct Hin].
    unfold gate_passes in Hg. destruct (c_state c) eqn:Hs; try reflexivity; try discriminate Hg.
    exfalso. apply Bool.andb_true_iff in Hg. destruct Hg as [Hk Hr].
    assert (Hce : m_cmd m = CE) by (destruct (m_cmd m); try discriminate Hk; reflexivity).
    refine (NodeB.C08_base_never_delivered n cid m (or_introl Hce) i m' _).
    unfold dispatch. rewrite Hc. unfold gate_passes. rewrite Hs, Hk, Hr. exact Hin.
Qed.

Lemma dispatch_all_deliver ms : forall n cid i m,
  List.In (ODeliver i m) (snd (dispatch_all n cid ms)) ->
  exists ms1 ms2, ms = (ms1 ++ m :: ms2)%list /\
    List.In (ODeliver i m) (snd (dispatch (fst (dispatch_all n cid ms1)) cid m)).
Proof.
  induction ms as [|m0 r IH]; intros n cid i m Hin; [destruct Hin|].
  rewrite NodeG.dispatch_all_cons in Hin. cbn [snd] in Hin. apply List.in_app_or in Hin.
  destruct Hin as [Hin|Hin].
  - destruct (dispatch_deliver _ _ _ _ _ Hin) as [-> _]. exists [], r. split; [reflexivity|exact Hin].
  - destruct (IH _ _ _ _ Hin) as (ms1 & ms2 & -> & H). exists (m0 :: ms1), ms2. split; [reflexivity|].
    rewrite NodeG.dispatch_all_cons. cbn [fst]. exact H.
Qed.

(* events other than a network read hand nothing to an application (the proof of NodeC.step_other_g, with an
   output predicate that also excludes deliveries) *)
Module NoDeliver.
Import NodeC.
Definition nodel (pm : list (String.string * bool)) (o : output) : Prop :=
  match o with ODeliver _ _ => False | ODial nm => pers_in pm nm = true | _ => True end.

Lemma step_other_nd n ds e :
  (forall cid ms, e <> ERecv cid ms) -> gres (nodel (pmap n)) n (step n ds e).
Proof.
  intros Hne. set (pm := pmap n). set (P := nodel pm).
  assert (HP : sysP P) by (split; [intros ? ? _; exact I|split; intros; exact I]).
  assert (HD : dialP pm P) by (intros nm H; exact H).
  assert (Hpm : pmap n = pm) by reflexivity. clearbody pm.
  pose proof HP as [HQ [HC HS]].
  destruct e as [hbh0|cid ms|cid|cid hard|cid ok|cid b|dt|i m|i m realm pick timeout|force|tclose tend|].
  - (* EAccept *)
    cbn [step]. destruct (n_stopping n).
    + split; [|constructor; [exact I|constructor]]. apply frame_next; try reflexivity. left. reflexivity.
    + cbv zeta. match goal with |- context [settle' ?x ds] => set (n2 := x) end.
      assert (F : frame n n2).
      { apply frame_next; try reflexivity. right. eexists. split; reflexivity. }
      eapply gres_pre; [exact F|]. apply (settle'_g P pm); auto.
  - exfalso. eapply Hne. reflexivity.
  - (* EPeerClose *)
    cbn [step]. pose proof (close_conn_g P n cid R_GONE (HC _ _)) as G. destruct (close_conn n cid R_GONE) as [n1 o1].
    apply (then_settle P pm); auto.
  - (* EReadErr *)
    cbn [step].
    assert (G : gres P n (if hard then close_conn n cid R_SOCKET_FAIL else (n, []))).
    { destruct hard; [apply close_conn_g, HC|apply gres_refl]. }
    destruct (if hard then close_conn n cid R_SOCKET_FAIL else (n, [])) as [n1 o1].
    apply (then_settle P pm); auto.
  - (* EConnDone *)
    cbn [step]. destruct (get_conn n cid) as [c|]; [|apply gres_refl].
    destruct (cstate_eqb (c_state c) SConnecting); [|apply gres_refl].
    destruct ok.
    + cbv zeta. match goal with |- context [send_cer ?x cid] => set (n2 := x) end.
      assert (F : frame n n2).
      { unfold n2. eapply frame_trans; [apply (frame_upd_conn n cid (fun c0 => set_cstate c0 SConnected)); reflexivity|].
        match goal with |- context [find_conn_peer ?a ?b] => destruct (find_conn_peer a b) as [p|] end; [|apply frame_refl].
        apply frame_upd_peer. reflexivity. }
      clearbody n2.
      pose proof (send_cer_g P n2 cid HP) as G3. destruct (send_cer n2 cid) as [n3 o3].
      assert (G3' : gres P n (n3, o3)) by (eapply gres_pre; eassumption).
      assert (Hpm3 : pmap n3 = pm). { rewrite <- Hpm. apply (gres_pmap _ _ _ G3'). }
      pose proof (io_iteration_g P pm n3 ds HP HD Hpm3) as G4. destruct (io_iteration n3 ds) as [[n4 o4] ds4].
      cbn [fst] in G4.
      assert (G4' : gres P n (n4, (o3 ++ o4)%list)) by (eapply gres_app; eassumption).
      pose proof (then_settle P pm n n4 (o3 ++ o4)%list ds4 HP HD Hpm G4') as G5.
      destruct (settle' n4 ds4) as [n5 o5]. rewrite <- List.app_assoc in G5. exact G5.
    + pose proof (close_conn_g P n cid R_FAILED_CONNECT (HC _ _)) as G.
      destruct (close_conn n cid R_FAILED_CONNECT) as [n1 o1]. apply (then_settle P pm); auto.
  - (* EStall *)
    cbn [step]. destruct (get_conn n cid) as [c|]; [|apply gres_refl].
    cbv zeta. set (n1 := set_conns n (upd_conn (n_conns n) cid (fun c0 => set_csock c0 (c_sock_open c0) b (c_workers c0)))).
    assert (F : frame n n1) by (apply frame_upd_conn; reflexivity).
    destruct b; [apply gres_nil, F|]. destruct (c_out c); [apply gres_nil, F|].
    eapply gres_pre; [exact F|]. apply (settle'_g P pm); auto.
  - (* ETick *)
    rewrite step_tick. apply (wake_g P pm); auto; try apply frame_refl; try constructor.
  - (* EAppAnswer *)
    cbn [step]. pose proof (route_answer_frame n m) as F. destruct (route_answer n m) as [[cid|] n1]; cbn [snd] in F.
    + pose proof (send_message_g P n1 cid m I) as G. destruct (send_message n1 cid m) as [n2 o2].
      apply (then_settle_app P pm); auto. eapply gres_pre; eassumption.
    + split; [exact F|constructor; [exact I|constructor]].
  - (* EAppRequest *)
    rewrite step_app_request. destruct (req_core _ _ ds i m realm pick timeout) as [n' outs] eqn:E.
    assert (F0 : frame n (fst (e2e_prep n m))).
    { unfold e2e_prep. destruct (o_e2e m =? 0); [apply frame_same; reflexivity|apply frame_refl]. }
    apply req_core_shape in E. destruct E as [[-> ->]|E].
    + split; [exact F0|constructor; [exact I|constructor]].
    + destruct E as (usable & p & cid & c & m' & n4 & rest & _ & _ & _ & _ & _ & -> & Hs & Hrest & H9 & _ & _ & _ & _ & _ & _ & _ & F4).
      pose proof (settle_app'_sys n4 ds) as [F5 _]. rewrite Hs in F5. cbn [fst] in F5.
      split; [eapply frame_trans; [exact F0|]; eapply frame_trans; eassumption|].
      cbn [snd]. constructor; [exact I|].
      assert (E : pmap (fst (e2e_prep n m)) = pm). { rewrite <- Hpm. apply F0. }
      rewrite E in Hrest. eapply List.Forall_impl; [|exact Hrest]. intros o Ho; destruct o; try exact I; try exact Ho.
  - (* EStop *)
    rewrite step_stop. cbv zeta. set (n0 := set_misc n true (n_next_cid n) (n_e2e n)).
    assert (F : frame n n0) by (apply frame_same; reflexivity).
    destruct force; [apply gres_nil, F|].
    pose proof (stop_go_g P (List.map c_id (n_conns n0)) (fun _ _ => I) n0 [] n F (List.Forall_nil _)) as G.
    destruct (stop_go (List.map c_id (n_conns n0)) n0 []) as [n1 o1]. apply (then_settle P pm); auto.
  - (* EStopFinish *)
    rewrite step_stop_finish. cbv zeta. set (n0 := set_time n tclose (n_io_deadline n)).
    assert (F : frame n n0) by (apply frame_same; reflexivity).
    pose proof (finish_go_g P (List.map c_id (n_conns n0)) HC n0 [] n F (List.Forall_nil _)) as G.
    destruct (finish_go (List.map c_id (n_conns n0)) n0 []) as [n1 o1].
    eapply gres_post; [exact G|]. apply frame_same; reflexivity.
  - (* EStart *)
    rewrite step_start.
    pose proof (start_go_g P pm (List.map p_name (n_peers n)) HP HD n ds [] n Hpm (frame_refl n) (List.Forall_nil _)) as G.
    destruct (start_go (List.map p_name (n_peers n)) n ds []) as [[n1 o1] ds1]. cbn [fst] in G.
    apply (then_settle P pm); auto.
Qed.

End NoDeliver.

Lemma step_other_no_deliver n ds e :
  (forall cid ms, e <> ERecv cid ms) -> forall i m, ~ List.In (ODeliver i m) (snd (step n ds e)).
Proof.
  intros Hne i m Hin. destruct (NoDeliver.step_other_nd n ds e Hne) as [_ G].
  rewrite List.Forall_forall in G. exact (G _ Hin).
Qed.

(* C06: a request is handed to an application only by the dispatch of that frame of a network read, and in the
   state in which the frame is dispatched the connection is not CONNECTED, CLOSING or CLOSED (the gate is open:
   the capabilities exchange is over and the connection is not being torn down) *)
Theorem C06_history_gate n0 evs nk e outs i m :
  List.In (nk, (e, outs)) (strace n0 evs) -> List.In (ODeliver i m) outs ->
  exists cid ms ds ms1 ms2 c,
    e = ERecv cid ms /\ ms = (ms1 ++ m :: ms2)%list /\
    let n' := fst (dispatch_all (read_state nk ds cid) cid ms1) in
    get_conn n' cid = Some c /\ gated (c_state c) = false /\
    List.In (ODeliver i m) (snd (dispatch n' cid m)).
Proof.
  intros Hin Hd. destruct (NodeF.strace_In _ _ _ _ _ Hin) as (ea & ds & eb & -> & -> & ->).
  set (nk := fst (run n0 ea)) in *.
  destruct e as [h|cid ms|k|k hard|k ok|k b|dt|j a|j a realm pick tmo|force|tc te|];
    try (exfalso; refine (step_other_no_deliver _ _ _ _ i m Hd); intros ? ? E; discriminate E).
  destruct (get_conn nk cid) as [c0|] eqn:Hc0; [|cbn [step] in Hd; rewrite Hc0 in Hd; destruct Hd].
  rewrite (NodeG.step_recv_eq nk ds cid ms c0 Hc0) in Hd. cbn [snd] in Hd.
  destruct (NodeG.recv_io_sysout nk ds cid ms) as [S1 S2].
  apply List.in_app_or in Hd. destruct Hd as [Hd|Hd]; [exfalso; exact (NodeG.sysout_no_deliver _ _ S1 _ _ Hd)|].
  apply List.in_app_or in Hd. destruct Hd as [Hd|Hd]; [|exfalso; exact (NodeG.sysout_no_deliver _ _ S2 _ _ Hd)].
  destruct (dispatch_all_deliver _ _ _ _ _ Hd) as (ms1 & ms2 & -> & H).
  destruct (dispatch_deliver _ _ _ _ _ H) as [_ [c [Hc Hg]]].
  exists cid, (ms1 ++ m :: ms2)%list, ds, ms1, ms2, c. cbv zeta. repeat split; assumption.
Qed.

(* what a CONNECTED connection lets out: no delivery; answers only on itself and only capabilities-exchange ones *)
Definition gout (cid : nat) (o : output) : Prop :=
  match o with
  | ODeliver _ _ => False
  | OQueue j a => o_req a = false -> j = cid /\ o_cmd a = CE
  | _ => True
  end.

Lemma dispatch_gated n cid c m :
  get_conn n cid = Some c -> c_state c = SConnected -> List.Forall (gout cid) (snd (dispatch n cid m)).
Proof.
  intros Hc Hs. apply List.Forall_forall. intros o Hin. destruct o as [j a| |i m'| | | | |]; try exact I.
  - intros Hr. destruct (dispatch n cid m) as [n' outs] eqn:Hd. cbn [snd] in Hin.
    destruct (NodeB.C07_dispatch_answers _ _ _ _ _ Hd) as [H _].
    destruct (H _ _ Hin) as (-> & _ & _ & Hk & _). split; [reflexivity|]. rewrite Hk.
    destruct (m_cmd m) eqn:Ek; try reflexivity; exfalso;
      (rewrite (C06_gate_connected n cid c m Hc Hs) in Hd by (left; rewrite Ek; discriminate));
      injection Hd as _ <-; destruct Hin.
  - destruct (dispatch_deliver _ _ _ _ _ Hin) as [_ [c1 [Hc1 Hg]]]. rewrite Hc in Hc1. injection Hc1 as <-.
    rewrite Hs in Hg. discriminate.
Qed.

Lemma dispatch_all_gated cid pn b ms : forall n,
  (get_conn n cid = None \/
   exists c, get_conn n cid = Some c /\ ((c_state c = SConnected /\ c_recv c = b) \/ c_state c = SClosing)) ->
  pnames n = pn -> (forall m, List.In m ms -> ~ ce_ok pn b m) ->
  List.Forall (gout cid) (snd (dispatch_all n cid ms)).
Proof.
  induction ms as [|m r IH]; intros n Hst Hpn Hno; [constructor|].
  assert (Hdead : forall x ms', (get_conn x cid = None \/ exists c, get_conn x cid = Some c /\ c_state c = SClosing) ->
                          List.Forall (gout cid) (snd (dispatch_all x cid ms'))).
  { intros x ms' H. rewrite (dispatch_all_dead ms' x cid H). constructor. }
  destruct Hst as [Hn|[c [Hc [[Hs Hb]|Hs]]]]; [apply Hdead; left; exact Hn| |apply Hdead; right; exists c; auto].
  rewrite NodeG.dispatch_all_cons. cbn [snd]. apply List.Forall_app. split; [apply (dispatch_gated n cid c m Hc Hs)|].
  pose proof (co_dispatch n cid c m Hc Hs) as H1. pose proof (ev_dispatch NoP n cid m) as [Hp _].
  rewrite Hb, Hpn in H1. apply IH.
  - destruct H1 as [Hnone|[[c1 [Hc1 [Hb1 [Hs1|Hs1]]]]|Hok]].
    + left. exact Hnone.
    + right. exists c1. auto.
    + right. exists c1. auto.
    + exfalso. exact (Hno m (or_introl eq_refl) Hok).
  - rewrite Hp. exact Hpn.
  - intros x Hx. apply Hno. right. exact Hx.
Qed.

Lemma sysout_gout pm cid o : NodeC.sysout pm o -> gout cid o.
Proof. destruct o; cbn; auto. intros [Hr _] E. congruence. Qed.

(* C06 (one step): a read on a CONNECTED connection that holds no good capabilities-exchange frame of the
   connection's direction delivers nothing and queues no answer but capabilities-exchange answers on it *)
Theorem C06_step_gate_connected n ds cid ms c :
  (cid < n_next_cid n)%nat -> get_conn n cid = Some c -> c_state c = SConnected ->
  (forall m, List.In m ms -> ~ (if c_recv c then is_good_cer n m else is_good_cea m)) ->
  List.Forall (gout cid) (snd (step n ds (ERecv cid ms))).
Proof.
  intros Hlt Hc Hs Hno. rewrite (NodeG.step_recv_eq n ds cid ms c Hc). cbn [snd].
  destruct (NodeG.recv_io_sysout n ds cid ms) as [S1 S2].
  apply List.Forall_app. split; [eapply List.Forall_impl; [|exact S1]; intros o; apply sysout_gout|].
  apply List.Forall_app. split; [|eapply List.Forall_impl; [|exact S2]; intros o; apply sysout_gout].
  assert (He : ev0 n (read_state n ds cid)).
  { unfold NodeD.read_state. eapply ev_trans; [apply ev_io_iteration|apply ev_upd_last_read]. }
  apply (dispatch_all_gated cid (pnames n) (c_recv c)).
  - destruct (get_conn (read_state n ds cid) cid) as [c1|] eqn:Hc1; [|left; reflexivity].
    right. exists c1. split; [reflexivity|]. left.
    destruct (ev_at _ _ _ _ _ _ _ _ He Hlt Hc Hc1) as [Hb [_ [Hq _]]].
    split; [|exact Hb]. destruct (Hq Hs) as [H|[]]. exact H.
  - apply He.
  - intros m Hm Hok. apply (Hno m Hm). apply ce_ok_good, Hok.
Qed.

Lemma run_fresh n0 evs : conns_fresh n0 -> conns_fresh (fst (run n0 evs)).
Proof. intros H. apply (strace_inv conns_fresh conns_fresh_step evs n0 H). Qed.

(* C06: along a history, a read on a connection that is still CONNECTED (capabilities exchange not completed) and
   whose frames hold no good CER (inbound) / CEA 2001 (outbound) hands nothing to an application and queues no
   answer other than capabilities-exchange answers on that connection *)
Theorem C06_history_gate_connected n0 evs nk cid ms outs c :
  conns_fresh n0 -> List.In (nk, (ERecv cid ms, outs)) (strace n0 evs) ->
  get_conn nk cid = Some c -> c_state c = SConnected ->
  (forall m, List.In m ms -> ~ (if c_recv c then is_good_cer nk m else is_good_cea m)) ->
  (forall i m, ~ List.In (ODeliver i m) outs) /\
  (forall j a, List.In (OQueue j a) outs -> o_req a = false -> j = cid /\ o_cmd a = CE).
Proof.
  intros Hf Hin Hc Hs Hno. destruct (NodeF.strace_In _ _ _ _ _ Hin) as (ea & ds & eb & -> & -> & ->).
  pose proof (run_fresh n0 ea Hf) as Hfk.
  pose proof (C06_step_gate_connected _ ds cid ms c (Hfk _ _ Hc) Hc Hs Hno) as G.
  rewrite List.Forall_forall in G. split.
  - intros i m Hd. exact (G _ Hd).
  - intros j a Hq. exact (G _ Hq).
Qed.

(* ================================================================================== *)
(* D. C11: one outstanding DWR per connection                                          *)
(* ================================================================================== *)
(* a network read on connection cid that holds a Device-Watchdog-Answer *)
Definition dwa_read (cid : nat) (e : event) : Prop :=
  match e with ERecv j ms => j = cid /\ List.existsb isdwa ms = true | _ => False end.
(* what applications hand over: answers are answers, requests are not base-protocol DWR / CER *)
Definition app_ok (e : event) : Prop :=
  match e with
  | EAppAnswer _ m => o_req m = false
  | EAppRequest _ m _ _ _ => o_cmd m <> DW /\ o_cmd m <> CE
  | _ => True
  end.

Lemma dwa_read_dec cid e : dwa_read cid e \/ ~ dwa_read cid e.
Proof.
  destruct e as [h|j ms|k|k hard|k ok|k b|dt|i a|i a realm pick tmo|force|tc te|]; cbn;
    try (right; intros H; exact H).
  destruct (Nat.eq_dec j cid) as [->|Hne]; [|right; intros [H _]; contradiction].
  destruct (List.existsb isdwa ms); [left; auto|right; intros [_ H]; discriminate].
Qed.

Lemma ev_ok_D cid e : app_ok e -> ~ dwa_read cid e -> ev_ok cid True False e.
Proof.
  destruct e; cbn; auto.
  - intros _ H E. destruct (List.existsb isdwa ms); [exfalso; auto|reflexivity].
  - intros H _. left. intros Hr. congruence.
Qed.

(* C11 (one step): unless the event is a read of a DWA on cid, a quiet connection cid (absent, or waiting for its
   DWA, or being torn down) stays quiet and gets no DWR; and a step that queues a DWR on cid leaves it quiet *)
Theorem C11_step_one_dwr cid n ds e :
  conns_fresh n -> app_ok e -> ~ dwa_read cid e ->
  (W cid n -> W cid (fst (step n ds e)) /\ ~ List.Exists (isdwr cid) (snd (step n ds e))) /\
  (List.Exists (isdwr cid) (snd (step n ds e)) -> W cid (fst (step n ds e))).
Proof.
  intros Hf Ha Hd. destruct (step_r cid True False n ds e (ev_ok_D cid e Ha Hd)) as [K [J D]]. split.
  - intros Hw. split; [eapply kq_W; eassumption|]. intros E. apply List.Exists_exists in E.
    destruct E as [o [Hin Ho]]. rewrite List.Forall_forall in J. specialize (J o Hin).
    destruct o as [j m| | | | | | |]; try (exfalso; exact Ho). destruct Ho as [-> [Hr Hk]].
    destruct (J Hr) as [J1 _]. destruct (J1 Hk) as [[_ H]|[]]. exact (H eq_refl Hw).
  - intros E. destruct (D Hf E) as [H|[]]. exact H.
Qed.

(* C11: from a state in which connection cid is quiet (absent for good, waiting for its DWA, or being torn down),
   either some later read on cid holds a DWA, or no DWR is ever queued on cid and cid stays quiet *)
Theorem C11_history_quiet_until_dwa cid : forall evs n,
  conns_fresh n -> W cid n ->
  (forall x, List.In x (strace n evs) -> app_ok (fst (snd x))) ->
  (exists x, List.In x (strace n evs) /\ dwa_read cid (fst (snd x))) \/
  (W cid (fst (run n evs)) /\ conns_fresh (fst (run n evs)) /\
   forall x, List.In x (strace n evs) -> W cid (fst x) /\ ~ List.Exists (isdwr cid) (snd (snd x))).
Proof.
  induction evs as [|[ds e] r IH]; intros n Hf Hw Ha.
  - right. split; [exact Hw|]. split; [exact Hf|]. intros x [].
  - rewrite NodeF.strace_cons, NodeD.run_cons in *. cbn [fst snd] in *.
    destruct (dwa_read_dec cid e) as [Hd|Hd].
    + left. eexists. split; [left; reflexivity|exact Hd].
    + assert (Hae : app_ok e) by (apply (Ha _ (or_introl eq_refl))).
      destruct (C11_step_one_dwr cid n ds e Hf Hae Hd) as [H1 _]. destruct (H1 Hw) as [Hw' Hno].
      destruct (IH _ (conns_fresh_step n ds e Hf) Hw' (fun x Hx => Ha x (or_intror Hx))) as [[x [Hx Hdx]]|[A [B C]]].
      * left. exists x. split; [right; exact Hx|exact Hdx].
      * right. split; [exact A|]. split; [exact B|]. intros x [<-|Hx]; [split; assumption|apply C, Hx].
Qed.

(* C11: between two watchdog requests queued on the same connection there is a read of a DWA on that connection
   (the reading event may be the one that queues the first or the second DWR) *)
Theorem C11_history_one_dwr n0 evs cid pre x1 mid x2 post :
  conns_fresh n0 ->
  strace n0 evs = (pre ++ x1 :: mid ++ x2 :: post)%list ->
  (forall x, List.In x (x1 :: mid ++ [x2])%list -> app_ok (fst (snd x))) ->
  List.Exists (isdwr cid) (snd (snd x1)) -> List.Exists (isdwr cid) (snd (snd x2)) ->
  exists x, List.In x (x1 :: mid ++ [x2])%list /\ dwa_read cid (fst (snd x)).
Proof.
  intros Hf H Ha E1 E2.
  destruct (strace_split _ _ _ _ _ H) as (evs1 & ds1 & evs2 & -> & N1 & O1 & _ & H2).
  destruct (dwa_read_dec cid (fst (snd x1))) as [Hd1|Hd1]; [exists x1; split; [left; reflexivity|exact Hd1]|].
  assert (Hf1 : conns_fresh (fst x1)) by (rewrite N1; apply run_fresh, Hf).
  assert (Ha1 : app_ok (fst (snd x1))) by (apply Ha; left; reflexivity).
  destruct (C11_step_one_dwr cid (fst x1) ds1 _ Hf1 Ha1 Hd1) as [_ Hq]. rewrite <- O1 in Hq. specialize (Hq E1).
  set (n2 := fst (step (fst x1) ds1 (fst (snd x1)))) in *.
  assert (Hf2 : conns_fresh n2) by (apply conns_fresh_step, Hf1).
  symmetry in H2. destruct (strace_split _ _ _ _ _ H2) as (ea & ds2 & eb & -> & N2 & O2 & Hm & _).
  assert (Ham : forall x, List.In x (strace n2 ea) -> app_ok (fst (snd x))).
  { intros x Hx. apply Ha. right. apply List.in_or_app. left. rewrite Hm. exact Hx. }
  destruct (C11_history_quiet_until_dwa cid ea n2 Hf2 Hq Ham) as [[x [Hx Hdx]]|[A [B _]]].
  - exists x. split; [|exact Hdx]. right. apply List.in_or_app. left. rewrite Hm. exact Hx.
  - destruct (dwa_read_dec cid (fst (snd x2))) as [Hd2|Hd2].
    + exists x2. split; [|exact Hd2]. right. apply List.in_or_app. right. left. reflexivity.
    + exfalso. rewrite <- N2 in A, B.
      assert (Ha2 : app_ok (fst (snd x2))) by (apply Ha; right; apply List.in_or_app; right; left; reflexivity).
      destruct (C11_step_one_dwr cid (fst x2) ds2 _ B Ha2 Hd2) as [Hs _]. destruct (Hs A) as [_ Hno].
      apply Hno. rewrite <- O2. exact E2.
Qed.

(* a connection that waits for its DWA is quiet *)
Lemma W_of_waiting cid n c :
  conns_fresh n -> get_conn n cid = Some c -> c_state c = SReadyWaitDwa -> W cid n.
Proof.
  intros Hf Hc Hs. split; [exact (Hf _ _ Hc)|]. intros c' Hc'. rewrite Hc in Hc'. injection Hc' as <-.
  rewrite Hs. reflexivity.
Qed.

(* ================================================================================== *)
(* E. examples: one history with an outbound peer, an inbound stranger, the watchdog and a stop *)
(* ================================================================================== *)
Module Examples.
Import String.
Local Open Scope string_scope.

Definition hx_cfg : cfg :=
  {| g_host := "me"; g_realm := "r"; g_cea := 4; g_cer := 4; g_dwa := 4; g_idle := 20; g_wakeup := 6;
     g_rsize := 4%nat; g_validate := true; g_state_id := 1 |}.
Definition hx_peer : peer :=
  {| p_name := "pa"; p_realm := "r"; p_has_addr := true; p_persistent := true; p_always := false;
     p_cea := None; p_cer := None; p_dwa := None; p_idle := None; p_rwait := 30;
     p_conn := None; p_reason := None; p_lastconn := None; p_lastdisc := None; p_reqs := 0 |}.
Definition hx_app : app := {| a_id := 4; a_auth := true; a_acct := false; a_ready := false; a_waiting := [] |}.
Definition hx_n0 : node :=
  {| n_cfg := hx_cfg; n_now := 0; n_io_deadline := 6; n_stopping := false;
     n_peers := [hx_peer]; n_conns := []; n_next_cid := 0%nat; n_half_ready := []; n_socket_peers := [];
     n_routes := [("r", [(RApp 0, ["pa"])])]; n_apps := [hx_app];
     n_app_waiting := []; n_peer_waiting := []; n_origin_waiting := []; n_sent_answers := []; n_e2e := 1 |}.
Definition hx_msg (k : cmd) (req : bool) (o : string) (app hbh : Z) (res : pres Z) (dr : pres string) : msg :=
  {| m_cmd := k; m_req := req; m_p := false; m_e := false; m_t := false; m_app := app; m_hbh := hbh; m_e2e := hbh;
     m_origin := Present o; m_drealm := dr; m_result := res; m_missing := [];
     m_has_failed_avp_slot := false; m_auth := [4]; m_acct := []; m_tag := 0 |}.
Definition hx_cea := hx_msg CE false "pa" 0 2 (Present 2001) Undeclared.
Definition hx_cer_stranger := hx_msg CE true "zz" 0 7 Absent Undeclared.
Definition hx_dwa := hx_msg DW false "pa" 0 3 (Present 2001) Undeclared.
Definition hx_dwr := hx_msg DW true "pa" 0 9 Absent Undeclared.
Definition hx_dpr := hx_msg DP true "pa" 0 10 Absent Undeclared.
Definition hx_req := hx_msg (App 272) true "pa" 4 11 Absent (Present "r").
Definition hx_areq : omsg :=
  {| o_cmd := App 272; o_req := true; o_app := 0; o_hbh := 0; o_e2e := 0; o_result := None; o_failed := []; o_tag := 5 |}.

(* pa is dialled and answers the CER; a stranger connects, sends a CER and a request (refused, dropped);
   pa sends a request (delivered); silence: DWR; DWA; silence: DWR; stop(); a newcomer; a tick; pa's DWR *)
Definition hx_evs : list (dials * event) :=
  [ ([(1, DialOk)], EStart);
    ([], ERecv 0 [hx_cea]);
    ([], EAccept 50);
    ([], ERecv 1 [hx_cer_stranger; hx_req]);
    ([], ERecv 0 [hx_req]);
    ([], ETick 24);
    ([], ERecv 0 [hx_dwa]);
    ([], ETick 24);
    ([], EStop false);
    ([], EAccept 60);
    ([], ETick 6);
    ([], ERecv 0 [hx_dwr]) ].
Notation hx_tr := (strace hx_n0 hx_evs).
Definition hx_dummy : node * (event * list output) := (hx_n0, (EStart, [])).
Notation hx_at k := (List.nth k hx_tr hx_dummy).

Definition hx_show (o : output) : (string * nat * Z) :=
  match o with
  | OQueue cid m => ((match o_cmd m with CE => "CE" | DW => "DW" | DP => "DP" | App _ => "APP" end)
                       ++ (if o_req m then "R" else "A"), cid, o_hbh m)
  | OSend cid m => ("send", cid, o_hbh m)
  | ODeliver i m => ("deliver", i, m_hbh m)
  | OClose cid r => ("close", cid, r)
  | ODial p => ("dial " ++ p, 0%nat, 0)
  | ONotRoutable => ("not-routable", 0%nat, 0)
  | OAnswerTo i m => ("answer-to", i, m_hbh m)
  | OUnexpected i m => ("unexpected", i, m_hbh m)
  end.

(* the history: the stop flag before each event, and what the event outputs *)
Example hx_history :
  List.map (fun x => (n_stopping (fst x), List.map hx_show (snd (snd x)))) hx_tr =
  [ (false, [("dial pa", 0%nat, 0); ("CER", 0%nat, 2); ("send", 0%nat, 2)]);
    (false, []);
    (false, []);
    (false, [("CEA", 1%nat, 7); ("send", 1%nat, 7); ("close", 1%nat, 34)]);
    (false, [("deliver", 0%nat, 11)]);
    (false, [("DWR", 0%nat, 3); ("send", 0%nat, 3)]);
    (false, []);
    (false, [("DWR", 0%nat, 4); ("send", 0%nat, 4)]);
    (false, [("DPR", 0%nat, 5); ("send", 0%nat, 5)]);
    (true, [("close", 2%nat, 33)]);
    (true, []);
    (true, [("DWA", 0%nat, 9); ("send", 0%nat, 9)]) ].
Proof. vm_compute. reflexivity. Qed.

Lemma hx_fresh : conns_fresh hx_n0.
Proof. intros j c H. discriminate H. Qed.

(* A: after the stop (event 8) the flag is set in the three later states and at the end *)
Example C18_history_stopping_example :
  fst (snd (hx_at 8%nat)) = EStop false /\
  List.length (List.skipn 9 hx_tr) = 3%nat /\
  (forall nk e o, List.In (nk, (e, o)) (List.skipn 9 hx_tr) -> n_stopping nk = true) /\
  n_stopping (fst (run hx_n0 hx_evs)) = true.
Proof.
  split; [vm_compute; reflexivity|]. split; [vm_compute; reflexivity|].
  apply (C18_history_stopping_is_forever hx_n0 hx_evs (List.firstn 8 hx_tr) (fst (hx_at 8%nat)) false
           (snd (snd (hx_at 8%nat))) (List.skipn 9 hx_tr)).
  vm_compute. reflexivity.
Qed.

(* B: after the stop nobody is dialled and no DWR / CER is queued (the DWA of event 11 still is) *)
Example C18_history_quiet_example :
  List.Forall calm (snd (snd (hx_at 8%nat))) /\
  forall nk e o, List.In (nk, (e, o)) (List.skipn 9 hx_tr) ->
    (forall p, ~ List.In (ODial p) o) /\
    (forall cid m, List.In (OQueue cid m) o -> o_req m = true -> o_cmd m <> DW /\ o_cmd m <> CE).
Proof.
  assert (Hb : List.Forall (fun x => benign (fst (snd x))) (List.skipn 9 hx_tr)).
  { vm_compute. repeat (constructor; [exact I|]). constructor. }
  destruct (C18_history_quiet hx_n0 hx_evs (List.firstn 8 hx_tr) (fst (hx_at 8%nat)) false
              (snd (snd (hx_at 8%nat))) (List.skipn 9 hx_tr)) as [H1 H2]; [vm_compute; reflexivity|].
  split; [exact H1|]. intros nk e o Hin. apply (H2 nk e o Hin).
  rewrite List.Forall_forall in Hb. exact (Hb _ Hin).
Qed.

(* B: the newcomer of event 9 is closed at once and not registered *)
Example C18_history_newcomers_example :
  snd (snd (hx_at 9%nat)) = [OClose 2 R_SHUTDOWN] /\
  forall ds, n_conns (fst (step (fst (hx_at 9%nat)) ds (EAccept 60))) = n_conns (fst (hx_at 9%nat)).
Proof.
  destruct (C18_history_newcomers_refused hx_n0 hx_evs (List.firstn 8 hx_tr) (fst (hx_at 8%nat)) false
              (snd (snd (hx_at 8%nat))) (List.skipn 9 hx_tr) (fst (hx_at 9%nat)) 60 (snd (snd (hx_at 9%nat))))
    as [H1 H2]; [vm_compute; reflexivity|vm_compute; left; reflexivity|].
  split; [|exact H2]. rewrite H1. vm_compute. reflexivity.
Qed.

(* B: application requests are NOT refused while the node is stopping: after a forced stop the ready connection
   still takes them; after an orderly stop it is DISCONNECTING and the request is not routable *)
Example C18_app_request_while_stopping_example :
  let up := [ ([(1, DialOk)], EStart); ([], ERecv 0%nat [hx_cea]) ] in
  let nf := fst (run hx_n0 (up ++ [([], EStop true)])) in
  let ns := fst (run hx_n0 (up ++ [([], EStop false)])) in
  n_stopping nf = true /\ n_stopping ns = true /\
  List.map hx_show (snd (step nf [] (EAppRequest 0 hx_areq (Present "r") 0 10))) =
    [("APPR", 0%nat, 3); ("send", 0%nat, 3)] /\
  snd (step ns [] (EAppRequest 0 hx_areq (Present "r") 0 10)) = [ONotRoutable].
Proof. vm_compute. repeat split; reflexivity. Qed.

(* B refuted for EStart: Node.start() on a stopping node dials the persistent peers and sends them a CER *)
Theorem C18_history_quiet_start_refuted :
  ~ (forall n ds, n_stopping n = true -> List.Forall calm (snd (step n ds EStart))).
Proof.
  intros H. specialize (H (fst (step hx_n0 [] (EStop true))) [(1, DialOk)] eq_refl).
  remember (snd (step (fst (step hx_n0 [] (EStop true))) [(1, DialOk)] EStart)) as l eqn:E.
  vm_compute in E. subst l. inversion H as [|? ? Hc _]. exact Hc.
Qed.

(* B refuted for EConnDone: a connect() that completes while the node is stopping is followed by a CER *)
Theorem C18_history_quiet_conn_done_refuted :
  ~ (forall n ds k, n_stopping n = true -> List.Forall calm (snd (step n ds (EConnDone k true)))).
Proof.
  intros H.
  specialize (H (fst (run hx_n0 [ ([(1, DialInProgress)], EStart); ([], EStop false) ])) [] 0%nat eq_refl).
  remember (snd (step _ [] (EConnDone 0 true))) as l eqn:E.
  vm_compute in E. subst l. inversion H as [|? ? Hc _]. destruct (Hc eq_refl) as [_ Hce]. apply Hce. reflexivity.
Qed.

(* C: the delivery of event 4 comes from the dispatch of that request on connection 0, which is READY then *)
Example C06_history_gate_example :
  (exists cid ms ds ms1 ms2 c,
     fst (snd (hx_at 4%nat)) = ERecv cid ms /\ ms = (ms1 ++ hx_req :: ms2)%list /\
     let n' := fst (dispatch_all (read_state (fst (hx_at 4%nat)) ds cid) cid ms1) in
     get_conn n' cid = Some c /\ gated (c_state c) = false /\
     List.In (ODeliver 0 hx_req) (snd (dispatch n' cid hx_req))) /\
  option_map c_state (get_conn (fst (hx_at 4%nat)) 0) = Some SReady.
Proof.
  split; [|vm_compute; reflexivity].
  apply (C06_history_gate hx_n0 hx_evs (fst (hx_at 4%nat)) _ (snd (snd (hx_at 4%nat))) 0%nat hx_req).
  - vm_compute. do 4 right. left. reflexivity.
  - vm_compute. left. reflexivity.
Qed.

(* C: the stranger's connection 1 is CONNECTED in event 3 and its CER is not a good one: nothing is delivered and
   only a capabilities-exchange answer is queued on it (the application request behind it is dropped) *)
Example C06_history_gate_connected_example :
  let nk := fst (hx_at 3%nat) in let outs := snd (snd (hx_at 3%nat)) in
  List.map hx_show outs = [("CEA", 1%nat, 7); ("send", 1%nat, 7); ("close", 1%nat, 34)] /\
  (forall i m, ~ List.In (ODeliver i m) outs) /\
  (forall j a, List.In (OQueue j a) outs -> o_req a = false -> j = 1%nat /\ o_cmd a = CE).
Proof.
  cbv zeta. split; [vm_compute; reflexivity|].
  assert (Hc : exists c, get_conn (fst (hx_at 3%nat)) 1 = Some c /\ c_state c = SConnected /\ c_recv c = true).
  { vm_compute. eexists. split; [reflexivity|]. split; reflexivity. }
  destruct Hc as [c [Hc [Hs Hr]]].
  apply (C06_history_gate_connected hx_n0 hx_evs (fst (hx_at 3%nat)) 1%nat [hx_cer_stranger; hx_req] _ c hx_fresh).
  - vm_compute. do 3 right. left. reflexivity.
  - exact Hc.
  - exact Hs.
  - rewrite Hr. intros m [<-|[<-|[]]] [Hk [_ [h [Ho Hp]]]].
    + injection Ho as <-. apply Hp. vm_compute. reflexivity.
    + discriminate Hk.
Qed.

(* C refuted as stated for "ready": the gate is also open on a DISCONNECTING connection (after the peer's DPR), so a
   request that follows the DPR is still handed to the application *)
Theorem C06_history_gate_ready_refuted :
  ~ (forall n ds cid ms c i m,
       get_conn n cid = Some c -> List.In (ODeliver i m) (snd (step n ds (ERecv cid ms))) ->
       (forall x, List.In x ms -> m_cmd x <> CE) -> is_ready_state (c_state c) = true).
Proof.
  intros H.
  set (n := fst (run hx_n0 [ ([(1, DialOk)], EStart); ([], ERecv 0%nat [hx_cea]); ([], ERecv 0%nat [hx_dpr]) ])).
  assert (Hc : exists c, get_conn n 0 = Some c /\ c_state c = SDisconnecting).
  { vm_compute. eexists. split; reflexivity. }
  destruct Hc as [c [Hc Hs]].
  specialize (H n [] 0%nat [hx_req] c 0%nat hx_req Hc).
  rewrite Hs in H. assert (E : is_ready_state SDisconnecting = true); [|discriminate E]. apply H.
  - vm_compute. left. reflexivity.
  - intros x [<-|[]]. discriminate.
Qed.

(* D: the two DWRs on connection 0 (events 5 and 7) are separated by the read of a DWA on it (event 6) *)
Example C11_history_one_dwr_example :
  (exists x, List.In x [hx_at 5%nat; hx_at 6%nat; hx_at 7%nat] /\ dwa_read 0 (fst (snd x))) /\
  dwa_read 0 (fst (snd (hx_at 6%nat))) /\ ~ dwa_read 0 (fst (snd (hx_at 5%nat))) /\
  ~ dwa_read 0 (fst (snd (hx_at 7%nat))).
Proof.
  split; [|vm_compute; split; [split; reflexivity|split; intros H; exact H]].
  assert (Hd : forall k, k = 5%nat \/ k = 7%nat -> List.Exists (isdwr 0) (snd (snd (hx_at k)))).
  { intros k [-> | ->]; apply List.Exists_exists;
      (eexists; split; [vm_compute; left; reflexivity|vm_compute; repeat split; reflexivity]). }
  apply (C11_history_one_dwr hx_n0 hx_evs 0%nat (List.firstn 5 hx_tr) (hx_at 5%nat) [hx_at 6%nat] (hx_at 7%nat)
           (List.skipn 8 hx_tr) hx_fresh).
  - vm_compute. reflexivity.
  - intros x [<-|[<-|[<-|[]]]]; vm_compute; exact I.
  - apply Hd. left. reflexivity.
  - apply Hd. right. reflexivity.
Qed.

(* D: after the DWR of event 5 connection 0 waits for its DWA: it is quiet, and a tick queues no second DWR *)
Example C11_history_quiet_until_dwa_example :
  let n6 := fst (hx_at 6%nat) in
  option_map c_state (get_conn n6 0) = Some SReadyWaitDwa /\ W 0 n6 /\
  List.map hx_show (snd (step n6 [] (ETick 3))) = [].
Proof.
  cbv zeta. split; [vm_compute; reflexivity|]. split; [|vm_compute; reflexivity].
  split; [vm_compute; lia|]. intros c Hc. vm_compute in Hc. injection Hc as <-. reflexivity.
Qed.

End Examples.

(* ================================================================================== *)
(* every theorem is closed under the global context                                    *)
(* ================================================================================== *)
Print Assumptions C18_step_keeps_stopping.
Print Assumptions C18_stop_sets_flag.
Print Assumptions C18_history_stopping_is_forever.
Print Assumptions C18_step_quiet.
Print Assumptions C18_stop_step_quiet.
Print Assumptions C18_history_quiet.
Print Assumptions C18_history_newcomers_refused.
Print Assumptions step_other_no_deliver.
Print Assumptions C06_history_gate.
Print Assumptions C06_step_gate_connected.
Print Assumptions C06_history_gate_connected.
Print Assumptions C11_step_one_dwr.
Print Assumptions C11_history_quiet_until_dwa.
Print Assumptions C11_history_one_dwr.
Print Assumptions Examples.hx_history.
Print Assumptions Examples.C18_history_stopping_example.
Print Assumptions Examples.C18_history_quiet_example.
Print Assumptions Examples.C18_history_newcomers_example.
Print Assumptions Examples.C18_app_request_while_stopping_example.
Print Assumptions Examples.C18_history_quiet_start_refuted.
Print Assumptions Examples.C18_history_quiet_conn_done_refuted.
Print Assumptions Examples.C06_history_gate_example.
Print Assumptions Examples.C06_history_gate_connected_example.
Print Assumptions Examples.C06_history_gate_ready_refuted.
Print Assumptions Examples.C11_history_one_dwr_example.
Print Assumptions Examples.C11_history_quiet_until_dwa_example.
