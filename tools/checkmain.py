"""./check setup | ./check Cnn [--tier quick|thorough] | ./check replay <file> | ./check all"""
from __future__ import annotations

import argparse
import importlib
import json
import os
import subprocess
import sys

import logging

import vlib

logging.disable(logging.CRITICAL)


def setup():
    regen = vlib.regenerate()
    for f, e in regen.items():
        if e:
            print(f"setup: translation of {f} failed: {e}", file=sys.stderr)
    vlib.ensure_makefile()
    with vlib.Lock():
        ok, out = vlib.make([], timeout=3000)
    sys.stderr.write(out[-3000:])
    # a broken proof obligation at setup time is reported by the checks, not here
    return 0


def replay(path):
    with open(path) as f:
        r = json.load(f)
    prop = r["property"]
    mod = importlib.import_module(f"props.{prop.lower()}")
    if r.get("kind") != "failing-input":
        print(json.dumps(r, indent=1)[:4000])
        print("replay: this file names a broken obligation / correspondence; re-run ./check", prop)
        return 0
    ok = mod.replay(r)
    print("replay:", "property holds on this case now" if ok else "still failing")
    return 0 if ok else 1


def main():
    ap = argparse.ArgumentParser()
    ap.add_argument("what")
    ap.add_argument("arg", nargs="?")
    ap.add_argument("--tier", default=os.environ.get("VERIF_TIER", "quick"))
    ap.add_argument("--replay")
    a = ap.parse_args()
    seed = int(os.environ.get("VERIF_SEED", "0") or 0)
    if a.what == "setup":
        return setup()
    if a.what == "replay":
        return replay(a.arg)
    if a.what == "all":
        rc = 0
        m = json.load(open("/verif/MANIFEST.json"))
        for c in m["checks"]:
            p = subprocess.run(["/verif/check", c["property_id"], "--tier", a.tier])
            rc |= p.returncode
        return rc
    prop = a.what.upper()
    if a.replay:
        return replay(a.replay)
    mod = importlib.import_module(f"props.{prop.lower()}")
    run = vlib.Run(prop, a.tier if a.tier in ("quick", "thorough") else "quick", seed)
    try:
        import resource
        # backstop: a check that eats memory on broken code fails with MemoryError (reported below) instead of taking the
        # machine down
        resource.setrlimit(resource.RLIMIT_AS, (24 << 30, 24 << 30))
    except Exception:   # noqa
        pass
    try:
        return mod.check(run)
    except SystemExit:
        raise
    except vlib.TooManyViolations:
        run.notes.append(f"stopped after {vlib.MAX_VIOLATIONS} violations")
        return run.finish(known_matcher=getattr(mod, "known", None))
    except MemoryError:
        # broken code made the check run out of its memory allowance: report what was found until then, if anything
        import gc
        gc.collect()
        if run.violations:
            run.notes.append("stopped by the memory limit")
            run.mismatches[:] = []
            return run.finish(known_matcher=getattr(mod, "known", None))
        path = run._write_replay("crash", {"property": prop, "kind": "check-crashed", "error": "MemoryError()"})
        print(f"VIOLATION property={prop} replay={path} no-failing-input-found")
        return 1
    except BaseException as e:   # a crashing check must not look like a pass
        import traceback
        traceback.print_exc()
        path = run._write_replay("crash", {"property": prop, "kind": "check-crashed", "error": repr(e)})
        print(f"VIOLATION property={prop} replay={path} no-failing-input-found")
        return 1


if __name__ == "__main__":
    sys.exit(main())
