(* Tie 1 for C16: the step programs, constants and initial-value expression
   regenerated from node/_helpers.py coincide with the model's. *)
From DV Require Import Prelude.Base Model.Ids Gen.GenIds.

Lemma link_next_sequence_prog : next_sequence_prog = locked_next_seq.
Proof. reflexivity. Qed.
Lemma link_next_id_prog : next_id_prog = locked_next_id.
Proof. reflexivity. Qed.
Lemma link_consts :
  seq_min = 1 /\ seq_max = 4294967295 /\ sess_min = 1 /\ sess_max = 18446744073709551615.
Proof. repeat split; reflexivity. Qed.
Lemma link_seq_init : forall now r, seq_init_gen now r = seq_init 4294967295 now r.
Proof. reflexivity. Qed.
Lemma link_seq_init_rand : seq_init_rand_lo = 1 /\ seq_init_rand_hi = 1048575.
Proof. split; reflexivity. Qed.
