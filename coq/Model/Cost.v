(* Instrumented decoders: the number of elementary steps (loop iterations plus bytes copied
   into payload slices) the decoders perform, for the linear-time part of C04. *)
From DV Require Import Prelude.Base Model.Wire.

(* one AVP: constant header work + the payload slice *)
Definition avp_cost (a : avp) : Z := 1 + blen (a_payload a).

(* the decode loop `while not unpacker.is_done(): avps.append(Avp.from_unpacker(unpacker))` *)
Fixpoint dec_avps_cost_fuel (fuel : nat) (bs : bytes) : Z :=
  match bs with
  | [] => 0
  | _ => match fuel with
         | O => 0
         | S f => match dec_avp bs with
                  | Ok (a, r) => avp_cost a + dec_avps_cost_fuel f r
                  | Err _ => 1
                  end
         end
  end.
Definition dec_avps_cost (bs : bytes) : Z := dec_avps_cost_fuel (List.length bs) bs.

(* full-depth decode of a grouped AVP: each level re-parses its payload *)
Fixpoint tree_cost (d : dict) (fuel : nat) (a : avp) : Z :=
  match type_of d a with
  | TGrouped =>
      match fuel with
      | O => 0
      | S f =>
          dec_avps_cost (a_payload a) +
          match dec_avps (a_payload a) with
          | Ok l => fold_right (fun x acc => tree_cost d f x + acc) 0 l
          | Err _ => 0
          end
      end
  | _ => 0
  end.

(* Message.from_bytes: header + the AVP loop over the rest of the buffer *)
Definition dec_msg_cost (bs : bytes) : Z := 5 + dec_avps_cost (skipn 20 bs).
