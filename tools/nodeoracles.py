"""Property oracles over implementation traces of the node layer.  Each oracle is a direct
transcription of (part of) a property statement; it looks only at what was fed to the node
and what the node did (frames written per socket, handler calls, closes, dials, snapshots)."""
from __future__ import annotations

import nodesim as NS

NS_T0 = 1_700_000_000      # nodesim.T0: creation time of every simulated node (its Origin-State-Id)


class Trace:
    def __init__(self, cfg, events, obs):
        self.cfg, self.events, self.obs = cfg, events, obs
        self.time = []
        t = 0
        for e in events:
            if e["ev"] == "tick":
                t += e["dt"]
            self.time.append(t)
        self.frames = [[NS.abstract(f) for f in e.get("frames", [])] if e["ev"] == "recv" else [] for e in events]

    def eff(self, cid_conn, key):
        """effective timer for a connection tuple (per-peer value if set, else the node's)"""
        name = cid_conn[3] or cid_conn[4]
        for p in self.cfg["peers"]:
            if p["name"] == name and p[key]:
                return p[key]
        return self.cfg[key]

    def routes(self):
        cfg = self.cfg
        routes = {cfg["realm"]: {}}
        for i, a in enumerate(cfg["apps"]):
            for p in cfg["peers"]:
                if i in p["apps"]:
                    for realm in [p["realm"]] + list(cfg.get("extra_realms", {}).get(i) or []):
                        routes.setdefault(realm, {}).setdefault(i, []).append(p["name"])
        for p in cfg["peers"]:
            # a realm is served through a DEFAULT peer as well; a peer that is merely known there does not make it so
            if p.get("default"):
                routes.setdefault(p["realm"], {})
        return routes


def secondary_conns(tr):
    """per event index: connections whose CER was accepted while their peer already had another connection
    (RFC 6733 5.6.4 would run an election here; the library accepts both)"""
    out, cur = [], set()
    for i, o in enumerate(tr.obs):
        snap = o["snap"]
        before = tr.obs[i - 1]["snap"] if i else {"conns": [], "peers": []}
        for c in snap["conns"]:
            cb = conn_of(before, c[0])
            if c[1] and c[2] in (2, 3) and (cb is None or cb[2] == 1):
                pb = next((p for p in before["peers"] if p[0] == c[3]), None)
                if pb is not None and pb[1] != -1 and pb[1] != c[0]:
                    cur.add(c[0])
        out.append(set(cur))
    return out


def conn_of(snap, cid):
    return next((c for c in snap["conns"] if c[0] == cid), None)


def case_of(tr, i, extra=None):
    e = tr.events[i]
    d = {"event_index": i, "event": {k: ((v.hex() if isinstance(v, bytes) else v) if k != "frames" else [f.hex()[:120] for f in v])
                                     for k, v in e.items() if k != "msg"},
         "history": [ev["ev"] + (":%d" % ev["cid"] if "cid" in ev else "") for ev in tr.events[:i + 1]][-12:],
         "cfg": {k: tr.cfg[k] for k in ("cea", "cer", "dwa", "idle", "wakeup", "rsize")}}
    if extra:
        d.update(extra)
    return d


# ------------------------------------------------------------------------------- C06
def c06(tr, viol):
    done = {}          # cid -> handshake completed
    outbound_cer_sent = set()
    for i, (e, o) in enumerate(zip(tr.events, tr.obs)):
        before = tr.obs[i - 1]["snap"] if i else {"conns": []}
        # sequential view of this event: frames in order, sends in order per cid
        if e["ev"] == "recv":
            cid = e["cid"]
            sends = list(o["sends"].get(cid, []))
            cb = conn_of(before, cid)
            inbound = cb[1] if cb else True
            for fr in tr.frames[i]:
                is_ce = fr["cmd"] == "CE"
                if not done.get(cid):
                    if is_ce and inbound and fr["req"]:
                        # the CEA for this CER
                        cea = next((s for s in sends if s["cmd"] == "CE" and not s["req"] and s["hbh"] == fr["hbh"]), None)
                        if cea is not None and cea["result"] == 2001:
                            done[cid] = True
                        elif cea is None and cid in o["stalled"]:
                            # the CEA is held back by the socket: the connection state tells the outcome
                            ca_ = conn_of(o["snap"], cid)
                            if ca_ is not None and ca_[2] in (2, 3, 4):
                                done[cid] = True
                    elif is_ce and (not inbound) and (not fr["req"]) and fr["result"][0] == "Present" and fr["result"][1] == 2001 \
                            and fr["origin"][0] == "Present":
                        done[cid] = True
                    else:
                        # anything else before the handshake must be ignored
                        if fr["req"] and any((not s["req"]) and s["hbh"] == fr["hbh"] and s["e2e"] == fr["e2e"] for s in sends) and not is_ce:
                            viol("ignored-before-handshake", case_of(tr, i), "answered",
                                 what="a message received before the capabilities exchange succeeded was answered")
                        if any(h == fr["hbh"] and ee == fr["e2e"] for (_, h, ee) in o["delivered"]):
                            viol("ignored-before-handshake", case_of(tr, i), "delivered to an application",
                                 what="a request received before the capabilities exchange succeeded reached an application")
        # every capabilities-exchange message the node writes carries ITS identity and ALL its application ids
        for cid, ms in o["sends"].items():
            for s in ms:
                ce = s.get("ce")
                if s["cmd"] == "CE" and ce is not None:
                    want_auth = sorted({a["id"] for a in tr.cfg["apps"] if a["auth"]})
                    want_acct = sorted({a["id"] for a in tr.cfg["apps"] if a["acct"]})
                    bad = []
                    if ce["origin_host"] != tr.cfg["host"] or ce["origin_realm"] != tr.cfg["realm"]:
                        bad.append("identity")
                    if ce["auth"] != want_auth or ce["acct"] != want_acct:
                        bad.append("application ids")
                    # (addresses: the CEA lists the node's addresses; the node's own CER lists those of the connection it goes out on)
                    want_ips = ["10.0.0.%d" % (k + 1) for k in range(tr.cfg.get("ips", 1))]
                    if ce["vendor_id"] is None or not ce["product_name"] or (not s["req"] and ce["host_ip"] != want_ips) or not ce["host_ip"]:
                        bad.append("vendor / product / addresses")
                    if bad:
                        viol("ce-advertises-node", case_of(tr, i), {k: ce[k] for k in ("origin_host", "auth", "acct", "vendor_id", "product_name", "host_ip")},
                             {"origin_host": tr.cfg["host"], "auth": want_auth, "acct": want_acct},
                             what="a CER/CEA written by the node does not carry the node's " + ", ".join(bad))
        # nothing but CE is ever written on a connection whose handshake is not done
        for cid, ms in o["sends"].items():
            for s in ms:
                if s["cmd"] != "CE" and not done.get(cid):
                    viol("only-ce-before-handshake", case_of(tr, i), s,
                         what="the node wrote a non-CE message on a connection whose capabilities exchange has not succeeded")
        # outcome of an inbound CER
        if e["ev"] == "recv":
            cid = e["cid"]
            cb = conn_of(before, cid)
            if cb and cb[1] and cb[2] == 1 and tr.frames[i] and tr.frames[i][0]["cmd"] == "CE" and tr.frames[i][0]["req"]:
                fr = tr.frames[i][0]
                if fr["origin"][0] == "Present" and not fr["missing"]:
                    host = fr["origin"][1].lower()
                    known = any(p["name"] == host for p in tr.cfg["peers"])
                    auth = [a["id"] for a in tr.cfg["apps"] if a["auth"]]
                    acct = [a["id"] for a in tr.cfg["apps"] if a["acct"]]
                    common = (set(auth) & set(fr["auth"])) or (set(acct) & set(fr["acct"]))
                    relay = 0xffffffff in fr["auth"] or 0xffffffff in fr["acct"]
                    want = 2001 if (known and (common or relay)) else (3010 if not known else 5010)
                    # RFC 6733 5.6.4: the peer already has a connection (established or being dialled) -> election
                    rival = any(c[0] != cid and c[3] == host for c in before["conns"])
                    if known and rival and not (tr.cfg["host"].lower() > host):
                        want = 4003
                    cea = next((s for s in o["sends"].get(cid, []) if s["cmd"] == "CE" and not s["req"]), None)
                    ca = conn_of(o["snap"], cid)
                    if cea is None and (cid in o["stalled"] or cid in o["closed"]):
                        pass      # output held back by the socket / connection timed out at this very wake-up
                    elif cea is None or cea["result"] != want:
                        viol("cer-outcome", case_of(tr, i), cea, want, what=f"CER outcome should be {want}")
                    elif want == 2001 and not (ca and ca[2] in (2, 3, 4, 5)):
                        pass
                    elif want in (3010, 4003) and ca is not None:
                        if cid not in o["stalled"]:
                            viol("cer-outcome", case_of(tr, i), f"connection still open after {want}",
                                 what=f"connection not closed after the {want} CEA")
                    elif want == 5010 and ca is not None and ca[2] in (2, 3):
                        viol("cer-outcome", case_of(tr, i), "ready after 5010")


# ------------------------------------------------------------------------------- C07
def c07(tr, viol):
    unanswered = {}
    for i, (e, o) in enumerate(zip(tr.events, tr.obs)):
        before = tr.obs[i - 1]["snap"] if i else {"conns": []}
        if e["ev"] == "recv" and len(tr.frames[i]) == 1:
            # an application request read on a ready connection is dealt with at once: handed to an application or
            # answered by the node (unless the socket takes nothing / the timer pass closed the connection first)
            fr, cid = tr.frames[i][0], e["cid"]
            cb = conn_of(before, cid)
            if fr["req"] and fr["cmd"].startswith("App") and cb and cb[2] in (2, 3) and cid not in o["stalled"] and cid not in o["closed"]:
                ans = [s for s in o["sends"].get(cid, []) if not s["req"] and s["hbh"] == fr["hbh"] and s["e2e"] == fr["e2e"]]
                deliv = [d for d in o["delivered"] if d[1] == fr["hbh"] and d[2] == fr["e2e"]]
                if not ans and not deliv:
                    viol("request-dealt-with", case_of(tr, i), {"answers": [], "delivered": []}, "an answer or a delivery",
                         what="a request read on a ready connection was neither answered nor handed to an application")
        if e["ev"] == "recv":
            for fr in tr.frames[i]:
                if fr["req"]:
                    unanswered.setdefault(e["cid"], []).append((fr["cmd"], fr["app"], fr["hbh"], fr["e2e"]))
        for cid, ms in o["sends"].items():
            for s in ms:
                if s["req"]:
                    continue
                key = (s["cmd"], s["app"], s["hbh"], s["e2e"])
                if key in unanswered.get(cid, []):
                    unanswered[cid].remove(key)
                else:
                    only_answers = e["ev"] == "recv" and tr.frames[i] and all(not f["req"] for f in tr.frames[i])
                    viol("answer-matches-one-request", case_of(tr, i), s,
                         what=("the node transmitted an answer in reaction to a received answer" if only_answers else
                               "the node transmitted an answer that matches no unanswered request received on that connection"))


# ------------------------------------------------------------------------------- C08
def c08(tr, viol):
    routes = tr.routes()
    answered_e2e = {}     # origin -> list of e2e answered (for the T-flag exception)
    unseen_answers = {}   # origin -> e2e of requests answered while their connection's socket was stalled (answer not yet on the wire)
    req_origin = {}       # (hbh, e2e) -> (origin, cid) of received requests
    for i, (e, o) in enumerate(zip(tr.events, tr.obs)):
        before = tr.obs[i - 1]["snap"] if i else {"conns": []}
        if e["ev"] == "recv":
            cid = e["cid"]
            cb = conn_of(before, cid)
            # (a connection that the timers close at this very wake-up - before its bytes are read - serves nothing)
            if cb and cb[2] in (2, 3) and len(tr.frames[i]) == 1 and cid not in o["closed"]:
                fr = tr.frames[i][0]
                if fr["req"] and fr["cmd"].startswith("App"):
                    origin = fr["origin"][1].lower() if fr["origin"][0] == "Present" else None
                    if fr["t"] and origin and (fr["e2e"] in answered_e2e.get(origin, []) or fr["e2e"] in unseen_answers.get(origin, set())):
                        pass   # C17 (an answer accepted while the socket took nothing counts as well: it is queued, not yet visible)
                    else:
                        ans = next((s for s in o["sends"].get(cid, []) if not s["req"] and s["hbh"] == fr["hbh"] and s["e2e"] == fr["e2e"]), None)
                        deliv = [d for d in o["delivered"] if d[1] == fr["hbh"] and d[2] == fr["e2e"]]
                        peername = cb[3] or cb[4]
                        known = any(p["name"] == peername for p in tr.cfg["peers"])
                        if fr["missing"] and tr.cfg["validate"]:
                            want = ("answer", 5005, fr["missing"] if fr["slot"] else [])
                        elif fr["drealm"][0] == "Undeclared":
                            want = ("answer", 3007, [])
                        elif fr["drealm"][0] == "Absent":
                            want = ("answer", 5012, [])
                        elif fr["drealm"][1] not in routes:
                            want = ("answer", 3003, [])
                        else:
                            target = None
                            for ai, names in routes[fr["drealm"][1]].items():
                                if tr.cfg["apps"][ai]["id"] == fr["app"] and ((not known) or peername in names):
                                    target = ai
                                    break
                            want = ("deliver", target) if target is not None else ("answer", 3007, [])
                        if cid in o["stalled"]:
                            # the socket takes nothing: answers are queued, not written; only the hand-over is visible now
                            if want[0] == "deliver" and (len(deliv) != 1 or deliv[0][0] != want[1]):
                                viol("routing", case_of(tr, i), {"delivered": deliv}, f"deliver once to application {want[1]}",
                                     what="request not handed exactly once to the matching application")
                            if want[0] != "deliver" and deliv:
                                viol("routing", case_of(tr, i), {"delivered": deliv}, "no delivery",
                                     what="a request the node must answer itself reached an application")
                        elif want[0] == "deliver" and fr.get("tag") == 1:
                            # the application's handler raises on this request: handed over once, and "5012 when handling fails"
                            if len(deliv) != 1 or deliv[0][0] != want[1] or ans is None or ans["result"] != 5012:
                                viol("routing", case_of(tr, i), {"delivered": deliv, "answer": ans},
                                     f"deliver once to application {want[1]}, then answer 5012",
                                     what="a request whose handling fails is not answered 5012 (or was not handed to the matching application once)")
                        elif want[0] == "deliver":
                            if len(deliv) != 1 or deliv[0][0] != want[1] or ans is not None:
                                viol("routing", case_of(tr, i), {"delivered": deliv, "answer": ans}, f"deliver once to application {want[1]}",
                                     what="request not handed exactly once to the matching application")
                        else:
                            if deliv or ans is None or ans["result"] != want[1] or sorted(ans["failed"]) != sorted(want[2]):
                                viol("routing", case_of(tr, i), {"delivered": deliv, "answer": ans}, f"answer {want[1]} failed={want[2]}",
                                     what=f"request should be answered {want[1]} by the node")
            for fr in tr.frames[i]:
                if not fr["cmd"].startswith("App") and any(d[1] == fr["hbh"] and d[2] == fr["e2e"] for d in o["delivered"]):
                    viol("base-never-delivered", case_of(tr, i), fr["cmd"])
        for cid, ms in o["sends"].items():
            for s in ms:
                if not s["req"]:
                    for fr_i in range(i + 1):
                        pass
        if e["ev"] == "recv":
            for fr in tr.frames[i]:
                if fr["req"] and fr["origin"][0] == "Present":
                    req_origin[(fr["hbh"], fr["e2e"])] = (fr["origin"][1].lower(), e["cid"])
                    if e["cid"] in o["stalled"]:
                        # whatever the node answers to it now stays in the write buffer
                        unseen_answers.setdefault(fr["origin"][1].lower(), set()).add(fr["e2e"])
        if e["ev"] == "app_answer" and o["results"] and o["results"][0] == "ok":
            m_ = e["msg"]
            k_ = (m_.header.hop_by_hop_identifier, m_.header.end_to_end_identifier)
            if k_ in req_origin and req_origin[k_][1] in o["stalled"]:
                unseen_answers.setdefault(req_origin[k_][0], set()).add(k_[1])
        # remember answered requests per origin (for the T-flag rule)
        for cid, ms in o["sends"].items():
            for s in ms:
                if not s["req"]:
                    for j in range(i + 1):
                        if tr.events[j]["ev"] == "recv" and tr.events[j]["cid"] == cid:
                            for fr in tr.frames[j]:
                                if fr["req"] and fr["hbh"] == s["hbh"] and fr["e2e"] == s["e2e"] and fr["origin"][0] == "Present":
                                    answered_e2e.setdefault(fr["origin"][1].lower(), []).append(fr["e2e"])


# ------------------------------------------------------------------------------- C09
def c09(tr, viol):
    arrived = {}       # (hbh, e2e) -> cid, for requests delivered to an application and not yet answered
    sec = secondary_conns(tr)
    for i, (e, o) in enumerate(zip(tr.events, tr.obs)):
        before = tr.obs[i - 1]["snap"] if i else {"conns": []}
        if e["ev"] == "recv":
            for d in o["delivered"]:
                # a request the node answered itself in the same breath (its handler raised: 5012) is no longer open
                self_answered = any((not s["req"]) and s["hbh"] == d[1] and s["e2e"] == d[2] for s in o["sends"].get(e["cid"], [])) \
                    or any(fr.get("tag") == 1 and fr["hbh"] == d[1] and fr["e2e"] == d[2] for fr in tr.frames[i])   # (answer may be held back by a stalled socket)
                if not self_answered:
                    # (two connections may have open requests with the very same identifiers: either is "the" requester)
                    # (the same request delivered twice on one connection -- a retransmission that arrives before the
                    # answer -- is still ONE open request there)
                    if e["cid"] not in arrived.setdefault((d[1], d[2]), []):
                        arrived[(d[1], d[2])].append(e["cid"])
        if e["ev"] == "app_answer":
            m = e["msg"]
            key = (m.header.hop_by_hop_identifier, m.header.end_to_end_identifier)
            sent_on = [cid for cid, ms in o["sends"].items() if any((not s["req"]) and s["hbh"] == key[0] and s["e2e"] == key[1] for s in ms)]
            cands = arrived.get(key, [])

            def _ready(c_):
                x_ = conn_of(before, c_)
                return x_ is not None and x_[2] in (2, 3)
            want_cid = None
            if cands:
                want_cid = sent_on[0] if len(sent_on) == 1 and sent_on[0] in cands else next((c_ for c_ in cands if _ready(c_)), cands[0])
                cands.remove(want_cid)
                if not cands:
                    arrived.pop(key, None)
            cb = conn_of(before, want_cid) if want_cid is not None else None
            ok_conn = cb is not None and cb[2] in (2, 3)
            res = o["results"][0] if o["results"] else None
            if want_cid is not None and ok_conn:
                if res not in ("ok", None):
                    viol("answer-accepted", case_of(tr, i, {"requester": want_cid}), res, "ok",
                         what="the submission of an answer whose requester is connected and ready failed with " + str(res))
                elif sent_on == [] and want_cid in o["stalled"] and res == "ok":
                    pass          # accepted; held back by the socket
                elif sent_on != [want_cid]:
                    twin = [c[0] for c in before["conns"] if cb and c[0] != want_cid and c[4] == cb[4]]
                    viol("answer-to-requester", case_of(tr, i, {"requester": want_cid, "requester_is_secondary": want_cid in sec[i],
                                                                "same_host_connections": twin}), sent_on, [want_cid],
                         what="an application's answer was transmitted on a connection other than the requester's")
            else:
                if sent_on or res != "NotRoutable":
                    names = {x[3] for j in range(i) for x in tr.obs[j]["snap"]["conns"] if x[0] == want_cid}
                    twin = [c[0] for c in before["conns"] if want_cid is not None and c[0] != want_cid and c[3] and c[3] in names]
                    viol("gone-is-not-routable", case_of(tr, i, {"requester": want_cid, "same_host_connections": twin}), {"sent_on": sent_on, "result": res},
                         what="answer for a gone / already answered / unknown request was not refused with NotRoutable")


# ------------------------------------------------------------------------------- C11
def c11(tr, viol):
    last_read = {}
    dwr_at = {}
    for i, (e, o) in enumerate(zip(tr.events, tr.obs)):
        now = tr.time[i]
        snap = o["snap"]
        before = tr.obs[i - 1]["snap"] if i else {"conns": []}
        prev_read = dict(last_read)
        if e["ev"] == "recv":
            last_read[e["cid"]] = now
            for fr in tr.frames[i]:
                cb = conn_of(before, e["cid"])
                if fr["cmd"] == "DW" and not fr["req"]:
                    dwr_at.pop(e["cid"], None)
                if fr["cmd"] == "DW" and fr["req"] and cb and cb[2] in (2, 3) and len(tr.frames[i]) == 1 and not fr["missing"] \
                        and e["cid"] not in o["stalled"] and e["cid"] not in o["closed"]:
                    dwa = next((s for s in o["sends"].get(e["cid"], []) if s["cmd"] == "DW" and not s["req"] and s["hbh"] == fr["hbh"]), None)
                    if dwa is None or dwa["result"] != 2001:
                        viol("dwr-answered", case_of(tr, i), dwa, what="a DWR on a ready connection was not answered 2001")
                    elif "osid" in dwa and dwa["osid"] != NS_T0:
                        # the node's state id is the (virtual) time at which it was created
                        viol("dwr-answered", case_of(tr, i), {"origin_state_id": dwa["osid"]}, {"origin_state_id": NS_T0},
                             what="the DWA does not carry the node's own Origin-State-Id")
        for c in snap["conns"]:
            last_read.setdefault(c[0], now if c[0] not in last_read else last_read[c[0]])
        for cid, ms in o["sends"].items():
            for s in ms:
                if s["cmd"] == "DW" and s["req"]:
                    cb = conn_of(before, cid) or conn_of(snap, cid)
                    idle = tr.eff(cb, "idle") if cb else tr.cfg["idle"]
                    if cid in dwr_at:
                        viol("one-dwr", case_of(tr, i), s, what="a second DWR was sent while one is outstanding")
                    # the timer pass that reads the bytes runs before the reader thread sees them
                    # (also for clock advances: if even at the END of the advance the idle timeout has not been exceeded,
                    # no watchdog may have gone out during it)
                    if now - prev_read.get(cid, 0) <= idle:
                        viol("no-dwr-while-busy", case_of(tr, i), s, what="DWR sent although traffic arrived within the idle timeout")
                    dwr_at[cid] = now
        # a DWA read in the same wake-up in which the DWR went out has already been consumed (timers run before the reader):
        # the connection's own state says whether an answer is still awaited
        for c in snap["conns"]:
            if c[2] != 3:
                dwr_at.pop(c[0], None)
        if e["ev"] == "tick":
            for c in snap["conns"]:
                cid = c[0]
                if c[2] == 2 and not tr.obs[i]["snap"]["stopping"]:
                    if now - last_read.get(cid, now) > tr.eff(c, "idle") + tr.cfg["wakeup"]:
                        viol("idle-sends-dwr", case_of(tr, i), {"cid": cid, "idle_for": now - last_read.get(cid, now)},
                             what="a ready connection idle for longer than idle timeout + wake-up interval got no DWR")
                if c[2] == 3 and cid in dwr_at:
                    if now - dwr_at[cid] > tr.eff(c, "dwa") + tr.cfg["wakeup"]:
                        viol("silence-closes", case_of(tr, i), {"cid": cid, "waiting_for": now - dwr_at[cid]},
                             what="no DWA within the DWA timeout but the connection was not closed")
        for cid in o["closed"]:
            dwr_at.pop(cid, None)


# ------------------------------------------------------------------------------- C12
def c12(tr, viol):
    for i, (e, o) in enumerate(zip(tr.events, tr.obs)):
        snap = o["snap"]
        before = tr.obs[i - 1]["snap"] if i else {"conns": [], "peers": [(p["name"], -1, -1, -1, -1) for p in tr.cfg["peers"]]}
        now = tr.time[i]
        if e["ev"] == "recv" and len(tr.frames[i]) == 1:
            fr = tr.frames[i][0]
            cb = conn_of(before, e["cid"])
            if fr["cmd"] == "DP" and fr["req"] and cb and cb[2] in (2, 3) and not fr["missing"] \
                    and e["cid"] not in o["stalled"] and e["cid"] not in o["closed"]:
                dpa = next((s for s in o["sends"].get(e["cid"], []) if s["cmd"] == "DP" and not s["req"]), None)
                ca = conn_of(snap, e["cid"])
                if dpa is None or dpa["result"] != 2001:
                    viol("dpr-answered", case_of(tr, i), dpa)
                if ca is not None and ca[2] in (2, 3):
                    viol("dpr-not-routable", case_of(tr, i), ca[2], what="connection still offered for routing after a DPR")
                pn = cb[3] or cb[4]
                pr = next((p for p in snap["peers"] if p[0] == pn), None)
                if pr is not None and pr[2] != 0x20:
                    viol("dpr-reason", case_of(tr, i), pr[2], 0x20)
        # dialling
        out_by_peer = {}
        for c in snap["conns"]:
            if not c[1]:
                out_by_peer[c[3]] = out_by_peer.get(c[3], 0) + 1
        for name, k in out_by_peer.items():
            if k > 1:
                viol("single-outbound", case_of(tr, i), {name: k}, what="two self-initiated connections to the same peer")
        if o["dials"] and e["ev"] != "start":
            may = []
            for p in tr.cfg["peers"]:
                pb = next(x for x in before["peers"] if x[0] == p["name"])
                if p["persistent"] and p["addr"] and not (pb[2] == 0x20 and not p["always"]):
                    may.append(p["name"])
            if not may:
                viol("dial-rule", case_of(tr, i), o["dials"], what="the node dialled although no peer was eligible for reconnection")
            if before.get("stopping"):
                viol("dial-rule", case_of(tr, i), o["dials"], what="dialled while stopping")
        if e["ev"] == "tick" and not snap["stopping"]:
            for p in tr.cfg["peers"]:
                ps = next(x for x in snap["peers"] if x[0] == p["name"])
                pb = next(x for x in before["peers"] if x[0] == p["name"])
                if p["persistent"] and p["addr"] and ps[1] == -1 and pb[1] == -1 and pb[4] > 0 and not (pb[2] == 0x20 and not p["always"]):
                    if now - pb[4] >= p["rwait"] + tr.cfg["wakeup"] and o["dials"] == 0 and ps[4] == pb[4]:
                        viol("reconnect-happens", case_of(tr, i), {"peer": p["name"], "disconnected_for": now - pb[4]},
                             what="a persistent peer was not dialled again after its reconnect wait")


# ------------------------------------------------------------------------------- C13
def c13(tr, viol):
    had_conn = set()
    closed = set()
    sec = secondary_conns(tr)
    foreign = set()        # peers named by a CEA received on a connection dialled to a different peer
    for i, (e, o) in enumerate(zip(tr.events, tr.obs)):
        snap = o["snap"]
        secondary = sec[i]
        if e["ev"] == "recv":
            cb0 = conn_of(tr.obs[i - 1]["snap"], e["cid"]) if i else None
            for fr in tr.frames[i]:
                if cb0 and not cb0[1] and fr["cmd"] == "CE" and not fr["req"] and fr["origin"][0] == "Present" \
                        and fr["origin"][1].lower() != cb0[3]:
                    foreign.add(fr["origin"][1].lower())
        closed |= set(o["closed"])
        live = {c[0]: c for c in snap["conns"]}
        for name, cid, reason, lc, ld in snap["peers"]:
            owned = [c for c in snap["conns"] if (c[3] == name or (not c[3] and c[4] == name))]
            if cid != -1:
                had_conn.add(name)
                if cid not in live:
                    viol("peer-conn-live", case_of(tr, i, {"foreign_cea_peers": sorted(foreign)}), {"peer": name, "conn": cid},
                         what="peer.connection references a connection that is not in the node's tables")
                elif live[cid] not in owned:
                    viol("peer-conn-live", case_of(tr, i, {"foreign_cea_peers": sorted(foreign)}), {"peer": name, "conn": cid},
                         what="peer.connection references another peer's connection")
            else:
                # an inbound connection is the peer's once its CER has been accepted; a dialled one from the start
                handshaken = [c for c in owned if c[3] == name and ((not c[1]) or c[2] in (2, 3, 4))]
                if handshaken:
                    viol("peer-conn-exactly-when-exists", case_of(tr, i, {"secondary_connections": sorted(secondary), "foreign_cea_peers": sorted(foreign)}),
                         {"peer": name, "live": [c[0] for c in handshaken]},
                         what="a live connection of the peer exists but peer.connection is None")
                if name in had_conn and (reason == -1 or ld == -1):
                    viol("reason-set", case_of(tr, i, {"foreign_cea_peers": sorted(foreign)}), {"peer": name, "reason": reason, "last_disconnect": ld},
                         what="peer's connection was removed but disconnect reason/time are not set")
        for cid in closed:
            if cid in live or cid in snap["half"] or cid in snap["sockpeers"]:
                where = [n for n, s in (("connections", live), ("half_ready", snap["half"]), ("socket_peers", snap["sockpeers"])) if cid in s]
                viol("closed-nowhere", case_of(tr, i), {"conn": cid, "still_in": where},
                     what=f"a closed connection is still present in {where}")
        for ai, a in enumerate(tr.cfg["apps"]):
            names = [p["name"] for p in tr.cfg["peers"] if ai in p["apps"]]
            any_ready = any(live.get(cid) and live[cid][2] in (2, 3) for (n, cid, *_r) in snap["peers"] if n in names and cid != -1)
            any_conn = any(cid != -1 for (n, cid, *_r) in snap["peers"] if n in names)
            if any_ready and not snap["ready"][ai]:
                viol("ready-flag", case_of(tr, i, {"secondary_connections": sorted(secondary)}), {"app": ai},
                     what="a configured peer is ready but the application reports not ready")
            if not any_conn and snap["ready"][ai]:
                viol("ready-flag", case_of(tr, i), {"app": ai}, what="no configured peer has a connection but the application reports ready")


# ------------------------------------------------------------------------------- C17
def c17(tr, viol):
    window = {}      # origin -> list of e2e answered (most recent last)
    K = tr.cfg["rsize"]
    open_reqs = {}   # (cid, hbh, e2e) -> origin
    for i, (e, o) in enumerate(zip(tr.events, tr.obs)):
        before = tr.obs[i - 1]["snap"] if i else {"conns": []}
        if e["ev"] == "recv":
            cid = e["cid"]
            cb = conn_of(before, cid)
            for k, fr in enumerate(tr.frames[i]):
                if not (fr["req"] and cb and cb[2] in (2, 3, 4) and len(tr.frames[i]) == 1):
                    continue
                if cid in o["closed"]:
                    continue      # the timer pass of this very wake-up closed the connection before the frame was read
                origin = fr["origin"][1].lower() if fr["origin"][0] == "Present" else None
                ans = next((s for s in o["sends"].get(cid, []) if not s["req"] and s["hbh"] == fr["hbh"] and s["e2e"] == fr["e2e"]), None)
                deliv = [d for d in o["delivered"] if d[1] == fr["hbh"] and d[2] == fr["e2e"]]
                is_dup = bool(fr["t"] and origin and fr["e2e"] in window.get(origin, []) and not (fr["missing"] and tr.cfg["validate"]))
                if is_dup and cid in o["stalled"]:
                    # the socket takes nothing: the 5012 is queued, not written; only the non-delivery is visible now
                    if deliv:
                        viol("duplicate-rejected", case_of(tr, i), {"delivered": deliv},
                             what="a T-flagged repeat of an answered request was delivered to an application again")
                elif is_dup:
                    if deliv or ans is None or ans["result"] != 5012:
                        viol("duplicate-rejected", case_of(tr, i), {"delivered": deliv, "answer": ans},
                             what="a T-flagged repeat of an answered request was not rejected with 5012")
                elif fr["cmd"].startswith("App") and not fr["missing"] and fr["drealm"][0] == "Present":
                    if ans is not None and ans["result"] == 5012 and not deliv:
                        # 5012 for another reason is possible only through handler failure, which these frames do not trigger
                        viol("no-false-duplicate", case_of(tr, i), ans,
                             what="a request that is not a retransmitted duplicate was rejected with 5012")
        # window update: every answer for a request that carried an Origin-Host -- at the moment the node takes it (an
        # answer may sit in the write buffer of a socket that takes nothing: it counts from the moment it was accepted)
        def _record(key_):
            origin_ = open_reqs.pop(key_, None)
            if origin_ is not None:
                w_ = window.setdefault(origin_, [])
                w_.append(key_[2])
                del w_[:-K]
        if e["ev"] == "recv":
            cb_ = conn_of(before, e["cid"])
            for fr in tr.frames[i]:
                if fr["req"] and fr["origin"][0] == "Present":
                    open_reqs[(e["cid"], fr["hbh"], fr["e2e"])] = fr["origin"][1].lower()
                    delivered_ = any(d[1] == fr["hbh"] and d[2] == fr["e2e"] for d in o["delivered"])
                    if e["cid"] in o["stalled"] and not delivered_ and cb_ and cb_[2] in (2, 3, 4) and e["cid"] not in o["closed"] \
                            and fr.get("tag") != 1 and not (fr["cmd"] == "CE"):
                        _record((e["cid"], fr["hbh"], fr["e2e"]))      # answered by the node itself, held back by the socket
        if e["ev"] == "app_answer" and o["results"] and o["results"][0] == "ok":
            m_ = e["msg"]
            for key_ in [k_ for k_ in open_reqs if k_[1] == m_.header.hop_by_hop_identifier and k_[2] == m_.header.end_to_end_identifier]:
                if not any((not s_["req"]) and s_["hbh"] == key_[1] and s_["e2e"] == key_[2] for s_ in o["sends"].get(key_[0], [])):
                    if key_[0] in o["stalled"]:
                        _record(key_)
                        break
        for cid, ms in o["sends"].items():
            for s in ms:
                if not s["req"]:
                    _record((cid, s["hbh"], s["e2e"]))


# ------------------------------------------------------------------------------- C14 (thread deaths anywhere)
def no_deaths(tr, viol):
    seen = set()
    for i, o in enumerate(tr.obs):
        for d in o["deaths"]:
            if d not in seen:
                seen.add(d)
                viol("thread-death", case_of(tr, i), list(d), what=f"thread {d[0]} died with {d[1]}")
        for s in o["spins"]:
            if s not in seen:
                seen.add(s)
                viol("thread-spin", case_of(tr, i), list(s))


def c10(tr, viol):
    cfg = tr.cfg
    outstanding = {}      # cid -> set of hbh outstanding (requests written, unanswered)
    sent_by = {}          # (hbh, e2e) -> app index
    waiting = {}          # (hbh, e2e) -> (app, deadline): caller still blocked
    for i, (e, o) in enumerate(zip(tr.events, tr.obs)):
        now = tr.time[i]
        before = tr.obs[i - 1]["snap"] if i else {"conns": [], "peers": []}
        for k in [k for k, (a, dl) in waiting.items() if dl <= now]:
            waiting.pop(k)
        if e["ev"] == "app_request":
            app = e["app"]
            m = e["msg"]
            realm = m.destination_realm.decode() if getattr(m, "destination_realm", None) else cfg["realm"]
            names = None
            for p in cfg["peers"]:
                for r in [p["realm"]] + list(cfg.get("extra_realms", {}).get(app) or []):
                    if r == realm and app in p["apps"]:
                        names = (names or []) + [p["name"]]
            if names is None:
                dflt = [p["name"] for p in cfg["peers"] if p.get("default") and p["realm"] == realm]
                names = dflt if (dflt or realm == cfg["realm"] or any(p["realm"] == realm for p in cfg["peers"])) else None
            eligible = []
            for nme in (names or []):
                pb = next((p for p in before["peers"] if p[0] == nme), None)
                if pb and pb[1] != -1:
                    c = conn_of(before, pb[1])
                    if c and c[2] in (2, 3):
                        eligible.append(pb[1])
            reqs = [(cid, s_) for cid, ms in o["sends"].items() for s_ in ms if s_["req"] and s_["cmd"].startswith("App")]
            res = o["results"][0] if o["results"] else None
            if not eligible:
                if reqs or res != "NotRoutable":
                    viol("none-is-not-routable", case_of(tr, i), {"sent": [(c, s_["hbh"]) for c, s_ in reqs], "result": res},
                         what="no eligible ready peer, yet the request was sent or no NotRoutable was raised")
            else:
                # nothing on the wire, caller blocked: the socket takes nothing, or the timers closed the connection at this very
                # wake-up before the queued request was written
                stalled_ok = (not reqs) and res is None and any(c in o["stalled"] or c in o["closed"] for c in eligible)
                if not stalled_ok:
                    if len(reqs) != 1 or reqs[0][0] not in eligible:
                        viol("eligible-ready-peer", case_of(tr, i, {"eligible": eligible}), [(c, s_["hbh"]) for c, s_ in reqs],
                             what="a request was sent to a peer that is not an eligible ready peer for the application and realm")
                    else:
                        cid, s_ = reqs[0]
                        want = eligible[e.get("pick", 0) % len(eligible)] if len(eligible) > 1 else eligible[0]
                        if cid != want:
                            viol("selection-callback", case_of(tr, i, {"eligible": eligible}), cid, want,
                                 what="the request did not go to the peer the selection callback picked")
                        if s_["hbh"] == 0 or s_["hbh"] in outstanding.get(cid, set()):
                            viol("hop-by-hop-fresh", case_of(tr, i), s_["hbh"], what="hop-by-hop id zero or already outstanding on that connection")
            for cid, s_ in reqs:
                outstanding.setdefault(cid, set()).add(s_["hbh"])
                sent_by[(s_["hbh"], s_["e2e"])] = app
                waiting[(s_["hbh"], s_["e2e"])] = (app, now + e["timeout"])
        if e["ev"] == "recv":
            for fr in tr.frames[i]:
                if fr["req"] or not fr["cmd"].startswith("App"):
                    continue
                key = (fr["hbh"], fr["e2e"])
                cb = conn_of(before, e["cid"])
                if not cb or cb[2] not in (2, 3, 4):
                    continue
                got_answer = [a for a in o["answered"] if (a[1], a[2]) == key]
                unexp = [u for u in o["unexpected"] if u[1] == fr["hbh"]]
                if key in waiting and key in sent_by:
                    app, _dl = waiting.pop(key)
                    outstanding.get(e["cid"], set()).discard(fr["hbh"])
                    if len(tr.frames[i]) == 1 and (len(got_answer) != 1 or got_answer[0][0] != app):
                        viol("answer-to-sender", case_of(tr, i), {"answered": o["answered"], "unexpected": o["unexpected"]},
                             what="the blocked sender did not receive the answer bearing its identifiers")
                    sent_by.pop(key, None)
                elif key in sent_by:
                    app = sent_by.pop(key)
                    if got_answer or (len(tr.frames[i]) == 1 and [u[0] for u in unexp] != [app]):
                        viol("late-answer-to-unexpected-handler", case_of(tr, i), {"answered": o["answered"], "unexpected": o["unexpected"]}, app,
                             what="a late answer was not passed to the unexpected-answer handler of the sending application only")
                else:
                    if got_answer or unexp:
                        viol("unknown-answer-ignored", case_of(tr, i), {"answered": o["answered"], "unexpected": o["unexpected"]},
                             what="an answer with unknown identifiers reached an application")
        for cid in o["closed"]:
            outstanding.pop(cid, None)


def c18(tr, viol):
    stopping_from = None
    backlog = set()
    for i, (e, o) in enumerate(zip(tr.events, tr.obs)):
        before = tr.obs[i - 1]["snap"] if i else {"conns": [], "peers": []}
        if e["ev"] == "stop":
            stopping_from = i
            # output queued before the stop on a socket that took nothing is written whenever the socket recovers
            backlog = {cid for j in range(i + 1) for cid in tr.obs[j]["stalled"]}
            ready = sorted(c[0] for c in before["conns"] if c[2] in (2, 3))
            dpr = sorted(cid for cid, ms in o["sends"].items() for s_ in ms if s_["cmd"] == "DP" and s_["req"])
            held = [c for c in ready if c in o["stalled"]]
            want = [] if e["force"] else [c for c in ready if c not in held]
            if dpr != want:
                viol("dpr-to-ready-peers", case_of(tr, i), dpr, want,
                     what="stop() must send a DPR to exactly the ready peers (none when forced)")
            continue
        if stopping_from is not None:
            for cid, ms in o["sends"].items():
                for s_ in ms:
                    if s_["req"] and s_["cmd"] in ("DW", "CE") and cid not in backlog:
                        viol("quiet-while-stopping", case_of(tr, i), s_, what="a DWR/CER was sent while the node is stopping")
            if o["dials"]:
                viol("quiet-while-stopping", case_of(tr, i), o["dials"], what="a peer was dialled while the node is stopping")
            if e["ev"] == "accept":
                newc = [c for c in o["snap"]["conns"] if conn_of(before, c[0]) is None]
                if newc:
                    viol("newcomers-refused", case_of(tr, i), [c[0] for c in newc], what="a connection arriving during shutdown was registered")
            if e["ev"] == "recv" and len(tr.frames[i]) == 1 and tr.frames[i][0]["cmd"] == "DP" and not tr.frames[i][0]["req"]:
                cb = conn_of(before, e["cid"])
                if cb and cb[2] == 4 and e["cid"] not in o["stalled"] and conn_of(o["snap"], e["cid"]) is not None:
                    viol("close-after-dpa", case_of(tr, i), "still open", what="connection not closed after its DPA arrived and output was flushed")
            if e["ev"] == "stop_finish":
                if not e.get("returned"):
                    viol("stop-returns", case_of(tr, i), "stop() did not return")
                if o["snap"]["conns"] or o["open_sockets"] or any(o["listeners_open"]):
                    viol("all-closed", case_of(tr, i), {"connections": [c[0] for c in o["snap"]["conns"]], "open_sockets": o["open_sockets"],
                                                       "listeners_open": o["listeners_open"]},
                         what="after stop() returned a peer or listening socket is still open")
                if e.get("returned") and "apps_stopped" in o and o["apps_stopped"] != list(range(o.get("n_apps", 0))):
                    viol("apps-stopped", case_of(tr, i), {"stopped": o["apps_stopped"], "applications": o.get("n_apps")},
                         what="stop() returned but not every application was stopped")
                workers = {k: v for k, v in o["live_threads"].items() if k not in ("spawn",)}
                if workers:
                    viol("threads-terminate", case_of(tr, i), workers, what="node / connection worker threads still alive after stop()")


ORACLES = {"C10": c10, "C18": c18, "C06": c06, "C07": c07, "C08": c08, "C09": c09, "C11": c11, "C12": c12, "C13": c13, "C17": c17}
