"""Scenario runner for the node layer: runs a scenario (configuration + event list) on the
real diameter.node under tools/vsim and renders the same scenario, together with the
observations, as a Coq term for Model/Node.v."""
from __future__ import annotations

import errno

from vsim import Sim

import vlib

T0 = 1_700_000_000
STATE = {0x10: "SConnecting", 0x11: "SConnected", 0x12: "SReady", 0x13: "SReadyWaitDwa",
         0x1a: "SDisconnecting", 0x1b: "SClosing", 0x1c: "SClosed"}
STATE_CODE = {"SConnecting": 0, "SConnected": 1, "SReady": 2, "SReadyWaitDwa": 3, "SDisconnecting": 4,
              "SClosing": 5, "SClosed": 6}
CMD = {257: "CE", 280: "DW", 282: "DP"}


def default_cfg():
    return dict(host="srv.example.net", realm="example.net", cea=4, cer=4, dwa=4, idle=30, wakeup=6,
                rsize=10240, validate=True, e2e_rand=77, apps=[dict(id=4, auth=True, acct=False)],
                peers=[dict(name="cli0.example.net", realm="example.net", addr=False, persistent=False,
                            always=False, cea=None, cer=None, dwa=None, idle=None, rwait=30, apps=[0], default=False)],
                extra_realms={})


# ------------------------------------------------------------------ message specs
def build_message(spec):
    """spec -> real Message bytes.  spec keys: kind in cer|cea|dwr|dwa|dpr|dpa|req|ans|raw ..."""
    from diameter.message import Message, MessageHeader, Avp, constants
    from diameter.message.commands import (CapabilitiesExchangeRequest, CapabilitiesExchangeAnswer,
                                           DeviceWatchdogRequest, DeviceWatchdogAnswer, DisconnectPeerRequest,
                                           DisconnectPeerAnswer, CreditControlRequest, CreditControlAnswer)
    k = spec["kind"]
    hbh, e2e = spec.get("hbh", 1), spec.get("e2e", 1)
    if k == "cer":
        m = CapabilitiesExchangeRequest()
        if spec.get("host") is not None:
            m.origin_host = spec["host"].encode()
        m.origin_realm = spec.get("orealm", "example.net").encode()
        m.host_ip_address = ["10.1.0.1"]
        m.vendor_id = 1
        m.product_name = "sim"
        m.auth_application_id = list(spec.get("auth", [4]))
        m.acct_application_id = list(spec.get("acct", []))
        if spec.get("vsai"):
            # the 3GPP way: the applications are advertised inside Vendor-Specific-Application-Id only
            from diameter.message.avp.grouped import VendorSpecificApplicationId
            m.vendor_specific_application_id = (
                [VendorSpecificApplicationId(vendor_id=10415, auth_application_id=a) for a in m.auth_application_id] +
                [VendorSpecificApplicationId(vendor_id=10415, acct_application_id=a) for a in m.acct_application_id])
            m.auth_application_id, m.acct_application_id = [], []
    elif k == "cea":
        m = CapabilitiesExchangeAnswer()
        if spec.get("result") is not None:
            m.result_code = spec["result"]
        if spec.get("host") is not None:
            m.origin_host = spec["host"].encode()
        m.origin_realm = b"example.net"
        m.host_ip_address = ["10.1.0.1"]
        m.vendor_id = 1
        m.product_name = "sim"
        m.auth_application_id = list(spec.get("auth", [4]))
        m.acct_application_id = list(spec.get("acct", []))
    elif k in ("dwr", "dpr"):
        m = DeviceWatchdogRequest() if k == "dwr" else DisconnectPeerRequest()
        if spec.get("host", "x") is not None:
            m.origin_host = spec.get("host", "cli0.example.net").encode()
        m.origin_realm = b"example.net"
        if spec.get("osid") is not None:
            m.origin_state_id = spec["osid"]
        if k == "dpr":
            m.disconnect_cause = 0
    elif k in ("dwa", "dpa"):
        m = DeviceWatchdogAnswer() if k == "dwa" else DisconnectPeerAnswer()
        m.result_code = spec.get("result", 2001)
        if spec.get("host", "x") is not None:
            m.origin_host = spec.get("host", "cli0.example.net").encode()
        m.origin_realm = b"example.net"
    elif k == "req" and spec.get("code") == 271:      # Accounting-Request (RFC 6733 9.7.1)
        from diameter.message.commands import AccountingRequest
        m = AccountingRequest()
        m.session_id = "acct;%d" % e2e
        m.origin_host = spec.get("host", "cli0.example.net").encode()
        m.origin_realm = b"example.net"
        m.destination_realm = spec.get("drealm", "example.net").encode()
        m.accounting_record_type = 1
        m.accounting_record_number = 0
        m.acct_application_id = spec.get("app", 4)
        m.header.application_id = spec.get("hdr_app", spec.get("app", 4))
    elif k == "req":        # application request (Credit-Control unless code given)
        if spec.get("code", 272) == 272:
            m = CreditControlRequest()
            if not spec.get("no_session"):
                # the harness application raises on requests whose session id starts with "raise;"
                m.session_id = ("raise;%d" if spec.get("raises") else "s;%d") % e2e
            if spec.get("host", "x") is not None:
                m.origin_host = spec.get("host", "cli0.example.net").encode()
            m.origin_realm = b"example.net"
            if spec.get("drealm_raw") is not None:
                m.destination_realm = spec["drealm_raw"]          # bytes that are not text
            elif spec.get("drealm", "example.net") is not None:
                m.destination_realm = spec.get("drealm", "example.net").encode()
            m.service_context_id = "ctx"
            if not spec.get("no_type"):
                m.cc_request_type = 1
            m.cc_request_number = 0
            m.auth_application_id = spec.get("app", 4)
        else:
            m = Message()
            m.header.command_code = spec["code"]
            m.header.is_request = True
            if spec.get("host", "x") is not None:
                m.append_avp(Avp.new(constants.AVP_ORIGIN_HOST, value=spec.get("host", "cli0.example.net").encode()))
            for sid in spec.get("sessions", ()):
                m.append_avp(Avp.new(constants.AVP_SESSION_ID, value=sid))
            if spec.get("host2") is not None:
                # a second Origin-Host AVP: a command without a python class exposes repeated AVPs as a list
                m.append_avp(Avp.new(constants.AVP_ORIGIN_HOST, value=spec["host2"].encode()))
            if spec.get("drealm", "example.net") is not None:
                m.append_avp(Avp.new(constants.AVP_DESTINATION_REALM, value=spec.get("drealm", "example.net").encode()))
        m.header.application_id = spec.get("hdr_app", spec.get("app", 4))
        if spec.get("t"):
            m.header.is_retransmit = True
    elif k == "ans":        # application answer
        m = CreditControlAnswer()
        m.session_id = "s;%d" % e2e
        if spec.get("result", 2001) is not None:
            m.result_code = spec.get("result", 2001)
        if spec.get("host", "x") is not None:
            m.origin_host = spec.get("host", "cli0.example.net").encode()
        m.origin_realm = b"example.net"
        m.auth_application_id = 4
        m.cc_request_type = 1
        m.cc_request_number = 0
        m.header.application_id = spec.get("app", 4)
    else:
        raise ValueError(k)
    m.header.hop_by_hop_identifier = hbh
    m.header.end_to_end_identifier = e2e
    return m.as_bytes()


# required AVPs of the base-protocol requests per RFC 6733: CER (Origin-Host, Origin-Realm, Host-IP-Address, Vendor-Id,
# Product-Name), DWR (Origin-Host, Origin-Realm), DPR (Origin-Host, Origin-Realm, Disconnect-Cause)
RFC6733_REQUIRED = {257: [264, 296, 257, 266, 269], 280: [264, 296], 282: [264, 296, 273]}


def abstract(wire):
    """The node's view of a received frame, as the record `msg` of Model/Node.v (Coq text) + a dict."""
    from diameter.message import Message
    m = Message.from_bytes(wire)
    # the header as it stands on the WIRE (RFC 6733 section 3), not as the library's decoder reports it
    w_flags = wire[4]
    w_code = int.from_bytes(wire[5:8], "big")
    w_app, w_hbh, w_e2e = (int.from_bytes(wire[k:k + 4], "big") for k in (8, 12, 16))
    code = w_code
    cmd = CMD.get(code)
    is_req_ = bool(w_flags & 0x80)

    def pres(attr, dec=True):
        if not hasattr(m, attr):
            return "Undeclared", None
        v = getattr(m, attr)
        if isinstance(v, list):
            # a repeated AVP of a command without a python class: the node goes by the first occurrence
            v = v[0] if v else None
        if v is None:
            return "Absent", None
        if isinstance(v, bytes) and dec:
            try:
                v = v.decode()
            except UnicodeDecodeError:
                # not text at all: the node's own .decode() fails -- the case the model has as "no usable value"
                return "Absent", None
        return "Present", v
    o = pres("origin_host")
    dr = pres("destination_realm")
    rc = pres("result_code", False)
    # required AVPs that are missing: decided from the WIRE (reference parser) and the class's definition table, not by
    # the implementation's own validator -- absent on the wire and not filled in by the class on its own
    missing = []
    if is_req_ and code in RFC6733_REQUIRED:
        # base-protocol requests: what RFC 6733 requires (sections 5.3.1, 5.4.1, 5.5.1), not what the library's table says
        import implobs
        present = {(c, v) for c, _f, v, _p in implobs.ref_parse_avps(wire[20:])}
        missing = [(c, 0) for c in RFC6733_REQUIRED[code] if (c, 0) not in present]
    elif is_req_ and getattr(type(m), "avp_def", None):
        import implobs
        present = {(c, v) for c, _f, v, _p in implobs.ref_parse_avps(wire[20:])}
        fresh = type(m)()
        for d_ in type(m).avp_def:
            if d_.is_required and (d_.avp_code, d_.vendor_id) not in present and getattr(fresh, d_.attr_name, None) is None \
                    and (d_.avp_code, d_.vendor_id) not in missing:
                missing.append((d_.avp_code, d_.vendor_id))
    slot = False
    try:
        ans = m.to_answer()
        slot = any(d.attr_name == "failed_avp" for d in getattr(type(ans), "avp_def", ()))
    except Exception:   # noqa
        pass
    auth, acct = [], []
    if code == 257:
        auth = list(getattr(m, "auth_application_id", None) or [])
        acct = list(getattr(m, "acct_application_id", None) or [])
        for v in (getattr(m, "vendor_specific_application_id", None) or []):
            if getattr(v, "auth_application_id", None) is not None:
                auth.append(v.auth_application_id)
            if getattr(v, "acct_application_id", None) is not None:
                acct.append(v.acct_application_id)
    is_req = bool(w_flags & 0x80)
    tag = 1 if (is_req and str(getattr(m, "session_id", "") or "").startswith("raise;")) else 0
    d = dict(tag=tag, cmd=cmd or f"App {code}", req=is_req, p=bool(w_flags & 0x40), e=bool(w_flags & 0x20), t=bool(w_flags & 0x10),
             app=w_app, hbh=w_hbh, e2e=w_e2e,
             origin=o, drealm=dr, result=rc, missing=missing, slot=slot, auth=auth, acct=acct)
    return d


def coq_pres_s(p):
    return p[0] if p[0] != "Present" else f"(Present {vlib.coq_string(p[1].lower() if isinstance(p[1], str) else str(p[1]))})"


def coq_pres_exact(p):
    """as it stands on the wire (realm names are looked up as spelt)"""
    return p[0] if p[0] != "Present" else f"(Present {vlib.coq_string(p[1] if isinstance(p[1], str) else str(p[1]))})"


def coq_pres_z(p):
    return p[0] if p[0] != "Present" else f"(Present {p[1]})"


def coq_cmd(c):
    return c if c in ("CE", "DW", "DP") else f"({c})"


def coq_msg(d):
    miss = "[" + "; ".join(f"({c}, {v})" for c, v in d["missing"]) + "]"
    return ("{| m_cmd := %s; m_req := %s; m_p := %s; m_e := %s; m_t := %s; m_app := %d; m_hbh := %d; m_e2e := %d; "
            "m_origin := %s; m_drealm := %s; m_result := %s; m_missing := %s; m_has_failed_avp_slot := %s; "
            "m_auth := %s; m_acct := %s; m_tag := %d |}") % (
        coq_cmd(d["cmd"]), b(d["req"]), b(d["p"]), b(d["e"]), b(d["t"]), d["app"], d["hbh"], d["e2e"],
        coq_pres_s(d["origin"]), coq_pres_exact(d["drealm"]), coq_pres_z(d["result"]), miss, b(d["slot"]),
        vlib.zlist(d["auth"]), vlib.zlist(d["acct"]), d.get("tag", 0))


def b(x):
    return "true" if x else "false"


def out_abstract(msg):
    """a frame the node wrote -> omsg fields"""
    h = msg.header
    code = h.command_code
    rc = getattr(msg, "result_code", None) if hasattr(msg, "result_code") else None
    failed = []
    fa = getattr(msg, "failed_avp", None) if hasattr(msg, "failed_avp") else None
    if fa:
        for f in (fa if isinstance(fa, list) else [fa]):
            for a in getattr(f, "additional_avps", []):
                failed.append((a.code, a.vendor_id))
    d = dict(cmd=CMD.get(code) or f"App {code}", req=h.is_request, flags=h.command_flags, app=h.application_id,
             hbh=h.hop_by_hop_identifier, e2e=h.end_to_end_identifier, result=rc, failed=failed)
    if code == 280 and not h.is_request:
        d["osid"] = getattr(msg, "origin_state_id", None)
    if code == 257:      # what a capabilities-exchange message advertises (oracle only)
        def lst(x):
            return sorted(x) if isinstance(x, (list, tuple, set)) else ([] if x is None else [x])
        d["ce"] = dict(origin_host=(getattr(msg, "origin_host", None) or b"").decode(errors="replace"),
                       origin_realm=(getattr(msg, "origin_realm", None) or b"").decode(errors="replace"),
                       auth=lst(getattr(msg, "auth_application_id", None)), acct=lst(getattr(msg, "acct_application_id", None)),
                       vendor_id=getattr(msg, "vendor_id", None), product_name=getattr(msg, "product_name", None),
                       host_ip=[str(x[1]) if isinstance(x, tuple) else str(x) for x in (getattr(msg, "host_ip_address", None) or [])])
    return d


def coq_omsg(d):
    return ("{| o_cmd := %s; o_req := %s; o_app := %d; o_hbh := %d; o_e2e := %d; o_result := %s; o_failed := %s; o_tag := 0 |}" % (
        coq_cmd(d["cmd"]), b(d["req"]), d["app"], d["hbh"], d["e2e"],
        "None" if d["result"] is None else f"(Some {d['result']})",
        "[" + "; ".join(f"({c}, {v})" for c, v in d["failed"]) + "]"))


def _sent_answers_view(sa):
    """per-origin windows as [(origin, [e2e...])]; another container shape is rendered as one pseudo-origin so that the
    comparison with the model fails instead of the harness"""
    def name(o):
        return o.decode() if isinstance(o, bytes) else ("<none>" if o is None else str(o))
    try:
        if isinstance(sa, dict):
            return sorted((name(o), [x if isinstance(x, int) else -1 for x in d]) for o, d in sa.items())
        return [("<not per origin: %s>" % type(sa).__name__, [])]
    except Exception:   # noqa
        return [("<unreadable>", [])]


def _idkey(k):
    """key of a transaction table -> (hbh, e2e); tolerant of other key shapes so that a changed implementation is
    reported as a disagreement, not as a harness crash"""
    try:
        if isinstance(k, tuple):
            return (int(k[0]), int(k[1]))
        parts = [int(x) for x in str(k).split(":")]
        return (parts[0], parts[1]) if len(parts) >= 2 else (parts[0], -1)
    except Exception:   # noqa
        return (-1, -1)


# ------------------------------------------------------------------ running on the implementation
class Run:
    def __init__(self, cfg, seed=0, policy="fifo", app_kind="manual"):
        self.cfg = cfg
        self.sim = Sim(seed=seed, policy=policy, t0=T0)
        sim = self.sim
        # Node(): SequenceGenerator(state_id) -> randint(1, 0xfffff); SessionGenerator -> getrandbits(64)
        sim.script_random([cfg["e2e_rand"], 12345])
        N = sim.node_mod
        # (cfg["ips"] > 1: the node listens on several local addresses; connections are made to the first)
        node = N.Node(cfg["host"], cfg["realm"], ip_addresses=["10.0.0.%d" % (k + 1) for k in range(cfg.get("ips", 1))], tcp_port=3868)
        node.cea_timeout, node.cer_timeout = cfg["cea"], cfg["cer"]
        node.dwa_timeout, node.idle_timeout = cfg["dwa"], cfg["idle"]
        node.wakeup_interval = cfg["wakeup"]
        node.retransmit_queue_size = cfg["rsize"]
        node.validate_received_request_avps = cfg["validate"]
        self.node = node
        self.delivered = []          # (app index, Message)
        self.unexpected = []
        self.apps_stopped = set()
        self.apps = []
        run = self

        class ManualApp(sim.app_mod.Application):
            def __init__(self, idx, *a, **kw):
                super().__init__(*a, **kw)
                self.idx = idx

            def handle_request(self, message):
                run.delivered.append((self.idx, message))
                if str(getattr(message, "session_id", "") or "").startswith("raise;"):
                    raise RuntimeError("application handler failed")

            def handle_answer(self, message):
                run.unexpected.append((self.idx, message))

            def stop(self):
                run.apps_stopped.add(self.idx)
                super().stop()
        peers = []
        for p in cfg["peers"]:
            # upper_uri: the peer is CONFIGURED with capitals in its name; on the wire and everywhere else it is the same
            # (case-insensitive) identity
            pr = node.add_peer("aaa://" + (p["name"].upper() if cfg.get("upper_uri") else p["name"]), p["realm"], ip_addresses=(["10.1.0.9"] if p["addr"] else []),
                               is_persistent=p["persistent"], is_default=p.get("default", False))
            pr.always_reconnect = p["always"]
            pr.cea_timeout, pr.cer_timeout, pr.dwa_timeout, pr.idle_timeout = p["cea"], p["cer"], p["dwa"], p["idle"]
            pr.reconnect_wait = p["rwait"]
            peers.append(pr)
        for i, a in enumerate(cfg["apps"]):
            ap = ManualApp(i, a["id"], is_acct_application=a["acct"], is_auth_application=a["auth"])
            node.add_application(ap, [peers[j] for j, p in enumerate(cfg["peers"]) if i in p["apps"]],
                                 realms=cfg.get("extra_realms", {}).get(i))
            self.apps.append(ap)
        self.remotes = []           # cid -> Remote
        self.sent_ptr = {}
        self.dial_ptr = 0
        self.results = []           # results of driver-spawned application calls
        self.stalled = set()
        self.calls = []             # [handle, app index, message] of blocked send_request callers
        self.answered = []          # (app index, hbh, e2e) answers handed back to blocked callers
        self.timeouts = []
        self.stop_handle = None
        self.pick = [0]
        node.peer_route_select_func = lambda nd, ap, msg, peers: peers[self.pick[0] % len(peers)]

    def start(self, dials=()):
        self.node.start()
        self.sim.run()
        self._collect_new_remotes()

    def _script_dials(self, dials):
        # scripts left over from an earlier event must not leak into this one
        del self.sim._connect_script[:]
        del self.sim._random_script[:]
        outs, rnd = [], []
        for h0, res in dials:
            outs.append({"DialOk": "ok", "DialRefused": "refused", "DialInProgress": ("inprogress", "ok")}[res])
            rnd.append(h0)
        if outs:
            self.sim.script_connect(outs)
            self.sim.script_random(rnd)

    def _collect_new_remotes(self):
        for r in self.sim.remotes:
            if r not in self.remotes:
                self.remotes.append(r)

    def cid_of_ident(self):
        """connection ident -> cid, through the socket fileno"""
        m = {}
        for ident, c in list(self.node.connections.items()) + list(self.node._half_ready_connections.items()):
            for cid, r in enumerate(self.remotes):
                if r.fileno == c.socket_fileno:
                    m[ident] = cid
        return m

    def apply(self, ev):
        sim, node = self.sim, self.node
        k = ev["ev"]
        n_deliv, n_unexp, n_dials, n_res = len(self.delivered), len(self.unexpected), len(sim.connect_calls), len(self.results)
        closed_before = [r.closed_by_node for r in self.remotes]
        self._script_dials(ev.get("dials", ()))
        if k == "accept":
            # the accepted connection's SequenceGenerator draws first
            rs = list(sim._random_script)
            del sim._random_script[:]
            sim.script_random([ev["hbh0"]] + rs)
            sim.connect_in()
            sim.run()
            self._collect_new_remotes()
        elif k == "recv":
            # "raw": the bytes of this read when they are not exactly the frames that become complete with it
            self.remotes[ev["cid"]].feed(ev["raw"] if "raw" in ev else b"".join(ev["frames"]))
            sim.run()
        elif k == "close":
            self.remotes[ev["cid"]].close()
            sim.run()
        elif k == "readerr":
            self.remotes[ev["cid"]].inject_read_error(errno.ECONNRESET if ev["hard"] else errno.EAGAIN)
            sim.run()
        elif k == "conndone":
            self.remotes[ev["cid"]].complete_connect(error=0 if ev["ok"] else errno.ECONNREFUSED)
            sim.run()
        elif k == "stall":
            (self.stalled.add if ev["on"] else self.stalled.discard)(ev["cid"])
            self.remotes[ev["cid"]].stall_writes(ev["on"])
            sim.run()
        elif k == "tick":
            sim.advance(ev["dt"])
            self._collect_new_remotes()
        elif k == "app_answer":
            app = self.apps[ev["app"]]
            msg = ev["msg"]

            def call():
                try:
                    app.send_answer(msg)
                    return "ok"
                except Exception as e:   # noqa
                    return type(e).__name__
            hnd = sim.spawn(call, name="answer")
            sim.run()
            self.results.append(hnd.result if hnd.done else "blocked")
        elif k == "start":
            try:
                self.start(ev.get("dials", ()))
            except Exception as e:   # noqa -- Node.start() itself failed: recorded like the abnormal end of a thread
                sim.thread_deaths.append(("driver:Node.start", f"{type(e).__name__}: {e}"))
        elif k == "app_request":
            app = self.apps[ev["app"]]
            msg = ev["msg"]
            self.pick[0] = ev.get("pick", 0)

            def call(app=app, msg=msg, timeout=ev["timeout"], idx=ev["app"]):
                try:
                    a = app.send_request(msg, timeout=timeout)
                    self.answered.append((idx, a.header.hop_by_hop_identifier, a.header.end_to_end_identifier))
                    return "ok"
                except Exception as e:   # noqa
                    if type(e).__name__ == "TimeoutError":
                        self.timeouts.append((idx, msg.header.hop_by_hop_identifier))
                    return type(e).__name__
            hnd = sim.spawn(call, name="request")
            sim.run()
            if hnd.done:
                self.results.append(hnd.result)
            else:
                self.calls.append(hnd)
        elif k == "stop":
            node_ = self.node

            def call(force=ev["force"], timeout=ev["timeout"]):
                node_.stop(wait_timeout=timeout, force=force)
                return "stopped"
            self.stop_handle = sim.spawn(call, name="stop")
            sim.run()
        elif k == "stop_finish":
            # let virtual time pass until stop() returns
            sim.run_until(lambda: self.stop_handle.done, timeout=ev.get("max", 400))
            ev["tclose"] = max([p.last_disconnect - T0 for p in node.peers.values() if p.last_disconnect] + [0]) if ev.get("tclose") is None else ev["tclose"]
            ev["tend"] = int(sim.rel_now)
            ev["returned"] = self.stop_handle.done
            sim.advance(7)       # connection workers poll their queues every 5 s before they notice the stop flag
        else:
            raise ValueError(k)
        self._collect_new_remotes()
        closed_before += [False] * (len(self.remotes) - len(closed_before))
        # observations -------------------------------------------------------------------
        sends = {}
        for cid, r in enumerate(self.remotes):
            try:
                msgs = r.take_messages()
            except Exception:   # noqa
                msgs = []
            if msgs:
                sends[cid] = [out_abstract(m) for m in msgs]
        n_ans = getattr(self, "_n_ans", 0)
        self._n_ans = len(self.answered)
        obs = dict(
            answered=self.answered[n_ans:], now=int(sim.rel_now), exact_now=sim.rel_now,
            live_threads=sim.live_threads_by_role(),
            open_sockets=[cid for cid, r in enumerate(self.remotes) if not r.closed_by_node],
            listeners_open=[not getattr(l, "closed", False) for l in sim.listeners],
            apps_stopped=sorted(self.apps_stopped), n_apps=len(self.apps),
            sends=sends,
            delivered=[(i, m.header.hop_by_hop_identifier, m.header.end_to_end_identifier) for i, m in self.delivered[n_deliv:]],
            unexpected=[(i, m.header.hop_by_hop_identifier) for i, m in self.unexpected[n_unexp:]],
            closed=[cid for cid, r in enumerate(self.remotes) if r.closed_by_node and not (closed_before + [False] * 99)[cid]],
            dials=len(sim.connect_calls) - n_dials,
            results=self.results[n_res:],
            deaths=list(sim.thread_deaths), spins=list(sim.spins), stalled=sorted(self.stalled),
            snap=self.snapshot())
        return obs

    def snapshot(self):
        node = self.node
        idmap = self.cid_of_ident()
        peers = []
        for name, p in node.peers.items():
            c = p.connection
            if c is None:
                cid = -1
            else:   # also resolves a dangling reference to a connection that has left the tables
                cid = next((k for k, r in enumerate(self.remotes) if r.fileno == c.socket_fileno), 99)
            peers.append((name, cid, -1 if p.disconnect_reason is None else p.disconnect_reason,
                          -1 if p.last_connect is None else p.last_connect - T0,
                          -1 if p.last_disconnect is None else p.last_disconnect - T0))
        conns = []
        for ident, c in node.connections.items():
            cid = idmap.get(ident, 99)
            r = self.remotes[cid] if cid < len(self.remotes) else None
            conns.append((cid, c.is_receiver, STATE_CODE[STATE[c.state]], c.node_name, c.host_identity,
                          sorted(c.auth_application_ids), sorted(c.acct_application_ids), c.is_waiting_for_dwa,
                          bool(r and not r.closed_by_node)))
        conns.sort()
        fmap = {r.fileno: cid for cid, r in enumerate(self.remotes)}
        return dict(
            peers=peers, conns=conns,
            half=sorted(idmap.get(i, 99) for i in node._half_ready_connections),
            sockpeers=sorted(fmap.get(f, 99) for f in node.socket_peers),
            peer_waiting=sorted((h, sorted((k if isinstance(k, tuple) else (k, 0)) for k in d)) for h, d in node._peer_waiting_answer.items()),
            app_waiting=sorted(_idkey(k) for k in node._app_waiting_answer),
            # keys of this table are "<connection>:<hop-by-hop>:<end-to-end>" (or, before the repair, without the connection)
            origin_waiting=sorted(_idkey(":".join(str(k).split(":")[-2:])) for k in node._origin_waiting_answer),
            sent_answers=_sent_answers_view(node._sent_answers),
            ready=[a.is_ready.is_set() for a in self.apps],
            # keys are (hop-by-hop, end-to-end) pairs (before repair 18d5bde: the hop-by-hop identifier alone); the model's
            # observation compares the hop-by-hop identifiers of the waiting senders
            answer_waiting=[sorted((k[0] if isinstance(k, tuple) else k) for k in a._answer_waiting) for a in self.apps],
            stopping=node._stopping)

    def shutdown(self):
        self.sim.shutdown()


# ------------------------------------------------------------------ Coq rendering
def coq_cfg(cfg):
    def opt(x):
        return "None" if x is None else f"(Some {x})"
    peers = "; ".join(
        "{| p_name := %s; p_realm := %s; p_has_addr := %s; p_persistent := %s; p_always := %s; p_cea := %s; p_cer := %s; "
        "p_dwa := %s; p_idle := %s; p_rwait := %d; p_conn := None; p_reason := None; p_lastconn := None; p_lastdisc := None; p_reqs := 0 |}" % (
            vlib.coq_string(p["name"]), vlib.coq_string(p["realm"]), b(p["addr"]), b(p["persistent"]), b(p["always"]),
            opt(p["cea"]), opt(p["cer"]), opt(p["dwa"]), opt(p["idle"]), p["rwait"]) for p in cfg["peers"])
    apps = "; ".join("{| a_id := %d; a_auth := %s; a_acct := %s; a_ready := false; a_waiting := [] |}" % (a["id"], b(a["auth"]), b(a["acct"]))
                     for a in cfg["apps"])
    # route table as Node.add_peer / add_application build it
    routes = {cfg["realm"]: {"_default": []}}
    for p in cfg["peers"]:
        if p.get("default"):
            routes.setdefault(p["realm"], {}).setdefault("_default", []).append(p["name"])
    for i, a in enumerate(cfg["apps"]):
        for p in cfg["peers"]:
            if i in p["apps"]:
                for realm in [p["realm"]] + list(cfg.get("extra_realms", {}).get(i) or []):
                    routes.setdefault(realm, {}).setdefault(i, []).append(p["name"])
    rt = []
    for realm, ent in routes.items():
        items = []
        for k, names in ent.items():
            key = "RDefault" if k == "_default" else f"RApp {k}%nat"
            items.append(f"({key}, [{'; '.join(vlib.coq_string(n) for n in names)}])")
        rt.append(f"({vlib.coq_string(realm)}, [{'; '.join(items)}])")
    state_id = T0
    e2e0 = ((state_id << 20) | cfg["e2e_rand"]) & 0xffffffff
    return ("{| n_cfg := {| g_host := %s; g_realm := %s; g_cea := %d; g_cer := %d; g_dwa := %d; g_idle := %d; g_wakeup := %d; "
            "g_rsize := %d%%nat; g_validate := %s; g_state_id := %d |}; n_now := 0; n_io_deadline := %d; n_stopping := false; "
            "n_peers := [%s]; n_conns := []; n_next_cid := 0%%nat; n_half_ready := []; n_socket_peers := []; n_routes := [%s]; "
            "n_apps := [%s]; n_app_waiting := []; n_peer_waiting := []; n_origin_waiting := []; n_sent_answers := []; n_e2e := %d |}" % (
                vlib.coq_string(cfg["host"]), vlib.coq_string(cfg["realm"]), cfg["cea"], cfg["cer"], cfg["dwa"], cfg["idle"],
                cfg["wakeup"], cfg["rsize"], b(cfg["validate"]), state_id, cfg["wakeup"], peers, "; ".join(rt), apps, e2e0))


def coq_dials(dials):
    if not dials:
        return "(@nil (Z * dial_result))"
    return "[" + "; ".join(f"({h}, {r})" for h, r in dials) + "]"


def coq_event(ev):
    k = ev["ev"]
    if k == "accept":
        return f"(EAccept {ev['hbh0']})"
    if k == "recv":
        return f"(ERecv {ev['cid']}%nat [{'; '.join(coq_msg(abstract(f)) for f in ev['frames'])}])"
    if k == "close":
        return f"(EPeerClose {ev['cid']}%nat)"
    if k == "readerr":
        return f"(EReadErr {ev['cid']}%nat {b(ev['hard'])})"
    if k == "conndone":
        return f"(EConnDone {ev['cid']}%nat {b(ev['ok'])})"
    if k == "stall":
        return f"(EStall {ev['cid']}%nat {b(ev['on'])})"
    if k == "tick":
        return f"(ETick {ev['dt']})"
    if k == "start":
        return "EStart"
    if k == "app_request":
        from diameter.message import Message
        m = ev["msg"]
        d = out_abstract(Message.from_bytes(m.as_bytes()))
        d["hbh"], d["e2e"] = ev.get("hbh_in", 0), ev.get("e2e_in", 0)
        d["app"] = ev.get("app_in", 0)
        realm = "Undeclared" if not hasattr(m, "destination_realm") else ("Absent" if m.destination_realm is None else f"(Present {vlib.coq_string(m.destination_realm.decode())})")
        return f"(EAppRequest {ev['app']}%nat {coq_omsg(d)} {realm} {ev.get('pick', 0)}%nat {ev['timeout']})"
    if k == "stop":
        return f"(EStop {b(ev['force'])})"
    if k == "stop_finish":
        return f"(EStopFinish {ev['tclose']} {ev['tend']})"
    if k == "app_answer":
        from diameter.message import Message
        return f"(EAppAnswer {ev['app']}%nat {coq_omsg(out_abstract(Message.from_bytes(ev['msg'].as_bytes())))})"
    raise ValueError(k)


def coq_obs(o):
    """expected observation for one event as a Coq term of type `eobs` (Model/NodeObs.v)"""
    s = o["snap"]
    sends = "[" + "; ".join(f"({cid}%nat, [{'; '.join(coq_omsg(m) for m in ms)}])" for cid, ms in sorted(o["sends"].items())) + "]"
    deliv = "[" + "; ".join(f"({i}%nat, {h}, {e})" for i, h, e in o["delivered"]) + "]"
    closed = vlib.natlist(sorted(o["closed"]))
    peers = "[" + "; ".join(f"({vlib.coq_string(n)}, {c}, {r}, {lc}, {ld})" for n, c, r, lc, ld in s["peers"]) + "]"
    conns = "[" + "; ".join(f"({cid}, {b(rv)}, {st}, {vlib.coq_string(nn)}, {vlib.coq_string(hi)}, {vlib.zlist(au)}, {vlib.zlist(ac)}, {b(wd)}, {b(so)})"
                            for cid, rv, st, nn, hi, au, ac, wd, so in s["conns"]) + "]"
    pw = "[" + "; ".join(f"({vlib.coq_string(h)}, [{'; '.join(f'({a}, {b_})' for a, b_ in l)}])" for h, l in s["peer_waiting"]) + "]"
    aw = "[" + "; ".join(f"({h}, {e})" for h, e in s["app_waiting"]) + "]"
    ow = "[" + "; ".join(f"({h}, {e})" for h, e in s["origin_waiting"]) + "]"
    sa = "[" + "; ".join(f"({vlib.coq_string(o_)}, {vlib.zlist(l)})" for o_, l in s["sent_answers"]) + "]"
    ready = "[" + "; ".join(b(x) for x in s["ready"]) + "]"
    nr = sum(1 for x in o["results"] if x == "NotRoutable")
    aw_ = "[" + "; ".join(vlib.zlist(l) for l in s["answer_waiting"]) + "]"
    return (f"{{| x_sends := {sends}; x_deliv := {deliv}; x_unexp := {len(o['unexpected'])}%nat; x_closed := {closed}; "
            f"x_dials := {o['dials']}%nat; x_notroutable := {nr}%nat; x_answered := {len(o['answered'])}%nat; "
            f"x_peers := {peers}; x_conns := {conns}; x_half := {vlib.zlist(s['half'])}; x_sockpeers := {vlib.zlist(s['sockpeers'])}; "
            f"x_peer_waiting := {pw}; x_app_waiting := {aw}; x_origin_waiting := {ow}; x_sent_answers := {sa}; "
            f"x_ready := {ready}; x_stopping := {b(s['stopping'])}; x_answer_waiting := {aw_} |}}")


def run_scenario(cfg, events, seed=0, policy="fifo"):
    r = Run(cfg, seed=seed, policy=policy)
    obs = []
    try:
        for ev in events:
            obs.append(r.apply(ev))
    finally:
        r.shutdown()
    return obs


def coq_case(cfg, events, obs):
    evs = "[" + ";\n     ".join(f"({coq_dials(e.get('dials', ()))}, {coq_event(e)}, {coq_obs(o)})" for e, o in zip(events, obs)) + "]"
    return f"({coq_cfg(cfg)},\n    {evs})"
