(* Table obligations over the regenerated AVP dictionary: exhaustive over every entry. *)
From DV Require Import Prelude.Base Model.Wire Model.Types Gen.GenDict.

(* an entry is consistent: its own 'vendor' field equals the vendor key it is filed under
   (absent for the base dictionary), its default-M tag is one of the three values *)
Definition entry_ok (r : drow) : bool :=
  (if row_vendor r =? 0 then row_vfield r =? -1 else row_vfield r =? row_vendor r)
  && (0 <=? row_mand r) && (row_mand r <=? 2)
  && (0 <=? row_code r) && (row_code r <? 4294967296) && (0 <=? row_vendor r) && (row_vendor r <? 4294967296).

Fixpoint keys_nodup (l : list drow) : bool :=
  match l with
  | [] => true
  | r :: t => negb (existsb (fun x => (row_code x =? row_code r) && (row_vendor x =? row_vendor r)) t) && keys_nodup t
  end.

Lemma dict_entries_ok : forallb entry_ok dict_rows = true.
Proof. vm_compute. reflexivity. Qed.
Lemma dict_keys_unique : keys_nodup dict_rows = true.
Proof. vm_compute. reflexivity. Qed.

(* consequence: lookup finds exactly the entry filed under (code, vendor) -- every entry is reachable *)
Lemma lookup_complete_aux : forall l r, keys_nodup l = true -> In r l ->
  lookup l (row_code r) (row_vendor r) = Some r.
Proof.
  induction l as [|x t IH]; intros r Hnd Hin; [contradiction|].
  cbn [keys_nodup] in Hnd. apply andb_true_iff in Hnd as [Hx Ht].
  unfold lookup. cbn [find]. destruct Hin as [->|Hin].
  - rewrite !Z.eqb_refl. reflexivity.
  - destruct ((row_code x =? row_code r) && (row_vendor x =? row_vendor r)) eqn:E.
    + exfalso. apply negb_true_iff in Hx. assert (Hex : existsb (fun y => (row_code y =? row_code x) && (row_vendor y =? row_vendor x)) t = true).
      { apply existsb_exists. exists r. split; [exact Hin|]. apply andb_true_iff in E as [E1 E2].
        apply Z.eqb_eq in E1, E2. rewrite E1, E2, !Z.eqb_refl. reflexivity. }
      congruence.
    + apply IH; assumption.
Qed.
Theorem dict_lookup_complete : forall r, In r dict_rows -> lookup dict_rows (row_code r) (row_vendor r) = Some r.
Proof. intros r H. apply lookup_complete_aux; [exact dict_keys_unique|exact H]. Qed.
