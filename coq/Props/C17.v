(* C17 — retransmission detection window
   Statements copied from the proof files; each is closed by `exact`. *)
From DV Require Prelude.Base Model.Ids Proofs.IdsP Model.Node Proofs.NodeB.
From Coq Require String List Lia Bool Arith ZArith.

Module FromNodeB.
Import DV.Prelude.Base DV.Model.Node DV.Proofs.NodeB.
Import Coq.Strings.String.

(* C17: bounded_append keeps the last k elements of l ++ [x] *)
Theorem bounded_append_spec k l x :
  bounded_append k l x = List.skipn (List.length (l ++ [x]) - k) (l ++ [x])
  /\ (List.length (bounded_append k l x) <= k)%nat
  /\ List.length (bounded_append k l x) = Nat.min k (S (List.length l))
  /\ (exists dropped, (l ++ [x])%list = (dropped ++ bounded_append k l x)%list)
  /\ ((List.length l < k)%nat -> bounded_append k l x = (l ++ [x])%list).
Proof. exact (@NodeB.bounded_append_spec k l x). Qed.

(* C17: recording an answer changes only the origin's window, to bounded_append of the old one *)
Theorem C17_window k sa o e :
  sa_get (sa_append k sa o e) o = bounded_append k (sa_get sa o) e
  /\ forall o', o' <> o -> sa_get (sa_append k sa o e) o' = sa_get sa o'.
Proof. exact (@NodeB.C17_window k sa o e). Qed.

(* C17: under distinct origins, membership in the table is membership in the origin's window *)
Theorem C17_sa_mem_get sa o e :
  List.NoDup (List.map fst sa) -> (sa_mem sa o e = true <-> List.In e (sa_get sa o)).
Proof. exact (@NodeB.C17_sa_mem_get sa o e). Qed.

(* C17: recording an answer keeps the origins of the table distinct *)
Theorem C17_sa_nodup k sa o e :
  List.NoDup (List.map fst sa) -> List.NoDup (List.map fst (sa_append k sa o e)).
Proof. exact (@NodeB.C17_sa_nodup k sa o e). Qed.

(* C17: a request that passes validation is rejected as a duplicate (5012, nothing delivered) when it
   carries the T flag and its end-to-end id is in its origin's window; otherwise the node does exactly
   what it does for the same request without the T flag (same next state, same outputs up to the flag
   of the message handed to the application): the T flag alone never causes a rejection *)
Theorem C17_dup_iff n cid m o :
  m_req m = true -> m_origin m = Present o ->
  g_validate (n_cfg n) = false \/ m_missing m = [] ->
  (m_t m = true /\ sa_mem (n_sent_answers n) o (m_e2e m) = true ->
     snd (receive_message n cid m) = [OQueue cid (answer_of m (Some 5012) [])]
     /\ forall i m', ~ List.In (ODeliver i m') (snd (receive_message n cid m)))
  /\ (m_t m = false \/ sa_mem (n_sent_answers n) o (m_e2e m) = false ->
     receive_message n cid (clear_t m) =
       (fst (receive_message n cid m), List.map out_clear_t (snd (receive_message n cid m)))).
Proof. exact (@NodeB.C17_dup_iff n cid m o). Qed.

(* C17: sending the answer to a recorded request appends its end-to-end id to the origin's window
   (and to no other), and forgets the record (and no other); for an unrecorded pair nothing changes *)
Theorem C17_record n hbh e2e :
  (forall o, ow_get (n_origin_waiting n) hbh e2e = Some o ->
     let n' := record_answer n hbh e2e in
     sa_get (n_sent_answers n') o = bounded_append (g_rsize (n_cfg n)) (sa_get (n_sent_answers n) o) e2e
     /\ (forall o', o' <> o -> sa_get (n_sent_answers n') o' = sa_get (n_sent_answers n) o')
     /\ ow_get (n_origin_waiting n') hbh e2e = None
     /\ (forall o', ~ List.In (hbh, e2e, o') (n_origin_waiting n'))
     /\ (forall h e, (h =? hbh) && (e =? e2e) = false ->
           ow_get (n_origin_waiting n') h e = ow_get (n_origin_waiting n) h e)
     /\ n_cfg n' = n_cfg n /\ n_conns n' = n_conns n /\ n_peers n' = n_peers n /\ n_apps n' = n_apps n
     /\ n_app_waiting n' = n_app_waiting n /\ n_peer_waiting n' = n_peer_waiting n)
  /\ (ow_get (n_origin_waiting n) hbh e2e = None -> record_answer n hbh e2e = n).
Proof. exact (@NodeB.C17_record n hbh e2e). Qed.
End FromNodeB.

Print Assumptions FromNodeB.bounded_append_spec.
Print Assumptions FromNodeB.C17_window.
Print Assumptions FromNodeB.C17_sa_mem_get.
Print Assumptions FromNodeB.C17_sa_nodup.
Print Assumptions FromNodeB.C17_dup_iff.
Print Assumptions FromNodeB.C17_record.
