(* C20 — answers built from requests mirror the header and use the paired answer class.
   General statements over ANY class table; Link/LinkRegistry.v instantiates the
   hypotheses for every class the library defines (exhaustive table computation). *)
From DV Require Import Prelude.Base Model.Wire Model.Msg Spec.MsgSpec Proofs.MsgP.
From Coq Require Import String.

(* version, application id, hop-by-hop and end-to-end identifiers are copied; the
   length of the fresh answer is 0 until it is encoded *)
Theorem C20_header : forall classes cname h,
  let h' := snd (to_answer classes cname h) in
  h_version h' = h_version h /\ h_length h' = 0 /\ h_app h' = h_app h /\
  h_hbh h' = h_hbh h /\ h_e2e h' = h_e2e h.
Proof. exact to_answer_header. Qed.

(* the proxiable bit is kept; request, error, retransmit (and all other) bits are cleared --
   for all 2^8 (indeed all integer) flag values *)
Theorem C20_flags : forall classes cname h,
  answer_mask_ok classes cname = true ->
  h_flags (snd (to_answer classes cname h)) = Z.land (h_flags h) HF_P.
Proof. exact to_answer_flags. Qed.

Theorem C20_code : forall classes cname h,
  code_consistent classes cname h -> h_code (snd (to_answer classes cname h)) = h_code h.
Proof. exact to_answer_code. Qed.

(* the class: decided by the declarative rule answer_row_ok (Spec/MsgSpec.v) for every row *)
Theorem C20_class : forall classes r,
  answer_row_ok classes r = true ->
  fst (to_answer classes (c_name r) {| h_version := 1; h_length := 0; h_flags := 0; h_code := 0;
                                        h_app := 0; h_hbh := 0; h_e2e := 0 |})
  = answer_class classes (c_name r) /\
  (strip_request (c_name r) = None -> answer_class classes (c_name r) = c_name r).
Proof.
  intros classes r H. split; [reflexivity|]. intros E. unfold answer_row_ok in H. rewrite E in H.
  apply String.eqb_eq in H. exact H.
Qed.

(* "the request itself is left unmodified": in the model to_answer is a pure function of the
   request's class name and header, so there is nothing to state; on the implementation the
   harness compares the request's header and AVPs before and after every to_answer call
   (oracle clause request-unchanged in tools/props/c20.py). *)

Example C20_example :
  let classes := [("XRequest", KDefined, ["XRequest"; "X"; "DefinedMessage"; "Message"], [], 255, 192, 7, true);
                  ("XAnswer", KDefined, ["XAnswer"; "X"; "DefinedMessage"; "Message"], [], 127, 64, 7, true);
                  ("X", KDefined, ["X"; "DefinedMessage"; "Message"], ["XAnswer"; "XRequest"], 255, 0, 7, false)]%string in
  to_answer classes "XRequest" {| h_version := 1; h_length := 40; h_flags := 176; h_code := 7;
                                   h_app := 4; h_hbh := 11; h_e2e := 12 |}
  = ("XAnswer"%string, {| h_version := 1; h_length := 0; h_flags := 0; h_code := 7; h_app := 4; h_hbh := 11; h_e2e := 12 |}).
Proof. vm_compute. reflexivity. Qed.

Print Assumptions C20_header.
Print Assumptions C20_flags.
Print Assumptions C20_code.
Print Assumptions C20_class.
