(* C04: linear-time bounds for the instrumented decoders (Model/Cost.v), totality of the
   message-level and grouped decoders, and the no-over-read properties.
   Every bound requested holds as stated; tighter bounds are proved alongside
   (dec_avps_cost_tight, tree_cost_tight). *)
From DV Require Import Prelude.Base Proofs.BaseP Spec.FindSpec Model.Wire Model.Cost
     Proofs.WireP Proofs.TypesP Proofs.FindP.

(* ====================================================================== *)
(* one AVP                                                                 *)
(* ====================================================================== *)
(* a successful AVP decode consumes at least its payload plus 8 header bytes *)
Theorem dec_avp_consumes : forall bs a rest, dec_avp bs = Ok (a, rest) ->
  blen rest + 8 + blen (a_payload a) <= blen bs.
Proof.
  intros bs a rest H.
  apply dec_avp_inv in H as (c0 & c1 & c2 & c3 & x0 & x1 & x2 & x3 & vb & payload & pad & vendor
                             & -> & -> & _).
  rewrite mk_avp_payload. rewrite !blen_app, !blen_cons, blen_nil.
  pose proof (blen_nonneg vb) as Hvb. pose proof (blen_nonneg pad) as Hpad. lia.
Qed.

(* ====================================================================== *)
(* the AVP loop: cost                                                      *)
(* ====================================================================== *)
(* for ANY fuel the loop performs at most |input| steps (an AVP costs 1 + |payload| and
   consumes >= 8 + |payload|; a failing decode costs 1 and only happens on non-empty input) *)
Lemma dec_avps_cost_fuel_bounds fuel : forall bs, 0 <= dec_avps_cost_fuel fuel bs <= blen bs.
Proof.
  induction fuel as [|f IH]; intros bs.
  - destruct bs as [|x bs']; cbn [dec_avps_cost_fuel].
    + rewrite blen_nil. lia.
    + pose proof (blen_nonneg (x :: bs')) as Hb. lia.
  - destruct bs as [|x bs']; [cbn [dec_avps_cost_fuel]; rewrite blen_nil; lia|].
    cbn [dec_avps_cost_fuel].
    destruct (dec_avp (x :: bs')) as [[a r]|e] eqn:E.
    + apply dec_avp_consumes in E. specialize (IH r). unfold avp_cost.
      pose proof (blen_nonneg (a_payload a)) as Hp. lia.
    + rewrite blen_cons. pose proof (blen_nonneg bs') as Hb. lia.
Qed.

Theorem dec_avps_cost_tight : forall bs, 0 <= dec_avps_cost bs <= blen bs.
Proof. intros bs. unfold dec_avps_cost. apply dec_avps_cost_fuel_bounds. Qed.

(* linear time, flat: the decode loop performs at most 1 + |input| elementary steps *)
Theorem dec_avps_cost_linear : forall bs, 0 <= dec_avps_cost bs <= blen bs + 1.
Proof. intros bs. pose proof (dec_avps_cost_tight bs) as H. lia. Qed.

(* ====================================================================== *)
(* the AVP loop: what it returns fits in what it read                      *)
(* ====================================================================== *)
Lemma dec_avps_fuel_payload_sum fuel : forall bs l, dec_avps_fuel fuel bs = Ok l ->
  fold_right (fun a acc => blen (a_payload a) + 8 + acc) 0 l <= blen bs.
Proof.
  induction fuel as [|f IH]; intros bs l H.
  - destruct bs as [|x bs']; cbn [dec_avps_fuel] in H; [|discriminate].
    inversion H; subst. cbn [fold_right]. rewrite blen_nil. lia.
  - destruct bs as [|x bs'].
    { cbn [dec_avps_fuel] in H. inversion H; subst. cbn [fold_right]. rewrite blen_nil. lia. }
    rewrite dec_avps_fuel_S in H by discriminate.
    destruct (dec_avp (x :: bs')) as [[a r]|e] eqn:E; cbn [bind] in H; [|discriminate].
    destruct (dec_avps_fuel f r) as [l'|e] eqn:E'; cbn [bind] in H; [|discriminate].
    inversion H; subst. cbn [fold_right]. apply dec_avp_consumes in E. specialize (IH r l' E'). lia.
Qed.

(* the decoded AVPs' payloads (plus 8 header bytes each) together are no longer than the input *)
Theorem dec_avps_payload_sum : forall bs l, dec_avps bs = Ok l ->
  fold_right (fun a acc => blen (a_payload a) + 8 + acc) 0 l <= blen bs.
Proof. intros bs l H. unfold dec_avps in H. eapply dec_avps_fuel_payload_sum. exact H. Qed.

Lemma dec_avps_fuel_each fuel : forall bs l, dec_avps_fuel fuel bs = Ok l ->
  Forall (fun a => blen (a_payload a) + 8 <= blen bs) l.
Proof.
  induction fuel as [|f IH]; intros bs l H.
  - destruct bs as [|x bs']; cbn [dec_avps_fuel] in H; [|discriminate].
    inversion H; subst. constructor.
  - destruct bs as [|x bs'].
    { cbn [dec_avps_fuel] in H. inversion H; subst. constructor. }
    rewrite dec_avps_fuel_S in H by discriminate.
    destruct (dec_avp (x :: bs')) as [[a r]|e] eqn:E; cbn [bind] in H; [|discriminate].
    destruct (dec_avps_fuel f r) as [l'|e] eqn:E'; cbn [bind] in H; [|discriminate].
    inversion H; subst. apply dec_avp_consumes in E. pose proof (blen_nonneg r) as Hr.
    pose proof (blen_nonneg (a_payload a)) as Hpa.
    constructor; [lia|].
    eapply Forall_impl; [|exact (IH r l' E')]. intros y Hy. cbv beta in Hy. lia.
Qed.

(* every decoded AVP, header included, fits in the input *)
Theorem dec_avps_each : forall bs l, dec_avps bs = Ok l ->
  Forall (fun a => blen (a_payload a) + 8 <= blen bs) l.
Proof. intros bs l H. unfold dec_avps in H. eapply dec_avps_fuel_each. exact H. Qed.

(* nothing beyond the buffer is read: every payload is no longer than the input *)
Theorem dec_avps_no_overread : forall bs l, dec_avps bs = Ok l ->
  Forall (fun a => blen (a_payload a) <= blen bs) l.
Proof.
  intros bs l H. eapply Forall_impl; [|exact (dec_avps_each bs l H)].
  intros a Ha. cbv beta in Ha. lia.
Qed.

(* ====================================================================== *)
(* grouped AVPs: cost per nesting level                                    *)
(* ====================================================================== *)
Lemma tree_cost_O d a : tree_cost d O a = 0.
Proof. cbn [tree_cost]. destruct (type_of d a); reflexivity. Qed.

Lemma tree_cost_S d f a : tree_cost d (S f) a =
  match type_of d a with
  | TGrouped =>
      dec_avps_cost (a_payload a) +
      match dec_avps (a_payload a) with
      | Ok l => fold_right (fun x acc => tree_cost d f x + acc) 0 l
      | Err _ => 0
      end
  | _ => 0
  end.
Proof. reflexivity. Qed.

Lemma fold_cost_bound (g : avp -> Z) (k : Z) l : 0 <= k ->
  (forall x, 0 <= g x <= k * blen (a_payload x)) ->
  0 <= fold_right (fun x acc => g x + acc) 0 l <=
  k * fold_right (fun a acc => blen (a_payload a) + 8 + acc) 0 l.
Proof.
  intros Hk Hg. induction l as [|x l IH]; cbn [fold_right]; [lia|].
  specialize (Hg x). nia.
Qed.

(* the children of one level together are no longer than the level's payload, so each
   level costs at most |payload|: depth `fuel` costs at most fuel * |payload| *)
Theorem tree_cost_tight : forall d fuel a, 0 <= tree_cost d fuel a <= Z.of_nat fuel * blen (a_payload a).
Proof.
  intros d fuel. induction fuel as [|f IH]; intros a.
  - rewrite tree_cost_O. lia.
  - rewrite tree_cost_S. pose proof (blen_nonneg (a_payload a)) as Hp.
    destruct (type_of d a); try nia.
    pose proof (dec_avps_cost_tight (a_payload a)) as Hc.
    destruct (dec_avps (a_payload a)) as [l|e] eqn:E; [|nia].
    pose proof (dec_avps_payload_sum _ _ E) as Hs.
    pose proof (fold_cost_bound (tree_cost d f) (Z.of_nat f) l ltac:(lia) IH) as Hf.
    nia.
Qed.

(* linear time per nesting level *)
Theorem tree_cost_linear : forall d fuel a, 0 <= tree_cost d fuel a <= Z.of_nat fuel * (blen (a_payload a) + 1).
Proof. intros d fuel a. pose proof (tree_cost_tight d fuel a) as H. nia. Qed.

(* ====================================================================== *)
(* whole message                                                           *)
(* ====================================================================== *)
Theorem dec_msg_cost_linear : forall bs, 0 <= dec_msg_cost bs <= blen bs + 6.
Proof.
  intros bs. unfold dec_msg_cost. pose proof (dec_avps_cost_tight (skipn 20 bs)) as H.
  assert (Hl : blen (skipn 20 bs) <= blen bs) by (unfold blen; rewrite skipn_length; lia).
  lia.
Qed.

(* totality at message level: Message.from_bytes returns or raises ConversionError *)
Theorem dec_hdr_total : forall bs, (exists h r, dec_hdr bs = Ok (h, r)) \/ dec_hdr bs = Err ConversionError.
Proof.
  intros bs. unfold dec_hdr.
  destruct (unpack_uint bs) as [[vl r1]|e] eqn:E1; cbn [bind];
    [|right; f_equal; eapply unpack_uint_err; exact E1].
  destruct (unpack_uint r1) as [[fc r2]|e] eqn:E2; cbn [bind];
    [|right; f_equal; eapply unpack_uint_err; exact E2].
  destruct (unpack_uint r2) as [[app r3]|e] eqn:E3; cbn [bind];
    [|right; f_equal; eapply unpack_uint_err; exact E3].
  destruct (unpack_uint r3) as [[hbh r4]|e] eqn:E4; cbn [bind];
    [|right; f_equal; eapply unpack_uint_err; exact E4].
  destruct (unpack_uint r4) as [[e2e r5]|e] eqn:E5; cbn [bind];
    [|right; f_equal; eapply unpack_uint_err; exact E5].
  left. eexists _, _. reflexivity.
Qed.

Theorem dec_msg_total : forall bs, (exists h l, dec_msg bs = Ok (h, l)) \/ dec_msg bs = Err ConversionError.
Proof.
  intros bs. unfold dec_msg.
  destruct (dec_hdr_total bs) as [[h [r E]]|E]; rewrite E; cbn [bind]; [|right; reflexivity].
  destruct (dec_avps_total r) as [[l El]|El]; rewrite El; cbn [bind];
    [left; exists h, l; reflexivity|right; reflexivity].
Qed.

(* the header decoder consumes exactly 20 bytes and never reads past the buffer *)
Theorem dec_hdr_suffix : forall bs h r, dec_hdr bs = Ok (h, r) -> exists pre, bs = pre ++ r /\ blen pre = 20.
Proof.
  intros bs h r H. unfold dec_hdr in H.
  destruct (unpack_uint bs) as [[vl r1]|e] eqn:E1; cbn [bind] in H; [|discriminate].
  destruct (unpack_uint r1) as [[fc r2]|e] eqn:E2; cbn [bind] in H; [|discriminate].
  destruct (unpack_uint r2) as [[app r3]|e] eqn:E3; cbn [bind] in H; [|discriminate].
  destruct (unpack_uint r3) as [[hbh r4]|e] eqn:E4; cbn [bind] in H; [|discriminate].
  destruct (unpack_uint r4) as [[e2e r5]|e] eqn:E5; cbn [bind] in H; [|discriminate].
  inversion H; subst; clear H.
  apply unpack_uint_inv in E1 as (v0 & v1 & v2 & v3 & -> & _).
  apply unpack_uint_inv in E2 as (f0 & f1 & f2 & f3 & -> & _).
  apply unpack_uint_inv in E3 as (a0 & a1 & a2 & a3 & -> & _).
  apply unpack_uint_inv in E4 as (h0 & h1 & h2 & h3 & -> & _).
  apply unpack_uint_inv in E5 as (e0 & e1 & e2 & e3 & -> & _).
  exists [v0; v1; v2; v3; f0; f1; f2; f3; a0; a1; a2; a3; h0; h1; h2; h3; e0; e1; e2; e3].
  split; reflexivity.
Qed.

(* ====================================================================== *)
(* grouped decode to any depth: totality and sufficient fuel               *)
(* ====================================================================== *)
Lemma forest_total d f l :
  (forall a, (exists t, to_tree d f a = Ok t) \/ to_tree d f a = Err AvpDecodeError \/
             to_tree d f a = Err OutOfFuel) ->
  (exists ts, forest d f l = Ok ts) \/ forest d f l = Err AvpDecodeError \/ forest d f l = Err OutOfFuel.
Proof.
  intros Ha. induction l as [|x r IH]; [left; exists []; reflexivity|].
  cbn [forest].
  destruct (Ha x) as [[t Ht]|[Ht|Ht]]; rewrite Ht; cbn [bind];
    [|right; left; reflexivity|right; right; reflexivity].
  destruct IH as [[ts Hts]|[Hts|Hts]]; rewrite Hts; cbn [bind];
    [left; eexists; reflexivity|right; left; reflexivity|right; right; reflexivity].
Qed.

Theorem to_tree_total : forall d fuel a,
  (exists t, to_tree d fuel a = Ok t) \/ to_tree d fuel a = Err AvpDecodeError \/ to_tree d fuel a = Err OutOfFuel.
Proof.
  intros d fuel. induction fuel as [|f IH]; intros a; rewrite to_tree_unfold;
    destruct (type_of d a); try (left; eexists; reflexivity).
  - right; right; reflexivity.
  - destruct (group_kids_total (a_payload a)) as [[l E]|E]; rewrite E; cbn [bind];
      [|right; left; reflexivity].
    destruct (forest_total d f l IH) as [[ts Hts]|[Hts|Hts]]; rewrite Hts; cbn [bind];
      [left; eexists; reflexivity|right; left; reflexivity|right; right; reflexivity].
Qed.

Lemma forest_no_oof d f l :
  Forall (fun x => to_tree d f x <> Err OutOfFuel) l -> forest d f l <> Err OutOfFuel.
Proof.
  induction l as [|x r IH]; intros HF; [discriminate|].
  inversion HF as [|? ? Hx Hr]; subst. cbn [forest]. specialize (IH Hr).
  destruct (to_tree d f x) as [t|e]; cbn [bind].
  - destruct (forest d f r) as [ts|e']; cbn [bind]; [discriminate|exact IH].
  - intros He. inversion He; subst. apply Hx. reflexivity.
Qed.

Lemma group_kids_ok p l : group_kids p = Ok l -> dec_avps p = Ok l.
Proof.
  unfold group_kids. destruct (dec_avps p) as [l0|e0]; [intros H; inversion H; reflexivity|].
  destruct e0; discriminate.
Qed.

(* each nesting level strips at least 8 bytes, so depth <= length/8; fuel > length suffices *)
Theorem to_tree_enough_fuel : forall d fuel a, (List.length (a_payload a) < fuel)%nat ->
  to_tree d fuel a <> Err OutOfFuel.
Proof.
  intros d fuel. induction fuel as [|f IH]; intros a Hlen; [lia|].
  rewrite to_tree_unfold. destruct (type_of d a); try discriminate.
  destruct (group_kids (a_payload a)) as [l|e] eqn:Eg; cbn [bind].
  - apply group_kids_ok in Eg. apply dec_avps_each in Eg.
    pose proof (forest_no_oof d f l) as Hno.
    destruct (forest d f l) as [ks|e]; cbn [bind]; [discriminate|].
    intros He. inversion He; subst. apply Hno; [|reflexivity].
    eapply Forall_impl; [|exact Eg]. intros x Hx. cbv beta in Hx. apply IH.
    unfold blen in Hx. lia.
  - destruct (group_kids_total (a_payload a)) as [[l El]|El]; rewrite El in Eg; inversion Eg; subst.
    discriminate.
Qed.

(* the sharper form: fuel > length/8 suffices *)
Theorem to_tree_enough_fuel_div8 : forall d fuel a, (List.length (a_payload a) < 8 * fuel)%nat ->
  to_tree d fuel a <> Err OutOfFuel.
Proof.
  intros d fuel. induction fuel as [|f IH]; intros a Hlen; [lia|].
  rewrite to_tree_unfold. destruct (type_of d a); try discriminate.
  destruct (group_kids (a_payload a)) as [l|e] eqn:Eg; cbn [bind].
  - apply group_kids_ok in Eg. apply dec_avps_each in Eg.
    pose proof (forest_no_oof d f l) as Hno.
    destruct (forest d f l) as [ks|e]; cbn [bind]; [discriminate|].
    intros He. inversion He; subst. apply Hno; [|reflexivity].
    eapply Forall_impl; [|exact Eg]. intros x Hx. cbv beta in Hx. apply IH.
    unfold blen in Hx. lia.
  - destruct (group_kids_total (a_payload a)) as [[l El]|El]; rewrite El in Eg; inversion Eg; subst.
    discriminate.
Qed.

(* ====================================================================== *)
Print Assumptions dec_avp_consumes.
Print Assumptions dec_avps_cost_tight.
Print Assumptions dec_avps_cost_linear.
Print Assumptions dec_avps_payload_sum.
Print Assumptions dec_avps_each.
Print Assumptions dec_avps_no_overread.
Print Assumptions tree_cost_tight.
Print Assumptions tree_cost_linear.
Print Assumptions dec_msg_cost_linear.
Print Assumptions dec_hdr_total.
Print Assumptions dec_msg_total.
Print Assumptions dec_hdr_suffix.
Print Assumptions to_tree_total.
Print Assumptions to_tree_enough_fuel.
Print Assumptions to_tree_enough_fuel_div8.
