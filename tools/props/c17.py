"""C17 — node-layer property; see tools/nodecheck.py and tools/nodeoracles.py."""
import nodecheck

PROFILE = dict(outbound=0.0, peers=2)
W = nodecheck.weights(retransmit=9, request=7, app_answer=8, accept=4, cer=9)
N_QUICK, N_THOROUGH, LENGTH = 60, 1500, 22
THEMES = (("retransmit", 700, 0, None, 0), ("retransmit_two_origins", None, 0, None, 0), ("twin_ids", 400, 0, None, 0), ("reused_e2e", None, 0, None, 0))
FILES = ["Props/C17.v"]


def check(run):
    return nodecheck.run(run, "C17", FILES, PROFILE, W, N_QUICK, N_THOROUGH, LENGTH, themes=THEMES)


replay = nodecheck.replay_generic
