(* C07 — every received request gets exactly one answer of the right kind; answers are never answered
   Statements copied from the proof files; each is closed by `exact`. *)
From DV Require Prelude.Base Model.Ids Proofs.IdsP Model.Node Proofs.NodeB.
From Coq Require String List Lia Bool Arith ZArith.

Module FromNodeB.
Import DV.Prelude.Base DV.Model.Node DV.Proofs.NodeB.
Import Coq.Strings.String.

(* C07: send_message hands exactly the given message to the given connection *)
Theorem send_message_out n cid m : snd (send_message n cid m) = [OQueue cid m].
Proof. exact (@NodeB.send_message_out n cid m). Qed.

(* C07: one dispatched message yields at most one queued message; it is an answer, on the same
   connection, to a REQUEST, and carries that request's command, application id and identifiers *)
Theorem C07_dispatch_answers n cid m n' outs :
  dispatch n cid m = (n', outs) ->
  (forall cid' a, List.In (OQueue cid' a) outs ->
     cid' = cid /\ o_req a = false /\ m_req m = true /\
     o_cmd a = m_cmd m /\ o_app a = m_app m /\ o_hbh a = m_hbh m /\ o_e2e a = m_e2e m)
  /\ (List.length (List.filter is_queue outs) <= 1)%nat.
Proof. exact (@NodeB.C07_dispatch_answers n cid m n' outs). Qed.

(* C07: an answer is never answered: dispatching a non-request queues nothing *)
Theorem C07_no_answer_to_answer n cid m :
  m_req m = false -> forall cid' a, ~ List.In (OQueue cid' a) (snd (dispatch n cid m)).
Proof. exact (@NodeB.C07_no_answer_to_answer n cid m). Qed.

(* C07: every event other than a network read or an application's answer queues REQUESTS only
   (watchdog, capabilities exchange, disconnect, application requests): answers come from nowhere else *)
Theorem C07_answers_only_from n ds e :
  (forall cid ms, e <> ERecv cid ms) -> (forall i m, e <> EAppAnswer i m) ->
  forall cid a, List.In (OQueue cid a) (snd (step n ds e)) -> o_req a = true.
Proof. exact (@NodeB.C07_answers_only_from n ds e). Qed.

(* C07: every answer queued while a batch of frames is dispatched answers some request of the batch
   (same connection, same four fields); there are at most as many answers as requests *)
Theorem C07_dispatch_all_answers ms : forall n cid n' outs,
  dispatch_all n cid ms = (n', outs) ->
  (forall cid' a, List.In (OQueue cid' a) outs ->
     cid' = cid /\ o_req a = false /\
     exists m, List.In m ms /\ m_req m = true /\
       o_cmd a = m_cmd m /\ o_app a = m_app m /\ o_hbh a = m_hbh m /\ o_e2e a = m_e2e m)
  /\ (List.length (List.filter is_queue outs) <= List.length (List.filter m_req ms))%nat.
Proof. exact (@NodeB.C07_dispatch_all_answers ms). Qed.

(* C07: a request handed to an application whose handler does not raise is not also answered by the node *)
Theorem C07_delivered_not_answered n cid m i m' :
  handler_raises m = false ->
  List.In (ODeliver i m') (snd (dispatch n cid m)) ->
  forall cid' a, ~ List.In (OQueue cid' a) (snd (dispatch n cid m)).
Proof. exact (@NodeB.C07_delivered_not_answered n cid m i m'). Qed.

(* C07: when the node both hands a request to an application and answers it, the application's handler
   raised and the answer is UNABLE_TO_COMPLY (5012) to that request, on its connection, after the delivery *)
Theorem C07_delivered_answered_only_on_failure n cid m i m' cid' a :
  List.In (ODeliver i m') (snd (dispatch n cid m)) ->
  List.In (OQueue cid' a) (snd (dispatch n cid m)) ->
  handler_raises m = true /\ m' = m /\ cid' = cid /\ a = answer_of m (Some RC_UNABLE) []
  /\ snd (dispatch n cid m) = [ODeliver i m; OQueue cid (answer_of m (Some RC_UNABLE) [])].
Proof. exact (@NodeB.C07_delivered_answered_only_on_failure n cid m i m' cid' a). Qed.
End FromNodeB.

Print Assumptions FromNodeB.send_message_out.
Print Assumptions FromNodeB.C07_dispatch_answers.
Print Assumptions FromNodeB.C07_no_answer_to_answer.
Print Assumptions FromNodeB.C07_answers_only_from.
Print Assumptions FromNodeB.C07_dispatch_all_answers.
Print Assumptions FromNodeB.C07_delivered_not_answered.
Print Assumptions FromNodeB.C07_delivered_answered_only_on_failure.
