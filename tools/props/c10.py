"""C10 — node-layer property (outbound routing); see tools/nodecheck.py and tools/nodeoracles.py."""
import nodecheck

PROFILE = dict(outbound=0.6, peers=3)
W = nodecheck.weights(app_request=8, answer_request=7, odd_answer=3, tick=5, cea=10, conndone=8, cer=8, close=1.5, dpr=1)
N_QUICK, N_THOROUGH, LENGTH = 60, 1500, 24
THEMES = (("ready", 2, 60, 2, 3000),)
FILES = ["Props/C10.v"]


def check(run):
    return nodecheck.run(run, "C10", FILES, PROFILE, W, N_QUICK, N_THOROUGH, LENGTH, themes=THEMES)


replay = nodecheck.replay_generic
