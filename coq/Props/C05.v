(* C05 — stream framing is chunking-invariant, ordered, exactly-once, always progresses.
   `decodable` abstracts "Message.from_bytes(frame) does not raise"; all statements hold for
   every such predicate. *)
From DV Require Import Prelude.Base Model.Wire Model.Framing Proofs.FramingP.

(* for ANY list of well-formed frames (header length field = frame size >= 20) and ANY way of
   cutting their concatenation into network reads (cuts inside the header, reads spanning several
   frames, empty reads): exactly the decodable frames are delivered, in stream order, each once;
   nothing is left in the buffer; the connection stays open *)
Theorem C05_chunking : forall decodable frames chunks,
  Forall wf_frame frames -> List.concat chunks = List.concat frames ->
  let r := feed_all decodable reader0 chunks in
  r_delivered r = expected decodable frames /\ r_buf r = [] /\ r_closed r = false /\ r_spin r = false.
Proof. exact FramingP.C05_chunking. Qed.

(* an undecodable frame is skipped without affecting the frames behind (or before) it *)
Theorem C05_skip_undecodable : forall decodable fs1 bad fs2 chunks,
  Forall wf_frame (fs1 ++ bad :: fs2) -> decodable bad = false ->
  List.concat chunks = List.concat (fs1 ++ bad :: fs2) ->
  let r := feed_all decodable reader0 chunks in
  r_delivered r = expected decodable (fs1 ++ fs2) /\ r_buf r = [] /\ r_closed r = false /\ r_spin r = false.
Proof. exact FramingP.C05_skip_undecodable. Qed.

(* NO buffer content, whatever its length field says, makes the loop spin *)
Theorem C05_progress : forall decodable buf acc,
  let '(buf', acc', st) := rloop decodable (S (List.length buf)) buf acc in st <> Spin.
Proof. exact rloop_progress. Qed.
Theorem C05_never_spins : forall decodable chunks, r_spin (feed_all decodable reader0 chunks) = false.
Proof. exact feed_all_never_spins. Qed.

(* after any input the reader has closed the connection, or waits for more bytes with less than
   a header, or less than the announced frame, in its buffer *)
Theorem C05_trichotomy : forall decodable chunks,
  let r := feed_all decodable reader0 chunks in
  r_closed r = true \/
  (r_spin r = false /\
   (blen (r_buf r) < 20 \/ exists h x, dec_hdr (r_buf r) = Ok (h, x) /\ blen (r_buf r) < h_length h)).
Proof. exact feed_trichotomy. Qed.

(* the loop as it was before the repair (fixed in /repo): both defects, with witnesses *)
Theorem C05_old_loop_spins_refuted :
  exists buf, let '(_, _, st) := rloop_old (fun _ => true) (S (List.length buf)) buf [] in st = Spin.
Proof. exact rloop_old_spins_refuted. Qed.
Theorem C05_old_loop_cut_dependent_refuted :
  exists dec bad good c1 c2,
    wf_frame bad /\ wf_frame good /\ dec bad = false /\ dec good = true /\
    let s := bad ++ good in
    let ra := feed_all_old dec reader0 [firstn c1 s; skipn c1 s] in
    let rb := feed_all_old dec reader0 [firstn c2 s; skipn c2 s] in
    r_delivered ra <> r_delivered rb /\ r_closed ra <> r_closed rb.
Proof. exact feed_old_cut_dependent_refuted. Qed.

Print Assumptions C05_chunking.
Print Assumptions C05_skip_undecodable.
Print Assumptions C05_progress.
Print Assumptions C05_never_spins.
Print Assumptions C05_trichotomy.
Print Assumptions C05_old_loop_spins_refuted.
Print Assumptions C05_old_loop_cut_dependent_refuted.
