(* Model of class dispatch (Message.from_bytes / type_factory), Message.to_answer
   and the find_avps cache.  Works over the tables regenerated into
   Gen/GenRegistry.v.  This file handles class NAMES, hence imports String;
   list length / append are always written qualified here. *)
From DV Require Import Prelude.Base Model.Wire.
From Coq Require Import String.

Inductive ckind : Set := KDefined | KUndefined | KPlain.

(* all_commands: code, registered class, class chosen by type_factory for R=1, for R=0 *)
Definition regrow : Type := (Z * string * string * string)%type.
(* name, kind, MRO names, direct subclass names, __post_init__ flag and-mask / or-mask,
   command code forced by __post_init__ (-1 none), has a non-empty avp_def *)
Definition clsrow : Type := (string * ckind * list string * list string * Z * Z * Z * bool)%type.

Definition c_name (r : clsrow) : string := let '(n, _, _, _, _, _, _, _) := r in n.
Definition c_kind (r : clsrow) : ckind := let '(_, k, _, _, _, _, _, _) := r in k.
Definition c_mro (r : clsrow) : list string := let '(_, _, m, _, _, _, _, _) := r in m.
Definition c_subs (r : clsrow) : list string := let '(_, _, _, s, _, _, _, _) := r in s.
Definition c_and (r : clsrow) : Z := let '(_, _, _, _, a, _, _, _) := r in a.
Definition c_or (r : clsrow) : Z := let '(_, _, _, _, _, o, _, _) := r in o.
Definition c_code (r : clsrow) : Z := let '(_, _, _, _, _, _, c, _) := r in c.
Definition c_hasdef (r : clsrow) : bool := let '(_, _, _, _, _, _, _, d) := r in d.

Definition cls_lookup (classes : list clsrow) (n : string) : option clsrow :=
  find (fun r => String.eqb (c_name r) n) classes.

(* Message.from_bytes: the class instantiated for a header *)
Definition class_of (reg : list regrow) (plain : bool) (code flags : Z) : string :=
  match find (fun r => let '(c, _, _, _) := r in c =? code) reg with
  | None => "UndefinedMessage"
  | Some (_, base, req, ans) =>
      if plain then base else if Z.land flags 128 =? 0 then ans else req
  end.

(* cls_name.endswith("Request") ; assumed_base = cls_name[:-7] *)
Definition strip_request (s : string) : option string :=
  let n := String.length s in
  if Nat.leb 7 n && String.eqb (String.substring (n - 7) 7 s) "Request"
  then Some (String.substring 0 (n - 7) s) else None.

(* Message.to_answer: class of the answer *)
Definition answer_class (classes : list clsrow) (cname : string) : string :=
  match strip_request cname with
  | None => cname
  | Some base =>
      match cls_lookup classes cname with
      | None => "Message"
      | Some row =>
          match find (String.eqb base) (c_mro row) with
          | None => "Message"
          | Some b =>
              match cls_lookup classes b with
              | None => b
              | Some brow =>
                  match find (String.eqb (String.append base "Answer")) (c_subs brow) with
                  | Some a => a
                  | None => b
                  end
              end
          end
      end
  end.

(* effect of instantiating class `cname` on a header (its __post_init__) *)
Definition post_init (classes : list clsrow) (cname : string) (h : hdr) : hdr :=
  match cls_lookup classes cname with
  | None => h
  | Some r =>
      {| h_version := h_version h; h_length := h_length h;
         h_flags := Z.lor (Z.land (h_flags h) (c_and r)) (c_or r);
         h_code := if c_code r =? -1 then h_code h else c_code r;
         h_app := h_app h; h_hbh := h_hbh h; h_e2e := h_e2e h |}
  end.

(* Message.to_answer: new header (length 0, only P copied), answer class
   instantiated on it, then the request's P bit re-applied *)
Definition to_answer (classes : list clsrow) (cname : string) (h : hdr) : string * hdr :=
  let acls := answer_class classes cname in
  let p := negb (Z.land (h_flags h) HF_P =? 0) in
  let h0 := {| h_version := h_version h; h_length := 0; h_flags := set_flag 0 HF_P p;
               h_code := h_code h; h_app := h_app h; h_hbh := h_hbh h; h_e2e := h_e2e h |} in
  let h1 := post_init classes acls h0 in
  (acls, set_hflags h1 (set_flag (h_flags h1) HF_P p)).

(* Message.from_bytes: header as decoded; the class is instantiated (its
   __post_init__ runs) and then the received flags are restored *)
Definition decoded_header (classes : list clsrow) (cname : string) (h : hdr) : hdr :=
  set_hflags (post_init classes cname h) (h_flags h).

(* ---- find_avps with its per-message cache ------------------------------ *)
Definition path := list (Z * Z).
Definition path_eqb (a b : path) : bool :=
  list_eqb (fun x y => (fst x =? fst y) && (snd x =? snd y)) a b.
Definition cache := list (path * list avp).

Definition find_avps (d : dict) (c : cache) (avps : list avp) (p : path) : result (list avp) * cache :=
  match p with
  | [] => (Ok [], c)
  | _ =>
      match find (fun e => path_eqb (fst e) p) c with
      | Some e => (Ok (snd e), c)
      | None =>
          match traverse d (S (List.length p)) avps p with
          | Ok r => (Ok r, (p, r) :: c)
          | Err e => (Err e, c)
          end
      end
  end.

Fixpoint find_seq (d : dict) (c : cache) (avps : list avp) (ps : list path) : list (result (list avp)) :=
  match ps with
  | [] => []
  | p :: r => let '(x, c') := find_avps d c avps p in x :: find_seq d c' avps r
  end.
