"""Bounded-pre-emption exploration of the REAL node/application code under vsim at source-line granularity (shared by the
C10 sender/answer race and the C17 concurrent-answer race; C09 keeps its own copy in props/c09.py).

`make()` builds a fresh scenario object with `launch(chooser)` and `finish() -> dict`; every schedule reachable with at
most `max_pre` pre-emptions of a thread that could have continued is run (depth-first over the recorded decision points),
up to `cap` schedules.  `judge(outcome) -> None | (clause, observed, expected, what)`.  This is a failing-input search and
a check of the model's atomicity assumption against the code, not a proof."""


def default_pick(runnable, prev, only=None):
    if prev in runnable:
        return prev
    if only:
        for r in runnable:
            if only(r):
                return r
    return runnable[0]


def explore(run, make, judge, scenario, max_pre, cap, extra_case=None, only=None):
    """`only(name)`: branch only over threads it accepts (they are also preferred when the running thread blocks); the others
    run when no accepted thread can"""
    stack, n = [[]], 0
    while stack and n < cap:
        prefix = stack.pop()
        rec = []
        s = make()

        def chooser(runnable, prev, prefix=prefix, rec=rec):
            i = len(rec)
            pre = rec[-1][2] if rec else 0
            c = prefix[i] if i < len(prefix) and prefix[i] in runnable else default_pick(runnable, prev, only)
            rec.append((runnable, c, pre + (1 if (prev in runnable and c != prev) else 0)))
            return c
        try:
            s.launch(chooser)
            o = s.finish()
        except Exception as e:   # noqa
            try:
                s.sim.shutdown()
            except Exception:   # noqa
                pass
            o = dict(error=f"{type(e).__name__}: {e}")
        n += 1
        sched = [d[1] for d in rec]
        run.count(1, [("race", scenario, tuple(sched))] if len(set(sched)) > 1 else ())
        case = {"scenario": scenario, "schedule": sched}
        case.update(extra_case or {})
        if "error" in o:
            run.violation("no-spin", case, o["error"], what="harness: " + o["error"])
            return n
        bad = judge(o)
        if bad:
            clause, observed, expected, what = bad
            run.violation(clause, case, observed, expected, what=what)
            return n
        for i in range(len(prefix), len(rec)):
            runnable, chosen, _p = rec[i]
            prev = rec[i - 1][1] if i else None
            before = rec[i - 1][2] if i else 0
            for alt in runnable:
                if only and not only(alt):
                    continue
                if alt != chosen and before + (1 if (prev in runnable and alt != prev) else 0) <= max_pre:
                    stack.append(sched[:i] + [alt])
    return n


def replay_schedule(make, schedule, only=None):
    s = make()
    pre = list(schedule)
    k = [0]

    def chooser(runnable, prev):
        i = k[0]
        k[0] += 1
        return pre[i] if i < len(pre) and pre[i] in runnable else default_pick(runnable, prev, only)
    s.launch(chooser)
    return s.finish()
