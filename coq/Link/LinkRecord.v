(* Tie between the source of Node._record_answer and the thread program of Model/Record.v (C17, the part about schedules). *)
From DV Require Import Prelude.Base Model.Record Gen.GenRecord.

Theorem record_prog_is_source : record_prog_gen = record_prog.
Proof. reflexivity. Qed.
