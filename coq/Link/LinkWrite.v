(* Tie between the source of the outbound path and the model's two thread programs (C15). *)
From DV Require Import Prelude.Base Model.WriteBuf Gen.GenWrite.

Theorem writer_prog_is_source : writer_prog_gen = writer_prog.
Proof. reflexivity. Qed.

Theorem io_prog_is_source : io_prog_gen = io_prog.
Proof. reflexivity. Qed.
