From DV Require Import Prelude.Base Model.Wire Model.Framing.
