"""C11 — node-layer property; see tools/nodecheck.py and tools/nodeoracles.py."""
import nodecheck

PROFILE = dict(outbound=0.4)
W = nodecheck.weights(tick=10, dwa=3, dwr=2, request=2, app_answer=2)
N_QUICK, N_THOROUGH, LENGTH = 60, 1500, 22
THEMES = (("watchdog", 600, 0, None, 0), ("busy_sender", 260, 0, None, 0), ("late_cer", None, 0, None, 0), ("fragments", 300, 0, None, 0), ("ready", 1, 20, 2, 300))
FILES = ["Props/C11.v"]


def check(run):
    return nodecheck.run(run, "C11", FILES, PROFILE, W, N_QUICK, N_THOROUGH, LENGTH, themes=THEMES)


replay = nodecheck.replay_generic
