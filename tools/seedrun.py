"""Evaluate seeded mutations: for each <dir>/m<k>.diff apply it to /repo, run the demo and ./check <prop>, restore /repo,
and file the confirmed ones under /verif/seeded/<prop>-<name>/ (patch.diff, demo.py, meta.json).
usage: seedrun.py <prop> <dir> [--tier quick|thorough] [--also Cxx,Cyy] [--tag r3]"""
import glob
import json
import os
import shutil
import subprocess
import sys
import time


def sh(cmd, **kw):
    return subprocess.run(cmd, shell=True, capture_output=True, text=True, **kw)


def reverts():
    """re-evaluate every reverse-of-fix patch under seeded/*-revert-*/"""
    assert sh("git -C /repo status --porcelain").stdout.strip() == "", "/repo is not clean"
    for dest in sorted(glob.glob("/verif/seeded/*-revert-*/")):
        meta = json.load(open(dest + "meta.json"))
        prop = meta["property"]
        r = sh(f"git -C /repo apply {dest}patch.diff")
        if r.returncode != 0:
            meta["check_results"] = {prop: {"exit": -1, "what": "patch no longer applies to HEAD (later fixes touch the same lines)"}}
            meta["detected"] = None
            json.dump(meta, open(dest + "meta.json", "w"), indent=1)
            print(os.path.basename(dest.rstrip("/")), "does not apply")
            continue
        try:
            suite = sh("cd /repo && /venv/bin/python -m pytest -q -p no:cacheprovider --timeout=900 2>&1 | tail -1").stdout.strip()
            rr = sh(f"cd /verif && VERIF_EVIDENCE_DIR=/verif/.work/seeded-evidence ./check {prop} --tier quick")
            lines = [l for l in rr.stdout.splitlines() if l.startswith("VIOLATION")]
            res = {"exit": rr.returncode, "lines": [l[:300] for l in lines][:3]}
            for l in lines:
                if "replay=" in l:
                    try:
                        j = json.load(open(l.split("replay=")[1].split()[0]))
                        res["what"] = str(j.get("what") or j.get("kind"))[:300]
                    except Exception:   # noqa
                        pass
                    break
        finally:
            sh("git -C /repo checkout -- .")
        meta.update({"suite_on_mutated_tree": suite, "check_results": {prop: res}, "detected": rr.returncode != 0, "tier": "quick"})
        json.dump(meta, open(dest + "meta.json", "w"), indent=1)
        print(os.path.basename(dest.rstrip("/")), "exit", rr.returncode, res.get("what", "")[:120])


def main():
    if sys.argv[1] == "--reverts":
        return reverts()
    prop, d = sys.argv[1], sys.argv[2]
    tier = sys.argv[sys.argv.index("--tier") + 1] if "--tier" in sys.argv else "quick"
    also = sys.argv[sys.argv.index("--also") + 1].split(",") if "--also" in sys.argv else []
    tag = sys.argv[sys.argv.index("--tag") + 1] if "--tag" in sys.argv else ""
    only = sys.argv[sys.argv.index("--only") + 1].split(",") if "--only" in sys.argv else None
    assert sh("git -C /repo status --porcelain").stdout.strip() == "", "/repo is not clean"
    for diff in sorted(glob.glob(os.path.join(d, "m*.diff"))):
        k = os.path.basename(diff)[:-5]
        if only and k not in only:
            continue
        meta = {}
        mj = os.path.join(d, k + ".json")
        if os.path.exists(mj):
            try:
                meta = json.load(open(mj))
            except Exception as e:   # noqa
                meta = {"summary": f"(unreadable json: {e})"}
        r = sh(f"git -C /repo apply {diff}")
        if r.returncode != 0:
            print(f"{prop} {k}: patch does not apply: {r.stderr.strip()[:200]}")
            continue
        try:
            demo = os.path.join(d, k + "_demo.py")
            demo_out = ""
            if os.path.exists(demo):
                rr = sh(f"PYTHONPATH=/repo/src timeout 120 /venv/bin/python {demo}")
                demo_out = (rr.stdout.strip().splitlines() or [""])[-1][:300]
            suite = sh("cd /repo && /venv/bin/python -m pytest -q -p no:cacheprovider --timeout=900 2>&1 | tail -1").stdout.strip()
            res = {}
            for p in [prop] + also:
                t0 = time.time()
                rr = sh(f"cd /verif && VERIF_EVIDENCE_DIR=/verif/.work/seeded-evidence ./check {p} --tier {tier}")
                lines = [l for l in rr.stdout.splitlines() if l.startswith(("VIOLATION", "KNOWN-FINDING"))]
                res[p] = {"exit": rr.returncode, "lines": [l[:300] for l in lines if l.startswith("VIOLATION")][:3], "wall_s": round(time.time() - t0, 1)}
                if rr.returncode != 0:
                    # what the replay file says
                    for l in lines:
                        if "replay=" in l:
                            path = l.split("replay=")[1].split()[0]
                            try:
                                res[p]["what"] = str(json.load(open(path)).get("what") or json.load(open(path)).get("kind"))[:300]
                            except Exception:   # noqa
                                pass
                            break
        finally:
            sh("git -C /repo checkout -- .")
        detected = res[prop]["exit"] != 0
        print(f"{prop} {k}: demo[{demo_out[:80]}] suite[{suite}] -> " + "; ".join(f"{p}: exit {v['exit']} {v.get('what', '')[:120]}" for p, v in res.items()))
        dest = f"/verif/seeded/{prop}-{tag}{k}"
        os.makedirs(dest, exist_ok=True)
        shutil.copy(diff, os.path.join(dest, "patch.diff"))
        if os.path.exists(demo):
            shutil.copy(demo, os.path.join(dest, "demo.py"))
        meta.update({"property": prop, "origin": "fresh sub-agent given only the property text and a scratch worktree",
                     "suite_on_mutated_tree": suite, "demo_on_mutated_tree": demo_out, "check_results": res,
                     "detected": detected, "tier": tier})
        json.dump(meta, open(os.path.join(dest, "meta.json"), "w"), indent=1)


if __name__ == "__main__":
    main()
