(* C06 — capabilities exchange gates all traffic and yields the specified outcome
   Statements copied from the proof files; each is closed by `exact`. *)
From DV Require Prelude.Base Model.Ids Proofs.IdsP Model.Node Proofs.NodeA Proofs.NodeB Proofs.NodeC Proofs.NodeD Proofs.NodeF Proofs.NodeG Proofs.NodeH.
From Coq Require String List Lia Bool Arith ZArith.

Module FromNodeA.
Import DV.Prelude.Base DV.Model.Node DV.Proofs.NodeA.
Import Coq.Strings.String.
Open Scope string_scope.
Open Scope list_scope.
Open Scope Z_scope.

(* C06: a CONNECTED connection drops every message that is not the expected CER / CEA *)
Theorem C06_gate_connected n cid c m :
  get_conn n cid = Some c -> c_state c = SConnected ->
  (m_cmd m <> CE \/ (c_recv c = true /\ m_req m = false) \/ (c_recv c = false /\ m_req m = true)) ->
  dispatch n cid m = (n, []).
Proof. exact (@NodeA.C06_gate_connected n cid c m). Qed.

(* C06: a CLOSING or CLOSED connection drops every message *)
Theorem C06_gate_closing n cid c m :
  get_conn n cid = Some c -> (c_state c = SClosing \/ c_state c = SClosed) ->
  dispatch n cid m = (n, []).
Proof. exact (@NodeA.C06_gate_closing n cid c m). Qed.

(* C06: a CER of a configured peer sharing an application, the election being decided for the new connection
   (no other connection towards that peer, or the local name is the greater one): the rivals are closed
   (CLEAN), the CER is answered 2001 and the connection becomes READY *)
Theorem C06_cer_known n cid c m h p :
  get_conn n cid = Some c -> c_state c = SConnected ->
  m_origin m = Present h -> get_peer n h = Some p ->
  (election_rivals n cid h = [] \/ String.ltb h (g_host (n_cfg n)) = true) ->
  (inter_z (node_auth n) (m_auth m) <> [] \/ inter_z (node_acct n) (m_acct m) <> [] \/
   mem_z APP_RELAY (m_auth m) || mem_z APP_RELAY (m_acct m) = true) ->
  snd (recv_cer n cid m) =
    snd (close_all n (election_rivals n cid h) R_CLEAN) ++ [OQueue cid (answer_of m (Some 2001) [])] /\
  (forall k, List.In k (election_rivals n cid h) ->
     List.In (OClose k R_CLEAN) (snd (recv_cer n cid m)) /\ get_conn (fst (recv_cer n cid m)) k = None) /\
  exists c', get_conn (fst (recv_cer n cid m)) cid = Some c' /\ c_state c' = SReady /\ c_host c' = h.
Proof. exact (@NodeA.C06_cer_known n cid c m h p). Qed.

(* C06: ... with no other connection towards that peer the answer is the only output *)
Theorem C06_cer_known_no_rivals n cid c m h p :
  get_conn n cid = Some c -> c_state c = SConnected ->
  m_origin m = Present h -> get_peer n h = Some p ->
  election_rivals n cid h = [] ->
  (inter_z (node_auth n) (m_auth m) <> [] \/ inter_z (node_acct n) (m_acct m) <> [] \/
   mem_z APP_RELAY (m_auth m) || mem_z APP_RELAY (m_acct m) = true) ->
  snd (recv_cer n cid m) = [OQueue cid (answer_of m (Some 2001) [])] /\
  exists c', get_conn (fst (recv_cer n cid m)) cid = Some c' /\ c_state c' = SReady /\ c_host c' = h.
Proof. exact (@NodeA.C06_cer_known_no_rivals n cid c m h p). Qed.

(* C06: the election is won (there are other connections towards the peer and the local name is the
   greater one): every rival is closed (CLEAN) and removed, then the CER is answered 2001, READY *)
Theorem C06_cer_election_won n cid c m h p :
  get_conn n cid = Some c -> c_state c = SConnected ->
  m_origin m = Present h -> get_peer n h = Some p ->
  election_rivals n cid h <> [] -> String.ltb h (g_host (n_cfg n)) = true ->
  (inter_z (node_auth n) (m_auth m) <> [] \/ inter_z (node_acct n) (m_acct m) <> [] \/
   mem_z APP_RELAY (m_auth m) || mem_z APP_RELAY (m_acct m) = true) ->
  (forall k, List.In k (election_rivals n cid h) ->
     List.In (OClose k R_CLEAN) (snd (recv_cer n cid m)) /\ get_conn (fst (recv_cer n cid m)) k = None) /\
  (exists oel, snd (recv_cer n cid m) = oel ++ [OQueue cid (answer_of m (Some 2001) [])] /\ oel <> [] /\
     forall o, List.In o oel -> exists k, List.In k (election_rivals n cid h) /\ o = OClose k R_CLEAN) /\
  (List.NoDup (cids n) ->
     snd (recv_cer n cid m) = List.map (fun k => OClose k R_CLEAN) (election_rivals n cid h)
                              ++ [OQueue cid (answer_of m (Some 2001) [])]) /\
  exists c', get_conn (fst (recv_cer n cid m)) cid = Some c' /\ c_state c' = SReady /\ c_host c' = h.
Proof. exact (@NodeA.C06_cer_election_won n cid c m h p). Qed.

(* C06: the election is lost (there are other connections towards the peer and the local name is not the
   greater one): the CER is answered 4003, the connection is CLOSING, nothing else changes: in particular no
   connection becomes ready *)
Theorem C06_cer_election_lost n cid c m h p :
  get_conn n cid = Some c -> c_state c = SConnected ->
  m_origin m = Present h -> get_peer n h = Some p ->
  election_rivals n cid h <> [] -> String.ltb h (g_host (n_cfg n)) = false ->
  snd (recv_cer n cid m) = [OQueue cid (answer_of m (Some 4003) [])] /\
  (exists c', get_conn (fst (recv_cer n cid m)) cid = Some c' /\ c_state c' = SClosing) /\
  (forall j, j <> cid -> get_conn (fst (recv_cer n cid m)) j = get_conn n j) /\
  (forall j cj, get_conn (fst (recv_cer n cid m)) j = Some cj -> is_ready_state (c_state cj) = true ->
     exists cj0, get_conn n j = Some cj0 /\ is_ready_state (c_state cj0) = true).
Proof. exact (@NodeA.C06_cer_election_lost n cid c m h p). Qed.

(* C06: a CER of an unknown peer is answered 3010 and the connection is CLOSING *)
Theorem C06_cer_unknown n cid c m h :
  get_conn n cid = Some c -> c_state c = SConnected -> m_origin m = Present h -> get_peer n h = None ->
  snd (recv_cer n cid m) = [OQueue cid (answer_of m (Some 3010) [])] /\
  exists c', get_conn (fst (recv_cer n cid m)) cid = Some c' /\ c_state c' = SClosing.
Proof. exact (@NodeA.C06_cer_unknown n cid c m h). Qed.

(* C06: a CER of a configured peer with no common application, the election being decided for the new
   connection: the rivals are closed, the CER is answered 5010; the state is unchanged *)
Theorem C06_cer_no_common n cid c m h p :
  get_conn n cid = Some c -> c_state c = SConnected ->
  m_origin m = Present h -> get_peer n h = Some p ->
  (election_rivals n cid h = [] \/ String.ltb h (g_host (n_cfg n)) = true) ->
  inter_z (node_auth n) (m_auth m) = [] -> inter_z (node_acct n) (m_acct m) = [] ->
  mem_z APP_RELAY (m_auth m) || mem_z APP_RELAY (m_acct m) = false ->
  snd (recv_cer n cid m) =
    snd (close_all n (election_rivals n cid h) R_CLEAN) ++ [OQueue cid (answer_of m (Some 5010) [])] /\
  (forall k, List.In k (election_rivals n cid h) ->
     List.In (OClose k R_CLEAN) (snd (recv_cer n cid m)) /\ get_conn (fst (recv_cer n cid m)) k = None) /\
  exists c', get_conn (fst (recv_cer n cid m)) cid = Some c' /\ c_state c' = c_state c.
Proof. exact (@NodeA.C06_cer_no_common n cid c m h p). Qed.

(* C06: ... with no other connection towards that peer the 5010 answer is the only output *)
Theorem C06_cer_no_common_no_rivals n cid c m h p :
  get_conn n cid = Some c -> c_state c = SConnected ->
  m_origin m = Present h -> get_peer n h = Some p ->
  election_rivals n cid h = [] ->
  inter_z (node_auth n) (m_auth m) = [] -> inter_z (node_acct n) (m_acct m) = [] ->
  mem_z APP_RELAY (m_auth m) || mem_z APP_RELAY (m_acct m) = false ->
  snd (recv_cer n cid m) = [OQueue cid (answer_of m (Some 5010) [])] /\
  exists c', get_conn (fst (recv_cer n cid m)) cid = Some c' /\ c_state c' = c_state c.
Proof. exact (@NodeA.C06_cer_no_common_no_rivals n cid c m h p). Qed.

(* C06: the I/O thread writes the buffered answer of a CLOSING connection, then closes it (CLEAN) and removes it *)
Theorem C06_unknown_then_closed n cid c :
  get_conn n cid = Some c -> c_state c = SClosing -> c_stalled c = false -> c_sock_open c = true ->
  c_out c <> [] ->
  (exists pre post, snd (flush n) = pre ++ List.map (OSend cid) (c_out c) ++ [OClose cid R_CLEAN] ++ post) /\
  get_conn (fst (flush n)) cid = None.
Proof. exact (@NodeA.C06_unknown_then_closed n cid c). Qed.

(* C06: the first thing queued on an outbound connection is a CER; the connection is CONNECTED and outbound *)
Theorem C06_outbound_first_is_cer n name h0 p :
  get_peer n name = Some p -> p_conn p = None -> p_has_addr p = true ->
  get_conn n (n_next_cid n) = None ->
  exists cer c',
    snd (connect_to_peer n name h0 DialOk) = [ODial name; OQueue (n_next_cid n) cer] /\
    o_cmd cer = CE /\ o_req cer = true /\
    get_conn (fst (connect_to_peer n name h0 DialOk)) (n_next_cid n) = Some c' /\
    c_state c' = SConnected /\ c_recv c' = false.
Proof. exact (@NodeA.C06_outbound_first_is_cer n name h0 p). Qed.

(* C06: a CEA 2001 of the dialled peer, arriving on a CONNECTED connection, makes it READY; nothing is sent *)
Theorem C06_cea_accepted n cid c m h :
  get_conn n cid = Some c -> c_state c = SConnected ->
  m_result m = Present 2001 -> m_origin m = Present h ->
  (c_node_name c = "" \/ h = c_node_name c) ->
  snd (recv_cea n cid m) = [] /\
  exists c', get_conn (fst (recv_cea n cid m)) cid = Some c' /\ c_state c' = SReady /\ c_host c' = h /\
             c_node_name c' = c_node_name c /\
             c_auth c' = inter_z (node_auth n) (m_auth m) /\ c_acct c' = inter_z (node_acct n) (m_acct m).
Proof. exact (@NodeA.C06_cea_accepted n cid c m h). Qed.

(* C06: a CEA whose Result-Code is not 2001, arriving on a CONNECTED connection, closes it (CER_REJECTED) *)
Theorem C06_cea_rejected n cid c m :
  get_conn n cid = Some c -> c_state c = SConnected ->
  m_result m <> Present 2001 ->
  recv_cea n cid m = close_conn n cid R_CER_REJECTED /\
  snd (recv_cea n cid m) = [OClose cid R_CER_REJECTED] /\
  get_conn (fst (recv_cea n cid m)) cid = None.
Proof. exact (@NodeA.C06_cea_rejected n cid c m). Qed.

(* C06: a CEA 2001 whose Origin-Host is not the peer that was dialled closes the connection (CER_REJECTED) *)
Theorem C06_cea_wrong_identity n cid c m h :
  get_conn n cid = Some c -> c_state c = SConnected ->
  m_result m = Present 2001 -> m_origin m = Present h ->
  c_node_name c <> "" -> h <> c_node_name c ->
  recv_cea n cid m = close_conn n cid R_CER_REJECTED /\
  snd (recv_cea n cid m) = [OClose cid R_CER_REJECTED] /\
  get_conn (fst (recv_cea n cid m)) cid = None.
Proof. exact (@NodeA.C06_cea_wrong_identity n cid c m h). Qed.

(* C06: a CEA 2001 without Origin-Host changes nothing (no partial update of the connection) *)
Theorem C06_cea_without_origin n cid m :
  m_result m = Present 2001 -> pres_get (m_origin m) = None -> recv_cea n cid m = (n, []).
Proof. exact (@NodeA.C06_cea_without_origin n cid m). Qed.

(* C06: a CEA is ignored unless the connection exists and is CONNECTED (the answer is awaited) *)
Theorem C06_cea_ignored_unless_connected n cid m :
  (forall c, get_conn n cid = Some c -> c_state c <> SConnected) -> recv_cea n cid m = (n, []).
Proof. exact (@NodeA.C06_cea_ignored_unless_connected n cid m). Qed.

(* C06: a CONNECTED connection whose CER / CEA does not arrive within the effective timeout is closed (FAILED_CE) *)
Theorem C06_timeout n cid c :
  n_stopping n = false -> get_conn n cid = Some c -> c_state c = SConnected ->
  let t := if c_recv c then eff_cer n c else eff_cea n c in
  (t < n_now n - c_last_read c -> check_timers n cid = close_conn n cid R_FAILED_CE) /\
  (n_now n - c_last_read c <= t -> check_timers n cid = (n, [])).
Proof. exact (@NodeA.C06_timeout n cid c). Qed.

Theorem C06_cer_ignored_unless_connected n cid m :
  (forall c, get_conn n cid = Some c -> c_state c <> SConnected) ->
  recv_cer n cid m =
  (match get_conn n cid with Some _ => drop_origin n cid (m_hbh m) (m_e2e m) | None => n end, []).
Proof. exact (@NodeA.C06_cer_ignored_unless_connected n cid m). Qed.

(* freshness of connection numbers is an invariant of step (it holds for a node without connections) *)
Theorem conns_fresh_step n ds e : conns_fresh n -> conns_fresh (fst (step n ds e)).
Proof. exact (@NodeA.conns_fresh_step n ds e). Qed.

(* C06: a connection that was not ready and is ready after a step: the step was a network read on that
   connection, the connection was CONNECTED, and the frames contain a CER of a configured peer or a CEA 2001,
   namely the one of the connection's direction (CER on an inbound, CEA on an outbound connection) *)
Theorem C06_ready_only_by_ce n ds e cid c c' :
  (cid < n_next_cid n)%nat ->
  get_conn n cid = Some c -> is_ready_state (c_state c) = false ->
  get_conn (fst (step n ds e)) cid = Some c' -> is_ready_state (c_state c') = true ->
  exists ms, e = ERecv cid ms /\ c_state c = SConnected /\
    (exists m, List.In m ms /\ (is_good_cer n m \/ is_good_cea m)) /\
    (exists m, List.In m ms /\ if c_recv c then is_good_cer n m else is_good_cea m).
Proof. exact (@NodeA.C06_ready_only_by_ce n ds e cid c c'). Qed.

(* C06: a connection becomes ready only from CONNECTED.  A connection that was not ready and is ready after a
   step was CONNECTED (one that is CONNECTING, DISCONNECTING, CLOSING or CLOSED never becomes ready, whatever
   happens), the step was a network read on that connection, and its frames contain the capabilities-exchange
   message of the connection's direction: a CER of a configured peer on an inbound connection, a CEA 2001 on
   an outbound one *)
Theorem C06_ready_only_from_connected n ds e cid c c' :
  get_conn n cid = Some c -> (cid < n_next_cid n)%nat -> is_ready_state (c_state c) = false ->
  get_conn (fst (step n ds e)) cid = Some c' -> is_ready_state (c_state c') = true ->
  c_state c = SConnected /\
  exists ms, e = ERecv cid ms /\
    exists m, List.In m ms /\ if c_recv c then is_good_cer n m else is_good_cea m.
Proof. exact (@NodeA.C06_ready_only_from_connected n ds e cid c c'). Qed.

(* C06: the direction of the capabilities exchange.  A connection becomes ready only while it is CONNECTED and
   only by (a) a CEA 2001 if it is outbound, (b) a CER of a configured peer if it is inbound *)
Theorem C06_direction n ds e cid c c' :
  (cid < n_next_cid n)%nat ->
  get_conn n cid = Some c -> is_ready_state (c_state c) = false ->
  get_conn (fst (step n ds e)) cid = Some c' -> is_ready_state (c_state c') = true ->
  exists ms, e = ERecv cid ms /\ c_state c = SConnected /\
    ((c_recv c = false /\ exists m, List.In m ms /\ is_good_cea m) \/
     (c_recv c = true /\ exists m, List.In m ms /\ is_good_cer n m)).
Proof. exact (@NodeA.C06_direction n ds e cid c c'). Qed.

(* C06: an outbound CONNECTED connection becomes ready only by a CEA 2001 *)
Theorem C06_direction_outbound n ds e cid c c' :
  (cid < n_next_cid n)%nat ->
  get_conn n cid = Some c -> c_state c = SConnected -> c_recv c = false ->
  get_conn (fst (step n ds e)) cid = Some c' -> is_ready_state (c_state c') = true ->
  exists ms, e = ERecv cid ms /\ exists m, List.In m ms /\ is_good_cea m.
Proof. exact (@NodeA.C06_direction_outbound n ds e cid c c'). Qed.

(* C06: an inbound CONNECTED connection becomes ready only by a CER of a configured peer *)
Theorem C06_direction_inbound n ds e cid c c' :
  (cid < n_next_cid n)%nat ->
  get_conn n cid = Some c -> c_state c = SConnected -> c_recv c = true ->
  get_conn (fst (step n ds e)) cid = Some c' -> is_ready_state (c_state c') = true ->
  exists ms, e = ERecv cid ms /\ exists m, List.In m ms /\ is_good_cer n m.
Proof. exact (@NodeA.C06_direction_inbound n ds e cid c c'). Qed.

(* C06: nothing revives a connection: one that is CONNECTING, DISCONNECTING, CLOSING or CLOSED is not ready
   after the step, whatever the event is and whatever is received (neither a CEA nor a CER) *)
Theorem C06_cea_never_revives n ds e cid c c' :
  (cid < n_next_cid n)%nat ->
  get_conn n cid = Some c ->
  (c_state c = SConnecting \/ c_state c = SDisconnecting \/ c_state c = SClosing \/ c_state c = SClosed) ->
  get_conn (fst (step n ds e)) cid = Some c' ->
  is_ready_state (c_state c') = false.
Proof. exact (@NodeA.C06_cea_never_revives n ds e cid c c'). Qed.
End FromNodeA.

Module FromNodeH.
Import DV.Prelude.Base DV.Model.Node DV.Proofs.NodeA DV.Proofs.NodeC DV.Proofs.NodeH.
Local Open Scope Z_scope.

(* C06: a request is handed to an application only by the dispatch of that frame of a network read, and in the
   state in which the frame is dispatched the connection is not CONNECTED, CLOSING or CLOSED (the gate is open:
   the capabilities exchange is over and the connection is not being torn down) *)
Theorem C06_history_gate n0 evs nk e outs i m :
  List.In (nk, (e, outs)) (strace n0 evs) -> List.In (ODeliver i m) outs ->
  exists cid ms ds ms1 ms2 c,
    e = ERecv cid ms /\ ms = (ms1 ++ m :: ms2)%list /\
    let n' := fst (dispatch_all (read_state nk ds cid) cid ms1) in
    get_conn n' cid = Some c /\ gated (c_state c) = false /\
    List.In (ODeliver i m) (snd (dispatch n' cid m)).
Proof. exact (@NodeH.C06_history_gate n0 evs nk e outs i m). Qed.

(* C06 (one step): a read on a CONNECTED connection that holds no good capabilities-exchange frame of the
   connection's direction delivers nothing and queues no answer but capabilities-exchange answers on it *)
Theorem C06_step_gate_connected n ds cid ms c :
  (cid < n_next_cid n)%nat -> get_conn n cid = Some c -> c_state c = SConnected ->
  (forall m, List.In m ms -> ~ (if c_recv c then is_good_cer n m else is_good_cea m)) ->
  List.Forall (gout cid) (snd (step n ds (ERecv cid ms))).
Proof. exact (@NodeH.C06_step_gate_connected n ds cid ms c). Qed.

(* C06: along a history, a read on a connection that is still CONNECTED (capabilities exchange not completed) and
   whose frames hold no good CER (inbound) / CEA 2001 (outbound) hands nothing to an application and queues no
   answer other than capabilities-exchange answers on that connection *)
Theorem C06_history_gate_connected n0 evs nk cid ms outs c :
  conns_fresh n0 -> List.In (nk, (ERecv cid ms, outs)) (strace n0 evs) ->
  get_conn nk cid = Some c -> c_state c = SConnected ->
  (forall m, List.In m ms -> ~ (if c_recv c then is_good_cer nk m else is_good_cea m)) ->
  (forall i m, ~ List.In (ODeliver i m) outs) /\
  (forall j a, List.In (OQueue j a) outs -> o_req a = false -> j = cid /\ o_cmd a = CE).
Proof. exact (@NodeH.C06_history_gate_connected n0 evs nk cid ms outs c). Qed.

(* C refuted as stated for "ready": the gate is also open on a DISCONNECTING connection (after the peer's DPR), so a
   request that follows the DPR is still handed to the application *)
Theorem C06_history_gate_ready_refuted :
  ~ (forall n ds cid ms c i m,
       get_conn n cid = Some c -> List.In (ODeliver i m) (snd (step n ds (ERecv cid ms))) ->
       (forall x, List.In x ms -> m_cmd x <> CE) -> is_ready_state (c_state c) = true).
Proof. exact NodeH.Examples.C06_history_gate_ready_refuted. Qed.
End FromNodeH.

Print Assumptions FromNodeA.C06_gate_connected.
Print Assumptions FromNodeA.C06_gate_closing.
Print Assumptions FromNodeA.C06_cer_known.
Print Assumptions FromNodeA.C06_cer_known_no_rivals.
Print Assumptions FromNodeA.C06_cer_election_won.
Print Assumptions FromNodeA.C06_cer_election_lost.
Print Assumptions FromNodeA.C06_cer_unknown.
Print Assumptions FromNodeA.C06_cer_no_common.
Print Assumptions FromNodeA.C06_cer_no_common_no_rivals.
Print Assumptions FromNodeA.C06_unknown_then_closed.
Print Assumptions FromNodeA.C06_outbound_first_is_cer.
Print Assumptions FromNodeA.C06_cea_accepted.
Print Assumptions FromNodeA.C06_cea_rejected.
Print Assumptions FromNodeA.C06_cea_wrong_identity.
Print Assumptions FromNodeA.C06_cea_without_origin.
Print Assumptions FromNodeA.C06_cea_ignored_unless_connected.
Print Assumptions FromNodeA.C06_timeout.
Print Assumptions FromNodeA.C06_cer_ignored_unless_connected.
Print Assumptions FromNodeA.conns_fresh_step.
Print Assumptions FromNodeA.C06_ready_only_by_ce.
Print Assumptions FromNodeA.C06_ready_only_from_connected.
Print Assumptions FromNodeA.C06_direction.
Print Assumptions FromNodeA.C06_direction_outbound.
Print Assumptions FromNodeA.C06_direction_inbound.
Print Assumptions FromNodeA.C06_cea_never_revives.
Print Assumptions FromNodeH.C06_history_gate.
Print Assumptions FromNodeH.C06_step_gate_connected.
Print Assumptions FromNodeH.C06_history_gate_connected.
Print Assumptions FromNodeH.C06_history_gate_ready_refuted.
