(* C08 — received messages reach exactly the application the routing table names, once
   Statements copied from the proof files; each is closed by `exact`. *)
From DV Require Prelude.Base Model.Ids Proofs.IdsP Model.Node Proofs.NodeB.
From Coq Require String List Lia Bool Arith ZArith.

Module FromNodeB.
Import DV.Prelude.Base DV.Model.Node DV.Proofs.NodeB.
Import Coq.Strings.String.

(* C08: an application request on an existing connection produces exactly what the routing
   function says: one delivery to the chosen application, or one answer with the specified result code *)
Theorem C08_route_refines n cid c m k :
  get_conn n cid = Some c -> m_req m = true -> m_cmd m = App k ->
  snd (receive_message n cid m) = route_outputs cid m (spec_route n c m).
Proof. exact (@NodeB.C08_route_refines n cid c m k). Qed.

(* C08: when the routing function delivers to application i, the delivery is the whole output: no
   other application gets the request and the node queues nothing; and i is an application with the
   request's application id, routed in the request's realm (through the sending peer if it is configured) *)
Theorem C08_exactly_once n cid c m k i :
  get_conn n cid = Some c -> m_req m = true -> m_cmd m = App k ->
  spec_route n c m = Deliver i ->
  snd (receive_message n cid m) = [ODeliver i m]
  /\ (forall j m', List.In (ODeliver j m') (snd (receive_message n cid m)) -> j = i /\ m' = m)
  /\ (forall cid' a, ~ List.In (OQueue cid' a) (snd (receive_message n cid m)))
  /\ exists realm entries names a,
       m_drealm m = Present realm /\ List.In (realm, entries) (n_routes n) /\
       List.In (RApp i, names) entries /\ List.nth_error (n_apps n) i = Some a /\ a_id a = m_app m /\
       match find_conn_peer n c with Some p => List.In (p_name p) names | None => True end.
Proof. exact (@NodeB.C08_exactly_once n cid c m k i). Qed.

(* C08: base protocol messages (capabilities exchange, watchdog, disconnect) never reach an application *)
Theorem C08_base_never_delivered n cid m :
  m_cmd m = CE \/ m_cmd m = DW \/ m_cmd m = DP ->
  forall i m', ~ List.In (ODeliver i m') (snd (dispatch n cid m)).
Proof. exact (@NodeB.C08_base_never_delivered n cid m). Qed.

(* C08: once the connection is ready the gate lets every message through to the node *)
Theorem C08_gate_then_route n cid c m :
  get_conn n cid = Some c -> is_ready_state (c_state c) = true ->
  dispatch n cid m = receive_message n cid m.
Proof. exact (@NodeB.C08_gate_then_route n cid c m). Qed.
End FromNodeB.

Print Assumptions FromNodeB.C08_route_refines.
Print Assumptions FromNodeB.C08_exactly_once.
Print Assumptions FromNodeB.C08_base_never_delivered.
Print Assumptions FromNodeB.C08_gate_then_route.
