(* Typed AVP values (Model/Types.v): the setters and getters are mutually inverse
   on the documented domain of each type, the setters reject everything outside
   it (Time excepted: known finding C01-time-wrap), and the getters are total. *)
From DV Require Import Prelude.Base Proofs.BaseP Proofs.IdsFmt Spec.Rfc6733 Model.Wire Model.Types.

(* valid Unicode scalar value *)
Definition scalar (c : Z) : Prop := 0 <= c < 1114112 /\ ~ (55296 <= c <= 57343).

(* ====================================================================== *)
(* integers                                                                *)
(* ====================================================================== *)
Lemma pow256_pos n : 0 < 256 ^ Z.of_nat n.
Proof. apply Z.pow_pos_nonneg; lia. Qed.

Lemma pow256_even n : (0 < n)%nat -> 256 ^ Z.of_nat n = 2 * (256 ^ Z.of_nat n / 2).
Proof.
  intros Hn. destruct n as [|k]; [lia|].
  rewrite Nat2Z.inj_succ, Z.pow_succ_r by lia.
  pose proof (pow256_pos k). set (m := 256 ^ Z.of_nat k) in *. lia.
Qed.

Lemma andb_range_true a b x : a <= x < b -> (a <=? x) && (x <? b) = true.
Proof. intros; lia. Qed.

Lemma andb_range_false a b x : ~ (a <= x < b) -> (a <=? x) && (x <? b) = false.
Proof. intros; lia. Qed.

Theorem pack_u_roundtrip : forall n x, 0 <= x < 256 ^ Z.of_nat n ->
  pack_u n x = Ok (be_enc n x) /\ unpack_u n (be_enc n x) = Ok x.
Proof.
  intros n x Hx. unfold pack_u, unpack_u.
  rewrite andb_range_true by exact Hx.
  rewrite be_enc_length, Nat.eqb_refl, be_dec_enc by exact Hx. split; reflexivity.
Qed.

Theorem pack_u_rejects : forall n x, ~ (0 <= x < 256 ^ Z.of_nat n) -> pack_u n x = Err StructError.
Proof. intros n x Hx. unfold pack_u. rewrite andb_range_false by exact Hx. reflexivity. Qed.

(* two's complement residue of a value in the signed range *)
Lemma mod_signed m x : 0 < m -> - m <= x < m ->
  x mod m = if x <? 0 then x + m else x.
Proof.
  intros Hm Hx. destruct (x <? 0) eqn:E.
  - symmetry. apply (Z.mod_unique_pos x m (-1)); lia.
  - apply Z.mod_small; lia.
Qed.

Theorem pack_s_roundtrip : forall n x, (0 < n)%nat -> - (256 ^ Z.of_nat n / 2) <= x < 256 ^ Z.of_nat n / 2 ->
  pack_s n x = Ok (rfc_int n x) /\ unpack_s n (rfc_int n x) = Ok x.
Proof.
  intros n x Hn Hx. unfold pack_s, unpack_s, rfc_int. cbv zeta.
  pose proof (pow256_even n Hn) as He. pose proof (pow256_pos n) as Hp.
  set (m := 256 ^ Z.of_nat n) in *. set (h := m / 2) in *.
  rewrite andb_range_true by exact Hx. split; [reflexivity|].
  rewrite be_enc_length, Nat.eqb_refl.
  assert (Hr : 0 <= x mod m < m) by (apply Z.mod_pos_bound; lia).
  rewrite be_dec_enc by exact Hr.
  rewrite mod_signed in * by lia.
  destruct (x <? 0) eqn:E0.
  - destruct (x + m <? h) eqn:E1; [lia|]. f_equal; lia.
  - destruct (x <? h) eqn:E1; [reflexivity|lia].
Qed.

Theorem pack_s_rejects : forall n x, ~ (- (256 ^ Z.of_nat n / 2) <= x < 256 ^ Z.of_nat n / 2) -> pack_s n x = Err StructError.
Proof. intros n x Hx. unfold pack_s. cbv zeta. rewrite andb_range_false by exact Hx. reflexivity. Qed.

Lemma unpack_u_inv n p x : unpack_u n p = Ok x -> List.length p = n /\ x = be_dec p.
Proof.
  unfold unpack_u. destruct (Nat.eqb (List.length p) n) eqn:E; [|discriminate].
  intros H; injection H as <-. apply Nat.eqb_eq in E. split; [exact E|reflexivity].
Qed.

Lemma unpack_u_err n p e : unpack_u n p = Err e -> e = StructError.
Proof. unfold unpack_u. destruct (Nat.eqb (List.length p) n); congruence. Qed.

Theorem unpack_u_enc : forall n p x, wf_bytes p -> unpack_u n p = Ok x -> 0 <= x < 256 ^ Z.of_nat n /\ be_enc n x = p.
Proof.
  intros n p x Hw H. apply unpack_u_inv in H as [<- ->].
  split; [apply be_dec_bound; exact Hw|apply be_enc_dec; exact Hw].
Qed.

Lemma unpack_s_inv n p x : unpack_s n p = Ok x ->
  List.length p = n /\ x = (if be_dec p <? 256 ^ Z.of_nat n / 2 then be_dec p else be_dec p - 256 ^ Z.of_nat n).
Proof.
  unfold unpack_s. destruct (Nat.eqb (List.length p) n) eqn:E; [|discriminate]. cbv zeta.
  intros H; injection H as <-. apply Nat.eqb_eq in E. split; [exact E|reflexivity].
Qed.

Lemma unpack_s_err n p e : unpack_s n p = Err e -> e = StructError.
Proof. unfold unpack_s. destruct (Nat.eqb (List.length p) n); congruence. Qed.

Theorem unpack_s_enc : forall n p x, (0 < n)%nat -> wf_bytes p -> unpack_s n p = Ok x ->
  - (256 ^ Z.of_nat n / 2) <= x < 256 ^ Z.of_nat n / 2 /\ rfc_int n x = p.
Proof.
  intros n p x Hn Hw H. apply unpack_s_inv in H as [Hl Hx].
  pose proof (be_dec_bound p Hw) as Hb. rewrite Hl in Hb.
  pose proof (pow256_even n Hn) as He.
  assert (Hm : x mod 256 ^ Z.of_nat n = be_dec p).
  { set (m := 256 ^ Z.of_nat n) in *. set (h := m / 2) in *. set (u := be_dec p) in *.
    destruct (u <? h) eqn:E; subst x.
    - apply Z.mod_small; lia.
    - symmetry. apply (Z.mod_unique_pos (u - m) m (-1)); lia. }
  split.
  - set (m := 256 ^ Z.of_nat n) in *. set (h := m / 2) in *. set (u := be_dec p) in *.
    destruct (u <? h) eqn:E; subst x; lia.
  - unfold rfc_int. rewrite Hm, <- Hl. apply be_enc_dec; exact Hw.
Qed.

(* ====================================================================== *)
(* Time                                                                    *)
(* ====================================================================== *)
Definition time_domain (s : Z) : Prop := -61505152 <= s < 4233462144.

Lemma pow256_4 : 256 ^ Z.of_nat 4 = 4294967296.
Proof. reflexivity. Qed.

Lemma pack_u4_ok x : 0 <= x < 4294967296 -> pack_u 4 x = Ok (be_enc 4 x).
Proof. intros H. apply pack_u_roundtrip. rewrite pow256_4. exact H. Qed.

Lemma pack_u4_err x : ~ (0 <= x < 4294967296) -> pack_u 4 x = Err StructError.
Proof. intros H. apply pack_u_rejects. rewrite pow256_4. exact H. Qed.

Theorem time_enc_is_rfc : forall s, time_domain s -> time_enc rfc_time s = Ok (rfc_time_data s).
Proof.
  intros s Hs. unfold time_domain in Hs. unfold time_enc, rfc_time_data. cbn [t_1900 t_over rfc_time].
  destruct (s <? 2085978496) eqn:E.
  - rewrite pack_u4_ok by lia. do 2 f_equal. lia.
  - rewrite pack_u4_ok by lia. do 2 f_equal. lia.
Qed.

Lemma time_dec_data s : time_domain s -> time_dec rfc_time (rfc_time_data s) = Ok s.
Proof.
  intros Hs. unfold time_domain in Hs. unfold time_dec, rfc_time_data, unpack_u.
  rewrite be_enc_length, Nat.eqb_refl. rewrite be_dec_enc by (rewrite pow256_4; lia).
  cbn [t_1900 t_over t_cut rfc_time].
  destruct ((s + 2208988800) mod 4294967296 <? 2147483648) eqn:E; f_equal; lia.
Qed.

Theorem time_roundtrip : forall s, time_domain s -> exists p, time_enc rfc_time s = Ok p /\ time_dec rfc_time p = Ok s.
Proof.
  intros s Hs. exists (rfc_time_data s). split; [apply time_enc_is_rfc|apply time_dec_data]; exact Hs.
Qed.

Theorem time_dec_enc : forall p s, wf_bytes p -> time_dec rfc_time p = Ok s -> time_domain s /\ time_enc rfc_time s = Ok p.
Proof.
  intros p s Hw H. unfold time_dec in H.
  destruct (unpack_u 4 p) as [n|e] eqn:U; [|discriminate].
  apply unpack_u_enc in U; [|exact Hw]. destruct U as [Hn Hp]. rewrite pow256_4 in Hn.
  cbn [t_1900 t_over t_cut rfc_time] in H. unfold time_domain, time_enc. cbn [t_1900 t_over rfc_time].
  destruct (n <? 2147483648) eqn:E; injection H as <-.
  - split; [lia|]. destruct (n + 2085978496 <? 2085978496) eqn:E2; [lia|].
    replace (n + 2085978496 - 2085978496) with n by lia.
    rewrite pack_u4_ok by lia. rewrite Hp. reflexivity.
  - split; [lia|]. destruct (n - 2208988800 <? 2085978496) eqn:E2; [|lia].
    replace (n - 2208988800 + 2208988800) with n by lia.
    rewrite pack_u4_ok by lia. rewrite Hp. reflexivity.
Qed.

(* known finding C01-time-wrap: outside the documented range the setter wraps *)
Theorem time_wraps_refuted : exists s p s', ~ time_domain s /\ time_enc rfc_time s = Ok p /\ time_dec rfc_time p = Ok s' /\ s' <> s.
Proof.
  exists (-315619200), (be_enc 4 1893369600), 3979348096.
  split; [unfold time_domain; lia|].
  split; [vm_compute; reflexivity|].
  split; [vm_compute; reflexivity|lia].
Qed.

Theorem time_rejects_partial : forall s, s < -2208988800 \/ 6380945792 <= s -> time_enc rfc_time s = Err AvpEncodeError.
Proof.
  intros s Hs. unfold time_enc. cbn [t_1900 t_over rfc_time].
  destruct (s <? 2085978496) eqn:E; rewrite pack_u4_err by lia; reflexivity.
Qed.

(* ====================================================================== *)
(* UTF-8                                                                   *)
(* ====================================================================== *)
(* the encoder, range by range *)
Lemma enc1_1 c : 0 <= c < 128 -> utf8_enc1 c = Some [c].
Proof.
  intros H. unfold utf8_enc1.
  destruct (c <? 0) eqn:?; [lia|]. destruct (c <? 128) eqn:?; [reflexivity|lia].
Qed.

Lemma enc1_2 c : 128 <= c < 2048 -> utf8_enc1 c = Some [192 + c / 64; 128 + c mod 64].
Proof.
  intros H. unfold utf8_enc1.
  destruct (c <? 0) eqn:?; [lia|]. destruct (c <? 128) eqn:?; [lia|].
  destruct (c <? 2048) eqn:?; [reflexivity|lia].
Qed.

Lemma enc1_3 c : 2048 <= c < 65536 -> ~ (55296 <= c <= 57343) ->
  utf8_enc1 c = Some [224 + c / 4096; 128 + (c / 64) mod 64; 128 + c mod 64].
Proof.
  intros H Hs. unfold utf8_enc1.
  destruct (c <? 0) eqn:?; [lia|]. destruct (c <? 128) eqn:?; [lia|].
  destruct (c <? 2048) eqn:?; [lia|]. destruct (c <? 65536) eqn:?; [|lia].
  destruct ((55296 <=? c) && (c <=? 57343)) eqn:?; [lia|reflexivity].
Qed.

Lemma enc1_4 c : 65536 <= c < 1114112 ->
  utf8_enc1 c = Some [240 + c / 262144; 128 + (c / 4096) mod 64; 128 + (c / 64) mod 64; 128 + c mod 64].
Proof.
  intros H. unfold utf8_enc1.
  destruct (c <? 0) eqn:?; [lia|]. destruct (c <? 128) eqn:?; [lia|].
  destruct (c <? 2048) eqn:?; [lia|]. destruct (c <? 65536) eqn:?; [lia|].
  destruct (c <? 1114112) eqn:?; [reflexivity|lia].
Qed.

Lemma enc1_none c : ~ scalar c -> utf8_enc1 c = None.
Proof.
  unfold scalar. intros H. unfold utf8_enc1.
  destruct (c <? 0) eqn:?; [reflexivity|]. destruct (c <? 128) eqn:?; [lia|].
  destruct (c <? 2048) eqn:?; [lia|]. destruct (c <? 65536) eqn:?.
  - destruct ((55296 <=? c) && (c <=? 57343)) eqn:?; [reflexivity|lia].
  - destruct (c <? 1114112) eqn:?; [lia|reflexivity].
Qed.

Lemma scalar_dec c : scalar c \/ ~ scalar c.
Proof. unfold scalar. lia. Qed.

(* ... and the converse case analysis *)
Lemma enc1_cases c b : utf8_enc1 c = Some b ->
  (0 <= c < 128 /\ b = [c]) \/
  (128 <= c < 2048 /\ b = [192 + c / 64; 128 + c mod 64]) \/
  (2048 <= c < 65536 /\ ~ (55296 <= c <= 57343) /\
     b = [224 + c / 4096; 128 + (c / 64) mod 64; 128 + c mod 64]) \/
  (65536 <= c < 1114112 /\
     b = [240 + c / 262144; 128 + (c / 4096) mod 64; 128 + (c / 64) mod 64; 128 + c mod 64]).
Proof.
  intros H. destruct (scalar_dec c) as [Hs|Hs]; [|rewrite enc1_none in H by exact Hs; discriminate].
  unfold scalar in Hs.
  destruct (c <? 128) eqn:E1.
  { left. rewrite enc1_1 in H by lia. injection H as <-. split; [lia|reflexivity]. }
  destruct (c <? 2048) eqn:E2.
  { right; left. rewrite enc1_2 in H by lia. injection H as <-. split; [lia|reflexivity]. }
  destruct (c <? 65536) eqn:E3.
  { right; right; left. rewrite enc1_3 in H by lia. injection H as <-. repeat split; lia. }
  right; right; right. rewrite enc1_4 in H by lia. injection H as <-. split; [lia|reflexivity].
Qed.

Lemma wf2 a b : 0 <= a < 256 -> 0 <= b < 256 -> wf_bytes [a; b].
Proof. intros; repeat constructor; lia. Qed.

Theorem utf8_enc1_wf : forall c b, utf8_enc1 c = Some b -> wf_bytes b /\ (1 <= List.length b <= 4)%nat.
Proof.
  intros c b H. apply enc1_cases in H.
  destruct H as [[Hc ->]|[[Hc ->]|[[Hc [Hs ->]]|[Hc ->]]]]; (split; [|cbn [List.length]; lia]).
  - repeat constructor; lia.
  - repeat constructor; lia.
  - repeat constructor; lia.
  - repeat constructor; lia.
Qed.

Theorem utf8_enc1_accepts : forall c, scalar c <-> exists b, utf8_enc1 c = Some b.
Proof.
  intros c. split.
  - intros Hs. unfold scalar in Hs.
    destruct (c <? 128) eqn:E1; [eexists; apply enc1_1; lia|].
    destruct (c <? 2048) eqn:E2; [eexists; apply enc1_2; lia|].
    destruct (c <? 65536) eqn:E3; [eexists; apply enc1_3; lia|].
    eexists; apply enc1_4; lia.
  - intros [b H]. destruct (scalar_dec c) as [Hs|Hs]; [exact Hs|].
    rewrite enc1_none in H by exact Hs. discriminate.
Qed.

(* the decoder, one unfolding step *)
Lemma utf8_dec_cons b0 r0 : utf8_dec (b0 :: r0) =
  if (0 <=? b0) && (b0 <? 128) then
    match utf8_dec r0 with Some l => Some (b0 :: l) | None => None end
  else if (194 <=? b0) && (b0 <=? 223) then
    match r0 with
    | b1 :: r1 =>
        if cont b1 then
          match utf8_dec r1 with Some l => Some ((b0 - 192) * 64 + (b1 - 128) :: l) | None => None end
        else None
    | _ => None
    end
  else if (224 <=? b0) && (b0 <=? 239) then
    match r0 with
    | b1 :: b2 :: r2 =>
        let c := (b0 - 224) * 4096 + (b1 - 128) * 64 + (b2 - 128) in
        if cont b1 && cont b2 && (2048 <=? c) && negb ((55296 <=? c) && (c <=? 57343)) then
          match utf8_dec r2 with Some l => Some (c :: l) | None => None end
        else None
    | _ => None
    end
  else if (240 <=? b0) && (b0 <=? 244) then
    match r0 with
    | b1 :: b2 :: b3 :: r3 =>
        let c := (b0 - 240) * 262144 + (b1 - 128) * 4096 + (b2 - 128) * 64 + (b3 - 128) in
        if cont b1 && cont b2 && cont b3 && (65536 <=? c) && (c <? 1114112) then
          match utf8_dec r3 with Some l => Some (c :: l) | None => None end
        else None
    | _ => None
    end
  else None.
Proof. reflexivity. Qed.

Definition ocons (c : Z) (o : option (list Z)) : option (list Z) :=
  match o with Some l => Some (c :: l) | None => None end.

Lemma cont_iff b : cont b = true <-> 128 <= b <= 191.
Proof. unfold cont. lia. Qed.

Lemma dec_1 b0 r : 0 <= b0 < 128 -> utf8_dec (b0 :: r) = ocons b0 (utf8_dec r).
Proof.
  intros H. rewrite utf8_dec_cons.
  destruct ((0 <=? b0) && (b0 <? 128)) eqn:?; [reflexivity|lia].
Qed.

Lemma dec_2 b0 b1 r : 194 <= b0 <= 223 -> 128 <= b1 <= 191 ->
  utf8_dec (b0 :: b1 :: r) = ocons ((b0 - 192) * 64 + (b1 - 128)) (utf8_dec r).
Proof.
  intros H0 H1. rewrite utf8_dec_cons.
  destruct ((0 <=? b0) && (b0 <? 128)) eqn:?; [lia|].
  destruct ((194 <=? b0) && (b0 <=? 223)) eqn:?; [|lia].
  apply cont_iff in H1. rewrite H1. reflexivity.
Qed.

Lemma dec_3 b0 b1 b2 r c : 224 <= b0 <= 239 -> 128 <= b1 <= 191 -> 128 <= b2 <= 191 ->
  c = (b0 - 224) * 4096 + (b1 - 128) * 64 + (b2 - 128) ->
  2048 <= c -> ~ (55296 <= c <= 57343) ->
  utf8_dec (b0 :: b1 :: b2 :: r) = ocons c (utf8_dec r).
Proof.
  intros H0 H1 H2 Hc Hlo Hs. rewrite utf8_dec_cons. cbv zeta. rewrite <- Hc.
  destruct ((0 <=? b0) && (b0 <? 128)) eqn:?; [lia|].
  destruct ((194 <=? b0) && (b0 <=? 223)) eqn:?; [lia|].
  destruct ((224 <=? b0) && (b0 <=? 239)) eqn:?; [|lia].
  apply cont_iff in H1, H2. rewrite H1, H2. cbn [andb].
  destruct ((2048 <=? c) && negb ((55296 <=? c) && (c <=? 57343))) eqn:?; [reflexivity|lia].
Qed.

Lemma dec_4 b0 b1 b2 b3 r c : 240 <= b0 <= 244 -> 128 <= b1 <= 191 -> 128 <= b2 <= 191 -> 128 <= b3 <= 191 ->
  c = (b0 - 240) * 262144 + (b1 - 128) * 4096 + (b2 - 128) * 64 + (b3 - 128) ->
  65536 <= c < 1114112 ->
  utf8_dec (b0 :: b1 :: b2 :: b3 :: r) = ocons c (utf8_dec r).
Proof.
  intros H0 H1 H2 H3 Hc Hr. rewrite utf8_dec_cons. cbv zeta. rewrite <- Hc.
  destruct ((0 <=? b0) && (b0 <? 128)) eqn:?; [lia|].
  destruct ((194 <=? b0) && (b0 <=? 223)) eqn:?; [lia|].
  destruct ((224 <=? b0) && (b0 <=? 239)) eqn:?; [lia|].
  destruct ((240 <=? b0) && (b0 <=? 244)) eqn:?; [|lia].
  apply cont_iff in H1, H2, H3. rewrite H1, H2, H3. cbn [andb].
  destruct ((65536 <=? c) && (c <? 1114112)) eqn:?; [reflexivity|lia].
Qed.

(* decoding an encoded code point followed by anything *)
Lemma utf8_dec_enc1_gen c b rest : utf8_enc1 c = Some b -> utf8_dec (b ++ rest) = ocons c (utf8_dec rest).
Proof.
  intros H. apply enc1_cases in H.
  destruct H as [[Hc ->]|[[Hc ->]|[[Hc [Hs ->]]|[Hc ->]]]]; cbn [app].
  - apply dec_1; lia.
  - rewrite dec_2 by lia. f_equal. lia.
  - apply dec_3; lia.
  - apply dec_4; lia.
Qed.

Theorem utf8_dec_enc1 : forall c b rest l, utf8_enc1 c = Some b -> utf8_dec rest = Some l ->
  utf8_dec (b ++ rest) = Some (c :: l).
Proof. intros c b rest l H Hr. rewrite (utf8_dec_enc1_gen c b rest H), Hr. reflexivity. Qed.

Theorem utf8_roundtrip : forall cps, Forall scalar cps ->
  exists b, utf8_enc cps = Some b /\ utf8_dec b = Some cps /\ wf_bytes b.
Proof.
  intros cps H. induction H as [|c cps Hc _ IH].
  - exists []. repeat split; constructor.
  - destruct IH as [b' [He [Hd Hw]]]. apply utf8_enc1_accepts in Hc as [b Hb].
    exists (b ++ b'). cbn [utf8_enc]. rewrite Hb, He. split; [reflexivity|]. split.
    + apply utf8_dec_enc1; assumption.
    + apply Forall_app. split; [apply (utf8_enc1_wf c b Hb)|exact Hw].
Qed.

Lemma utf8_enc_scalar cps b : utf8_enc cps = Some b -> Forall scalar cps.
Proof.
  revert b; induction cps as [|c cps IH]; intros b H; [constructor|].
  cbn [utf8_enc] in H. destruct (utf8_enc1 c) as [a|] eqn:E1; [|discriminate].
  destruct (utf8_enc cps) as [b'|] eqn:E2; [|discriminate].
  constructor; [apply utf8_enc1_accepts; exists a; exact E1|apply (IH b'); reflexivity].
Qed.

Theorem utf8_rejects : forall cps, ~ Forall scalar cps -> utf8_enc cps = None.
Proof.
  intros cps H. destruct (utf8_enc cps) as [b|] eqn:E; [|reflexivity].
  exfalso. apply H. apply (utf8_enc_scalar cps b E).
Qed.

(* one step of the decoder, inverted: it peeled the encoding of one scalar value *)
Lemma utf8_dec_inv bs cps : utf8_dec bs = Some cps ->
  (bs = [] /\ cps = []) \/
  exists c b rest l, bs = b ++ rest /\ cps = c :: l /\ utf8_enc1 c = Some b /\
                     utf8_dec rest = Some l /\ (List.length rest < List.length bs)%nat.
Proof.
  intros H. destruct bs as [|b0 r0]; [left; cbn in H; injection H as <-; split; reflexivity|].
  right. rewrite utf8_dec_cons in H.
  destruct ((0 <=? b0) && (b0 <? 128)) eqn:E1.
  { destruct (utf8_dec r0) as [l|] eqn:D; [|discriminate]. injection H as <-.
    exists b0, [b0], r0, l.
    split; [reflexivity|]. split; [reflexivity|]. split; [apply enc1_1; lia|]. split; [exact D|cbn [List.length]; lia]. }
  destruct ((194 <=? b0) && (b0 <=? 223)) eqn:E2.
  { destruct r0 as [|b1 r1]; [discriminate|].
    destruct (cont b1) eqn:C1; [|discriminate]. apply cont_iff in C1.
    destruct (utf8_dec r1) as [l|] eqn:D; [|discriminate]. injection H as <-.
    exists ((b0 - 192) * 64 + (b1 - 128)), [b0; b1], r1, l.
    split; [reflexivity|]. split; [reflexivity|]. split; [|split; [exact D|cbn [List.length]; lia]].
    rewrite enc1_2 by lia. do 2 f_equal; [lia|f_equal; lia]. }
  destruct ((224 <=? b0) && (b0 <=? 239)) eqn:E3.
  { destruct r0 as [|b1 [|b2 r2]]; [discriminate..|]. cbv zeta in H.
    set (c := (b0 - 224) * 4096 + (b1 - 128) * 64 + (b2 - 128)) in *.
    destruct (cont b1 && cont b2 && (2048 <=? c) && negb ((55296 <=? c) && (c <=? 57343))) eqn:C; [|discriminate].
    apply andb_prop in C as [C C4]. apply andb_prop in C as [C C3]. apply andb_prop in C as [C1 C2].
    apply cont_iff in C1, C2.
    destruct (utf8_dec r2) as [l|] eqn:D; [|discriminate]. injection H as <-.
    exists c, [b0; b1; b2], r2, l.
    split; [reflexivity|]. split; [reflexivity|]. split; [|split; [exact D|cbn [List.length]; lia]].
    assert (Hc : c = (b0 - 224) * 4096 + (b1 - 128) * 64 + (b2 - 128)) by reflexivity.
    clearbody c. rewrite enc1_3 by lia. do 2 f_equal; [lia|f_equal; [lia|f_equal; lia]]. }
  destruct ((240 <=? b0) && (b0 <=? 244)) eqn:E4; [|discriminate].
  destruct r0 as [|b1 [|b2 [|b3 r3]]]; [discriminate..|]. cbv zeta in H.
  set (c := (b0 - 240) * 262144 + (b1 - 128) * 4096 + (b2 - 128) * 64 + (b3 - 128)) in *.
  destruct (cont b1 && cont b2 && cont b3 && (65536 <=? c) && (c <? 1114112)) eqn:C; [|discriminate].
  apply andb_prop in C as [C C5]. apply andb_prop in C as [C C4]. apply andb_prop in C as [C C3].
  apply andb_prop in C as [C1 C2]. apply cont_iff in C1, C2, C3.
  destruct (utf8_dec r3) as [l|] eqn:D; [|discriminate]. injection H as <-.
  exists c, [b0; b1; b2; b3], r3, l.
  split; [reflexivity|]. split; [reflexivity|]. split; [|split; [exact D|cbn [List.length]; lia]].
  assert (Hc : c = (b0 - 240) * 262144 + (b1 - 128) * 4096 + (b2 - 128) * 64 + (b3 - 128)) by reflexivity.
  clearbody c. rewrite enc1_4 by lia. do 2 f_equal; [lia|f_equal; [lia|f_equal; [lia|f_equal; lia]]].
Qed.

Lemma utf8_dec_sound_n n : forall bs cps, (List.length bs <= n)%nat -> utf8_dec bs = Some cps ->
  Forall scalar cps /\ utf8_enc cps = Some bs.
Proof.
  induction n as [|n IH]; intros bs cps Hl H.
  - destruct bs; [|cbn [List.length] in Hl; lia]. cbn in H. injection H as <-. split; [constructor|reflexivity].
  - apply utf8_dec_inv in H as [[-> ->]|[c [b [rest [l [-> [-> [He [Hd Hlt]]]]]]]]].
    + split; [constructor|reflexivity].
    + destruct (IH rest l ltac:(lia) Hd) as [Hs Hr]. split.
      * constructor; [apply utf8_enc1_accepts; exists b; exact He|exact Hs].
      * cbn [utf8_enc]. rewrite He, Hr. reflexivity.
Qed.

(* no hypothesis on the bytes is needed: the decoder's own range tests bound every byte it accepts *)
Theorem utf8_dec_sound : forall bs cps, utf8_dec bs = Some cps -> Forall scalar cps /\ utf8_enc cps = Some bs.
Proof. intros bs cps H. apply (utf8_dec_sound_n (List.length bs)); [lia|exact H]. Qed.

(* ====================================================================== *)
(* Address                                                                 *)
(* ====================================================================== *)
Lemma addr_fam_enc f raw : 0 <= f < 65536 ->
  unpack_u 2 (firstn 2 (be_enc 2 f ++ raw)) = Ok f /\ skipn 2 (be_enc 2 f ++ raw) = raw.
Proof.
  intros Hf. pose proof (be_enc_length 2 f) as Hl.
  assert (H1 : firstn 2 (be_enc 2 f ++ raw) = be_enc 2 f).
  { rewrite <- Hl at 1. rewrite firstn_app, Nat.sub_diag, firstn_all. cbn [firstn]. apply app_nil_r. }
  assert (H2 : skipn 2 (be_enc 2 f ++ raw) = raw).
  { rewrite <- Hl at 1. rewrite skipn_app, Nat.sub_diag, skipn_all. reflexivity. }
  rewrite H1, H2. split; [|reflexivity]. apply pack_u_roundtrip. exact Hf.
Qed.

(* wf_bytes raw is not needed for this direction *)
Theorem addr_roundtrip : forall f raw, wf_bytes raw -> (f = 1 \/ f = 2 \/ f = 8) -> addr_ok f raw = true ->
  addr_enc f raw = Ok (rfc_addr_data f raw) /\ addr_dec (rfc_addr_data f raw) = Ok (f, raw).
Proof.
  intros f raw _ Hf Hok. unfold addr_enc, addr_dec, rfc_addr_data.
  destruct (addr_fam_enc f raw ltac:(lia)) as [H1 H2]. rewrite H1, H2. cbv zeta. rewrite Hok.
  replace ((f =? 1) || (f =? 2) || (f =? 8)) with true by lia. split; reflexivity.
Qed.

Theorem addr_dec_total : forall p, (exists f raw, addr_dec p = Ok (f, raw)) \/ addr_dec p = Err AvpDecodeError.
Proof.
  intros p. unfold addr_dec. destruct (unpack_u 2 (firstn 2 p)) as [fam|e]; [|right; reflexivity].
  cbv zeta. destruct (addr_ok fam (skipn 2 p)); [left; eexists _, _; reflexivity|right; reflexivity].
Qed.

(* ====================================================================== *)
(* Grouped: the AVP-list decoder never runs out of fuel                    *)
(* ====================================================================== *)
Lemma unpack_uint_cases bs :
  (exists x r, unpack_uint bs = Ok (x, r) /\ (List.length r < List.length bs)%nat) \/
  unpack_uint bs = Err ConversionError.
Proof.
  unfold unpack_uint. destruct (4 <=? blen bs) eqn:E; [left|right; reflexivity].
  eexists _, _. split; [reflexivity|]. rewrite skipn_length. unfold blen in E. lia.
Qed.

Lemma unpack_fopaque_cases n bs :
  (exists x r, unpack_fopaque n bs = Ok (x, r) /\ (List.length r <= List.length bs)%nat) \/
  unpack_fopaque n bs = Err ConversionError.
Proof.
  unfold unpack_fopaque. destruct (n <? 0); [right; reflexivity|]. cbv zeta.
  destruct (blen bs <? (n + 3) / 4 * 4); [right; reflexivity|left].
  eexists _, _. split; [reflexivity|]. unfold bdrop. rewrite skipn_length. lia.
Qed.

Lemma dec_avp_cases bs :
  (exists a r, dec_avp bs = Ok (a, r) /\ (List.length r < List.length bs)%nat) \/
  dec_avp bs = Err ConversionError.
Proof.
  unfold dec_avp.
  destruct (unpack_uint_cases bs) as [[code [r1 [E1 L1]]]|E1]; rewrite E1; cbn [bind]; [|right; reflexivity].
  destruct (unpack_uint_cases r1) as [[fl [r2 [E2 L2]]]|E2]; rewrite E2; cbn [bind]; [|right; reflexivity].
  destruct (Z.land (Z.shiftr fl 24) FLAG_V =? 0); cbn [bind].
  - destruct (0 <? Z.land fl 16777215 - 8).
    + destruct (unpack_fopaque_cases (Z.land fl 16777215 - 8) r2) as [[pl [r4 [E4 L4]]]|E4];
        rewrite E4; cbn [bind]; [left|right; reflexivity].
      eexists _, _. split; [reflexivity|lia].
    + cbn [bind]. left. eexists _, _. split; [reflexivity|lia].
  - destruct (unpack_uint_cases r2) as [[v [r3 [E3 L3]]]|E3]; rewrite E3; cbn [bind]; [|right; reflexivity].
    destruct (0 <? Z.land fl 16777215 - 8 - 4).
    + destruct (unpack_fopaque_cases (Z.land fl 16777215 - 8 - 4) r3) as [[pl [r4 [E4 L4]]]|E4];
        rewrite E4; cbn [bind]; [left|right; reflexivity].
      eexists _, _. split; [reflexivity|lia].
    + cbn [bind]. left. eexists _, _. split; [reflexivity|lia].
Qed.

Lemma dec_avps_fuel_cases f : forall bs, (List.length bs <= f)%nat ->
  (exists l, dec_avps_fuel f bs = Ok l) \/ dec_avps_fuel f bs = Err ConversionError.
Proof.
  induction f as [|f IH]; intros bs Hl.
  - destruct bs; [left; exists []; reflexivity|cbn [List.length] in Hl; lia].
  - destruct bs as [|b bs']; [left; exists []; reflexivity|].
    cbn [dec_avps_fuel]. set (bs := b :: bs') in *.
    destruct (dec_avp_cases bs) as [[a [r [E L]]]|E]; rewrite E; cbn [bind]; [|right; reflexivity].
    destruct (IH r ltac:(lia)) as [[l El]|El]; rewrite El; cbn [bind]; [left; eexists; reflexivity|right; reflexivity].
Qed.

Lemma dec_avps_cases bs : (exists l, dec_avps bs = Ok l) \/ dec_avps bs = Err ConversionError.
Proof. unfold dec_avps. apply dec_avps_fuel_cases. lia. Qed.

Lemma group_kids_total p : (exists l, group_kids p = Ok l) \/ group_kids p = Err AvpDecodeError.
Proof.
  unfold group_kids. destruct (dec_avps_cases p) as [[l E]|E]; rewrite E; [left; eexists; reflexivity|right; reflexivity].
Qed.

(* ====================================================================== *)
(* the general statements over enc_val / dec_val                           *)
(* ====================================================================== *)
Lemma wf_bytesb_iff b : wf_bytesb b = true <-> wf_bytes b.
Proof.
  unfold wf_bytesb, wf_bytes. induction b as [|x b IH]; cbn [forallb].
  - split; [constructor|reflexivity].
  - rewrite andb_true_iff, IH. unfold isbyte. split.
    + intros [Hx Hb]. constructor; [lia|exact Hb].
    + intros H. inversion H; subst. split; [lia|assumption].
Qed.

Definition scalarb (c : Z) : bool := (0 <=? c) && (c <? 1114112) && negb ((55296 <=? c) && (c <=? 57343)).

Lemma scalarb_iff c : scalarb c = true <-> scalar c.
Proof. unfold scalarb, scalar. lia. Qed.

Lemma forallb_scalar cps : forallb scalarb cps = true <-> Forall scalar cps.
Proof.
  induction cps as [|c cps IH]; cbn [forallb].
  - split; [constructor|reflexivity].
  - rewrite andb_true_iff, IH, scalarb_iff. split.
    + intros [Hc Hr]. constructor; assumption.
    + intros H. inversion H; subst. split; assumption.
Qed.

Lemma in_domain_utf8 cps : in_domain TUtf8 (VText cps) = forallb scalarb cps.
Proof. reflexivity. Qed.

(* signed / unsigned integer payloads of width n, K the value constructor *)
Lemma val_rt_s n x : (0 < n)%nat -> - (256 ^ Z.of_nat n / 2) <= x < 256 ^ Z.of_nat n / 2 ->
  exists p, wrap_enc (pack_s n x) = Ok p /\
            (let! m := wrap_dec (unpack_s n p) in Ok (VInt m)) = Ok (VInt x) /\ wf_bytes p.
Proof.
  intros Hn Hx. destruct (pack_s_roundtrip n x Hn Hx) as [H1 H2].
  exists (rfc_int n x). rewrite H1, H2. repeat split. apply be_enc_wf.
Qed.

Lemma val_rt_u (K : Z -> value) n x : 0 <= x < 256 ^ Z.of_nat n ->
  exists p, wrap_enc (pack_u n x) = Ok p /\
            (let! m := wrap_dec (unpack_u n p) in Ok (K m)) = Ok (K x) /\ wf_bytes p.
Proof.
  intros Hx. destruct (pack_u_roundtrip n x Hx) as [H1 H2].
  exists (be_enc n x). rewrite H1, H2. repeat split. apply be_enc_wf.
Qed.

Lemma val_rej_s n x : ~ (- (256 ^ Z.of_nat n / 2) <= x < 256 ^ Z.of_nat n / 2) ->
  exists e, wrap_enc (pack_s n x) = Err e.
Proof. intros H. rewrite pack_s_rejects by exact H. eexists; reflexivity. Qed.

Lemma val_rej_u n x : ~ (0 <= x < 256 ^ Z.of_nat n) -> exists e, wrap_enc (pack_u n x) = Err e.
Proof. intros H. rewrite pack_u_rejects by exact H. eexists; reflexivity. Qed.

Lemma pow256_8 : 256 ^ Z.of_nat 8 = 18446744073709551616.
Proof. reflexivity. Qed.
Lemma half256_4 : 256 ^ Z.of_nat 4 / 2 = 2147483648.
Proof. reflexivity. Qed.
Lemma half256_8 : 256 ^ Z.of_nat 8 / 2 = 9223372036854775808.
Proof. reflexivity. Qed.

Theorem val_roundtrip : forall t v, t <> TGrouped -> in_domain t v = true ->
  exists p, enc_val rfc_time t v = Ok p /\ dec_val rfc_time t p = Ok v /\ wf_bytes p.
Proof.
  intros t v Ht H.
  destruct t; try congruence; destruct v; cbn [in_domain] in H; try discriminate; cbn [enc_val dec_val].
  - (* OctetString *) exists b. repeat split. apply wf_bytesb_iff; exact H.
  - (* UTF8String *)
    change (forallb scalarb cps = true) in H. apply forallb_scalar in H.
    destruct (utf8_roundtrip cps H) as [b [He [Hd Hw]]]. exists b. rewrite He, Hd. repeat split. exact Hw.
  - (* Integer32 *) apply val_rt_s; [lia|rewrite half256_4; lia].
  - (* Integer64 *) apply val_rt_s; [lia|rewrite half256_8; lia].
  - (* Unsigned32 *) apply (val_rt_u VInt); rewrite pow256_4; lia.
  - (* Unsigned64 *) apply (val_rt_u VInt); rewrite pow256_8; lia.
  - (* Float32 *) apply (val_rt_u VFloat); rewrite pow256_4; lia.
  - (* Float64 *) apply (val_rt_u VFloat); rewrite pow256_8; lia.
  - (* Time *)
    assert (Hs : time_domain unix) by (unfold time_domain; lia).
    exists (rfc_time_data unix). rewrite time_enc_is_rfc, time_dec_data by exact Hs.
    repeat split. apply be_enc_wf.
  - (* Address *)
    apply andb_prop in H as [H Hw]. apply andb_prop in H as [Hf Hok]. apply wf_bytesb_iff in Hw.
    destruct (addr_roundtrip family raw Hw ltac:(lia) Hok) as [H1 H2].
    exists (rfc_addr_data family raw). rewrite H1, H2. repeat split.
    apply Forall_app. split; [apply be_enc_wf|exact Hw].
  - (* untyped *) exists b. repeat split. apply wf_bytesb_iff; exact H.
Qed.

(* DEVIATION (as anticipated in the task): two extra hypotheses.  For TOctet/TUntyped the model's
   setter accepts any VBytes and for TAddress addr_enc does not look at the raw bytes, whereas
   in_domain also demands wf_bytesb; a byte list with an element outside 0..255 (which cannot be
   built on the Python side) is "out of domain" but not rejected.  So byte-list values are assumed
   well-formed. *)
Theorem val_rejects : forall t v, t <> TGrouped -> t <> TTime ->
  (forall b, v = VBytes b -> wf_bytes b) ->
  (forall f raw, v = VAddr f raw -> wf_bytes raw) ->
  in_domain t v = false ->
  (match t, v with   (* shape mismatch or out of range: always an error, never a wrapped value *)
   | _, _ => exists e, enc_val rfc_time t v = Err e end).
Proof.
  intros t v Ht Ht' Hb Ha H.
  destruct t; try congruence; destruct v; cbn [in_domain] in H; cbn [enc_val];
    try (eexists; reflexivity).
  - (* OctetString *) specialize (Hb b eq_refl). apply wf_bytesb_iff in Hb. congruence.
  - (* UTF8String *)
    change (forallb scalarb cps = false) in H.
    rewrite utf8_rejects; [eexists; reflexivity|]. intros HF. apply forallb_scalar in HF. congruence.
  - apply val_rej_s. rewrite half256_4. lia.
  - apply val_rej_s. rewrite half256_8. lia.
  - apply val_rej_u. rewrite pow256_4. lia.
  - apply val_rej_u. rewrite pow256_8. lia.
  - apply val_rej_u. rewrite pow256_4. lia.
  - apply val_rej_u. rewrite pow256_8. lia.
  - (* Address *)
    specialize (Ha family raw eq_refl). apply wf_bytesb_iff in Ha. rewrite Ha, andb_true_r in H.
    unfold addr_enc. rewrite H. eexists; reflexivity.
  - (* untyped *) specialize (Hb b eq_refl). apply wf_bytesb_iff in Hb. congruence.
Qed.

(* the hypotheses of val_rejects are necessary: without them the statement is false *)
Theorem val_rejects_unrestricted_refuted : exists t v,
  t <> TGrouped /\ t <> TTime /\ in_domain t v = false /\ enc_val rfc_time t v = Ok [256].
Proof. exists TOctet, (VBytes [256]). repeat split; try discriminate; vm_compute; reflexivity. Qed.

Theorem val_rejects_addr_unrestricted_refuted : exists v p,
  in_domain TAddress v = false /\ enc_val rfc_time TAddress v = Ok p.
Proof. exists (VAddr 1 [256; 0; 0; 0]), [0; 1; 256; 0; 0; 0]. split; vm_compute; reflexivity. Qed.

(* getters are total: Ok or AvpDecodeError, nothing else.  Unconditional: the fuel of dec_avps is
   shown sufficient above (dec_avps_cases), so no hypothesis about WireP.v is needed. *)
Theorem dec_val_total : forall t p, (exists v, dec_val rfc_time t p = Ok v) \/ dec_val rfc_time t p = Err AvpDecodeError.
Proof.
  intros t p. destruct t; cbn [dec_val].
  - left; eexists; reflexivity.
  - destruct (utf8_dec p); [left; eexists; reflexivity|right; reflexivity].
  - destruct (unpack_s 4 p); cbn [wrap_dec bind]; [left; eexists; reflexivity|right; reflexivity].
  - destruct (unpack_s 8 p); cbn [wrap_dec bind]; [left; eexists; reflexivity|right; reflexivity].
  - destruct (unpack_u 4 p); cbn [wrap_dec bind]; [left; eexists; reflexivity|right; reflexivity].
  - destruct (unpack_u 8 p); cbn [wrap_dec bind]; [left; eexists; reflexivity|right; reflexivity].
  - destruct (unpack_u 4 p); cbn [wrap_dec bind]; [left; eexists; reflexivity|right; reflexivity].
  - destruct (unpack_u 8 p); cbn [wrap_dec bind]; [left; eexists; reflexivity|right; reflexivity].
  - unfold time_dec. destruct (unpack_u 4 p) as [n|e]; [|right; reflexivity].
    destruct (n <? t_cut rfc_time); cbn [bind]; left; eexists; reflexivity.
  - destruct (addr_dec_total p) as [[f [raw E]]|E]; rewrite E; cbn [bind]; [left; eexists; reflexivity|right; reflexivity].
  - destruct (group_kids_total p) as [[l E]|E]; rewrite E; cbn [bind]; [left; eexists; reflexivity|right; reflexivity].
  - left; eexists; reflexivity.
Qed.

Print Assumptions utf8_enc1_wf.
Print Assumptions utf8_enc1_accepts.
Print Assumptions utf8_dec_enc1.
Print Assumptions utf8_roundtrip.
Print Assumptions utf8_rejects.
Print Assumptions utf8_dec_sound.
Print Assumptions pack_u_roundtrip.
Print Assumptions pack_u_rejects.
Print Assumptions pack_s_roundtrip.
Print Assumptions pack_s_rejects.
Print Assumptions unpack_u_enc.
Print Assumptions unpack_s_enc.
Print Assumptions time_enc_is_rfc.
Print Assumptions time_roundtrip.
Print Assumptions time_dec_enc.
Print Assumptions time_wraps_refuted.
Print Assumptions time_rejects_partial.
Print Assumptions addr_roundtrip.
Print Assumptions addr_dec_total.
Print Assumptions val_roundtrip.
Print Assumptions val_rejects.
Print Assumptions val_rejects_unrestricted_refuted.
Print Assumptions val_rejects_addr_unrestricted_refuted.
Print Assumptions dec_val_total.
