(* find_avps / grouped AVP trees / value layout / Avp.new / dictionary dispatch.
   C02 (path search = declarative search over the decoded forest, cache transparency),
   C01 (grouped round trips, value layout, Avp.new flags, decode dispatch). *)
From DV Require Import Prelude.Base Proofs.BaseP Proofs.IdsFmt Spec.Rfc6733 Spec.FindSpec
     Model.Wire Model.Types Model.Msg Proofs.WireP Proofs.TypesP.

(* ====================================================================== *)
(* unfolding lemmas: the nested fixes of to_tree / traverse as named loops  *)
(* ====================================================================== *)
Lemma to_tree_go_forest d f l :
  (fix go (l : list avp) : result (list tree) :=
     match l with
     | [] => Ok []
     | x :: r => let! t := to_tree d f x in let! ts := go r in Ok (t :: ts)
     end) l = forest d f l.
Proof.
  induction l as [|x r IH]; [reflexivity|].
  cbn [forest]. rewrite IH. reflexivity.
Qed.

Lemma to_tree_unfold d fuel a :
  to_tree d fuel a =
  match type_of d a with
  | TGrouped =>
      match fuel with
      | O => Err OutOfFuel
      | S f => let! l := group_kids (a_payload a) in
               let! ks := forest d f l in Ok (Node a (Some ks))
      end
  | _ => Ok (Node a None)
  end.
Proof.
  destruct fuel as [|f]; cbn [to_tree]; [reflexivity|].
  destruct (type_of d a); try reflexivity.
  destruct (group_kids (a_payload a)) as [l|e]; cbn [bind]; [|reflexivity].
  rewrite to_tree_go_forest. reflexivity.
Qed.

(* one step of the search loop of traverse, and the loop itself *)
Definition trav_here (d : dict) (f : nat) (c v : Z) (rest : list (Z * Z)) (a : avp) : result (list avp) :=
  if (a_code a =? c) && (a_vendor a =? v) then
    match rest with
    | [] => Ok [a]
    | _ => match type_of d a with
           | TGrouped => let! ks := group_kids (a_payload a) in traverse d f ks rest
           | _ => Ok [a]
           end
    end
  else Ok [].

Fixpoint trav_go (d : dict) (f : nat) (c v : Z) (rest : list (Z * Z)) (l : list avp) : result (list avp) :=
  match l with
  | [] => Ok []
  | a :: r => let! here := trav_here d f c v rest a in
              let! more := trav_go d f c v rest r in Ok (here ++ more)
  end.

Lemma traverse_S d f avps c v rest :
  traverse d (S f) avps ((c, v) :: rest) = trav_go d f c v rest avps.
Proof.
  induction avps as [|a r IH]; [reflexivity|].
  cbn [trav_go]. rewrite <- IH. reflexivity.
Qed.

(* ====================================================================== *)
(* 1. find_avps = the declarative path search                              *)
(* ====================================================================== *)
Lemma to_tree_node_avp d fuel a t : to_tree d fuel a = Ok t -> node_avp t = a.
Proof.
  rewrite to_tree_unfold. intros H.
  destruct (type_of d a); try (inversion H; subst; reflexivity).
  destruct fuel as [|f]; [discriminate|].
  destruct (group_kids (a_payload a)) as [l|e]; cbn [bind] in H; [|discriminate].
  destruct (forest d f l) as [ks|e]; cbn [bind] in H; [|discriminate].
  inversion H; subst; reflexivity.
Qed.

Lemma forest_cons_inv d fuel a r ts : forest d fuel (a :: r) = Ok ts ->
  exists t ts', to_tree d fuel a = Ok t /\ forest d fuel r = Ok ts' /\ ts = t :: ts'.
Proof.
  cbn [forest]. destruct (to_tree d fuel a) as [t|e]; cbn [bind]; [|discriminate].
  destruct (forest d fuel r) as [ts'|e]; cbn [bind]; [|discriminate].
  intros H; inversion H; subst. exists t, ts'. repeat split; reflexivity.
Qed.

Lemma forest_node_avps d fuel l : forall ts, forest d fuel l = Ok ts -> map node_avp ts = l.
Proof.
  induction l as [|a r IH]; intros ts H.
  - inversion H; subst; reflexivity.
  - apply forest_cons_inv in H as (t & ts' & Ht & Hr & ->).
    cbn [map]. rewrite (to_tree_node_avp _ _ _ _ Ht), (IH ts' Hr). reflexivity.
Qed.

(* any fuel n >= length p is enough for traverse; the forest's fuel is independent *)
Lemma traverse_at_path_gen d : forall p n fuel avps ts,
  (List.length p <= n)%nat -> forest d fuel avps = Ok ts ->
  traverse d n avps p = Ok (at_path ts p).
Proof.
  induction p as [|[c v] rest IHp]; intros n fuel avps ts Hn Hf.
  - destruct n; reflexivity.
  - destruct n as [|f]; [cbn [List.length] in Hn; lia|].
    assert (Hf' : (List.length rest <= f)%nat) by (cbn [List.length] in Hn; lia).
    rewrite traverse_S. clear Hn.
    revert ts Hf. induction avps as [|a r IHl]; intros ts Hf.
    + inversion Hf; subst. reflexivity.
    + apply forest_cons_inv in Hf as (t & ts' & Ht & Hr & ->).
      cbn [trav_go]. rewrite (IHl ts' Hr).
      change (at_path (t :: ts') ((c, v) :: rest))
        with ((match t with
               | Node a0 kids =>
                   if matches a0 c v then
                     match rest, kids with
                     | [], _ => [a0]
                     | _, None => [a0]
                     | _, Some ks => at_path ks rest
                     end
                   else []
               end) ++ at_path ts' ((c, v) :: rest)).
      assert (Hhere : trav_here d f c v rest a =
                      Ok (match t with
                          | Node a0 kids =>
                              if matches a0 c v then
                                match rest, kids with
                                | [], _ => [a0]
                                | _, None => [a0]
                                | _, Some ks => at_path ks rest
                                end
                              else []
                          end)).
      { unfold trav_here, matches. rewrite to_tree_unfold in Ht.
        destruct (type_of d a) eqn:Ety;
          try (inversion Ht; subst; cbn [node_avp];
               destruct ((a_code a =? c) && (a_vendor a =? v)); [destruct rest; reflexivity|reflexivity]).
        destruct fuel as [|fu]; [discriminate|].
        destruct (group_kids (a_payload a)) as [l|e] eqn:Eg; cbn [bind] in Ht; [|discriminate].
        destruct (forest d fu l) as [ks|e] eqn:Ek; cbn [bind] in Ht; [|discriminate].
        inversion Ht; subst.
        destruct ((a_code a =? c) && (a_vendor a =? v)); [|reflexivity].
        destruct rest as [|cv rest']; [reflexivity|].
        cbn [bind]. apply (IHp f fu l ks Hf' Ek). }
      rewrite Hhere. cbn [bind]. reflexivity.
Qed.

Theorem traverse_is_at_path : forall d fuel avps ts p,
  forest d fuel avps = Ok ts -> p <> [] ->
  traverse d (S (List.length p)) avps p = Ok (at_path ts p).
Proof.
  intros d fuel avps ts p Hf _. apply (traverse_at_path_gen d p _ fuel avps ts); [lia|exact Hf].
Qed.

(* find_avps on a fresh cache is the declarative search *)
Corollary find_avps_is_at_path : forall d fuel avps ts p,
  forest d fuel avps = Ok ts -> fst (find_avps d [] avps p) = Ok (at_path ts p).
Proof.
  intros d fuel avps ts p Hf. destruct p as [|cv p]; [reflexivity|].
  unfold find_avps. cbn [find].
  rewrite (traverse_is_at_path d fuel avps ts (cv :: p) Hf) by discriminate. reflexivity.
Qed.

(* ====================================================================== *)
(* 2. the cache                                                            *)
(* ====================================================================== *)
Lemma path_eqb_refl p : path_eqb p p = true.
Proof.
  unfold path_eqb. induction p as [|x p IH]; [reflexivity|].
  cbn [list_eqb]. rewrite IH, !Z.eqb_refl. reflexivity.
Qed.

Definition paths_distinct (ps : list path) : Prop :=
  forall i j p q, nth_error ps i = Some p -> nth_error ps j = Some q -> path_eqb p q = true -> i = j.

Lemma paths_distinct_tail p ps : paths_distinct (p :: ps) -> paths_distinct ps.
Proof.
  intros H i j x y Hi Hj He.
  assert (S i = S j) by (apply (H (S i) (S j) x y); assumption). lia.
Qed.

Lemma paths_distinct_head p ps q : paths_distinct (p :: ps) -> In q ps -> path_eqb p q = false.
Proof.
  intros H Hin. apply In_nth_error in Hin as [j Hj].
  destruct (path_eqb p q) eqn:E; [|reflexivity].
  assert (O = S j) by (apply (H O (S j) p q); [reflexivity|exact Hj|exact E]). lia.
Qed.

(* the result of one query when the cache holds no entry for it *)
Definition uncached (d : dict) (avps : list avp) (p : path) : result (list avp) :=
  match p with [] => Ok [] | _ => traverse d (S (List.length p)) avps p end.

Lemma find_seq_transparent_gen d avps : forall ps c,
  paths_distinct ps ->
  (forall q, In q ps -> find (fun e : path * list avp => path_eqb (fst e) q) c = None) ->
  find_seq d c avps ps = map (uncached d avps) ps.
Proof.
  induction ps as [|p ps IH]; intros c Hd Hc; [reflexivity|].
  cbn [find_seq map].
  assert (Hd' := paths_distinct_tail _ _ Hd).
  destruct p as [|cv p'].
  - cbn [find_avps uncached]. f_equal. apply IH; [exact Hd'|].
    intros q Hq. apply Hc. right. exact Hq.
  - set (p := cv :: p') in *.
    assert (Hfa : find_avps d c avps p =
                  match find (fun e : path * list avp => path_eqb (fst e) p) c with
                  | Some e => (Ok (snd e), c)
                  | None => match traverse d (S (List.length p)) avps p with
                            | Ok r => (Ok r, (p, r) :: c)
                            | Err e => (Err e, c)
                            end
                  end) by reflexivity.
    rewrite Hfa. rewrite (Hc p (or_introl eq_refl)).
    assert (Hu : uncached d avps p = traverse d (S (List.length p)) avps p) by reflexivity.
    rewrite Hu.
    destruct (traverse d (S (List.length p)) avps p) as [r|e].
    + f_equal. apply IH; [exact Hd'|].
      intros q Hq. cbn [find fst]. rewrite (paths_distinct_head p ps q Hd Hq).
      apply Hc. right. exact Hq.
    + f_equal. apply IH; [exact Hd'|].
      intros q Hq. apply Hc. right. exact Hq.
Qed.

Theorem find_cache_transparent : forall d avps ps,
  paths_distinct ps ->
  find_seq d [] avps ps =
  map (fun p => match p with [] => Ok [] | _ => traverse d (S (List.length p)) avps p end) ps.
Proof.
  intros d avps ps Hd. apply (find_seq_transparent_gen d avps ps [] Hd). intros q _. reflexivity.
Qed.

Theorem find_cache_repeat : forall d c avps p r c',
  p <> [] -> find_avps d c avps p = (Ok r, c') -> find_avps d c' avps p = (Ok r, c').
Proof.
  intros d c avps p r c' Hne H. destruct p as [|cv p']; [congruence|].
  set (p := cv :: p') in *.
  assert (Hfa : forall c0, find_avps d c0 avps p =
                  match find (fun e : path * list avp => path_eqb (fst e) p) c0 with
                  | Some e => (Ok (snd e), c0)
                  | None => match traverse d (S (List.length p)) avps p with
                            | Ok r => (Ok r, (p, r) :: c0)
                            | Err e => (Err e, c0)
                            end
                  end) by reflexivity.
  rewrite Hfa in H. rewrite Hfa.
  destruct (find (fun e : path * list avp => path_eqb (fst e) p) c) as [e|] eqn:Ef.
  - inversion H; subst. rewrite Ef. reflexivity.
  - destruct (traverse d (S (List.length p)) avps p) as [r0|e0]; inversion H; subst.
    cbn [find fst snd]. rewrite path_eqb_refl. reflexivity.
Qed.

(* with the forest decodable, a sequence of distinct queries is the declarative search, query by query *)
Corollary find_seq_is_at_path : forall d fuel avps ts ps,
  forest d fuel avps = Ok ts -> paths_distinct ps ->
  find_seq d [] avps ps = map (fun p => Ok (at_path ts p)) ps.
Proof.
  intros d fuel avps ts ps Hf Hd. rewrite find_cache_transparent by exact Hd.
  apply map_ext. intros p. destruct p as [|cv p]; [reflexivity|].
  apply (traverse_is_at_path d fuel avps ts (cv :: p) Hf). discriminate.
Qed.

(* ====================================================================== *)
(* 3. grouped values: tree round trip                                      *)
(* ====================================================================== *)
(* re-encode a decoded tree: the children's encodings, concatenated, become the payload *)
Fixpoint enc_tree (t : tree) : result bytes :=
  match t with
  | Node a None => enc_avp a
  | Node a (Some ks) =>
      let! p := (fix go (l : list tree) : result bytes :=
                   match l with
                   | [] => Ok []
                   | k :: r => let! b := enc_tree k in let! br := go r in Ok (b ++ br)
                   end) ks in
      enc_avp (set_payload a p)
  end.

Fixpoint enc_trees (l : list tree) : result bytes :=
  match l with
  | [] => Ok []
  | k :: r => let! b := enc_tree k in let! br := enc_trees r in Ok (b ++ br)
  end.

Lemma enc_tree_go l :
  (fix go (l : list tree) : result bytes :=
     match l with
     | [] => Ok []
     | k :: r => let! b := enc_tree k in let! br := go r in Ok (b ++ br)
     end) l = enc_trees l.
Proof. induction l as [|k r IH]; [reflexivity|]. cbn [enc_trees]. rewrite IH. reflexivity. Qed.

Lemma enc_tree_unfold t :
  enc_tree t = match t with
               | Node a None => enc_avp a
               | Node a (Some ks) => let! p := enc_trees ks in enc_avp (set_payload a p)
               end.
Proof. destruct t as [a [ks|]]; [|reflexivity]. cbn [enc_tree]. rewrite enc_tree_go. reflexivity. Qed.

Lemma set_payload_id a : set_payload a (a_payload a) = a.
Proof. destruct a; reflexivity. Qed.

Lemma to_tree_grouped_inv d fuel a a' ks : to_tree d fuel a = Ok (Node a' (Some ks)) ->
  a' = a /\ type_of d a = TGrouped /\
  exists f l, fuel = S f /\ group_kids (a_payload a) = Ok l /\ forest d f l = Ok ks.
Proof.
  rewrite to_tree_unfold. intros H.
  destruct (type_of d a) eqn:Ety; try (inversion H; fail).
  destruct fuel as [|f]; [discriminate|].
  destruct (group_kids (a_payload a)) as [l|e] eqn:Eg; cbn [bind] in H; [|discriminate].
  destruct (forest d f l) as [ks'|e] eqn:Ek; cbn [bind] in H; [|discriminate].
  inversion H; subst. split; [reflexivity|]. split; [reflexivity|].
  exists f, l. repeat split; assumption.
Qed.

Theorem to_tree_payload : forall d fuel a a' ks, to_tree d fuel a = Ok (Node a' (Some ks)) ->
  a' = a /\ exists l, group_kids (a_payload a) = Ok l /\ map node_avp ks = l.
Proof.
  intros d fuel a a' ks H.
  apply to_tree_grouped_inv in H as (-> & _ & f & l & _ & Hg & Hf).
  split; [reflexivity|]. exists l. split; [exact Hg|]. eapply forest_node_avps. exact Hf.
Qed.

(* one level: a payload that is the encoding of a list of AVPs decodes to exactly that list *)
Lemma group_kids_enc l p : Forall wf_avp' l -> enc_avps l = Ok p -> group_kids p = Ok l.
Proof. intros Hw He. unfold group_kids. rewrite (dec_enc_avps' l p Hw He). reflexivity. Qed.

Theorem tree_roundtrip_enc : forall (d : dict) a l p, Forall wf_avp' l -> enc_avps l = Ok p ->
  type_of d a = TGrouped -> a_payload a = p -> group_kids p = Ok l.
Proof. intros d a l p Hw He _ _. apply group_kids_enc; assumption. Qed.

Lemma enc_avps_ok l : Forall wf_avp' l -> exists p, enc_avps l = Ok p.
Proof.
  induction l as [|a l IH]; intros Hw; [exists []; reflexivity|].
  inversion Hw as [|? ? Ha Hl]; subst. destruct (IH Hl) as [p Hp].
  exists (avp_form a ++ p). cbn [enc_avps]. rewrite (enc_avp_form a Ha), Hp. reflexivity.
Qed.

Theorem grouped_val_roundtrip : forall l, Forall wf_avp' l ->
  exists p, enc_val rfc_time TGrouped (VAvps l) = Ok p /\ dec_val rfc_time TGrouped p = Ok (VAvps l) /\ wf_bytes p.
Proof.
  intros l Hw. destruct (enc_avps_ok l Hw) as [p Hp]. exists p.
  cbn [enc_val dec_val]. rewrite Hp. cbn [wrap_enc].
  rewrite (group_kids_enc l p Hw Hp). cbn [bind].
  repeat split. eapply enc_avps_wf_bytes; eassumption.
Qed.

(* ---- tree_roundtrip AS REQUESTED IS FALSE -------------------------------
   The decoder accepts non-canonical children inside a grouped payload (non-zero padding bytes,
   a declared length below the header size, a V bit with vendor 0); re-encoding the decoded
   children produces the canonical bytes, which differ from the payload received.
   Witness: grouped AVP 1 whose payload is the single child
     code 2, flags 0, length 9, data [5], padding [1;1;1]     (padding should be [0;0;0]). *)
Definition rt_dict : dict := fun c _ => if c =? 1 then Some TGrouped else None.
Definition rt_avp : avp :=
  {| a_code := 1; a_flags := 0; a_vendor := 0;
     a_payload := [0; 0; 0; 2; 0; 0; 0; 9; 5; 1; 1; 1] |}.

Lemma rt_avp_wf : wf_avp' rt_avp.
Proof.
  unfold wf_avp', rt_avp. cbn [a_code a_flags a_vendor a_payload].
  split; [lia|]. split; [lia|]. split; [lia|]. split; [split; intros _; reflexivity|].
  split; [repeat constructor; lia|]. vm_compute. reflexivity.
Qed.

Theorem tree_roundtrip_refuted : exists d fuel a t,
  wf_avp' a /\ wf_bytes (a_payload a) /\ to_tree d fuel a = Ok t /\ enc_tree t <> enc_avp a.
Proof.
  exists rt_dict, 2%nat, rt_avp,
    (Node rt_avp (Some [Node {| a_code := 2; a_flags := 0; a_vendor := 0; a_payload := [5] |} None])).
  split; [exact rt_avp_wf|]. split; [apply rt_avp_wf|].
  split; [vm_compute; reflexivity|]. vm_compute. discriminate.
Qed.

(* The closest true statement: the payload of every grouped AVP met during the decode is canonical,
   i.e. is the encoding of some list of well-formed AVPs (recursively, as deep as to_tree goes). *)
Fixpoint canon (d : dict) (fuel : nat) (a : avp) : Prop :=
  match type_of d a with
  | TGrouped =>
      match fuel with
      | O => True
      | S f => exists l, Forall wf_avp' l /\ enc_avps l = Ok (a_payload a) /\ Forall (canon d f) l
      end
  | _ => True
  end.

Lemma tree_roundtrip_canon d : forall fuel a t, wf_avp' a -> canon d fuel a ->
  to_tree d fuel a = Ok t -> enc_tree t = enc_avp a.
Proof.
  induction fuel as [|f IH]; intros a t Hw Hc Ht.
  - rewrite to_tree_unfold in Ht.
    destruct (type_of d a); try discriminate; inversion Ht; subst; reflexivity.
  - destruct t as [a' [ks|]].
    + apply to_tree_grouped_inv in Ht as (-> & Ety & f' & l & Hf' & Hg & Hfo).
      injection Hf' as <-.
      cbn [canon] in Hc. rewrite Ety in Hc. destruct Hc as (l' & Hwl & Hel & Hcl).
      rewrite (group_kids_enc l' _ Hwl Hel) in Hg. injection Hg as <-.
      rewrite enc_tree_unfold.
      assert (Hks : enc_trees ks = enc_avps l').
      { clear Hel. revert ks Hfo. induction l' as [|x r IHl]; intros ks Hfo.
        - inversion Hfo; subst. reflexivity.
        - apply forest_cons_inv in Hfo as (t & ts' & Ht & Hr & ->).
          inversion Hwl as [|? ? Hx Hwr]; subst. inversion Hcl as [|? ? Hcx Hcr]; subst.
          cbn [enc_trees enc_avps]. rewrite (IH x t Hx Hcx Ht), (IHl Hwr Hcr ts' Hr). reflexivity. }
      rewrite Hks, Hel. cbn [bind]. rewrite set_payload_id. reflexivity.
    + rewrite to_tree_unfold in Ht.
      destruct (type_of d a).
      all: try (inversion Ht; subst; reflexivity).
      destruct (group_kids (a_payload a)) as [l|e]; cbn [bind] in Ht; [|discriminate].
      destruct (forest d f l) as [ks|e]; cbn [bind] in Ht; discriminate.
Qed.

Theorem tree_roundtrip_partial : forall d fuel a t, wf_avp' a -> wf_bytes (a_payload a) ->
  canon d fuel a -> to_tree d fuel a = Ok t -> enc_tree t = enc_avp a.
Proof. intros d fuel a t Hw _ Hc Ht. eapply tree_roundtrip_canon; eassumption. Qed.

(* the unconditional part: leaves (anything the dictionary does not call Grouped) *)
Theorem tree_roundtrip_leaf : forall d fuel a t, type_of d a <> TGrouped ->
  to_tree d fuel a = Ok t -> enc_tree t = enc_avp a.
Proof.
  intros d fuel a t Hty Ht. rewrite to_tree_unfold in Ht.
  destruct (type_of d a); try congruence; inversion Ht; subst; reflexivity.
Qed.

(* ====================================================================== *)
(* 4. value layout                                                         *)
(* ====================================================================== *)
Definition rfc_avps_data (l : list avp) : option bytes :=
  (fix go (l : list avp) : option bytes :=
     match l with
     | [] => Some []
     | a :: r => match go r with
                 | Some br => Some (rfc_avp (a_code a) (a_flags a) (a_vendor a) (a_payload a) ++ br)
                 | None => None
                 end
     end) l.

Lemma rfc_data_grouped l : rfc_data TGrouped (VAvps l) = rfc_avps_data l.
Proof. reflexivity. Qed.

Lemma enc_avps_is_rfc l : forall p, Forall wf_avp' l -> enc_avps l = Ok p -> rfc_avps_data l = Some p.
Proof.
  induction l as [|a r IH]; intros p Hw He.
  - inversion He; subst. reflexivity.
  - inversion Hw as [|? ? Ha Hr]; subst.
    apply enc_avps_cons_inv in He as (b & br & Hb & Hbr & ->).
    rewrite (enc_avp_is_rfc' a Ha) in Hb. injection Hb as <-.
    specialize (IH br Hr Hbr). unfold rfc_avps_data in *. rewrite IH. reflexivity.
Qed.

Lemma wrap_enc_ok r p : wrap_enc r = Ok p -> r = Ok p.
Proof. destruct r; cbn [wrap_enc]; congruence. Qed.

Lemma pack_u_ok_inv n x p : pack_u n x = Ok p -> p = be_enc n x.
Proof. unfold pack_u. destruct ((0 <=? x) && (x <? 256 ^ Z.of_nat n)); congruence. Qed.

Lemma pack_s_ok_inv n x p : pack_s n x = Ok p -> p = rfc_int n x.
Proof.
  unfold pack_s, rfc_int. cbv zeta.
  destruct ((- (256 ^ Z.of_nat n / 2) <=? x) && (x <? 256 ^ Z.of_nat n / 2)); congruence.
Qed.

(* the Time setter writes the low 32 bits of the NTP seconds whenever it succeeds at all: the
   two branches of the code differ by exactly 2^32 (t_1900 + t_over = 2^32) *)
Lemma time_enc_layout s p : time_enc rfc_time s = Ok p -> p = rfc_time_data s.
Proof.
  unfold time_enc, rfc_time_data. cbn [t_1900 t_over rfc_time].
  destruct (s <? 2085978496) eqn:E.
  - destruct (pack_u 4 (s + 2208988800)) as [b|e] eqn:Ep; [|discriminate].
    intros H; injection H as <-.
    assert (Hr : 0 <= s + 2208988800 < 4294967296).
    { destruct (Z.le_gt_cases 0 (s + 2208988800)) as [H0|H0]; [lia|].
      rewrite pack_u4_err in Ep by lia. discriminate. }
    apply pack_u_ok_inv in Ep. subst b. f_equal. lia.
  - destruct (pack_u 4 (s - 2085978496)) as [b|e] eqn:Ep; [|discriminate].
    intros H; injection H as <-.
    assert (Hr : 0 <= s - 2085978496 < 4294967296).
    { destruct (Z.lt_ge_cases (s - 2085978496) 4294967296) as [H0|H0]; [lia|].
      rewrite pack_u4_err in Ep by lia. discriminate. }
    apply pack_u_ok_inv in Ep. subst b. f_equal. lia.
Qed.

(* the layout holds whenever the setter succeeds; no domain hypothesis is needed *)
Theorem val_layout_any : forall t v p, (forall l, v = VAvps l -> Forall wf_avp' l) ->
  enc_val rfc_time t v = Ok p -> rfc_data t v = Some p.
Proof.
  intros t v p Hg He.
  destruct t; destruct v; cbn [enc_val] in He; try discriminate; cbn [rfc_data].
  - (* OctetString *) congruence.
  - (* UTF8String *) destruct (utf8_enc cps); congruence.
  - (* Integer32 *) apply wrap_enc_ok, pack_s_ok_inv in He. congruence.
  - (* Integer64 *) apply wrap_enc_ok, pack_s_ok_inv in He. congruence.
  - (* Unsigned32 *) apply wrap_enc_ok, pack_u_ok_inv in He. congruence.
  - (* Unsigned64 *) apply wrap_enc_ok, pack_u_ok_inv in He. congruence.
  - (* Float32 *) apply wrap_enc_ok, pack_u_ok_inv in He. congruence.
  - (* Float64 *) apply wrap_enc_ok, pack_u_ok_inv in He. congruence.
  - (* Time *) apply time_enc_layout in He. congruence.
  - (* Address *)
    unfold addr_enc in He. unfold rfc_addr_data.
    destruct (((family =? 1) || (family =? 2) || (family =? 8)) && addr_ok family raw); congruence.
  - (* Grouped *)
    apply wrap_enc_ok in He. change (rfc_avps_data l = Some p).
    apply enc_avps_is_rfc; [apply Hg; reflexivity|exact He].
  - (* untyped *) congruence.
Qed.

Theorem val_layout : forall t v p, (forall l, v = VAvps l -> Forall wf_avp' l) ->
  enc_val rfc_time t v = Ok p -> in_domain t v = true \/ t = TGrouped -> rfc_data t v = Some p.
Proof. intros t v p Hg He _. apply val_layout_any; assumption. Qed.

(* ====================================================================== *)
(* 5. Avp.new                                                              *)
(* ====================================================================== *)
Theorem avp_new_unknown : forall rows k code vendor v mand priv,
  lookup rows code vendor = None -> avp_new rows k code vendor v mand priv = Err ValueError.
Proof. intros rows k code vendor v mand priv H. unfold avp_new. rewrite H. reflexivity. Qed.

(* the flag byte Avp.new ends up with, as a function of (vendor = 0, M request, P request) *)
Definition new_flags (vz : bool) (m priv : option bool) : Z :=
  let f0 := if vz then Z.land 0 (Z.lnot FLAG_V) else Z.lor 0 FLAG_V in
  let f1 := match m with Some b => set_flag f0 FLAG_M b | None => f0 end in
  match priv with Some b => set_flag f1 FLAG_P b | None => f1 end.

Lemma new_flags_spec vz m priv :
  0 <= new_flags vz m priv < 256 /\
  (Z.land (new_flags vz m priv) 128 = 0 <-> vz = true) /\
  match m with Some b => (Z.land (new_flags vz m priv) 64 <> 0 <-> b = true)
             | None => Z.land (new_flags vz m priv) 64 = 0 end /\
  match priv with Some b => (Z.land (new_flags vz m priv) 32 <> 0 <-> b = true)
                | None => Z.land (new_flags vz m priv) 32 = 0 end.
Proof.
  destruct vz; destruct m as [[|]|]; destruct priv as [[|]|]; vm_compute;
    repeat split; intros; congruence.
Qed.

Lemma avp_new_inv rows k code vendor v mand priv a r :
  lookup rows code vendor = Some r -> avp_new rows k code vendor v mand priv = Ok a ->
  let m := match mand with Some b => Some b | None => if row_mand r =? 0 then None else Some (row_mand r =? 2) end in
  exists p, a = {| a_code := code; a_flags := new_flags (vendor =? 0) m priv; a_vendor := vendor; a_payload := p |} /\
            match v with Some x => enc_val k (row_ty r) x = Ok p | None => p = [] end.
Proof.
  intros Hl H m. unfold avp_new in H. rewrite Hl in H. fold m in H.
  destruct v as [x|].
  - destruct (enc_val k (row_ty r) x) as [p|e] eqn:Ev; cbn [bind] in H; [|discriminate].
    exists p. split; [|reflexivity]. injection H as <-.
    unfold new_flags. destruct m as [b|]; destruct priv as [b'|]; reflexivity.
  - cbn [bind] in H. exists []. split; [|reflexivity]. injection H as <-.
    unfold new_flags. destruct m as [b|]; destruct priv as [b'|]; reflexivity.
Qed.

Theorem avp_new_flags : forall rows k code vendor v mand priv a r,
  lookup rows code vendor = Some r -> avp_new rows k code vendor v mand priv = Ok a ->
  a_code a = code /\ a_vendor a = vendor /\
  (Z.land (a_flags a) 128 = 0 <-> vendor = 0) /\
  (let m := match mand with Some b => Some b | None => if row_mand r =? 0 then None else Some (row_mand r =? 2) end in
   match m with Some b => (Z.land (a_flags a) 64 <> 0 <-> b = true) | None => Z.land (a_flags a) 64 = 0 end) /\
  (match priv with Some b => (Z.land (a_flags a) 32 <> 0 <-> b = true) | None => Z.land (a_flags a) 32 = 0 end) /\
  0 <= a_flags a < 256 /\
  (match v with Some x => enc_val k (row_ty r) x = Ok (a_payload a) | None => a_payload a = [] end).
Proof.
  intros rows k code vendor v mand priv a r Hl H.
  destruct (avp_new_inv rows k code vendor v mand priv a r Hl H) as (p & -> & Hp).
  cbn [a_code a_flags a_vendor a_payload]. cbv zeta.
  set (m := match mand with Some b => Some b | None => if row_mand r =? 0 then None else Some (row_mand r =? 2) end).
  destruct (new_flags_spec (vendor =? 0) m priv) as (Hr & Hv & Hm & Hpv).
  split; [reflexivity|]. split; [reflexivity|].
  split; [rewrite Hv; apply Z.eqb_eq|].
  split; [exact Hm|]. split; [exact Hpv|]. split; [exact Hr|exact Hp].
Qed.

(* what Avp.new returns is encodable: wf_avp' as soon as code/vendor are 32-bit and the payload fits *)
Corollary avp_new_wf : forall rows k code vendor v mand priv a r,
  lookup rows code vendor = Some r -> avp_new rows k code vendor v mand priv = Ok a ->
  0 <= code < 4294967296 -> 0 <= vendor < 4294967296 ->
  wf_bytes (a_payload a) -> avp_length a < 16777216 -> wf_avp' a.
Proof.
  intros rows k code vendor v mand priv a r Hl H Hc Hv Hp Hlen.
  destruct (avp_new_flags rows k code vendor v mand priv a r Hl H) as (E1 & E2 & Hvb & _ & _ & Hf & _).
  unfold wf_avp'. rewrite E1, E2. repeat split; try lia; try tauto.
Qed.

(* ====================================================================== *)
(* 6. decode dispatches on the dictionary                                  *)
(* ====================================================================== *)
Theorem dispatch_type : forall rows bs a rest, dec_avp bs = Ok (a, rest) ->
  type_of (dict_of rows) a = match lookup rows (a_code a) (a_vendor a) with Some r => row_ty r | None => TUntyped end.
Proof.
  intros rows bs a rest _. unfold type_of, dict_of.
  destruct (lookup rows (a_code a) (a_vendor a)); reflexivity.
Qed.

(* a run-time registration (a row put in front) takes effect for exactly that (code, vendor) *)
Corollary dispatch_registered : forall rows r a,
  a_code a = row_code r -> a_vendor a = row_vendor r -> type_of (dict_of (r :: rows)) a = row_ty r.
Proof.
  intros rows r a Hc Hv. unfold type_of, dict_of, lookup. cbn [find].
  rewrite Hc, Hv, !Z.eqb_refl. reflexivity.
Qed.

(* ====================================================================== *)
(* 7. (addendum to 3) canonicity seen from the receiving side              *)
(* ====================================================================== *)
(* every AVP of a buffer is wire_ok (declared length = header + data, V bit implies vendor <> 0,
   zero padding): WireP's per-AVP condition, along the whole list *)
Fixpoint wires_ok (fuel : nat) (bs : bytes) : Prop :=
  match bs with
  | [] => True
  | _ => match fuel with
         | O => False
         | S f => wire_ok bs /\ match dec_avp bs with Ok (_, r) => wires_ok f r | Err _ => False end
         end
  end.

(* re-encoding a decoded list of wire_ok AVPs gives back the buffer *)
Lemma enc_dec_avps_fuel : forall fuel bs, wf_bytes bs -> wires_ok fuel bs ->
  exists l, dec_avps_fuel fuel bs = Ok l /\ Forall wf_avp' l /\ enc_avps l = Ok bs.
Proof.
  induction fuel as [|f IH]; intros bs Hwf Hok.
  - destruct bs as [|x bs]; [|contradiction]. exists []. repeat split. constructor.
  - destruct bs as [|x bs']; [exists []; repeat split; constructor|].
    set (bs := x :: bs') in *.
    assert (Hok' : wire_ok bs /\ match dec_avp bs with Ok (_, r) => wires_ok f r | Err _ => False end) by exact Hok.
    clear Hok. destruct Hok' as [Hw Hrest].
    rewrite dec_avps_fuel_S by discriminate.
    destruct (dec_avp bs) as [[a r]|e] eqn:Ed; [|contradiction].
    destruct (dec_avp_wf_partial bs a r Hwf Ed) as [Ha Hr].
    destruct (enc_dec_avp bs a r Hwf Ed Hw) as (pre & Hpre & Hbs).
    destruct (IH r Hr Hrest) as (l & Hl & Hfl & Hel).
    exists (a :: l). cbn [bind]. rewrite Hl. cbn [bind]. split; [reflexivity|].
    split; [constructor; assumption|]. cbn [enc_avps]. rewrite Hpre, Hel. cbn [bind]. rewrite Hbs. reflexivity.
Qed.

Theorem enc_dec_avps : forall bs l, wf_bytes bs -> wires_ok (List.length bs) bs -> dec_avps bs = Ok l ->
  Forall wf_avp' l /\ enc_avps l = Ok bs.
Proof.
  intros bs l Hwf Hok Hd. destruct (enc_dec_avps_fuel _ bs Hwf Hok) as (l' & Hl' & Hf & He).
  unfold dec_avps in Hd. rewrite Hl' in Hd. injection Hd as <-. split; assumption.
Qed.

(* a received grouped AVP whose nested AVPs are all wire_ok, as deep as the dictionary says Grouped *)
Fixpoint wire_canon (d : dict) (fuel : nat) (a : avp) : Prop :=
  match type_of d a with
  | TGrouped =>
      match fuel with
      | O => True
      | S f => wires_ok (List.length (a_payload a)) (a_payload a) /\
               forall l, dec_avps (a_payload a) = Ok l -> Forall (wire_canon d f) l
      end
  | _ => True
  end.

Lemma wire_canon_canon d : forall fuel a, wf_bytes (a_payload a) -> wire_canon d fuel a -> canon d fuel a.
Proof.
  induction fuel as [|f IH]; intros a Hwf Hc.
  - cbn [canon]. destruct (type_of d a); exact I.
  - cbn [canon wire_canon] in *. destruct (type_of d a); try exact I.
    destruct Hc as [Hok Hkids].
    destruct (enc_dec_avps_fuel _ _ Hwf Hok) as (l & Hl & Hfl & Hel).
    exists l. split; [exact Hfl|]. split; [exact Hel|].
    specialize (Hkids l Hl). clear Hl Hel Hok.
    induction l as [|x r IHl]; [constructor|].
    inversion Hfl as [|? ? Hx Hr]; subst. inversion Hkids as [|? ? Hcx Hcr]; subst.
    constructor; [|apply IHl; assumption].
    apply IH; [|exact Hcx]. destruct Hx as (_ & _ & _ & _ & Hp & _). exact Hp.
Qed.

(* tree round trip for received bytes: holds when every nested AVP is wire_ok *)
Theorem tree_roundtrip_wire : forall d fuel a t, wf_avp' a -> wire_canon d fuel a ->
  to_tree d fuel a = Ok t -> enc_tree t = enc_avp a.
Proof.
  intros d fuel a t Hw Hc Ht. eapply tree_roundtrip_canon; [exact Hw| |exact Ht].
  apply wire_canon_canon; [|exact Hc]. destruct Hw as (_ & _ & _ & _ & Hp & _). exact Hp.
Qed.

(* ====================================================================== *)
(* OPTIONAL: the Python cache key "/".join(f"{c}_{v}" for c, v in path) is  *)
(* injective on paths of non-negative integers                             *)
(* ====================================================================== *)
From Coq Require Ascii String DecimalString DecimalPos DecimalN.

Module KeyInj.
Import Ascii String DecimalString.
Local Open Scope string_scope.

(* f"{z}" for z >= 0 *)
Definition dec (z : Z) : string := NilZero.string_of_uint (N.to_uint (Z.to_N z)).

Fixpoint render (p : path) : string :=
  match p with
  | List.nil => ""
  | List.cons (c, v) r =>
      dec c ++ String "_" (dec v ++ match r with List.nil => "" | _ => String "/" (render r) end)
  end.

Definition is_digit (a : ascii) : bool :=
  let n := nat_of_ascii a in (Nat.leb 48 n && Nat.leb n 57)%bool.

Fixpoint all_digits (s : string) : bool :=
  match s with EmptyString => true | String a r => (is_digit a && all_digits r)%bool end.

Lemma all_digits_nilempty d : all_digits (NilEmpty.string_of_uint d) = true.
Proof. induction d; cbn [NilEmpty.string_of_uint all_digits]; try rewrite IHd; reflexivity. Qed.

Lemma all_digits_dec z : all_digits (dec z) = true.
Proof.
  unfold dec, NilZero.string_of_uint. destruct (N.to_uint (Z.to_N z)); try apply all_digits_nilempty.
  reflexivity.
Qed.

Lemma dec_nonempty z : exists a s, dec z = String a s.
Proof.
  unfold dec, NilZero.string_of_uint.
  destruct (N.to_uint (Z.to_N z)); cbn [NilEmpty.string_of_uint]; eexists _, _; reflexivity.
Qed.

Lemma to_uint_nonnil n : N.to_uint n <> Decimal.Nil.
Proof.
  destruct n as [|p]; [discriminate|]. apply DecimalPos.Unsigned.to_uint_nonnil.
Qed.

Lemma dec_inj z z' : 0 <= z -> 0 <= z' -> dec z = dec z' -> z = z'.
Proof.
  intros Hz Hz' H. unfold dec in H.
  apply (f_equal NilZero.uint_of_string) in H.
  rewrite !NilZero.usu in H by apply to_uint_nonnil.
  injection H as H. apply DecimalN.Unsigned.to_uint_inj in H. lia.
Qed.

Lemma append_nil_r s : s ++ "" = s.
Proof. induction s as [|a s IH]; [reflexivity|]. cbn [append]. rewrite IH. reflexivity. Qed.

(* a run of digits followed by a non-digit splits uniquely *)
Lemma split_digits a : forall b c1 c2 r1 r2,
  all_digits a = true -> all_digits b = true -> is_digit c1 = false -> is_digit c2 = false ->
  a ++ String c1 r1 = b ++ String c2 r2 -> a = b /\ c1 = c2 /\ r1 = r2.
Proof.
  induction a as [|x a IH]; intros b c1 c2 r1 r2 Ha Hb H1 H2 E.
  - destruct b as [|y b].
    + cbn [append] in E. injection E as -> ->. repeat split.
    + cbn [append] in E. injection E as -> _. cbn [all_digits] in Hb.
      apply andb_prop in Hb as [Hy _]. congruence.
  - destruct b as [|y b].
    + cbn [append] in E. injection E as -> _. cbn [all_digits] in Ha.
      apply andb_prop in Ha as [Hx _]. congruence.
    + cbn [append] in E. injection E as -> E. cbn [all_digits] in Ha, Hb.
      apply andb_prop in Ha as [_ Ha]. apply andb_prop in Hb as [_ Hb].
      destruct (IH b c1 c2 r1 r2 Ha Hb H1 H2 E) as (-> & -> & ->). repeat split.
Qed.

Lemma digits_no_sep a : forall b c r,
  all_digits a = true -> is_digit c = false -> a = b ++ String c r -> False.
Proof.
  induction a as [|x a IH]; intros b c r Ha Hc E.
  - destruct b; discriminate.
  - destruct b as [|y b]; cbn [append] in E; injection E as -> E; cbn [all_digits] in Ha;
      apply andb_prop in Ha as [Hx Ha].
    + congruence.
    + eapply IH; eassumption.
Qed.

Definition nonneg (p : path) : Prop := Forall (fun cv => 0 <= fst cv /\ 0 <= snd cv) p.

Theorem render_inj : forall p q, nonneg p -> nonneg q -> render p = render q -> p = q.
Proof.
  induction p as [|[c v] r IH]; intros q Hp Hq E.
  - destruct q as [|[c' v'] r']; [reflexivity|].
    cbn [render] in E. destruct (dec_nonempty c') as (a & s & Hd). rewrite Hd in E. discriminate.
  - destruct q as [|[c' v'] r'].
    + cbn [render] in E. destruct (dec_nonempty c) as (a & s & Hd). rewrite Hd in E. discriminate.
    + inversion Hp as [|? ? [Hc Hv] Hr]; subst. inversion Hq as [|? ? [Hc' Hv'] Hr']; subst.
      cbn [fst snd] in *.
      cbn [render] in E.
      apply split_digits in E as (Ec & _ & E); try apply all_digits_dec; try reflexivity.
      apply dec_inj in Ec; [|assumption|assumption]. subst c'.
      destruct r as [|x r]; destruct r' as [|x' r'].
      * rewrite !append_nil_r in E. apply dec_inj in E; [|assumption|assumption]. subst. reflexivity.
      * rewrite append_nil_r in E. exfalso.
        eapply (digits_no_sep (dec v)); [apply all_digits_dec| |exact E]. reflexivity.
      * rewrite append_nil_r in E. exfalso. symmetry in E.
        eapply (digits_no_sep (dec v')); [apply all_digits_dec| |exact E]. reflexivity.
      * apply split_digits in E as (Ev & _ & E); try apply all_digits_dec; try reflexivity.
        apply dec_inj in Ev; [|assumption|assumption]. subst v'.
        f_equal. apply IH; assumption.
Qed.

(* sanity: the rendering is the Python one on an example *)
Example render_example : render (List.cons (260, 0) (List.cons (266, 10415) List.nil)) = "260_0/266_10415".
Proof. vm_compute. reflexivity. Qed.

End KeyInj.

Print Assumptions traverse_is_at_path.
Print Assumptions find_avps_is_at_path.
Print Assumptions find_cache_transparent.
Print Assumptions find_cache_repeat.
Print Assumptions find_seq_is_at_path.
Print Assumptions to_tree_payload.
Print Assumptions tree_roundtrip_enc.
Print Assumptions tree_roundtrip_refuted.
Print Assumptions tree_roundtrip_partial.
Print Assumptions tree_roundtrip_leaf.
Print Assumptions enc_dec_avps.
Print Assumptions tree_roundtrip_wire.
Print Assumptions grouped_val_roundtrip.
Print Assumptions val_layout_any.
Print Assumptions val_layout.
Print Assumptions avp_new_flags.
Print Assumptions avp_new_unknown.
Print Assumptions avp_new_wf.
Print Assumptions dispatch_type.
Print Assumptions dispatch_registered.
Print Assumptions KeyInj.render_inj.
