(* Proofs about class dispatch and to_answer (C02 dispatch part, C20). *)
From DV Require Import Prelude.Base Proofs.BaseP Model.Wire Model.Msg.
From Coq Require Import String.

(* ---- single-bit masks --------------------------------------------------- *)
Lemma land_pow2_cases x n : 0 <= n -> Z.land x (2 ^ n) = 0 \/ Z.land x (2 ^ n) = 2 ^ n.
Proof.
  intros Hn. destruct (Z.testbit x n) eqn:Hb; [right|left]; apply Z.bits_inj'; intros m Hm;
    rewrite Z.land_spec, Z.pow2_bits_eqb by lia.
  - destruct (Z.eqb_spec n m) as [->|Hne]; [rewrite Hb; reflexivity|apply andb_false_r].
  - rewrite Z.bits_0. destruct (Z.eqb_spec n m) as [->|Hne]; [rewrite Hb; reflexivity|apply andb_false_r].
Qed.

Lemma lor_pow2_set x n : 0 <= n -> Z.land (Z.lor x (2 ^ n)) (2 ^ n) = 2 ^ n.
Proof.
  intros Hn. apply Z.bits_inj'; intros m Hm.
  rewrite Z.land_spec, Z.lor_spec, Z.pow2_bits_eqb by lia.
  destruct (Z.eqb_spec n m); [rewrite orb_true_r; reflexivity|apply andb_false_r].
Qed.

Lemma ldiff_pow2_clear x n : 0 <= n -> Z.land (Z.land x (Z.lnot (2 ^ n))) (2 ^ n) = 0.
Proof.
  intros Hn. apply Z.bits_inj'; intros m Hm.
  rewrite !Z.land_spec, Z.lnot_spec, Z.pow2_bits_eqb, Z.bits_0 by lia.
  destruct (Z.eqb_spec n m); [cbn; rewrite andb_false_r; reflexivity|apply andb_false_r].
Qed.

(* flags that can only contain bit 6 *)
Definition only_p (x : Z) : Prop := x = 0 \/ x = 64.

Lemma only_p_land a x : only_p x -> only_p (Z.land x a).
Proof.
  intros [-> | ->]; [left; apply Z.land_0_l|].
  rewrite Z.land_comm. change 64 with (2 ^ 6). apply (land_pow2_cases a 6); lia.
Qed.
Lemma only_p_lor x y : only_p x -> only_p y -> only_p (Z.lor x y).
Proof. intros [-> | ->] [-> | ->]; cbn; unfold only_p; auto. Qed.
Lemma only_p_set x b : only_p x -> set_flag x HF_P b = if b then 64 else 0.
Proof. intros [-> | ->]; destruct b; reflexivity. Qed.

(* ---- to_answer ----------------------------------------------------------- *)
Definition or_mask_ok (r : clsrow) : bool := (c_or r =? 0) || (c_or r =? 64).
(* the class an answer is instantiated as may force no flag other than P *)
Definition answer_mask_ok (classes : list clsrow) (cname : string) : bool :=
  match cls_lookup classes (answer_class classes cname) with
  | Some a => or_mask_ok a
  | None => true
  end.

Lemma post_init_fields classes cname h :
  let h' := post_init classes cname h in
  h_version h' = h_version h /\ h_length h' = h_length h /\ h_app h' = h_app h /\
  h_hbh h' = h_hbh h /\ h_e2e h' = h_e2e h.
Proof. unfold post_init. destruct (cls_lookup classes cname); cbn; repeat split; reflexivity. Qed.

Lemma post_init_flags_only_p classes cname h :
  match cls_lookup classes cname with Some a => or_mask_ok a = true | None => True end ->
  only_p (h_flags h) -> only_p (h_flags (post_init classes cname h)).
Proof.
  intros Hok Hp. unfold post_init. destruct (cls_lookup classes cname) as [r|] eqn:E; [|exact Hp].
  cbn [h_flags]. apply only_p_lor; [apply only_p_land; exact Hp|].
  unfold or_mask_ok in Hok. apply orb_true_iff in Hok as [H|H]; apply Z.eqb_eq in H; unfold only_p; auto.
Qed.

Theorem to_answer_header classes cname h :
  let h' := snd (to_answer classes cname h) in
  h_version h' = h_version h /\ h_length h' = 0 /\ h_app h' = h_app h /\
  h_hbh h' = h_hbh h /\ h_e2e h' = h_e2e h.
Proof.
  unfold to_answer. cbn [snd set_hflags h_version h_length h_app h_hbh h_e2e].
  match goal with |- context [post_init classes ?c ?h0] => pose proof (post_init_fields classes c h0) as H end.
  cbn zeta in H. destruct H as (H1 & H2 & H3 & H4 & H5). rewrite H1, H2, H3, H4, H5. cbn. repeat split; reflexivity.
Qed.

(* P kept; R, E, T (and everything else) cleared *)
Theorem to_answer_flags classes cname h :
  answer_mask_ok classes cname = true ->
  h_flags (snd (to_answer classes cname h)) = Z.land (h_flags h) HF_P.
Proof.
  intros Hok. unfold to_answer. cbn [snd set_hflags h_flags].
  set (p := negb (Z.land (h_flags h) HF_P =? 0)).
  match goal with |- context [post_init classes ?c ?h0] =>
    assert (Hp : only_p (h_flags (post_init classes c h0))) end.
  { apply post_init_flags_only_p.
    - unfold answer_mask_ok in Hok. destruct (cls_lookup classes (answer_class classes cname)); [exact Hok|exact I].
    - cbn [h_flags]. destruct p; cbn; unfold only_p; auto. }
  rewrite (only_p_set _ p Hp). unfold p.
  change HF_P with (2 ^ 6). destruct (land_pow2_cases (h_flags h) 6 ltac:(lia)) as [E|E]; rewrite E; reflexivity.
Qed.

(* the command code survives when the answer class forces no other code *)
Definition code_consistent (classes : list clsrow) (cname : string) (h : hdr) : Prop :=
  match cls_lookup classes (answer_class classes cname) with
  | Some r => c_code r = -1 \/ c_code r = h_code h
  | None => True
  end.
Theorem to_answer_code classes cname h :
  code_consistent classes cname h -> h_code (snd (to_answer classes cname h)) = h_code h.
Proof.
  unfold code_consistent, to_answer. cbn [snd set_hflags h_code]. unfold post_init.
  destruct (cls_lookup classes (answer_class classes cname)) as [r|]; [|reflexivity].
  cbn [h_code]. intros [-> | ->]; [reflexivity|]. destruct (h_code h =? -1) eqn:E; [apply Z.eqb_eq in E; congruence|reflexivity].
Qed.

(* decode keeps the received flags, whatever the class does on construction *)
Theorem decoded_header_flags classes cname h : h_flags (decoded_header classes cname h) = h_flags h.
Proof. reflexivity. Qed.
