"""Adaptive random scenario generation for the node layer.  The next event is chosen from the
current implementation snapshot (so that events stay meaningful), deterministically from a PRNG."""
from __future__ import annotations

import copy
import random

import nodesim as NS

KNOWN = ["cli0.example.net", "cli1.example.net", "cli2.example.net"]


def make_cfg(rng, profile):
    cfg = NS.default_cfg()
    napps = profile.get("apps", rng.choice([1, 1, 2]))
    cfg["apps"] = [dict(id=4, auth=True, acct=False)]
    if napps >= 2:
        r2 = rng.random()
        if r2 < 0.3:
            cfg["apps"].append(dict(id=4, auth=True, acct=False))      # the SAME id, told apart by the peers configured for it
        elif r2 < 0.65:
            cfg["apps"].append(dict(id=rng.choice([3, 16777238]), auth=False, acct=True))
        else:
            cfg["apps"].append(dict(id=16777238, auth=True, acct=False))
    if napps == 0:
        cfg["apps"] = []
    npeers = profile.get("peers", rng.choice([1, 2, 3]))
    cfg["peers"] = []
    for i in range(npeers):
        outbound = profile.get("outbound", 0.3) > rng.random()
        apps = [a for a in range(len(cfg["apps"])) if rng.random() < 0.8] or ([0] if cfg["apps"] else [])
        cfg["peers"].append(dict(name=KNOWN[i], realm="example.net", addr=outbound, persistent=outbound and rng.random() < 0.8,
                                 always=rng.random() < 0.3,
                                 cea=rng.choice([None, None, 2, 7]), cer=rng.choice([None, None, 2, 7]),
                                 dwa=rng.choice([None, None, 2, 9]), idle=rng.choice([None, None, 5, 12]),
                                 rwait=rng.choice([1, 5, 10, 30]), apps=apps, default=rng.random() < 0.2))
    if profile.get("timers", True):
        cfg["cea"], cfg["cer"] = rng.choice([4, 3, 10]), rng.choice([4, 3, 10])
        cfg["dwa"], cfg["idle"] = rng.choice([4, 2, 8]), rng.choice([30, 6, 15])
        cfg["wakeup"] = rng.choice([6, 1, 3, 10])
    cfg["rsize"] = profile.get("rsize", rng.choice([10240, 1, 2, 3]))
    cfg["e2e_rand"] = rng.randrange(1, 0xfffff)
    # the local host name decides RFC 6733 5.6.4 elections: mostly greater than the peers' names, sometimes smaller
    cfg["host"] = "aaa.example.net" if rng.random() < 0.2 else "srv.example.net"
    if len(cfg["apps"]) and rng.random() < 0.3:
        cfg["extra_realms"] = {0: ["other.example.org"]}
    return cfg


class Gen:
    """stateful event chooser"""
    def __init__(self, rng, cfg, weights):
        self.rng = rng
        self.cfg = cfg
        self.w = weights
        self.next_hbh = 1000
        self.pending = {}      # cid -> list of (hbh, e2e, wire) delivered-looking requests sent on that conn
        self.delivered = []    # (app, hbh, e2e, cid, wire) requests the application has seen and not answered
        self.answered = []     # wires of answered requests (for T-flag retransmissions)
        self.nconn = 0
        self.dir = {}          # cid -> 'in'/'out'
        self.sent_cer = set()
        self.n_accept = 0
        self.stalled = set()
        self.outstanding = []   # (cid, hbh, e2e) requests the node sent on behalf of an application
        self.answered_out = []  # those already answered (for duplicates)
        self.dpr_out = []       # (cid, hbh, e2e) DPRs the node sent
        self.stopped = False
        self.after_stop = 0
        self.stop_immediate = False
        self.n_req = 0
        self.zero_used = set()

    def ids(self):
        self.next_hbh += 1
        return self.next_hbh, 5000 + self.next_hbh

    def choose(self, snap, last_obs):
        rng = self.rng
        live = {c[0]: c for c in snap["conns"]}
        opts = []

        def add(weight_key, fn):
            w = self.w.get(weight_key, 0)
            if w > 0:
                opts.append((w, fn))
        if self.stopped:
            # shutdown phase: everything happens at the instant of the stop() call; the final stop_finish event lets
            # the clock run until stop() returns
            self.after_stop += 1
            if self.after_stop > 5 or self.stop_immediate:
                return None
            if self.n_accept < 7:
                add("accept", self.ev_accept)
            for cid, c in live.items():
                if c[2] in (2, 3, 4):
                    add("request", lambda cid=cid, c=c: self.ev_request(cid, c))
                    add("dwr", lambda cid=cid, c=c: self.ev_base(cid, c, "dwr"))
                add("close", lambda cid=cid: dict(ev="close", cid=cid))
            if self.dpr_out:
                add("dpa_for_dpr", self.ev_dpa_for_dpr)
            if self.delivered:
                add("app_answer", self.ev_app_answer)
            if not opts:
                return None
            total = sum(w for w, _ in opts)
            x = rng.random() * total
            for w, fn in opts:
                x -= w
                if x <= 0:
                    return fn()
            return opts[-1][1]()
        if len(live) < 3 and self.n_accept < 6:
            add("accept", self.ev_accept)
        for cid, c in live.items():
            st = c[2]
            inbound = c[1]
            if st == 1 and inbound:
                if cid not in self.sent_cer:      # at most one CER per connection (RFC 6733 5.3)
                    add("cer", lambda cid=cid: self.ev_cer(cid, snap))
                    add("cer_plus", lambda cid=cid: self.ev_cer_plus(cid, snap))
                add("pre_handshake", lambda cid=cid: self.ev_pre(cid))
            if st == 1 and not inbound:
                add("cea", lambda cid=cid: self.ev_cea(cid, snap))
                add("pre_handshake", lambda cid=cid: self.ev_pre(cid))
            if st == 0:
                add("conndone", lambda cid=cid: dict(ev="conndone", cid=cid, ok=rng.random() < 0.7))
            if st in (2, 3):
                add("request", lambda cid=cid, c=c: self.ev_request(cid, c))
                add("bad_request", lambda cid=cid, c=c: self.ev_bad_request(cid, c))
                add("dwr", lambda cid=cid, c=c: self.ev_base(cid, c, "dwr"))
                add("dwa", lambda cid=cid, c=c: self.ev_base(cid, c, "dwa"))
                add("dpr", lambda cid=cid, c=c: self.ev_base(cid, c, "dpr"))
                add("dpa", lambda cid=cid, c=c: self.ev_base(cid, c, "dpa"))
                add("stray_answer", lambda cid=cid, c=c: self.ev_stray_answer(cid, c))
                add("retransmit", lambda cid=cid, c=c: self.ev_retransmit(cid, c))
                add("burst", lambda cid=cid, c=c: self.ev_burst(cid, c))
            if st == 4:
                add("request", lambda cid=cid, c=c: self.ev_request(cid, c))
                add("stray_answer", lambda cid=cid, c=c: self.ev_stray_answer(cid, c))
                add("dwr", lambda cid=cid, c=c: self.ev_base(cid, c, "dwr"))
                add("dwa", lambda cid=cid, c=c: self.ev_base(cid, c, "dwa"))
                add("dpa", lambda cid=cid, c=c: self.ev_base(cid, c, "dpa"))
            add("close", lambda cid=cid: dict(ev="close", cid=cid))
            add("readerr", lambda cid=cid: dict(ev="readerr", cid=cid, hard=rng.random() < 0.6))
            add("stall", lambda cid=cid: dict(ev="stall", cid=cid, on=rng.random() < 0.5))
        if self.delivered:
            add("app_answer", self.ev_app_answer)
        if self.cfg["apps"] and self.n_req < 8 and not self.stopped:
            add("app_request", self.ev_app_request)
        if self.outstanding:
            add("answer_request", self.ev_answer_request)
        if self.answered_out or self.outstanding:
            add("odd_answer", self.ev_odd_answer)
        if self.dpr_out:
            add("dpa_for_dpr", self.ev_dpa_for_dpr)
        if not self.stopped:
            add("stop", self.ev_stop)
        add("bad_app_answer", self.ev_bad_app_answer)
        add("tick", self.ev_tick)
        if not opts:
            return self.ev_tick()
        total = sum(w for w, _ in opts)
        x = rng.random() * total
        for w, fn in opts:
            x -= w
            if x <= 0:
                return fn()
        return opts[-1][1]()

    # ---- events ------------------------------------------------------------------------
    def ev_accept(self):
        self.n_accept += 1
        # now and then a hop-by-hop generator that is about to wrap
        h0 = self.rng.choice([0xfffffffe, 0xffffffff, 0xfffffffd]) if self.rng.random() < 0.12 else self.rng.randrange(1, 2 ** 32 - 10)
        return dict(ev="accept", hbh0=h0)

    def peer_host_choice(self, snap):
        rng = self.rng
        names = [p["name"] for p in self.cfg["peers"]]
        r = rng.random()
        if r < 0.65 and names:
            return rng.choice(names), "known"
        if r < 0.85:
            return "evil%d.example.org" % rng.randrange(3), "unknown"
        return rng.choice(names) if names else "evil.example.org", "known"

    def ev_cer(self, cid, snap, extra=()):
        rng = self.rng
        host, _ = self.peer_host_choice(snap)
        r = rng.random()
        app_ids = [a["id"] for a in self.cfg["apps"]]
        if r < 0.6:
            auth, acct = [a["id"] for a in self.cfg["apps"] if a["auth"]], [a["id"] for a in self.cfg["apps"] if a["acct"]]
            if not auth and not acct:
                auth = [4]
        elif r < 0.8:
            auth, acct = [999], []           # nothing in common
        elif r < 0.9:
            auth, acct = [0xffffffff], []    # relay
        else:
            auth, acct = [999], [0xffffffff]
        h, e = self.ids()
        self.sent_cer.add(cid)
        return dict(ev="recv", cid=cid, frames=[NS.build_message(dict(kind="cer", host=host, auth=auth, acct=acct, hbh=h, e2e=e))] + list(extra))

    def ev_cer_plus(self, cid, snap):
        h, e = self.ids()
        req = NS.build_message(dict(kind="req", hbh=h, e2e=e, host="cli0.example.net"))
        ev = self.ev_cer(cid, snap, extra=[req])
        self.pending.setdefault(cid, []).append((h, e, req))
        return ev

    def ev_pre(self, cid):
        h, e = self.ids()
        kind = self.rng.choice(["dwr", "req", "dpr", "dwa", "ans", "cea_wrong_dir"])
        if kind == "cea_wrong_dir":
            fr = NS.build_message(dict(kind="cea" if self.dir.get(cid, "in") == "in" else "cer", host="cli0.example.net", result=2001, hbh=h, e2e=e))
        else:
            fr = NS.build_message(dict(kind=kind, hbh=h, e2e=e))
        if kind == "req":
            self.pending.setdefault(cid, []).append((h, e, fr))
        return dict(ev="recv", cid=cid, frames=[fr])

    def ev_cea(self, cid, snap):
        rng = self.rng
        c = next(x for x in snap["conns"] if x[0] == cid)
        host = c[3] or "cli0.example.net"
        result = rng.choice([2001, 2001, 2001, 3010, 5010, 5012, None])
        hostv = host if rng.random() < 0.9 else None
        others = [p["name"] for p in self.cfg["peers"] if p["name"] != host]
        if others and rng.random() < 0.08:
            hostv = rng.choice(others)       # a CEA announcing ANOTHER configured peer's identity
        h, e = self.ids()
        return dict(ev="recv", cid=cid, frames=[NS.build_message(dict(kind="cea", host=hostv, result=result, hbh=h, e2e=e))])

    def origin_for(self, c):
        return c[4] or c[3] or "cli0.example.net"

    def ev_request(self, cid, c):
        h, e = self.ids()
        r = self.rng.random()
        if r < 0.25:
            h = 42        # equal hop-by-hop ids on different connections
        elif r < 0.32 and (cid, 0) not in self.zero_used:
            h = 0         # boundary identifier: an answer must carry it unchanged
            self.zero_used.add((cid, 0))
        fr = NS.build_message(dict(kind="req", hbh=h, e2e=e, host=self.origin_for(c)))
        self.pending.setdefault(cid, []).append((h, e, fr))
        return dict(ev="recv", cid=cid, frames=[fr])

    def ev_bad_request(self, cid, c):
        rng = self.rng
        h, e = self.ids()
        k = rng.choice(["no_session", "no_type", "unknown_app", "foreign_realm", "other_realm", "unknown_cmd", "no_drealm", "no_host", "two_missing",
                        "handler_raises"])
        spec = dict(kind="req", hbh=h, e2e=e, host=self.origin_for(c))
        if k == "no_session":
            spec["no_session"] = True
        elif k == "no_type":
            spec["no_type"] = True
        elif k == "two_missing":
            spec["no_type"] = True
            spec["no_session"] = True
        elif k == "unknown_app":
            spec["app"] = 777
        elif k == "foreign_realm":
            spec["drealm"] = "nowhere.example.com"
        elif k == "other_realm":
            spec["drealm"] = "other.example.org"
        elif k == "unknown_cmd":
            spec["code"] = 8388000
        elif k == "no_drealm":
            spec["drealm"] = None
        elif k == "no_host":
            spec["host"] = None
        elif k == "handler_raises":
            spec["raises"] = True
        fr = NS.build_message(spec)
        self.pending.setdefault(cid, []).append((h, e, fr))
        return dict(ev="recv", cid=cid, frames=[fr])

    def ev_base(self, cid, c, kind):
        h, e = self.ids()
        if self.rng.random() < 0.1:
            h = 0
        return dict(ev="recv", cid=cid, frames=[NS.build_message(dict(kind=kind, hbh=h, e2e=e, host=self.origin_for(c)))])

    def ev_stray_answer(self, cid, c):
        h, e = self.ids()
        k = self.rng.choice(["plain", "no_host", "no_result", "cea"])
        if k == "cea":
            fr = NS.build_message(dict(kind="cea", host=None if self.rng.random() < 0.5 else self.origin_for(c), result=2001, hbh=h, e2e=e))
        else:
            fr = NS.build_message(dict(kind="ans", hbh=h, e2e=e, host=None if k == "no_host" else self.origin_for(c),
                                       result=None if k == "no_result" else 2001))
        return dict(ev="recv", cid=cid, frames=[fr])

    def ev_retransmit(self, cid, c):
        rng = self.rng
        pool = self.answered[-6:] + [w for (_, _, w) in self.pending.get(cid, [])[-3:]]
        if not pool:
            return self.ev_request(cid, c)
        w = rng.choice(pool)
        from diameter.message import Message
        m = Message.from_bytes(w)
        m.header.is_retransmit = rng.random() < 0.8
        if rng.random() < 0.5:
            m.header.hop_by_hop_identifier = self.ids()[0]
        fr = m.as_bytes()
        self.pending.setdefault(cid, []).append((m.header.hop_by_hop_identifier, m.header.end_to_end_identifier, fr))
        return dict(ev="recv", cid=cid, frames=[fr])

    def ev_burst(self, cid, c):
        frames = []
        for _ in range(self.rng.randrange(2, 4)):
            h, e = self.ids()
            kind = self.rng.choice(["req", "dwr", "req", "dpr"])
            fr = NS.build_message(dict(kind=kind, hbh=h, e2e=e, host=self.origin_for(c)))
            if kind == "req":
                self.pending.setdefault(cid, []).append((h, e, fr))
            frames.append(fr)
        return dict(ev="recv", cid=cid, frames=frames)

    def make_answer(self, wire, experimental=False):
        """experimental: the answer reports its outcome in an Experimental-Result only (no Result-Code AVP), as the
        answers of 3GPP applications do"""
        from diameter.message import Message
        m = Message.from_bytes(wire)
        a = m.to_answer()
        if experimental:
            from diameter.message.avp.grouped import ExperimentalResult
            from diameter.message.avp import Avp
            a.result_code = None
            if hasattr(a, "experimental_result"):
                a.experimental_result = ExperimentalResult(vendor_id=10415, experimental_result_code=5001)
            else:
                a.append_avp(Avp.new(297, value=[Avp.new(266, value=10415), Avp.new(298, value=5001)]))
        else:
            a.result_code = 2001
        a.origin_host = b"srv.example.net"
        a.origin_realm = b"example.net"
        if hasattr(m, "session_id") and m.session_id:
            a.session_id = m.session_id
        else:
            try:
                a.session_id = "s;0"
            except Exception:   # noqa
                pass
        try:
            a.auth_application_id = 4
            a.cc_request_type = 1
            a.cc_request_number = 0
        except Exception:   # noqa
            pass
        return a

    def ev_app_answer(self):
        i = self.rng.randrange(len(self.delivered))
        app, h, e, wire = self.delivered.pop(i)
        self.answered.append(wire)
        return dict(ev="app_answer", app=app, msg=self.make_answer(wire, experimental=self.rng.random() < 0.2))

    def ev_bad_app_answer(self):
        # an answer for a request that was already answered, or that never existed
        if self.answered and self.rng.random() < 0.6:
            wire = self.rng.choice(self.answered)
        else:
            h, e = self.ids()
            wire = NS.build_message(dict(kind="req", hbh=h, e2e=e))
        return dict(ev="app_answer", app=0, msg=self.make_answer(wire))

    def ev_app_request(self):
        from diameter.message.commands import CreditControlRequest
        rng = self.rng
        self.n_req += 1
        m = CreditControlRequest()
        m.session_id = "out;%d" % self.n_req
        m.origin_host = self.cfg["host"].encode()
        m.origin_realm = self.cfg["realm"].encode()
        r = rng.random()
        if r < 0.7:
            m.destination_realm = self.cfg["realm"].encode()
        elif r < 0.85:
            m.destination_realm = b"other.example.org"
        else:
            m.destination_realm = b"nowhere.example.com"
        m.service_context_id = "ctx"
        m.cc_request_type = 1
        m.cc_request_number = 0
        return dict(ev="app_request", app=rng.randrange(len(self.cfg["apps"])), msg=m, pick=rng.randrange(4),
                    timeout=rng.choice([3, 5, 30, 60]))

    def ev_answer_request(self):
        cid, h, e = self.outstanding.pop(self.rng.randrange(len(self.outstanding)))
        self.answered_out.append((cid, h, e))
        return dict(ev="recv", cid=cid, frames=[NS.build_message(dict(kind="ans", hbh=h, e2e=e))])

    def ev_odd_answer(self):
        rng = self.rng
        pool = self.answered_out + self.outstanding
        cid, h, e = rng.choice(pool)
        k = rng.choice(["duplicate", "wrong_e2e", "other_conn"])
        if k == "duplicate" and (cid, h, e) in self.outstanding:
            k = "wrong_e2e"
        if k == "wrong_e2e":
            e = e + 100000
        return dict(ev="recv", cid=cid, frames=[NS.build_message(dict(kind="ans", hbh=h, e2e=e))])

    def ev_dpa_for_dpr(self):
        cid, h, e = self.dpr_out.pop(0)
        return dict(ev="recv", cid=cid, frames=[NS.build_message(dict(kind="dpa", hbh=h, e2e=e))])

    def ev_stop(self):
        self.stopped = True
        return dict(ev="stop", force=self.rng.random() < 0.25, timeout=self.rng.choice([2, 5, 20, 180]))

    def ev_tick(self):
        rng = self.rng
        dt = rng.choice([1, 1, 2, 3, 5, 6, 7, 10, 13, 30, 31])
        pers = [p for p in self.cfg["peers"] if p["persistent"]]
        nd = sum(dt // max(1, min(p["rwait"], self.cfg["wakeup"] if p["rwait"] < self.cfg["wakeup"] else p["rwait"])) + 2 for p in pers)
        dials = [(rng.randrange(1, 2 ** 32 - 10), rng.choice(["DialOk", "DialRefused", "DialInProgress"])) for _ in range(nd)]
        return dict(ev="tick", dt=dt, dials=dials)

    def note_sends(self, obs):
        for cid, ms in obs["sends"].items():
            for m_ in ms:
                if m_["req"] and m_["cmd"].startswith("App"):
                    self.outstanding.append((cid, m_["hbh"], m_["e2e"]))
                if m_["req"] and m_["cmd"] == "DP":
                    self.dpr_out.append((cid, m_["hbh"], m_["e2e"]))
        for cid in obs["closed"]:
            self.outstanding = [x for x in self.outstanding if x[0] != cid]
            self.dpr_out = [x for x in self.dpr_out if x[0] != cid]

    def note(self, ev, obs):
        self.note_sends(obs)
        if ev["ev"] == "stop":
            # a forced stop, or one with no connection to wait for, sets the I/O thread's stop flag at once
            self.stop_immediate = ev["force"] or not obs["snap"]["conns"]
        for (app, h, e) in obs["delivered"]:
            cid = ev.get("cid")
            wire = next((w for (hh, ee, w) in self.pending.get(cid, []) if hh == h and ee == e), None)
            if wire is not None:
                self.delivered.append((app, h, e, wire))


def run_random(seed, profile, weights, length):
    """returns (cfg, events, observations)"""
    rng = random.Random(seed)
    cfg = make_cfg(rng, profile)
    g = Gen(rng, cfg, weights)
    r = NS.Run(cfg, seed=seed, policy=profile.get("policy", "fifo"))
    events, obs = [], []
    try:
        nd = len([p for p in cfg["peers"] if p["persistent"]])
        ev = dict(ev="start", dials=[(rng.randrange(1, 2 ** 32 - 10), rng.choice(["DialOk", "DialRefused", "DialInProgress"])) for _ in range(nd)])
        o = r.apply(ev)
        events.append(ev)
        obs.append(o)
        for _ in range(length):
            ev = g.choose(o["snap"], o)
            if ev is None:
                break
            if "dials" not in ev:
                npers = len([p for p in cfg["peers"] if p["persistent"]])
                ev["dials"] = [(rng.randrange(1, 2 ** 32 - 10), rng.choice(["DialOk", "DialRefused", "DialInProgress"])) for _ in range(2 * npers)]
            if ev["ev"] in ("recv", "close", "readerr", "stall", "conndone") and ev["cid"] >= len(r.remotes):
                continue
            if ev["ev"] == "conndone" and (r.remotes[ev["cid"]].state != "connecting" or ev["cid"] in g.stalled):
                continue
            if ev["ev"] in ("recv", "close", "readerr") and r.remotes[ev["cid"]].closed_by_node:
                continue
            if ev["ev"] == "stall":
                c = next((x for x in o["snap"]["conns"] if x[0] == ev["cid"]), None)
                if c is None or c[2] == 0:
                    continue
                (g.stalled.add if ev["on"] else g.stalled.discard)(ev["cid"])
            o = r.apply(ev)
            g.note(ev, o)
            events.append(ev)
            obs.append(o)
            for cid, rem in enumerate(r.remotes):
                g.dir[cid] = rem.direction
        if g.stopped:
            ev = dict(ev="stop_finish", dials=[])
            o = r.apply(ev)
            events.append(ev)
            obs.append(o)
    finally:
        r.shutdown()
    return cfg, events, obs
