"""C01 — AVP value <-> wire codec is exact, RFC 6733-conformant and lossless."""
from __future__ import annotations

import random

import implobs as O
import vlib

FILES = ["Link/LinkWire.v", "Link/LinkDict.v", "Props/C01.v"]

PRE = ("From DV Require Import Prelude.Base Model.Wire Model.Types Model.Obs Gen.GenDict Gen.GenConst.\n"
       "From Coq Require Import String.\n")

INT_RANGES = {"TInt32": (-2 ** 31, 2 ** 31 - 1), "TInt64": (-2 ** 63, 2 ** 63 - 1),
              "TUns32": (0, 2 ** 32 - 1), "TUns64": (0, 2 ** 64 - 1)}
T_LO, T_HI = -61505152, 4233462144        # 1968-01-20 03:14:08 .. 2104-02-26 09:42:24 (exclusive)
OCTET_LENS = [0, 1, 2, 3, 4, 5, 6, 7, 8, 9, 15, 16, 17, 255, 256, 257, 1021, 1022, 1023, 1024, 4093, 4094, 4095, 4096]
TEXTS = ["", "a", "host.example.net", "é", "€", "\U0001F600", "aé€\U0001F600z", "\x00", "\x7f\x80߿ࠀ￿\U00010000\U0010ffff",
         # not in Unicode normal form C: the octets are those of the code points given, nothing is normalised
         "cafe\u0301", "\u212b", "\u1100\u1161\u11a8", "a\u0323\u0307"]
F64 = [0.0, -0.0, 1.0, -1.0, float("inf"), float("-inf"), 5e-324, -5e-324, 2.2250738585072014e-308,
       1.7976931348623157e308, 3.141592653589793, 0.1, 1e-310]
F32_BITS = [0, 0x80000000, 0x7f800000, 0xff800000, 1, 0x007fffff, 0x00800000, 0x7f7fffff, 0x3f800000,
            0xbf800000, 0x40490fdb, 0x3dcccccd]
ADDRS = [(1, "10.0.0.1"), (1, "255.255.255.255"), (1, "0.0.0.0"), (2, "::1"), (2, "2001:db8::1"),
         (2, "ffff:ffff:ffff:ffff:ffff:ffff:ffff:ffff"), (8, "41780009999"), (8, ""), (8, "abc"),
         # IPv6 text forms that embed a dotted quad (what inet_ntop itself prints for mapped / compatible addresses)
         (2, "::ffff:192.0.2.128"), (2, "::13.1.68.3"), (2, "64:ff9b::198.51.100.7"), (2, "::"), (1, "127.0.0.1")]


def gen_value(ty, rng, depth, rows_by_ty, boundary_idx=None):
    """A value of the type's domain in implobs conventions (plus the Python object to hand to the setter)."""
    if ty in ("TOctet", "TUntyped"):
        n = rng.choice(OCTET_LENS) if boundary_idx is None else OCTET_LENS[boundary_idx % len(OCTET_LENS)]
        b = bytes(rng.getrandbits(8) for _ in range(n))
        return b, b
    if ty == "TUtf8":
        if boundary_idx is not None:
            s = TEXTS[boundary_idx % len(TEXTS)]
        else:
            s = "".join(chr(rng.choice([rng.randrange(0, 128), rng.randrange(128, 0x800), rng.randrange(0x800, 0xd800),
                                        rng.randrange(0xe000, 0x10000), rng.randrange(0x10000, 0x110000)]))
                        for _ in range(rng.randrange(0, 12)))
        return s, s
    if ty in INT_RANGES:
        lo, hi = INT_RANGES[ty]
        cands = [lo, lo + 1, -1 if lo < 0 else 0, 0, 1, hi - 1, hi]
        n = cands[boundary_idx % len(cands)] if boundary_idx is not None else rng.randint(lo, hi)
        return n, n
    if ty == "TFloat64":
        if boundary_idx is not None:
            x = F64[boundary_idx % len(F64)]
        else:
            b = rng.getrandbits(64)
            while ((b >> 52) & 0x7ff) == 0x7ff and (b & ((1 << 52) - 1)):   # skip NaN here
                b = rng.getrandbits(64)
            s = -1.0 if b >> 63 else 1.0
            e = (b >> 52) & 0x7ff
            f = b & ((1 << 52) - 1)
            import math
            x = s * (math.inf if e == 0x7ff else (math.ldexp(f, -1074) if e == 0 else math.ldexp((1 << 52) | f, e - 1075)))
        return ("bits", O.bits64(x)), x
    if ty == "TFloat32":
        b = F32_BITS[boundary_idx % len(F32_BITS)] if boundary_idx is not None else rng.getrandbits(32)
        while ((b >> 23) & 0xff) == 0xff and (b & 0x7fffff):
            b = rng.getrandbits(32)
        return ("bits", b), O.float_of_bits32(b)
    if ty == "TTime":
        cands = [T_LO, T_LO + 1, 0, 1700000000, 2085978495, 2085978496, 2085978497, 2085974896, 2085974895,
                 2085976696, T_HI - 1, -1, 86400]
        s = cands[boundary_idx % len(cands)] if boundary_idx is not None else rng.randrange(T_LO, T_HI)
        return ("unix", s), O.dt_of(s)
    if ty == "TAddress":
        fam, text = ADDRS[boundary_idx % len(ADDRS)] if boundary_idx is not None else rng.choice(ADDRS)
        if boundary_idx is None and fam == 1:
            text = ".".join(str(rng.randrange(256)) for _ in range(4))
        return ("addr", fam, O.addr_raw(fam, text)), text
    if ty == "TGrouped":
        kids_canon, kids_obj = [], []
        for _ in range(rng.randrange(0, 4) if depth > 0 else 0):
            kty = rng.choice(list(rows_by_ty)) if depth > 1 else rng.choice([t for t in rows_by_ty if t != "TGrouped"])
            code, vendor = rng.choice(rows_by_ty[kty])
            canon, obj = gen_value(kty, rng, depth - 1, rows_by_ty)
            try:
                a = O.A.Avp.new(code, vendor, value=obj, is_mandatory=rng.choice([None, True, False]),
                                is_private=rng.choice([None, True]))
            except Exception:
                continue
            kids_obj.append(a)
            kids_canon.append((a.code, a.flags, a.vendor_id, bytes(a.payload)))
        return kids_canon, kids_obj
    raise ValueError(ty)


def out_of_domain(ty, rng):
    """(description, python object) pairs the setter must reject"""
    if ty in INT_RANGES:
        lo, hi = INT_RANGES[ty]
        # not integers at all: a fraction must not be truncated, a numeric string not be converted
        return [("below", lo - 1, ("int", lo - 1)), ("above", hi + 1, ("int", hi + 1)),
                ("a fraction", 3.7, None), ("a negative fraction", -2.5, None), ("a numeric string", "12", None)]
    if ty == "TUtf8":
        return [("lone surrogate", "a\ud800b", ("text", [97, 0xd800, 98]))]
    if ty == "TTime":
        return [("before 1968-01-20", O.dt_of(T_LO - 1), ("unix", T_LO - 1)),
                ("1960", O.dt_of(-315619200), ("unix", -315619200)),
                ("1900-01-02", O.dt_of(-2208902400), ("unix", -2208902400)),
                ("after 2104-02-26", O.dt_of(T_HI), ("unix", T_HI)),
                ("2110", O.dt_of(4417977600), ("unix", 4417977600)),
                ("2200", O.dt_of(7258118400), ("unix", 7258118400))]
    if ty == "TAddress":
        return [("bad ip", "1.2.3.999", None), ("bad ip6", "1:2:zz", None)]
    return []


def check(run):
    thorough = run.tier == "thorough"
    rng = random.Random(run.seed)
    run.rule = ("every (code,vendor) dictionary entry x type-directed boundary and random values x M/P choices through "
                "Avp.new().as_bytes(), Avp.from_bytes(), .value and re-encode, compared with the Coq model (vm_compute) and "
                "with an independent RFC 6733 reference encoder; non-trivial = distinct (entry, value, flags) triple")
    run.assumptions = ["TZ=UTC", "text<->binary address conversion (inet_pton/ntop), datetime<->seconds and "
                       "double<->IEEE bits inside struct are outside the model (observed only)"]
    run.obligations(FILES)

    A = O.A
    # registration HISTORIES: a (code, vendor) pair that has already been looked up (decoded / constructed while unknown, or
    # under an earlier definition) must follow the definition registered afterwards
    for k, (code, vendor) in enumerate([(90000011, 9999999), (90000012, 0), (90000013, 10415)]):
        flags = 0x80 if vendor else 0
        wire = O.ref_avp(code, flags, vendor, (1000 + k).to_bytes(4, "big"))
        hist = {"op": "register-history", "code": code, "vendor": vendor}
        run.count(1, [("reg-history", code, vendor)])
        before = A.Avp.from_bytes(wire)
        try:
            A.Avp.new(code, vendor, value=5)
            newed = "ok"
        except Exception as e:   # noqa
            newed = O.err_kind(e)
        if type(before) is not A.Avp or newed == "ok":
            run.violation("unknown-is-untyped", hist, type(before).__name__, "Avp", what="an unregistered code is not decoded as the untyped AVP")
        A.register(code, "Verif-History-%d" % k, A.AvpUnsigned32, vendor=vendor or None)
        after = A.Avp.from_bytes(wire)
        try:
            ok = type(after) is A.AvpUnsigned32 and after.value == 1000 + k and A.Avp.new(code, vendor, value=7).as_bytes() == \
                O.ref_avp(code, flags, vendor, (7).to_bytes(4, "big"))
            got = f"{type(after).__name__} value {after.value!r}"
        except Exception as e:   # noqa
            ok, got = False, O.err_kind(e)
        if not ok:
            run.violation("registered-definition-used", hist, got, "AvpUnsigned32 value %d" % (1000 + k),
                          what="a definition registered at run time is not used for a (code, vendor) pair that was looked up before")
        A.register(code, "Verif-History-%d" % k, A.AvpOctetString, vendor=vendor or None)
        again = A.Avp.from_bytes(wire)
        if type(again) is not A.AvpOctetString or again.value != (1000 + k).to_bytes(4, "big"):
            run.violation("registered-definition-used", dict(hist, step="re-register"), type(again).__name__, "AvpOctetString",
                          what="re-registering a (code, vendor) pair with another type is not followed by the decoder")
        # the history entries are not part of the dictionary tables the model was generated from: take them out again
        from diameter.message.avp import avp as _avpmod
        (_avpmod.AVP_VENDOR_DICTIONARY.get(vendor, {}) if vendor else _avpmod.AVP_DICTIONARY).pop(code, None)
    # run-time registrations (part of the quantifier)
    A.register(90000001, "Verif-Runtime-Text", A.AvpUtf8String, vendor=9999999, mandatory=True)
    A.register(90000002, "Verif-Runtime-Group", A.AvpGrouped, vendor=9999999)
    A.register(90000003, "Verif-Runtime-Base", A.AvpUnsigned64)
    extra = [(90000001, 9999999, "TUtf8", 2, 9999999, "Verif-Runtime-Text"),
             (90000002, 9999999, "TGrouped", 0, 9999999, "Verif-Runtime-Group"),
             (90000003, 0, "TUns64", 0, -1, "Verif-Runtime-Base")]
    extra_txt = "Definition rows := [" + "; ".join(
        f"({c}, {v}, {t}, {m}, {O.z(vf)}, {vlib.coq_string(n)})" for c, v, t, m, vf, n in extra) + "] ++ dict_rows.\n"

    rows = O.dict_rows()
    rows_by_ty = {}
    for code, vendor, tn, m, name, vf in rows:
        rows_by_ty.setdefault(tn, []).append((code, vendor))

    new_cases, new_meta = [], []
    dec_cases, dec_meta = [], []
    set_cases, set_meta = [], []
    dist = {}

    def do_new(code, vendor, tn, canon, obj, mand, priv, dflt):
        case = {"op": "new", "code": code, "vendor": vendor, "type": tn, "value": repr(canon)[:200],
                "mandatory": mand, "private": priv}
        try:
            a = A.Avp.new(code, vendor, value=obj, is_mandatory=mand, is_private=priv)
            wire = a.as_bytes()
            impl = ("ok", wire)
        except Exception as e:   # noqa
            impl = ("err", O.err_kind(e))
            a = None
        run.count(1, [("new", code, vendor, repr(canon)[:80], mand, priv)])
        dist[tn] = dist.get(tn, 0) + 1
        # oracle: RFC reference
        if impl[0] == "ok":
            eff_m = mand if mand is not None else dflt
            flags = (0x80 if vendor else 0) | (0x40 if eff_m else 0) | (0x20 if priv else 0)
            ref = O.ref_avp(code, flags, vendor, O.ref_data(tn, canon))
            if wire != ref:
                run.violation("encode-is-rfc", case, wire.hex(), ref.hex(),
                              what=f"{tn} value encodes to bytes that differ from the RFC 6733 wire form")
        else:
            run.violation("in-domain-accepted", case, impl[1], what=f"{tn} value of the domain rejected")
        exp = f"(Ok {O.hx(impl[1])})" if impl[0] == "ok" else f"(Err {O.coq_err(impl[1])})"
        new_cases.append(f"({code}, {vendor}, Some {O.coq_value(tn, canon)}, {O.coq_opt(mand, O.coq_bool)}, "
                         f"{O.coq_opt(priv, O.coq_bool)}, {exp})")
        new_meta.append(case)
        return impl[1] if impl[0] == "ok" else None

    def do_dec(wire, origin, expect=None):
        case = {"op": "decode", "wire": wire.hex()[:400], "origin": origin}
        try:
            a = A.Avp.from_bytes(wire)
        except Exception as e:   # noqa
            impl = f"(Err {O.coq_err(O.err_kind(e))})"
            run.count(1, [("dec", wire[:64])])
            if expect is not None:
                run.violation("decode-of-encoded", case, O.err_kind(e), what="bytes produced by the encoder do not decode")
            dec_cases.append(f"({O.hx(wire)}, {impl})")
            dec_meta.append(case)
            return
        tn = O.tyname_of(a)
        try:
            _, canon = O.canon_value(a)
            val = f"(Ok {O.coq_value(tn, canon)})"
        except Exception as e:   # noqa
            canon = None
            val = f"(Err {O.coq_err(O.err_kind(e))})"
            if O.err_kind(e) != "AvpDecodeError":
                run.violation("value-raises-only-decode-error", case, O.err_kind(e))
        try:
            re = a.as_bytes()
            reenc = f"(Ok {O.hx(re)})"
        except Exception as e:   # noqa
            re = None
            reenc = f"(Err {O.coq_err(O.err_kind(e))})"
        run.count(1, [("dec", wire[:64])])
        if expect is not None:
            code, vendor, tn0, canon0, flags0 = expect
            if (a.code, a.vendor_id, a.flags) != (code, vendor, flags0) or tn != tn0:
                run.violation("decode-fields", case, [a.code, a.vendor_id, a.flags, tn], [code, vendor, flags0, tn0],
                              what="decoded AVP differs in code/vendor/flags/type from what was encoded")
            elif canon != canon0:
                run.violation("decode-value", case, repr(canon)[:300], repr(canon0)[:300],
                              what=f"{tn0} value does not survive encode/decode")
            if re != wire:
                run.violation("re-encode", case, None if re is None else re.hex()[:400], wire.hex()[:400])
        impl = (f"(Ok ({tn}, {O.coq_avp(a.code, a.flags, a.vendor_id, bytes(a.payload))}, {val}, {reenc}))")
        dec_cases.append(f"({O.hx(wire)}, {impl})")
        dec_meta.append(case)

    # -- every dictionary entry -----------------------------------------
    all_entries = [(c, v, t, m) for c, v, t, m, _, _ in rows] + [(c, v, t, {0: None, 1: False, 2: True}[m]) for c, v, t, m, _, _ in extra]
    per_entry = 3 if thorough else 1
    mp = [(None, None), (True, None), (False, None), (None, True), (True, True), (False, False), (True, False), (None, False),
          (False, True)]
    for idx, (code, vendor, tn, dflt) in enumerate(all_entries):
        for j in range(per_entry):
            bidx = (idx + j) if (j % 2 == 0) else None
            depth = rng.choice([1, 2, 3, 6]) if tn == "TGrouped" else 0
            canon, obj = gen_value(tn, rng, depth, rows_by_ty, bidx)
            mand, priv = mp[(idx + j) % len(mp)]
            wire = do_new(code, vendor, tn, canon, obj, mand, priv, dflt)
            if wire is not None:
                eff_m = mand if mand is not None else dflt
                flags = (0x80 if vendor else 0) | (0x40 if eff_m else 0) | (0x20 if priv else 0)
                do_dec(wire, "encoded", (code, vendor, tn, canon, flags))
    # -- per type: all boundary values on one representative entry --------
    for tn, ents in sorted(rows_by_ty.items()):
        code, vendor = ents[0]
        dflt = next(m for c, v, t, m, _, _ in rows if (c, v) == (code, vendor))
        nb = {"TOctet": len(OCTET_LENS), "TUntyped": len(OCTET_LENS), "TUtf8": len(TEXTS), "TFloat64": len(F64),
              "TFloat32": len(F32_BITS), "TTime": 13, "TAddress": len(ADDRS), "TGrouped": 6}.get(tn, 7)
        for b in range(nb):
            canon, obj = gen_value(tn, rng, 3, rows_by_ty, b)
            wire = do_new(code, vendor, tn, canon, obj, None, None, dflt)
            if wire is not None:
                flags = (0x80 if vendor else 0) | (0x40 if dflt else 0)
                do_dec(wire, "encoded", (code, vendor, tn, canon, flags))
        # out-of-domain values: direct setter on the typed class
        for desc, obj, canon in out_of_domain(tn, rng):
            av = O.CLS[tn](code, vendor)
            case = {"op": "set", "type": tn, "value": desc}
            try:
                av.value = obj
                got = ("ok", bytes(av.payload))
            except Exception as e:   # noqa
                got = ("err", O.err_kind(e))
            run.count(1, [("set", tn, desc)])
            if got[0] == "ok":
                run.violation("out-of-domain-rejected", case, got[1].hex(),
                              what=f"{tn} setter accepts an out-of-domain value ({desc}) and wraps/truncates it")
            if canon is not None:
                cv = {"int": lambda x: f"(VInt {O.z(x)})", "text": lambda x: f"(VText {O.zl(x)})",
                      "unix": lambda x: f"(VTime {O.z(x)})"}[canon[0]](canon[1])
                exp = f"(Ok {O.hx(got[1])})" if got[0] == "ok" else f"(Err {O.coq_err(got[1])})"
                set_cases.append(f"({tn}, {cv}, {exp})")
                set_meta.append(case)
    # -- hand-made wire inputs ---------------------------------------------
    wires = []
    for tn, ents in sorted(rows_by_ty.items()):
        code, vendor = ents[len(ents) // 2]
        for plen in (0, 1, 2, 3, 4, 5, 7, 8, 9, 12, 16, 18):
            data = bytes(rng.getrandbits(8) for _ in range(plen))
            for fl in (0x00, 0x40, 0x20, 0x60):
                f = fl | (0x80 if vendor else 0)
                wires.append(O.ref_avp(code, f, vendor, data))
    wires += [O.ref_avp(99999999, 0x40, 0, b"abc"), O.ref_avp(1, 0x80, 424242, b"x"),       # unknown code / vendor
              bytes.fromhex("0000000180000010000000006162636400000000"),                    # V flag with vendor 0
              bytes.fromhex("000000010000000461626364"),                                    # length below header size
              bytes.fromhex("0000000100000009610000ff"),                                    # non-zero padding
              bytes.fromhex("00000001000000"), b"", bytes.fromhex("000000014000000c"),      # truncated
              O.ref_avp(90000001, 0xc0, 9999999, "hé".encode()), O.ref_avp(90000003, 0, 0, (5).to_bytes(8, "big"))]
    for w in wires:
        do_dec(w, "hand-made")
    run.extra["input_distribution"] = dict(sorted(dist.items()))
    run.sample({"new": new_meta[0], "decode": dec_meta[0]})
    run.sample({"new": new_meta[len(new_meta) // 2]})

    pre = PRE + extra_txt
    ok_new = ("Definition ok (c : Z * Z * option value * option bool * option bool * result bytes) : bool :=\n"
              "  let '(code, vendor, v, m, p, exp) := c in res_eqb bytes_eqb (obs_new rows time_k code vendor v m p) exp.\n")
    ok_dec = ("Definition ok (c : bytes * result (ty * avp * result value * result bytes)) : bool :=\n"
              "  let '(bs, exp) := c in obs_dec_eqb (obs_dec rows time_k bs) exp.\n")
    ok_set = ("Definition ok (c : ty * value * result bytes) : bool :=\n"
              "  let '(t, v, exp) := c in res_eqb bytes_eqb (obs_set time_k t v) exp.\n")
    for texts, meta, okd, tag in ((new_cases, new_meta, ok_new, "new"), (dec_cases, dec_meta, ok_dec, "dec"),
                                  (set_cases, set_meta, ok_set, "set")):
        mism, errs = vlib.eval_mismatches(run.workdir, pre, okd, texts, chunk=250, tag=tag)
        for i in mism:
            run.mismatch(f"model vs implementation ({tag})", meta[i], texts[i][-300:])
        for e in errs:
            run.mismatch("coq evaluation", {}, e)
    return run.finish(known_matcher=known)


def known(v, k):
    if k["id"] == "C01-time-wrap":
        return (v["clause"] == "out-of-domain-rejected" and v["case"].get("type") == "TTime"
                and v["case"].get("value") in ("before 1968-01-20", "1960", "1900-01-02", "after 2104-02-26", "2110"))
    return False


def replay(r):
    print("replay: re-run ./check C01 (cases are regenerated deterministically from the seed)")
    return False
