(* C17 — retransmission detection window
   Statements copied from the proof files; each is closed by `exact`. *)
From DV Require Prelude.Base Model.Ids Proofs.IdsP Model.Node Proofs.NodeA Proofs.NodeB Proofs.NodeC Proofs.NodeD Proofs.NodeG.
From Coq Require String List Lia Bool Arith ZArith.

Module FromNodeB.
Import DV.Prelude.Base DV.Model.Node DV.Proofs.NodeB.
Import Coq.Strings.String.

(* C17: bounded_append keeps the last k elements of l ++ [x] *)
Theorem bounded_append_spec k l x :
  bounded_append k l x = List.skipn (List.length (l ++ [x]) - k) (l ++ [x])
  /\ (List.length (bounded_append k l x) <= k)%nat
  /\ List.length (bounded_append k l x) = Nat.min k (S (List.length l))
  /\ (exists dropped, (l ++ [x])%list = (dropped ++ bounded_append k l x)%list)
  /\ ((List.length l < k)%nat -> bounded_append k l x = (l ++ [x])%list).
Proof. exact (@NodeB.bounded_append_spec k l x). Qed.

(* C17: recording an answer changes only the origin's window, to bounded_append of the old one *)
Theorem C17_window k sa o e :
  sa_get (sa_append k sa o e) o = bounded_append k (sa_get sa o) e
  /\ forall o', o' <> o -> sa_get (sa_append k sa o e) o' = sa_get sa o'.
Proof. exact (@NodeB.C17_window k sa o e). Qed.

(* C17: under distinct origins, membership in the table is membership in the origin's window *)
Theorem C17_sa_mem_get sa o e :
  List.NoDup (List.map fst sa) -> (sa_mem sa o e = true <-> List.In e (sa_get sa o)).
Proof. exact (@NodeB.C17_sa_mem_get sa o e). Qed.

(* C17: recording an answer keeps the origins of the table distinct *)
Theorem C17_sa_nodup k sa o e :
  List.NoDup (List.map fst sa) -> List.NoDup (List.map fst (sa_append k sa o e)).
Proof. exact (@NodeB.C17_sa_nodup k sa o e). Qed.

(* C17: a request that passes validation is rejected as a duplicate (5012, nothing delivered) when it
   carries the T flag and its end-to-end id is in its origin's window; otherwise the node does exactly
   what it does for the same request without the T flag (same next state, same outputs up to the flag
   of the message handed to the application): the T flag alone never causes a rejection *)
Theorem C17_dup_iff n cid m o :
  m_req m = true -> m_origin m = Present o ->
  g_validate (n_cfg n) = false \/ m_missing m = [] ->
  (m_t m = true /\ sa_mem (n_sent_answers n) o (m_e2e m) = true ->
     snd (receive_message n cid m) = [OQueue cid (answer_of m (Some 5012) [])]
     /\ forall i m', ~ List.In (ODeliver i m') (snd (receive_message n cid m)))
  /\ (m_t m = false \/ sa_mem (n_sent_answers n) o (m_e2e m) = false ->
     receive_message n cid (clear_t m) =
       (fst (receive_message n cid m), List.map out_clear_t (snd (receive_message n cid m)))).
Proof. exact (@NodeB.C17_dup_iff n cid m o). Qed.

(* (was, before the origin table was keyed by connection:  Theorem C17_record n hbh e2e, with
   ow_get ... hbh e2e, record_answer n hbh e2e and entries (hbh, e2e, o')) *)
Theorem C17_record n cid hbh e2e :
  (forall o, ow_get (n_origin_waiting n) cid hbh e2e = Some o ->
     let n' := record_answer n cid hbh e2e in
     sa_get (n_sent_answers n') o = bounded_append (g_rsize (n_cfg n)) (sa_get (n_sent_answers n) o) e2e
     /\ (forall o', o' <> o -> sa_get (n_sent_answers n') o' = sa_get (n_sent_answers n) o')
     /\ ow_get (n_origin_waiting n') cid hbh e2e = None
     /\ (forall o', ~ List.In (cid, hbh, e2e, o') (n_origin_waiting n'))
     /\ (forall c h e, same_key cid hbh e2e c h e = false ->
           ow_get (n_origin_waiting n') c h e = ow_get (n_origin_waiting n) c h e)
     /\ n_cfg n' = n_cfg n /\ n_conns n' = n_conns n /\ n_peers n' = n_peers n /\ n_apps n' = n_apps n
     /\ n_app_waiting n' = n_app_waiting n /\ n_peer_waiting n' = n_peer_waiting n)
  /\ (ow_get (n_origin_waiting n) cid hbh e2e = None -> record_answer n cid hbh e2e = n).
Proof. exact (@NodeB.C17_record n cid hbh e2e). Qed.

(* C17: in particular the records of OTHER connections carrying the same (hop-by-hop, end-to-end) pair
   survive the answer (hop-by-hop identifiers are unique per connection only) *)
Theorem C17_record_other_conn n cid hbh e2e o c :
  ow_get (n_origin_waiting n) cid hbh e2e = Some o -> c <> cid ->
  ow_get (n_origin_waiting (record_answer n cid hbh e2e)) c hbh e2e = ow_get (n_origin_waiting n) c hbh e2e.
Proof. exact (@NodeB.C17_record_other_conn n cid hbh e2e o c). Qed.
End FromNodeB.

Module FromNodeG.
Import DV.Prelude.Base DV.Model.Node DV.Proofs.NodeB DV.Proofs.NodeC DV.Proofs.NodeD DV.Proofs.NodeG.
Import Coq.Strings.String.

(* C17: from empty tables, the pending table of the ghost is n_origin_waiting and every origin's window is the last g_rsize answers attributed to it *)
Theorem C17_history_window_gen n0 evs :
  n_origin_waiting n0 = [] -> n_sent_answers n0 = [] ->
  pending n0 evs = n_origin_waiting (fst (run n0 evs))
  /\ forall o, sa_get (n_sent_answers (fst (run n0 evs))) o = lastn (g_rsize (n_cfg n0)) (answered n0 evs o).
Proof. exact (@NodeG.C17_history_window_gen n0 evs). Qed.

(* C17: in every run from a well-formed initial node, the window the node holds for an origin host is the last g_rsize end-to-end identifiers of the answers queued for received requests of that origin *)
Theorem C17_history_window n0 evs o :
  wf_init n0 ->
  sa_get (n_sent_answers (fst (run n0 evs))) o = lastn (g_rsize (n_cfg n0)) (answered n0 evs o).
Proof. exact (@NodeG.C17_history_window n0 evs o). Qed.

(* C17: the requests the ghost holds as received and not yet answered are exactly the node's n_origin_waiting *)
Theorem C17_history_pending n0 evs :
  wf_init n0 -> pending n0 evs = n_origin_waiting (fst (run n0 evs)).
Proof. exact (@NodeG.C17_history_pending n0 evs). Qed.

(* C17: a T-flagged, well-formed request read from a ready connection whose end-to-end identifier is among the last g_rsize answers attributed to its origin host is answered 5012 on its connection and delivered to no application; everything else in the step is the I/O thread's own output *)
Theorem C17_history_duplicate_rejected n0 evs ds cid c0 c m o :
  wf_init n0 ->
  let n := fst (run n0 evs) in
  let rs := read_state n ds cid in
  get_conn n cid = Some c0 -> get_conn rs cid = Some c -> is_ready_state (c_state c) = true ->
  m_req m = true -> m_t m = true -> m_origin m = Present o ->
  g_validate (n_cfg n0) = false \/ m_missing m = [] ->
  List.In (m_e2e m) (lastn (g_rsize (n_cfg n0)) (answered n0 evs o)) ->
  exists pre post,
    snd (step n ds (ERecv cid [m])) = (pre ++ [OQueue cid (answer_of m (Some RC_UNABLE) [])] ++ post)%list
    /\ List.Forall (sysout (pmap n)) pre /\ List.Forall (sysout (pmap n)) post
    /\ forall i m', ~ List.In (ODeliver i m') (snd (step n ds (ERecv cid [m]))).
Proof. exact (@NodeG.C17_history_duplicate_rejected n0 evs ds cid c0 c m o). Qed.

(* C17: an application request read from a ready connection that does not carry the T flag, or whose end-to-end identifier is not among the last g_rsize answers attributed to its origin host, is never rejected as a duplicate: the routing function decides as it does for the same request without the flag, and the step outputs exactly what that decision prescribes (C08) *)
Theorem C17_history_no_false_duplicate n0 evs ds cid c0 c m o k :
  wf_init n0 ->
  let n := fst (run n0 evs) in
  let rs := read_state n ds cid in
  get_conn n cid = Some c0 -> get_conn rs cid = Some c -> is_ready_state (c_state c) = true ->
  m_req m = true -> m_cmd m = App k -> m_origin m = Present o ->
  m_t m = false \/ ~ List.In (m_e2e m) (lastn (g_rsize (n_cfg n0)) (answered n0 evs o)) ->
  spec_route rs c m = spec_route rs c (clear_t m)
  /\ exists pre post,
       snd (step n ds (ERecv cid [m])) = (pre ++ route_outputs cid m (spec_route rs c (clear_t m)) ++ post)%list
       /\ List.Forall (sysout (pmap n)) pre /\ List.Forall (sysout (pmap n)) post.
Proof. exact (@NodeG.C17_history_no_false_duplicate n0 evs ds cid c0 c m o k). Qed.

(* C17: for every kind of request (base protocol included) read from a ready connection: when it is well-formed and not a duplicate in the above sense, the T flag changes nothing: same next state, same outputs up to the flag of the message handed on *)
Theorem C17_history_flag_irrelevant n0 evs ds cid c0 c m o :
  wf_init n0 ->
  let n := fst (run n0 evs) in
  let rs := read_state n ds cid in
  get_conn n cid = Some c0 -> get_conn rs cid = Some c -> is_ready_state (c_state c) = true ->
  m_req m = true -> m_origin m = Present o ->
  g_validate (n_cfg n0) = false \/ m_missing m = [] ->
  m_t m = false \/ ~ List.In (m_e2e m) (lastn (g_rsize (n_cfg n0)) (answered n0 evs o)) ->
  step n ds (ERecv cid [clear_t m])
  = (fst (step n ds (ERecv cid [m])), List.map out_clear_t (snd (step n ds (ERecv cid [m])))).
Proof. exact (@NodeG.C17_history_flag_irrelevant n0 evs ds cid c0 c m o). Qed.

(* C17: every end-to-end identifier in an origin's history is that of an answer the node queued in some step of the trace *)
Theorem answered_from_trace n0 evs o e :
  List.In e (answered n0 evs o) ->
  exists ev outs cid a, List.In (ev, outs) (trace n0 evs) /\ List.In (OQueue cid a) outs
                        /\ o_req a = false /\ o_e2e a = e.
Proof. exact (@NodeG.answered_from_trace n0 evs o e). Qed.
End FromNodeG.

Print Assumptions FromNodeB.bounded_append_spec.
Print Assumptions FromNodeB.C17_window.
Print Assumptions FromNodeB.C17_sa_mem_get.
Print Assumptions FromNodeB.C17_sa_nodup.
Print Assumptions FromNodeB.C17_dup_iff.
Print Assumptions FromNodeB.C17_record.
Print Assumptions FromNodeB.C17_record_other_conn.
Print Assumptions FromNodeG.C17_history_window_gen.
Print Assumptions FromNodeG.C17_history_window.
Print Assumptions FromNodeG.C17_history_pending.
Print Assumptions FromNodeG.C17_history_duplicate_rejected.
Print Assumptions FromNodeG.C17_history_no_false_duplicate.
Print Assumptions FromNodeG.C17_history_flag_irrelevant.
Print Assumptions FromNodeG.answered_from_trace.
