"""Deterministic line-granular interleaving of real Python code.

Each task runs in a real OS thread, but only the thread holding the baton
runs.  A trace function yields the baton before every source line of the
selected code objects; `chooser(runnable, history)` decides who runs next.
Locks used by the code under test must be VLock instances (see
`virtualize_locks`) so that a blocked thread is simply not offered to the
chooser.
"""
from __future__ import annotations

import sys
import threading
import _thread


class Abort(BaseException):
    pass


class VLock:
    """Drop-in for threading.Lock under the scheduler."""
    def __init__(self, sched):
        self._sched = sched
        self.owner = None

    def acquire(self, blocking=True, timeout=-1):
        t = self._sched.current
        while self.owner is not None:
            if not blocking:
                return False
            if timeout is not None and timeout >= 0:
                # a bounded wait: the scheduler may run this task although the lock is still held, which means that the
                # wait has timed out (how long the holder keeps the lock is up to the schedule)
                t.timed = True
                self._sched._block(t, self)
                t.timed = False
                if self.owner is not None:
                    self._sched.events.append((t.name, "<timeout>", 0))
                    return False
            else:
                self._sched._block(t, self)
        self.owner = t
        self._sched.events.append((t.name, "<acq>", 0))
        return True

    def release(self):
        if self.owner is not None:
            self._sched.events.append((self.owner.name, "<rel>", 0))
        self.owner = None

    def locked(self):
        return self.owner is not None

    __enter__ = acquire

    def __exit__(self, *a):
        self.release()


class _Task:
    def __init__(self, name, fn):
        self.name = name
        self.fn = fn
        self.sem = threading.Semaphore(0)
        self.done = False
        self.result = None
        self.exc = None
        self.blocked_on = None
        self.thread = None
        self.lines = 0


class LineSched:
    def __init__(self, codes, chooser, line_budget=100000):
        """codes: set of code objects whose lines are pre-emption points."""
        self.codes = set(codes)
        self.chooser = chooser
        self.tasks = []
        self.current = None
        self.main_sem = threading.Semaphore(0)
        self.events = []     # (task name, code name, lineno)
        self.line_budget = line_budget
        self.abort = False
        self.deadlock = False
        self.stuck = None
        self.watchdog = 10.0

    def add(self, name, fn):
        self.tasks.append(_Task(name, fn))

    # -- called inside task threads ------------------------------------
    def _trace(self, frame, event, arg):
        if frame.f_code in self.codes:
            return self._local
        return None

    def _local(self, frame, event, arg):
        if event == "line":
            t = self.current
            t.lines += 1
            if t.lines > self.line_budget:
                raise Abort("line budget")
            t.pending = (frame.f_code.co_name, frame.f_lineno)
            self._yield(t)
            self.events.append((t.name, frame.f_code.co_name, frame.f_lineno))
        return self._local

    def _yield(self, t):
        self.main_sem.release()
        t.sem.acquire()
        if self.abort:
            raise Abort()

    def _block(self, t, lock):
        t.blocked_on = lock
        self._yield(t)
        t.blocked_on = None

    def _run_task(self, t):
        t.sem.acquire()
        try:
            if self.abort:
                raise Abort()
            sys.settrace(self._trace)
            try:
                t.result = t.fn()
            finally:
                sys.settrace(None)
        except Abort:
            t.exc = "Abort"
        except BaseException as e:   # noqa
            t.exc = e
        t.done = True
        self.main_sem.release()

    # -- driver ---------------------------------------------------------
    def run(self):
        for t in self.tasks:
            t.pending = None
            t.thread = threading.Thread(target=self._run_task, args=(t,), daemon=True)
            t.thread.start()
        history = []
        while True:
            runnable = [t for t in self.tasks if not t.done
                        and (t.blocked_on is None or t.blocked_on.owner is None or getattr(t, "timed", False))]
            if not runnable:
                if any(not t.done for t in self.tasks):
                    self.deadlock = True
                    self.abort = True
                    for t in self.tasks:
                        if not t.done:
                            t.sem.release()
                            self.main_sem.acquire()
                break
            name = self.chooser([t.name for t in runnable], history)
            t = next(x for x in runnable if x.name == name)
            history.append(name)
            self.current = t
            t.sem.release()
            if not self.main_sem.acquire(timeout=self.watchdog):
                # the running task neither yielded nor finished: it is blocked on something the scheduler does not know
                # (a real lock created behind its back, real I/O).  Give up on this schedule instead of hanging.
                self.stuck = f"task {t.name} did not yield within {self.watchdog}s (blocked outside the scheduler)"
                self.abort = True
                break
        if self.stuck:
            self.deadlock = True
            for t in self.tasks:      # let parked tasks unwind; the stuck one is a daemon thread and is abandoned
                if not t.done and t is not self.current:
                    t.sem.release()
            return history
        for t in self.tasks:
            t.thread.join(5)
        return history


class ThreadingShim:
    """stands in for the `threading` module inside the code under test: locks created while the schedule runs (lazily,
    per call...) are virtual as well; everything else is the real module"""
    def __init__(self, sched):
        self._sched = sched

    def Lock(self):
        return VLock(self._sched)

    RLock = Lock

    def __getattr__(self, name):
        return getattr(threading, name)


def virtualize_locks(obj, sched):
    """Replace every threading.Lock attribute of obj by a VLock."""
    lock_type = type(_thread.allocate_lock())
    n = 0
    for k, v in list(vars(obj).items()):
        if isinstance(v, lock_type):
            setattr(obj, k, VLock(sched))
            n += 1
    return n


def explore(make, max_preempt, max_schedules=None, rng=None):
    """Enumerate schedules with at most `max_preempt` pre-emptions (a switch
    away from a task that could have continued).  `make(chooser)` must build a
    fresh LineSched + tasks and return (sched, finish) where finish() returns
    the observation.  Yields (history, observation)."""
    # depth-first over decision prefixes
    stack = [[]]
    seen = 0
    while stack:
        prefix = stack.pop()
        decisions = []   # (runnable, chosen, preemptions so far)

        def chooser(runnable, history, prefix=prefix, decisions=decisions):
            i = len(decisions)
            prev = history[-1] if history else None
            pre = decisions[-1][2] if decisions else 0
            if i < len(prefix):
                choice = prefix[i]
                if choice not in runnable:
                    choice = runnable[0]
            else:
                choice = prev if prev in runnable else runnable[0]
            p = pre + (1 if (prev in runnable and choice != prev) else 0)
            decisions.append((list(runnable), choice, p))
            return choice

        sched, finish = make(chooser)
        hist = sched.run()
        obs = finish()
        seen += 1
        yield hist, obs
        if max_schedules is not None and seen >= max_schedules:
            return
        # branch: at every decision point beyond the prefix, try the alternatives
        for i in range(len(prefix), len(decisions)):
            runnable, chosen, p = decisions[i]
            prev = decisions[i - 1][1] if i > 0 else None
            pre_before = decisions[i - 1][2] if i > 0 else 0
            for alt in runnable:
                if alt == chosen:
                    continue
                cost = pre_before + (1 if (prev in runnable and alt != prev) else 0)
                if cost > max_preempt:
                    continue
                stack.append([d[1] for d in decisions[:i]] + [alt])
