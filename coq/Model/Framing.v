(* Model of PeerConnection.work_read_queue (node/peer.py): the stream reassembly loop (C05).
   `decodable frame` abstracts "Message.from_bytes(frame) does not raise"; the message handler
   is assumed not to raise (it runs outside the reader's try; see C14_reader_survives). *)
From DV Require Import Prelude.Base Model.Wire.

Inductive rstatus : Set :=
| Waiting     (* waiting for more bytes *)
| Closed      (* the reader closed the connection and returned *)
| Spin.       (* model-only: the loop ran out of fuel, i.e. did not make progress *)

Definition rstatus_eqb (a b : rstatus) : bool :=
  match a, b with Waiting, Waiting | Closed, Closed | Spin, Spin => true | _, _ => false end.

Section Framing.
Variable decodable : bytes -> bool.

(* does Message.from_bytes(buf[:L]) succeed: needs a parsable 20-byte header at least *)
Definition frame_ok (buf : bytes) (L : Z) : bool := (20 <=? L) && decodable (btake buf L).

(* `if 0 < len(self._read_buffer) < 20: resume_waiting = True` *)
Definition partial_header (buf : bytes) : bool := (0 <? blen buf) && (blen buf <? 20).

(* the inner `while len(self._read_buffer) > 0 and resume_waiting is False` loop, as repaired:
   an undecodable frame is discarded only if its length field covers at least a header, and the
   partial-header check also runs after a discard *)
Fixpoint rloop (fuel : nat) (buf : bytes) (acc : list bytes) : bytes * list bytes * rstatus :=
  match fuel with
  | O => (buf, acc, Spin)
  | S f =>
      if blen buf =? 0 then (buf, acc, Waiting)
      else match dec_hdr buf with
           | Err _ => (buf, acc, Closed)
           | Ok (h, _) =>
               let L := h_length h in
               if blen buf <? L then (buf, acc, Waiting)
               else if frame_ok buf L then
                      let buf' := bdrop buf L in
                      let acc' := acc ++ [btake buf L] in
                      if partial_header buf' then (buf', acc', Waiting) else rloop f buf' acc'
                    else if 20 <=? L then
                      let buf' := bdrop buf L in
                      if partial_header buf' then (buf', acc, Waiting) else rloop f buf' acc
                    else (buf, acc, Closed)
           end
  end.

(* the loop as it was before the repair: any L <= len(buffer) is discarded (L = 0 included),
   and the discard path skips the partial-header check *)
Fixpoint rloop_old (fuel : nat) (buf : bytes) (acc : list bytes) : bytes * list bytes * rstatus :=
  match fuel with
  | O => (buf, acc, Spin)
  | S f =>
      if blen buf =? 0 then (buf, acc, Waiting)
      else match dec_hdr buf with
           | Err _ => (buf, acc, Closed)
           | Ok (h, _) =>
               let L := h_length h in
               if blen buf <? L then (buf, acc, Waiting)
               else if frame_ok buf L then
                      let buf' := bdrop buf L in
                      let acc' := acc ++ [btake buf L] in
                      if partial_header buf' then (buf', acc', Waiting) else rloop_old f buf' acc'
                    else rloop_old f (bdrop buf L) acc
           end
  end.

Record reader : Type := { r_buf : bytes; r_closed : bool; r_delivered : list bytes; r_spin : bool }.
Definition reader0 : reader := {| r_buf := []; r_closed := false; r_delivered := []; r_spin := false |}.

(* one network read handed to the reader thread *)
Definition feed_with (lp : nat -> bytes -> list bytes -> bytes * list bytes * rstatus)
           (r : reader) (chunk : bytes) : reader :=
  if r_closed r || r_spin r then r            (* the reader thread has returned / is stuck *)
  else
    let buf := r_buf r ++ chunk in
    if blen buf <? 20 then {| r_buf := buf; r_closed := false; r_delivered := r_delivered r; r_spin := false |}
    else
      let '(buf', acc, st) := lp (S (List.length buf)) buf (r_delivered r) in
      {| r_buf := buf'; r_closed := rstatus_eqb st Closed; r_delivered := acc; r_spin := rstatus_eqb st Spin |}.

Definition feed := feed_with rloop.
Definition feed_old := feed_with rloop_old.
Definition feed_all (r : reader) (chunks : list bytes) : reader := fold_left feed chunks r.
Definition feed_all_old (r : reader) (chunks : list bytes) : reader := fold_left feed_old chunks r.
End Framing.
