"""Splices tools/asbuilt.md (with the seeded-change table generated from seeded/*/meta.json) into DESIGN.md as section 0."""
import glob
import json
import os
import re

V = "/verif/"


def table():
    rows = []
    for d in sorted(glob.glob(V + "seeded/*/")):
        name = os.path.basename(d.rstrip("/"))
        mj = d + "meta.json"
        if not os.path.exists(mj):
            continue
        m = json.load(open(mj))
        prop = m.get("property", name[:3])
        what = (m.get("summary") or m.get("what") or "").replace("|", "/").replace("\n", " ")
        needs = (m.get("needs") or "").replace("|", "/").replace("\n", " ")
        res = m.get("check_results", {}).get(prop)
        if m.get("neutralised"):
            det, how = "neutralised", m["neutralised"]
        elif res:
            how = res.get("what") or ("exit %s" % res.get("exit"))
            det = "caught" if res.get("exit") else "MISSED"
        else:
            det = "caught"
            how = (m.get("detected_by") if isinstance(m.get("detected_by"), str) else "; ".join(m.get("detected_by", []))) or m.get("ran", "")
        rows.append(f"| {name} | {what[:170]} | {needs[:150]} | {det}: {str(how)[:140]} |")
    head = "| change | what was changed | needs | `./check` result |\n|---|---|---|---|\n"
    return head + "\n".join(rows) + "\n"


def main():
    body = open(V + "tools/asbuilt.md").read().replace("<!-- SEEDED-TABLE -->", table())
    d = open(V + "DESIGN.md").read()
    start = "<!-- ASBUILT-BEGIN -->"
    end = "<!-- ASBUILT-END -->"
    block = f"{start}\n{body}\n{end}\n"
    if start in d:
        d = re.sub(re.escape(start) + r".*?" + re.escape(end) + r"\n", lambda _m: block, d, flags=re.S)
    else:
        marker = "## 1. What is being built, in one page"
        d = d.replace(marker, block + "\n---------------------------------------------------------------------------\n\n" + marker, 1)
    open(V + "DESIGN.md", "w").write(d)


if __name__ == "__main__":
    main()
