"""vsim core: baton scheduler, virtual clock, Sim object.

Only the thread that holds the "baton" executes.  Every virtual thread is
backed by a real OS thread which sleeps on a private gate (a raw lock) until
the scheduler hands it the baton.  The driver (the thread that created the
Sim) owns the baton whenever no virtual thread runs.

No wall-clock time and no real randomness is used for any decision.  The only
real-time element is a watchdog that turns a scheduler hang into HarnessStuck.
"""
from __future__ import annotations

import _thread
import logging
import random as _real_random
import sys
import threading as _rt
import traceback

__all__ = ["Sim", "SpinDetected", "HarnessError", "HarnessStuck",
           "scripted_chooser"]


class HarnessError(Exception):
    """Misuse of the harness or an internal scheduler error."""


class HarnessStuck(HarnessError):
    """A virtual thread kept the baton for longer than the real-time watchdog,
    or a run() exceeded its step limit."""


class SpinDetected(BaseException):
    """Raised inside a virtual thread that executed more than
    `sim.line_budget` traced lines without blocking."""


class _Killed(BaseException):
    """Private: unwinds a virtual thread at Sim.shutdown()."""


NEW, RUNNABLE, BLOCKED, RUNNING, DONE = "new", "runnable", "blocked", "running", "done"


def _true():
    return True


class VT:
    """Scheduler record of one virtual thread."""
    __slots__ = ("sim", "thread", "name", "role", "index", "state", "pred",
                 "deadline", "seq", "gate", "backing", "lines", "trace_epoch",
                 "tracer", "where", "spawned", "blocked_in")

    def __init__(self, sim, thread, name, role):
        self.sim = sim
        self.thread = thread
        self.name = name
        self.role = role
        self.index = -1
        self.state = NEW
        self.pred = None
        self.deadline = None
        self.seq = 0
        self.gate = None
        self.backing = None
        self.lines = 0
        self.trace_epoch = 0
        self.tracer = None
        self.where = None
        self.spawned = False
        self.blocked_in = None

    def __repr__(self):
        return f"<VT {self.name} {self.state}>"


class SpawnHandle:
    """Result holder of `Sim.spawn`."""

    def __init__(self, name):
        self.name = name
        self.done = False
        self.result = None
        self.exception = None
        self.thread = None

    def __repr__(self):
        return (f"<SpawnHandle {self.name} done={self.done} "
                f"result={self.result!r} exception={self.exception!r}>")


class scripted_chooser:
    """A chooser for `Sim.line_mode` that replays a list of thread names.

    Each call consumes one entry.  If the entry is not runnable (or the script
    is exhausted) the first runnable name is used instead and the deviation is
    recorded in `.deviations` (unless strict=True, which raises HarnessError).
    `.choices` records every decision actually taken.
    """

    def __init__(self, script, strict=False):
        self.script = list(script)
        self.pos = 0
        self.strict = strict
        self.choices = []
        self.deviations = []

    def __call__(self, runnable):
        want = None
        if self.pos < len(self.script):
            want = self.script[self.pos]
            self.pos += 1
        if want in runnable:
            pick = want
        else:
            if self.strict:
                raise HarnessError(
                    f"scripted_chooser: wanted {want!r}, runnable {runnable}")
            pick = runnable[0]
            self.deviations.append((len(self.choices), want, list(runnable)))
        self.choices.append(pick)
        return pick


class _LogCapture(logging.Handler):
    def __init__(self, sim, level):
        super().__init__(level)
        self.sim = sim

    def emit(self, record):
        sim = self.sim
        try:
            msg = record.getMessage()
        except Exception as e:  # pragma: no cover
            msg = f"<unformattable log record: {e}>"
        vt = sim._by_ident.get(_thread.get_ident())
        sim.logs.append((sim.now - sim.t0, vt.name if vt else "driver",
                         record.name, record.levelname, msg))


class Sim:
    """One deterministic simulation universe.  See README.md."""

    def __init__(self, seed=0, policy="fifo", t0=1_700_000_000,
                 watchdog=20.0, max_steps=1_000_000, log_level=None,
                 local_ip="10.0.0.1", record_schedule=True, fd_reuse=False):
        if policy not in ("fifo", "lifo", "seeded"):
            raise ValueError("policy must be 'fifo', 'lifo' or 'seeded'")
        self.seed = seed
        self.policy = policy
        self.t0 = t0
        self.now = float(t0)
        self.watchdog = watchdog
        self.max_steps = max_steps
        self.local_ip = local_ip
        self.record_schedule = record_schedule

        # observations
        self.thread_deaths = []      # (name, exc type name, message)
        self.thread_death_tracebacks = {}
        self.thread_exits = []       # names, in order of termination
        self.spins = []              # (name, message)
        self.anomalies = []          # (rel time, kind, detail)
        self.schedule = []           # thread name per scheduling decision
        self.trace = []              # (rel time, kind, ...) harness events
        self.logs = []               # (rel time, thread, logger, level, msg)
        self.connect_calls = []      # (time, addr, outcome)
        self.remotes = []
        self.inbound = []
        self.outbound = []
        self.listeners = []
        self.sockets = []            # every VSocket ever created
        self.spawned = []            # SpawnHandle list

        # scheduler state
        self._all = []               # every registered VT
        self._live = []              # registered, not DONE
        self._by_ident = {}
        self._seq = 0
        self._steps = 0
        self._step_mode = False
        self._sched_error = None
        self._killed = False
        self._shut = False
        self._broken = None
        self._driver_gate = _thread.allocate_lock()
        self._driver_gate.acquire()
        self._driver_ident = _thread.get_ident()
        self._current = None
        self._names = {}
        self._name_used = set()
        self._sched_rng = _real_random.Random(f"{seed}/sched")

        # tracing
        self._line_budget = None
        self._lm_selectors = None
        self._chooser = None
        self._chooser_always = False
        self._trace_epoch = 0
        self._code_modes = {}

        # virtual world
        from . import net, vmods, loader
        self.fd_reuse = fd_reuse
        self._fd_base = 100
        self._next_fd = 100
        self._open_fds = set()
        self._next_eport = 50000
        self.pipes = {}              # fd -> VPipe
        self._connect_script = []
        self._random_script = []
        self._urandom_script = []
        self._rng = _real_random.Random(f"{seed}/random")
        self._urng = _real_random.Random(f"{seed}/urandom")
        self._net = net
        self.vmodules = vmods.build(self)
        self.Thread = self.vmodules["threading"].Thread
        mods = loader.load_node_package(self.vmodules)
        self.node_pkg = mods["diameter.node"]
        self.node_mod = mods["diameter.node.node"]
        self.peer_mod = mods["diameter.node.peer"]
        self.app_mod = mods["diameter.node.application"]
        self.helpers_mod = mods["diameter.node._helpers"]
        self._node_dir = loader.node_dir()

        self._log_handler = None
        if log_level is not None:
            self._log_handler = _LogCapture(self, log_level)
            lg = logging.getLogger("diameter")
            self._log_saved = (lg.level, lg.propagate)
            lg.addHandler(self._log_handler)
            lg.setLevel(log_level)
            lg.propagate = False
        else:
            # keep the node's warnings (and exc_info tracebacks) off stderr
            lg = logging.getLogger("diameter")
            if not lg.handlers:
                lg.addHandler(logging.NullHandler())

    # ------------------------------------------------------------------ misc
    def __enter__(self):
        return self

    def __exit__(self, *exc):
        self.shutdown()
        return False

    @property
    def rel_now(self):
        """Virtual time relative to t0."""
        return self.now - self.t0

    def _note(self, kind, *detail):
        self.trace.append((self.now - self.t0, kind) + detail)

    def _anomaly(self, kind, detail):
        self.anomalies.append((self.now - self.t0, kind, detail))

    def _cur(self):
        return self._by_ident.get(_thread.get_ident())

    def current_name(self):
        """Name of the calling virtual thread, or 'driver'."""
        vt = self._cur()
        return vt.name if vt else "driver"

    def _alloc_fd(self):
        if self.fd_reuse:
            fd = self._fd_base
            while fd in self._open_fds:
                fd += 1
        else:
            fd = self._next_fd
            self._next_fd += 1
        self._open_fds.add(fd)
        return fd

    def _free_fd(self, fd):
        self._open_fds.discard(fd)

    # -------------------------------------------------------- thread registry
    def _role_for(self, target, thread):
        if target is not None:
            return getattr(target, "__name__", None) or type(target).__name__
        return type(thread).__name__ + ".run"

    def _alloc_name(self, role, name=None):
        if name is not None and name not in self._name_used:
            self._name_used.add(name)
            return name
        base = name if name is not None else role
        while True:
            k = self._names.get(base, 0)
            self._names[base] = k + 1
            cand = f"{base}#{k}"
            if cand not in self._name_used:
                self._name_used.add(cand)
                return cand

    def _register(self, vt):
        """Thread.start(): the thread becomes runnable; the creator goes on."""
        if self._killed:
            if self._cur() is not None:
                raise _Killed()
            raise HarnessError("Sim is shut down")
        if vt.state != NEW:
            raise RuntimeError("threads can only be started once")
        vt.index = len(self._all)
        vt.gate = _thread.allocate_lock()
        vt.gate.acquire()
        self._seq += 1
        vt.seq = self._seq
        vt.state = RUNNABLE
        self._all.append(vt)
        self._live.append(vt)
        self._note("thread_start", vt.name)
        vt.backing = _rt.Thread(target=self._thread_main, args=(vt,),
                                name=vt.name, daemon=True)
        vt.backing.start()

    def _thread_main(self, vt):
        vt.gate.acquire()                      # wait for the first baton
        self._by_ident[_thread.get_ident()] = vt
        try:
            if self._killed:
                return
            if self._trace_epoch:
                self._install_trace(vt)
            vt.thread.run()
            self.thread_exits.append(vt.name)
            self._note("thread_exit", vt.name)
        except _Killed:
            pass
        except SpinDetected as e:
            self.spins.append((vt.name, str(e)))
            self._note("thread_spin", vt.name)
        except BaseException as e:
            self.thread_deaths.append((vt.name, type(e).__name__, str(e)))
            self.thread_death_tracebacks[vt.name] = "".join(
                traceback.format_exception(type(e), e, e.__traceback__))
            self._note("thread_death", vt.name, type(e).__name__)
            e = None
        finally:
            sys.settrace(None)
            self._finish(vt)

    def _finish(self, vt):
        vt.state = DONE
        vt.pred = None
        try:
            self._live.remove(vt)
        except ValueError:
            pass
        self._by_ident.pop(_thread.get_ident(), None)
        if self._killed:
            return
        nxt = self._pick(False)
        self._current = nxt
        if nxt is None:
            self._driver_gate.release()
        else:
            nxt.state = RUNNING
            nxt.gate.release()

    # -------------------------------------------------------------- scheduler
    def _runnable(self):
        now = self.now
        out = []
        for vt in self._live:
            s = vt.state
            if s == RUNNABLE:
                out.append(vt)
            elif s == BLOCKED:
                d = vt.deadline
                if (d is not None and d <= now) or vt.pred():
                    out.append(vt)
        return out

    def _pick(self, from_driver):
        """Choose the next thread to run, or None to give the driver the
        baton.  Never raises: errors are parked in _sched_error."""
        try:
            if self._sched_error is not None or self._killed:
                return None
            if self._step_mode and not from_driver:
                return None
            self._steps += 1
            if self._steps > self.max_steps:
                self._sched_error = HarnessStuck(
                    f"run() exceeded max_steps={self.max_steps} scheduling "
                    f"decisions without reaching quiescence")
                return None
            cands = self._runnable()
            if not cands:
                return None
            chosen = None
            ch = self._chooser
            if ch is not None and (len(cands) > 1 or self._chooser_always):
                names = [c.name for c in cands]
                name = ch(names)
                if name is not None:
                    for c in cands:
                        if c.name == name:
                            chosen = c
                            break
                    else:
                        raise HarnessError(
                            f"chooser returned {name!r}, not in {names}")
            if chosen is None:
                if len(cands) == 1:
                    chosen = cands[0]
                elif self.policy == "fifo":
                    chosen = min(cands, key=lambda c: c.seq)
                elif self.policy == "lifo":
                    chosen = max(cands, key=lambda c: c.seq)
                else:
                    chosen = self._sched_rng.choice(cands)
            if self.record_schedule:
                self.schedule.append(chosen.name)
            return chosen
        except BaseException as e:
            self._sched_error = e
            return None

    def _yield(self, vt):
        """Give up the baton; returns when this thread is scheduled again."""
        self._seq += 1
        vt.seq = self._seq
        nxt = self._pick(False)
        if nxt is vt:
            vt.state = RUNNING
            return
        self._current = nxt
        if nxt is None:
            self._driver_gate.release()
        else:
            nxt.state = RUNNING
            nxt.gate.release()
        vt.gate.acquire()
        if self._killed:
            raise _Killed()
        if vt.trace_epoch != self._trace_epoch:
            self._install_trace(vt)

    def _block(self, pred, timeout, what=None, deadline=None):
        """Block the calling virtual thread until pred() or the virtual
        deadline (relative `timeout` or absolute `deadline`).  Returns pred()
        evaluated at wake-up."""
        vt = self._cur()
        if vt is None:
            raise HarnessError(
                f"blocking operation ({what}) called from the driver thread; "
                f"use sim.spawn() for calls that can block")
        if self._killed:
            raise _Killed()
        vt.pred = pred
        if deadline is not None:
            vt.deadline = deadline
        else:
            vt.deadline = None if timeout is None else self.now + timeout
        vt.blocked_in = what
        vt.state = BLOCKED
        vt.lines = 0
        try:
            self._yield(vt)
        finally:
            vt.pred = None
            vt.deadline = None
            vt.blocked_in = None
        return pred()

    def _yield_now(self, what="yield"):
        """A voluntary yield (sleep(0)): stays runnable."""
        vt = self._cur()
        if vt is None:
            return
        if self._killed:
            raise _Killed()
        vt.state = RUNNABLE
        vt.lines = 0
        self._yield(vt)

    def _preempt(self, vt, frame):
        if self._killed:
            raise _Killed()
        vt.where = (frame.f_code.co_filename, frame.f_code.co_name,
                    frame.f_lineno)
        vt.state = RUNNABLE
        try:
            self._yield(vt)
        finally:
            vt.where = None

    # ----------------------------------------------------------- driver side
    def _check_driver(self):
        if self._broken is not None:
            raise HarnessError(f"Sim is broken: {self._broken}")
        if self._shut:
            raise HarnessError("Sim is shut down")
        if self._cur() is not None:
            raise HarnessError("run()/advance() called from a virtual thread")

    def _dispatch(self, nxt):
        self._current = nxt
        nxt.state = RUNNING
        nxt.gate.release()
        if not self._driver_gate.acquire(True, self.watchdog):
            self._stuck()
        self._current = None
        if self._sched_error is not None:
            e = self._sched_error
            self._sched_error = None
            if isinstance(e, HarnessStuck):
                self._broken = str(e)
            raise e

    def _stuck(self):
        cur = self._current
        name = cur.name if cur is not None else "?"
        stack = ""
        ident = None
        if cur is not None and cur.backing is not None:
            ident = cur.backing.ident
            fr = sys._current_frames().get(ident)
            if fr is not None:
                stack = "".join(traceback.format_stack(fr)[-12:])
        self._broken = f"thread {name} did not yield within {self.watchdog}s"
        self._killed = True
        if ident is not None:
            try:
                import ctypes
                ctypes.pythonapi.PyThreadState_SetAsyncExc(
                    ctypes.c_ulong(ident), ctypes.py_object(_Killed))
            except Exception:
                pass
        raise HarnessStuck(
            f"virtual thread {name} held the baton for more than "
            f"{self.watchdog}s of real time (set sim.line_budget to catch "
            f"spins).  Stack:\n{stack}")

    def run(self):
        """Run virtual threads until quiescent at the current virtual time.
        The clock does not move.  Returns the number of scheduling steps."""
        self._check_driver()
        self._steps = 0
        self._step_mode = False
        while True:
            nxt = self._pick(True)
            if nxt is None:
                break
            self._dispatch(nxt)
        if self._sched_error is not None:
            e = self._sched_error
            self._sched_error = None
            raise e
        return self._steps

    def step(self):
        """Run exactly one scheduling quantum (one thread until it yields).
        Returns the name of the thread that ran, or None if quiescent."""
        self._check_driver()
        self._steps = 0
        self._step_mode = True
        try:
            nxt = self._pick(True)
            if nxt is None:
                if self._sched_error is not None:
                    e = self._sched_error
                    self._sched_error = None
                    raise e
                return None
            self._dispatch(nxt)
            return nxt.name
        finally:
            self._step_mode = False

    def runnable(self):
        """Names of the threads that could run right now (creation order)."""
        return [vt.name for vt in self._runnable()]

    def next_deadline(self):
        """Earliest virtual deadline of a blocked thread, or None."""
        best = None
        for vt in self._live:
            if vt.state == BLOCKED and vt.deadline is not None:
                if best is None or vt.deadline < best:
                    best = vt.deadline
        return best

    def advance(self, dt):
        """Advance the virtual clock by exactly dt seconds, stopping at every
        deadline on the way to run threads to quiescence."""
        if dt < 0:
            raise ValueError("dt must be >= 0")
        self.advance_to(self.now + dt)

    def advance_to(self, target):
        self._check_driver()
        self.run()
        while True:
            d = self.next_deadline()
            if d is None or d > target:
                break
            if d > self.now:
                self.now = d
            self.run()
        if target > self.now:
            self.now = float(target)
        self.run()

    def run_until(self, cond, timeout=60.0):
        """Advance deadline by deadline until cond() is true; at most
        `timeout` virtual seconds.  Returns cond()."""
        self._check_driver()
        limit = self.now + timeout
        self.run()
        while not cond():
            d = self.next_deadline()
            if d is None or d > limit:
                self.advance_to(limit)
                break
            self.advance_to(d)
        return bool(cond())

    def spawn(self, fn, *args, name=None, **kwargs):
        """Run fn(*args, **kwargs) in a new virtual thread."""
        h = SpawnHandle(None)

        def spawn():
            try:
                h.result = fn(*args, **kwargs)
            except Exception as e:
                h.exception = e
            finally:
                h.done = True

        t = self.Thread(target=spawn, name=name)
        t._vt.spawned = True
        h.name = t._vt.name
        h.thread = t
        self.spawned.append(h)
        t.start()
        return h

    # ---------------------------------------------------------------- tracing
    def _retrace(self):
        self._trace_epoch += 1
        self._code_modes = {}

    def set_line_budget(self, n):
        """Maximum traced lines (node package files) a thread may execute
        between two blocking points; None disables the tracer."""
        self.line_budget = n

    @property
    def line_budget(self):
        return self._line_budget

    @line_budget.setter
    def line_budget(self, n):
        self._line_budget = n
        self._retrace()

    def line_mode(self, files_or_funcs, chooser=None, always=False):
        """Enable (or with None: disable) line-granular preemption."""
        if not files_or_funcs:
            self._lm_selectors = None
            self._chooser = None
            self._chooser_always = False
            self._retrace()
            return
        sels = []
        for it in files_or_funcs:
            if isinstance(it, str):
                sels.append(("file", it, None))
            elif isinstance(it, tuple):
                sels.append(("file", it[0], it[1]))
            elif hasattr(it, "co_code"):
                sels.append(("code", it, None))
            else:
                f = getattr(it, "__func__", it)
                if isinstance(f, property):
                    f = f.fget
                code = getattr(f, "__code__", None)
                if code is None:
                    raise HarnessError(f"line_mode: cannot select {it!r}")
                sels.append(("code", code, None))
        self._lm_selectors = sels
        self._chooser = chooser
        self._chooser_always = always
        self._retrace()

    def set_chooser(self, chooser, always=False):
        """Install a chooser for every scheduling decision, without line
        preemption (pass None to remove)."""
        self._chooser = chooser
        self._chooser_always = always

    def _classify(self, code):
        sels = self._lm_selectors
        if sels:
            fn = code.co_filename
            for kind, a, b in sels:
                if kind == "code":
                    if a is code:
                        return 2
                elif fn.endswith(a) and (b is None or b == code.co_name):
                    return 2
        if self._line_budget is not None and \
                code.co_filename.startswith(self._node_dir):
            return 1
        return 0

    def _make_tracer(self, vt):
        sim = self

        def local(frame, event, arg):
            if event == "line":
                b = sim._line_budget
                if b is not None:
                    vt.lines += 1
                    if vt.lines > b:
                        raise SpinDetected(
                            f"{vt.name}: more than {b} lines without "
                            f"blocking, at {frame.f_code.co_name}:"
                            f"{frame.f_lineno}")
                if sim._lm_selectors is not None and \
                        sim._code_modes.get(frame.f_code) == 2:
                    sim._preempt(vt, frame)
            return local

        def glob(frame, event, arg):
            code = frame.f_code
            modes = sim._code_modes
            m = modes.get(code)
            if m is None:
                m = modes[code] = sim._classify(code)
            return local if m else None

        return glob, local

    def _install_trace(self, vt):
        vt.trace_epoch = self._trace_epoch
        if self._line_budget is None and self._lm_selectors is None:
            sys.settrace(None)
            return
        if vt.tracer is None:
            vt.tracer = self._make_tracer(vt)
        glob, local = vt.tracer
        sys.settrace(glob)
        f = sys._getframe(0)
        modes = self._code_modes
        while f is not None:
            code = f.f_code
            m = modes.get(code)
            if m is None:
                m = modes[code] = self._classify(code)
            if m:
                f.f_trace = local
            f = f.f_back

    def where(self, name):
        """(filename, function, lineno) where a line-mode thread is parked."""
        for vt in self._live:
            if vt.name == name:
                return vt.where
        return None

    # ------------------------------------------------------------- scripting
    def script_connect(self, outcomes):
        self._connect_script.extend(outcomes)

    def script_random(self, values):
        self._random_script.extend(values)

    def script_urandom(self, values):
        self._urandom_script.extend(values)

    def connect_in(self, listener_index=0, ip="10.1.0.1", port=40000):
        return self._net.connect_in(self, listener_index, ip, port)

    # ------------------------------------------------------------- inspection
    def threads(self, live_only=True):
        """[(name, role, state, blocked_in, relative deadline)]"""
        out = []
        for vt in (self._live if live_only else self._all):
            d = None if vt.deadline is None else vt.deadline - self.t0
            out.append((vt.name, vt.role, vt.state, vt.blocked_in, d))
        return out

    def live_threads_by_role(self):
        out = {}
        for vt in self._live:
            role = "spawn" if vt.spawned else vt.role
            out[role] = out.get(role, 0) + 1
        return dict(sorted(out.items()))

    def snapshot(self, node):
        from .snapshot import snapshot
        return snapshot(self, node)

    # --------------------------------------------------------------- teardown
    def shutdown(self):
        """End every backing OS thread.  Idempotent."""
        if self._shut:
            return
        if self._cur() is not None:
            raise HarnessError("shutdown() called from a virtual thread")
        self._shut = True
        self._killed = True
        leaked = []
        for vt in list(self._all):
            if vt.state == DONE or vt.backing is None:
                continue
            # Open the gate: a parked thread wakes now, a (stuck) running
            # thread falls through its next park; both then see _killed.
            try:
                vt.gate.release()
            except RuntimeError:
                pass
            vt.backing.join(5.0)
            if vt.backing.is_alive():
                leaked.append(vt.name)
        if self._log_handler is not None:
            lg = logging.getLogger("diameter")
            lg.removeHandler(self._log_handler)
            lg.setLevel(self._log_saved[0])
            lg.propagate = self._log_saved[1]
            self._log_handler = None
        self._live = []
        self._by_ident.clear()
        self._code_modes = {}
        for vt in self._all:
            vt.tracer = None
            vt.pred = None
        if leaked:
            raise HarnessError(f"threads did not terminate: {leaked}")
