"""C16 — hop-by-hop / end-to-end / session identifiers are unique, also under concurrency."""
from __future__ import annotations

import random
import re

import linesched
import translate
import vlib

FILES = ["Link/LinkIds.v", "Props/C16.v"]
MAX32 = 0xffffffff
MAX64 = 0xffffffffffffffff


def _helpers():
    from diameter.node import _helpers
    return _helpers


# ---------------------------------------------------------------- schedules
def _factory(kind, start, nthreads, ndraws):
    H = _helpers()
    cls = H.SequenceGenerator if kind == "seq" else H.SessionGenerator

    def make(chooser):
        if kind == "seq":
            g = cls()
            fn, code = g.next_sequence, cls.next_sequence.__code__
        else:
            g = cls("node.example.net")
            fn, code = g.next_id, cls.next_id.__code__
        g._sequence = start
        s = linesched.LineSched({code}, chooser)
        linesched.virtualize_locks(g, s)
        H.threading = linesched.ThreadingShim(s)      # locks created during the run are virtual too
        outs = {}
        for i in range(nthreads):
            def task(i=i):
                r = outs.setdefault(i, [])
                for _ in range(ndraws):
                    r.append(fn())
            s.add(f"T{i}", task)
        def fin():
            import threading as _real
            H.threading = _real
            return dict(outs), list(s.events), s.deadlock
        return s, fin
    return make


def _num(kind, v):
    if kind == "seq":
        return v
    parts = v.split(";")
    return int(parts[2] + parts[3], 16)


def _events_to_model(kind, events, table):
    """Map (thread, lineno) events to (thread index, instruction index)."""
    by_line = {}
    acq = rel = None
    for idx, (ln, ins) in enumerate(table):
        if ins == "IAcq":
            acq = idx
        elif ins == "IRel":
            rel = idx
        else:
            by_line.setdefault(ln, []).append((idx, ins))
    evs = []
    rets = []          # thread order of return events
    for (tname, fn, ln) in events:
        t = int(tname[1:])
        if fn == "<acq>":          # the lock was actually obtained now
            if acq is not None:
                evs.append((t, acq))
            continue
        if fn == "<rel>":
            if rel is not None:
                evs.append((t, rel))
            continue
        cands = by_line.get(ln)
        if not cands:
            continue           # the `with` line itself, or a purely local line
        idx, ins = cands[0]
        evs.append((t, idx))
        if ins in ("IRetSeq", "IRetLoc"):
            rets.append(t)
    return evs, rets


def _explore(run, kind, start, nthreads, ndraws, max_pre, cap, table, cases):
    mx = MAX32 if kind == "seq" else MAX64
    n = 0
    for hist, (outs, events, deadlock) in linesched.explore(_factory(kind, start, nthreads, ndraws), max_pre, cap):
        n += 1
        vals = [_num(kind, v) for i in sorted(outs) for v in outs[i]]
        case = {"generator": kind, "start": start, "threads": nthreads, "draws": ndraws, "schedule": hist}
        key = (kind, start, nthreads, ndraws, tuple(hist))
        run.count(1, [key] if len(set(hist)) > 1 else [])
        if deadlock:
            run.violation("no-deadlock", case, "threads deadlocked", what="generator deadlocks")
            continue
        if len(vals) != nthreads * ndraws:
            run.violation("all-calls-return", case, {str(k): v for k, v in outs.items()})
            continue
        if len(set(vals)) != len(vals):
            run.violation("pairwise-distinct", case, {str(k): v for k, v in outs.items()},
                          what=f"two callers obtained the same identifier from one {kind} generator")
        if any(v == 0 or v > mx for v in vals):
            run.violation("non-zero", case, {str(k): v for k, v in outs.items()})
        # model side: replay the same trace
        evs, rets = _events_to_model(kind, events, table)
        ptr = {i: 0 for i in outs}
        exp = []
        for t in rets:
            exp.append(_num(kind, outs[t][ptr[t]]))
            ptr[t] += 1
        cases.append((case, start, ndraws, evs, exp))
        if n <= 2:
            run.sample({"kind": "schedule", **case, "returned": {str(k): v for k, v in outs.items()}})
    return n


def _case_text(kind, start, ndraws, evs, exp):
    prog = "next_sequence_prog" if kind == "seq" else "next_id_prog"
    mx = "seq_max" if kind == "seq" else "sess_max"
    mn = "seq_min" if kind == "seq" else "sess_min"
    ev = "[" + "; ".join(f"({t},{k})" for t, k in evs) + "]%nat"
    return f"({prog}, {mn}, {mx}, {start}, {ndraws}%nat, {ev}, {vlib.zlist(exp)})"


PRE = "From DV Require Import Prelude.Base Model.Ids Gen.GenIds.\n"
OK_SCHED = ("Definition ok (c : list instr * Z * Z * Z * nat * list (nat * nat) * list Z) : bool :=\n"
            "  let '(p, mn, mx, s0, d, evs, exp) := c in\n"
            "  list_eqb Z.eqb (map fst (ret (replay p mn mx s0 d evs))) exp.\n")


class _FakeTime:
    """stands in for the `time` module inside diameter.node._helpers: time() returns a scripted clock that advances by
    a little more than an hour per reading"""
    def __init__(self, real, t):
        self._real, self.t = real, t

    def time(self):
        v = self.t
        self.t += 3700.5
        return v

    def __getattr__(self, name):
        return getattr(self._real, name)


# ---------------------------------------------------------------- sequential
def _sequential(run, rng, thorough):
    H = _helpers()
    texts, meta = [], []
    starts32 = [1, 2, 10, MAX32 - 2, MAX32 - 1, MAX32, 0x7fffffff, 0x80000000] + \
               [rng.randint(1, MAX32) for _ in range(8)]
    n_draws = 100000 if thorough else 3000
    for s in starts32:
        g = H.SequenceGenerator()
        g._sequence = s
        case = {"generator": "seq", "start": s, "draws": n_draws}
        try:
            vals = [g.next_sequence() for _ in range(n_draws)]
        except Exception as e:   # noqa
            run.violation("all-calls-return", case, f"{type(e).__name__}: {e}", "every draw returns an identifier",
                          what=f"next_sequence() raises {type(e).__name__} after start value {s}")
            continue
        run.count(1, [("seqrun", s)])
        if len(set(vals)) != len(vals):
            run.violation("pairwise-distinct", case, "duplicate among successive draws")
        if any(v == 0 or v > MAX32 or v < 0 for v in vals):
            run.violation("non-zero", case, "zero or out-of-range id among successive draws")
        if s == MAX32 and vals[0] != 1:
            run.violation("wrap-to-one", case, vals[0], 1)
        ks = sorted(set([0, 1, 2, 3, n_draws - 1] + [rng.randrange(n_draws) for _ in range(20)]))
        for k in ks:
            texts.append(f"(seq_max, {s}, {k + 1}, {vals[k]})")
            meta.append((case, k, vals[k]))
    starts64 = [1, MAX64 - 2, MAX64 - 1, MAX64, 2 ** 32 - 1, 2 ** 32, 2 ** 63] + \
               [rng.getrandbits(64) or 1 for _ in range(6)]
    sess_texts, sess_meta = [], []
    for s in starts64:
        # the generator is created at time `base`; the clock moves on between the draws (the second field of a session
        # id is the START time of the generator, whenever the id is drawn)
        base = rng.getrandbits(31)
        real_time = H.time
        H.time = _FakeTime(real_time, base)
        try:
            ident = "Host%d.Example.NET" % (s % 7)      # the identity as configured, capitals included
            g = H.SessionGenerator(ident)
        finally:
            H.time = real_time
        g._sequence = s
        H.time = _FakeTime(real_time, base + 3601)
        n = 200
        ids = []
        failed = None
        for i in range(n):
            opt = ["opt%d" % i, "x"][: (i % 3)]
            try:
                ids.append((g.next_id(*opt), opt))
            except Exception as e:   # noqa
                failed = (i, e)
                break
        H.time = real_time
        if failed:
            run.violation("all-calls-return", {"generator": "session", "start": s, "draws": n, "draw": failed[0]},
                          f"{type(failed[1]).__name__}: {failed[1]}", "every draw returns a session id",
                          what=f"next_id() raises {type(failed[1]).__name__} at draw {failed[0]} after start value {s}")
            continue
        nums = [_num("session", v) for v, _ in ids]
        run.count(1, [("sessrun", s)])
        case = {"generator": "session", "start": s, "draws": n}
        if len(set(nums)) != len(nums) or len(set(v for v, _ in ids)) != len(ids):
            run.violation("pairwise-distinct", case, "duplicate session id")
        if any(v == 0 for v in nums):
            run.violation("non-zero", case, "zero session counter")
        for k in (0, 1, 2, n - 1):
            v, opt = ids[k]
            texts.append(f"(sess_max, {s}, {k + 1}, {nums[k]})")
            meta.append((case, k, nums[k]))
            fmt_ok = re.fullmatch(r"[^;]+;[0-9a-f]{8};[0-9a-f]{8};[0-9a-f]{8}(;.*)?", v) is not None
            if not fmt_ok:
                run.violation("session-format", case, v)
            sess_texts.append("(%s, %d, %d, [%s], %s)" % (
                vlib.coq_string(ident), base, nums[k],
                "; ".join(vlib.coq_string(o) for o in opt), vlib.coq_string(v)))
            sess_meta.append((case, k, v))
        run.sample({"kind": "session-id", "start": s, "first": ids[0][0]})
    # initial end-to-end value: scripted random
    init_texts, init_meta = [], []
    real_randint = H.random.randint
    try:
        # without a start time the generator begins at a random value of the identifier range itself: 1 .. 2^32-1
        for r in (1, MAX32, 0x80000000):
            seen = {}

            def fake0(lo, hi, r=r, seen=seen):
                seen["b"] = (lo, hi)
                return min(max(r, lo), hi)
            H.random.randint = fake0
            g = H.SequenceGenerator()
            H.random.randint = real_randint
            run.count(1, [("init0", r)])
            case = {"generator": "hop-by-hop init (no start time)", "random": r}
            if seen.get("b") != (1, MAX32) or not (1 <= g.sequence <= MAX32):
                run.violation("e2e-init", case, {"random_range": seen.get("b"), "start": g.sequence}, {"random_range": (1, MAX32)},
                              what="a generator created without a start time may begin outside 1 .. 2^32-1")
            else:
                nxt = g.next_sequence()
                if not (1 <= nxt <= MAX32) or nxt == g.sequence - 0 and False:
                    run.violation("non-zero", case, nxt)
        for now in [1, 4095, 4096, 1700000000, 2 ** 31 - 1, 2 ** 32 + 5] + [rng.randint(1, 2 ** 33) for _ in range(10)]:
            for r in (1, 0xfffff, rng.randint(1, 0xfffff)):
                seen = {}

                def fake(lo, hi, r=r, seen=seen):
                    seen["b"] = (lo, hi)
                    return r
                H.random.randint = fake
                g = H.SequenceGenerator(now)
                v = g.sequence
                H.random.randint = real_randint
                run.count(1, [("init", now, r)])
                case = {"generator": "e2e-init", "include_now": now, "random": r}
                if seen.get("b") != (1, 0xfffff):
                    run.violation("e2e-init", case, f"random range {seen.get('b')}", (1, 0xfffff))
                if v == 0 or (v >> 20) != (now & 0xfff) or v > MAX32:
                    run.violation("e2e-init", case, v, "high 12 bits = low 12 bits of start time, non-zero")
                init_texts.append(f"({now}, {r}, {v})")
                init_meta.append((case, v))
    finally:
        H.random.randint = real_randint
    # the same through a real Node: its end-to-end generator is seeded with the node's start time
    import diameter.node.node as NN
    real_time = NN.time.time
    try:
        for now in [1700000000, 1700001792, 4096 * 415040, 4096 * 415040 + 1, 0xfff, 0x1000, 2 ** 31 + 0x800] + \
                [rng.randint(1, 2 ** 32 - 1) for _ in range(6)]:
            NN.time.time = lambda now=now: float(now)
            node = NN.Node("verif.example.net", "example.net")
            v = node.end_to_end_seq.sequence
            case = {"generator": "e2e-init", "through": "Node()", "start_time": now}
            run.count(1, [("node-init", now)])
            if node.state_id != now or (v >> 20) != (now & 0xfff) or v == 0 or v > MAX32:
                run.violation("e2e-init", case, {"state_id": node.state_id, "initial": v},
                              "high 12 bits = low 12 bits of the node's start time, non-zero",
                              what="a Node's end-to-end generator does not start with the low 12 bits of its start time in its high 12 bits")
    finally:
        NN.time.time = real_time
    return (texts, meta), (sess_texts, sess_meta), (init_texts, init_meta)


OK_NTH = ("Definition ok (c : Z * Z * Z * Z) : bool :=\n"
          "  let '(mx, s, k, v) := c in nth_draw mx s k =? v.\n")
OK_SESS = ("From Coq Require Import String.\n"
           "Definition ok (c : String.string * Z * Z * list String.string * String.string) : bool :=\n"
           "  let '(ident, start, s, opt, v) := c in String.eqb (session_id ident start s opt) v.\n")
OK_INIT = ("Definition ok (c : Z * Z * Z) : bool :=\n"
           "  let '(now, r, v) := c in (seq_init_gen now r =? v) && (seq_init 4294967295 now r =? v).\n")


def check(run):
    thorough = run.tier == "thorough"
    rng = random.Random(run.seed)
    run.rule = ("line-granular schedules of the real generators (all schedules with <= N pre-emptions, N=3 where "
                "stated) replayed on the Coq step machine; successive draws compared with the closed form; "
                "non-trivial = a schedule in which more than one thread ran, or a distinct (start, run) pair")
    run.assumptions = ["pre-emption points are source lines (CPython may switch at bytecode granularity; "
                       "the property fixes line granularity)",
                       "threading.Lock semantics as implemented by tools/linesched.VLock"]
    run.obligations(FILES)
    try:
        tables = translate.ids_line_tables()
    except translate.TranslationError as e:
        tables = None
        run.notes.append(f"line tables unavailable: {e}")

    cases = []
    plan = [("seq", 10, 2, 1, 3, None), ("seq", MAX32 - 1, 2, 1, 3, None), ("seq", MAX32, 2, 2, 2, 400),
            ("seq", 5, 3, 1, 2, 400), ("session", 10, 2, 1, 3, 500), ("session", MAX64, 2, 1, 2, None),
            ("session", MAX64 - 1, 3, 1, 1, 300)]
    if thorough:
        plan = [("seq", 10, 2, 1, 3, None), ("seq", MAX32 - 1, 2, 2, 3, None), ("seq", MAX32, 2, 3, 3, 20000),
                ("seq", MAX32 - 2, 3, 1, 3, None), ("seq", 5, 3, 2, 3, 20000), ("seq", 77, 3, 3, 2, 20000),
                ("session", 10, 2, 2, 3, None), ("session", MAX64, 2, 1, 3, None),
                ("session", MAX64 - 1, 3, 1, 3, 20000), ("session", MAX64 - 2, 3, 2, 2, 20000)]
    nsched = 0
    for kind, start, nt, nd, pre, cap in plan:
        tbl = tables["next_sequence" if kind == "seq" else "next_id"] if tables else []
        nsched += _explore(run, kind, start, nt, nd, pre, cap, tbl, cases)
    run.extra["schedules_explored"] = nsched

    (nth_t, nth_m), (sess_t, sess_m), (init_t, init_m) = _sequential(run, rng, thorough)

    # model side
    if tables is not None:
        texts = [_case_text(c[0]["generator"], c[1], c[2], c[3], c[4]) for c in cases]
        mism, errs = vlib.eval_mismatches(run.workdir, PRE, OK_SCHED, texts, chunk=300, tag="sched")
        for i in mism:
            run.mismatch("replay of schedule on the step machine", cases[i][0], cases[i][4])
        for e in errs:
            run.mismatch("coq evaluation", {}, e)
    for (texts, meta, okdef, tag, unit) in ((nth_t, nth_m, OK_NTH, "nth", "closed form of successive draws"),
                                            (sess_t, sess_m, OK_SESS, "sess", "session id format"),
                                            (init_t, init_m, OK_INIT, "init", "initial end-to-end value")):
        mism, errs = vlib.eval_mismatches(run.workdir, PRE, okdef, texts, chunk=400, tag=tag)
        for i in mism:
            run.mismatch(unit, meta[i][0], meta[i][-1])
        for e in errs:
            run.mismatch("coq evaluation", {}, e)

    # an obligation broke but nothing failed so far: search harder before giving up
    if (run.broken or run.mismatches) and not run.violations and not thorough:
        run.notes.append("obligation/correspondence broken: escalating the schedule search")
        extra = []
        for kind, start, nt, nd, pre, cap in [("seq", 10, 2, 2, 3, 30000), ("seq", MAX32 - 1, 3, 1, 3, 30000),
                                              ("session", 10, 2, 2, 3, 30000), ("session", MAX64 - 1, 3, 1, 3, 30000)]:
            _explore(run, kind, start, nt, nd, pre, cap, [], extra)
            if run.violations:
                break
    return run.finish(known_matcher=lambda v, k: False)


def replay(r):
    case = r["case"]
    kind = case["generator"]
    if "schedule" not in case:
        return False
    sched = list(case["schedule"])

    def chooser(runnable, history):
        i = len(history)
        c = sched[i] if i < len(sched) else runnable[0]
        return c if c in runnable else runnable[0]
    s, fin = _factory(kind, case["start"], case["threads"], case["draws"])(chooser)
    s.run()
    outs, events, dl = fin()
    vals = [_num(kind, v) for i in sorted(outs) for v in outs[i]]
    print("replay: returned", outs)
    return (not dl) and len(set(vals)) == len(vals) and all(v != 0 for v in vals)
