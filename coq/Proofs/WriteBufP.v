(* C15: the bytes a connection hands to its transport are exactly the concatenation of the
   encodings of the messages queued for it, in queueing order, each message contiguous and
   present exactly once -- for every pattern of partial socket writes and soft write errors and
   every interleaving of the queueing threads, the writer thread and the I/O loop; a message
   that cannot be encoded is dropped alone.  Model: Model/WriteBuf.v. *)
From DV Require Import Prelude.Base Model.WriteBuf.
Local Open Scope nat_scope.

#[local] Arguments w_queue {M}.
#[local] Arguments w_buf {M}.
#[local] Arguments w_lock {M}.
#[local] Arguments w_wpc {M}.
#[local] Arguments w_cur {M}.
#[local] Arguments w_wtmp {M}.
#[local] Arguments w_wenc {M}.
#[local] Arguments w_ipc {M}.
#[local] Arguments w_pending {M}.
#[local] Arguments w_itmp {M}.
#[local] Arguments w_sent {M}.
#[local] Arguments w_done {M}.
#[local] Arguments wst0 {M}.
#[local] Arguments upd {M}.
#[local] Arguments wstep {M}.
#[local] Arguments wrun {M}.
#[local] Arguments encs {M}.
#[local] Arguments LPut {M}.
#[local] Arguments LWriter {M}.
#[local] Arguments LIo {M}.

Definition prefix {A} (a b : list A) : Prop := exists c, b = a ++ c.

Lemma prefix_refl {A} (a : list A) : prefix a a.
Proof. exists []. symmetry. apply app_nil_r. Qed.

Lemma prefix_trans {A} (a b c : list A) : prefix a b -> prefix b c -> prefix a c.
Proof. intros [x Hx] [y Hy]. exists (x ++ y). rewrite Hy, Hx. symmetry. apply app_assoc. Qed.

Lemma firstn_len_app {A} (c p : list A) : firstn (length c) (c ++ p) = c.
Proof. rewrite firstn_app, firstn_all, Nat.sub_diag. cbn [firstn]. apply app_nil_r. Qed.

Lemma skipn_len_app {A} (c p : list A) : skipn (length c) (c ++ p) = p.
Proof. rewrite skipn_app, skipn_all, Nat.sub_diag. reflexivity. Qed.

Lemma firstn_app_le {A} n (b e : list A) : n <= length b -> firstn n (b ++ e) = firstn n b.
Proof.
  intros Hle. rewrite firstn_app. replace (n - length b) with 0 by lia.
  cbn [firstn]. apply app_nil_r.
Qed.

Ltac wsimpl :=
  cbn [w_queue w_buf w_lock w_wpc w_cur w_wtmp w_wenc w_ipc w_pending w_itmp w_sent w_done upd] in *.

Section C15.
Variable M : Type.
Variable enc : M -> option bytes.

(* ---- vocabulary ---------------------------------------------------------------------- *)

(* bytes accepted by the socket AND already removed from the buffer *)
Definition confirmed (s : wst M) : bytes :=
  firstn (length (w_sent s) - w_pending s) (w_sent s).

Definition encodable (m : M) : bool := match enc m with Some _ => true | None => false end.

(* the message the writer has taken from the queue and not yet stored (or dropped) *)
Definition held (s : wst M) : list M :=
  match w_cur s with
  | Some m => if (1 <=? w_wpc s) && (w_wpc s <=? 4) then [m] else []
  | None => []
  end.

Definition writer_idle (s : wst M) : Prop := w_cur s = None \/ 5 <= w_wpc s.

Definition quiescent (s : wst M) : Prop :=
  w_queue s = [] /\ writer_idle s /\ w_buf s = [] /\ w_pending s = 0.

Fixpoint puts (ls : list (wlabel M)) : list M :=
  match ls with
  | [] => []
  | LPut m :: r => m :: puts r
  | _ :: r => puts r
  end.

(* ---- encs ---------------------------------------------------------------------------- *)

Lemma encs_cons m l :
  encs enc (m :: l) = (match enc m with Some e => e | None => [] end) ++ encs enc l.
Proof. reflexivity. Qed.

Lemma encs_app l1 l2 : encs enc (l1 ++ l2) = encs enc l1 ++ encs enc l2.
Proof. unfold encs. rewrite map_app, concat_app. reflexivity. Qed.

Lemma encs_snoc l m e : enc m = Some e -> encs enc (l ++ [m]) = encs enc l ++ e.
Proof.
  intros E. rewrite encs_app, encs_cons, E. unfold encs at 3. cbn [map concat].
  rewrite app_nil_r. reflexivity.
Qed.

Lemma encs_filter l : encs enc l = encs enc (filter encodable l).
Proof.
  induction l as [|m l IH]; [reflexivity|].
  cbn [filter]. unfold encodable at 1. rewrite encs_cons.
  destruct (enc m) as [e|] eqn:E.
  - rewrite encs_cons, E, IH. reflexivity.
  - cbn [app]. exact IH.
Qed.

Lemma puts_app l1 l2 : puts (l1 ++ l2) = puts l1 ++ puts l2.
Proof.
  induction l1 as [|[m| |k soft] l1 IH]; cbn [puts app]; [reflexivity| |assumption|assumption].
  rewrite IH. reflexivity.
Qed.

(* ---- 1. the invariant ------------------------------------------------------------------ *)

Record WInv (s : wst M) : Prop := {
  (* (e) the program counters stay within the programs *)
  wi_wpc : w_wpc s <= 7;
  wi_ipc : w_ipc s <= 5;
  (* (b) lock discipline *)
  wi_lockw : w_lock s = Some AWriter <-> 2 <= w_wpc s <= 5;
  wi_locki : w_lock s = Some AIo <-> 2 <= w_ipc s <= 4;
  (* (a) a thread between its load and its store has an up-to-date copy of the buffer *)
  wi_wtmp : 3 <= w_wpc s <= 4 -> w_wtmp s = w_buf s;
  wi_itmp : w_ipc s = 3 -> w_itmp s = w_buf s;
  (* (f) the writer's message and its encoding *)
  wi_cur0 : w_wpc s = 0 -> w_cur s = None;
  wi_cur : 1 <= w_wpc s <= 4 -> w_cur s <> None;
  wi_enc : w_wpc s = 4 -> exists m, w_cur s = Some m /\ enc m = Some (w_wenc s);
  (* (c) the pending bytes are still at the front of the buffer *)
  wi_pend0 : w_ipc s = 0 \/ 4 <= w_ipc s -> w_pending s = 0;
  wi_pend_le : w_pending s <= length (w_buf s);
  (* (d) *)
  wi_sent : w_sent s = confirmed s ++ firstn (w_pending s) (w_buf s);
  (* the main equation: holds at EVERY state, the buffer only changes at the two stores *)
  wi_main : confirmed s ++ w_buf s = encs enc (w_done s) }.

Lemma confirmed_eq s c :
  w_pending s <= length (w_buf s) ->
  w_sent s = c ++ firstn (w_pending s) (w_buf s) -> confirmed s = c.
Proof.
  intros Hle Hs. unfold confirmed. rewrite Hs.
  rewrite app_length, firstn_length, Nat.min_l by exact Hle.
  replace (length c + w_pending s - w_pending s) with (length c) by lia.
  apply firstn_len_app.
Qed.

Lemma WInv_intro s c :
  w_wpc s <= 7 -> w_ipc s <= 5 ->
  (w_lock s = Some AWriter <-> 2 <= w_wpc s <= 5) ->
  (w_lock s = Some AIo <-> 2 <= w_ipc s <= 4) ->
  (3 <= w_wpc s <= 4 -> w_wtmp s = w_buf s) ->
  (w_ipc s = 3 -> w_itmp s = w_buf s) ->
  (w_wpc s = 0 -> w_cur s = None) ->
  (1 <= w_wpc s <= 4 -> w_cur s <> None) ->
  (w_wpc s = 4 -> exists m, w_cur s = Some m /\ enc m = Some (w_wenc s)) ->
  (w_ipc s = 0 \/ 4 <= w_ipc s -> w_pending s = 0) ->
  w_pending s <= length (w_buf s) ->
  w_sent s = c ++ firstn (w_pending s) (w_buf s) ->
  c ++ w_buf s = encs enc (w_done s) ->
  WInv s.
Proof.
  intros H1 H2 H3 H4 H5 H6 H7 H8 H9 H10 H11 H12 H13.
  pose proof (confirmed_eq s c H11 H12) as Hc.
  constructor; try assumption; rewrite Hc; assumption.
Qed.

Lemma WInv_elim s : WInv s ->
  exists c, w_sent s = c ++ firstn (w_pending s) (w_buf s) /\ c ++ w_buf s = encs enc (w_done s).
Proof. intros H. exists (confirmed s). split; [apply (wi_sent s H) | apply (wi_main s H)]. Qed.

Lemma winv_init : WInv wst0.
Proof.
  apply (WInv_intro wst0 []); cbn; try lia; try reflexivity; try discriminate;
    try (split; intros; (discriminate || lia)); intros; lia.
Qed.

(* ---- preservation ---------------------------------------------------------------------- *)

Ltac fin :=
  try assumption; try reflexivity;
  try solve [ lia | congruence | intros; lia | intros; congruence | intros; exfalso; lia
            | eauto
            | intros; match goal with Hx : _ |- _ => solve [apply Hx; first [lia | reflexivity]] end
            | split; intros ?X;
              first [ lia | congruence | exfalso; lia
                    | match goal with
                      | Hx : _ <-> _ |- _ =>
                          solve [ apply Hx in X; first [lia | congruence | exfalso; lia]
                                | apply Hx; lia ]
                      end ] ].

Lemma winv_put s m : WInv s -> WInv (wstep enc writer_prog io_prog s (LPut m)).
Proof.
  intros H. destruct (WInv_elim s H) as (c & Hs & Hm).
  destruct H as [Hw Hi Hlw Hli Hwt Hit Hc0 Hc He Hp0 Hpl _ _].
  apply (WInv_intro _ c); cbn [wstep]; wsimpl; assumption.
Qed.

Lemma winv_writer s : WInv s -> WInv (wstep enc writer_prog io_prog s LWriter).
Proof.
  intros H. pose proof H as H0. destruct (WInv_elim s H) as (c & Hs & Hm).
  destruct H as [Hw Hi Hlw Hli Hwt Hit Hc0 Hc He Hp0 Hpl _ _].
  destruct s as [q b lk wpc cur wtmp wenc ipc pend itmp sent dn]. wsimpl.
  cbn [wstep]. wsimpl.
  destruct wpc as [|[|[|[|[|[|[|[|wpc]]]]]]]]; [.. | lia]; cbn [nth_error writer_prog]; wsimpl.
  - (* WGet *)
    destruct q as [|m r]; [exact H0|].
    apply (WInv_intro _ c); wsimpl; fin.
  - (* WAcq *)
    destruct lk as [a|]; [exact H0|].
    assert (Hni : ~ 2 <= ipc <= 4) by (intros X; apply Hli in X; discriminate).
    apply (WInv_intro _ c); wsimpl; fin.
  - (* WLoad *)
    apply (WInv_intro _ c); wsimpl; fin.
  - (* WEnc *)
    assert (Hlk : lk = Some AWriter) by (apply Hlw; lia). subst lk.
    assert (Hni : ~ 2 <= ipc <= 4) by (intros X; apply Hli in X; discriminate).
    destruct cur as [m|]; [|exact H0].
    destruct (enc m) as [e|] eqn:E.
    + apply (WInv_intro _ c); wsimpl; fin.
    + apply (WInv_intro _ c); wsimpl; fin.
  - (* WStore *)
    assert (Hlk : lk = Some AWriter) by (apply Hlw; lia). subst lk.
    assert (Hni : ~ 2 <= ipc <= 4) by (intros X; apply Hli in X; discriminate).
    destruct (He eq_refl) as (m & Ecur & E). subst cur.
    rewrite (Hwt ltac:(lia)) in *.
    apply (WInv_intro _ c); wsimpl; fin.
    + rewrite app_length. lia.
    + rewrite firstn_app_le by exact Hpl. exact Hs.
    + rewrite (encs_snoc _ _ _ E), app_assoc, Hm. reflexivity.
  - (* WRel *)
    assert (Hlk : lk = Some AWriter) by (apply Hlw; lia). subst lk.
    assert (Hni : ~ 2 <= ipc <= 4) by (intros X; apply Hli in X; discriminate).
    apply (WInv_intro _ c); wsimpl; fin.
  - (* WSignal *)
    apply (WInv_intro _ c); wsimpl; fin.
  - (* past the end: next iteration *)
    apply (WInv_intro _ c); wsimpl; fin.
Qed.

Lemma winv_io s k soft : WInv s -> WInv (wstep enc writer_prog io_prog s (LIo k soft)).
Proof.
  intros H. pose proof H as H0. destruct (WInv_elim s H) as (c & Hs & Hm).
  destruct H as [Hw Hi Hlw Hli Hwt Hit Hc0 Hc He Hp0 Hpl _ _].
  destruct s as [q b lk wpc cur wtmp wenc ipc pend itmp sent dn]. wsimpl.
  cbn [wstep]. wsimpl.
  destruct ipc as [|[|[|[|[|[|ipc]]]]]]; [.. | lia]; cbn [nth_error io_prog]; wsimpl.
  - (* ISend *)
    destruct b as [|x b']; [exact H0|]. destruct soft; [exact H0|].
    remember (x :: b') as b eqn:Eb in *. clear Eb x b'.
    rewrite (Hp0 ltac:(lia)) in *. cbn [firstn] in Hs. rewrite app_nil_r in Hs. subst sent.
    cbv zeta.
    apply (WInv_intro _ c); wsimpl; fin.
  - (* IAcq *)
    destruct lk as [a|]; [exact H0|].
    assert (Hnw : ~ 2 <= wpc <= 5) by (intros X; apply Hlw in X; discriminate).
    apply (WInv_intro _ c); wsimpl; fin.
  - (* ILoad *)
    apply (WInv_intro _ c); wsimpl; fin.
  - (* IStore *)
    assert (Hlk : lk = Some AIo) by (apply Hli; lia). subst lk.
    assert (Hnw : ~ 2 <= wpc <= 5) by (intros X; apply Hlw in X; discriminate).
    rewrite (Hit eq_refl) in *.
    apply (WInv_intro _ sent); wsimpl; fin.
    + cbn [firstn]. symmetry. apply app_nil_r.
    + rewrite Hs, <- app_assoc, firstn_skipn. exact Hm.
  - (* IRel *)
    assert (Hlk : lk = Some AIo) by (apply Hli; lia). subst lk.
    assert (Hnw : ~ 2 <= wpc <= 5) by (intros X; apply Hlw in X; discriminate).
    apply (WInv_intro _ c); wsimpl; fin.
  - (* past the end: next iteration *)
    rewrite (Hp0 ltac:(lia)) in *.
    apply (WInv_intro _ c); wsimpl; fin.
Qed.

Lemma winv_step s l : WInv s -> WInv (wstep enc writer_prog io_prog s l).
Proof.
  destruct l as [m| |k soft]; [apply winv_put | apply winv_writer | apply winv_io].
Qed.

Lemma wrun_snoc wp ip ls l : wrun enc wp ip (ls ++ [l]) = wstep enc wp ip (wrun enc wp ip ls) l.
Proof. unfold wrun. rewrite fold_left_app. reflexivity. Qed.

Theorem winv_run ls : WInv (wrun enc writer_prog io_prog ls).
Proof.
  induction ls as [|l ls IH] using rev_ind; [exact winv_init|].
  rewrite wrun_snoc. apply winv_step. exact IH.
Qed.

(* consequences of the invariant, in the vocabulary of the property *)
Lemma WInv_global s : WInv s ->
  w_sent s ++ skipn (w_pending s) (w_buf s) = encs enc (w_done s).
Proof.
  intros H. rewrite (wi_sent s H) at 1. rewrite <- app_assoc, firstn_skipn. apply (wi_main s H).
Qed.

Lemma WInv_pending_front s : WInv s ->
  firstn (w_pending s) (w_buf s) = skipn (length (w_sent s) - w_pending s) (w_sent s).
Proof.
  intros H. pose proof (wi_sent s H) as Hs. pose proof (wi_pend_le s H) as Hle.
  set (c := confirmed s) in *. clearbody c.
  assert (Hl : length (w_sent s) - w_pending s = length c).
  { rewrite Hs. rewrite app_length, firstn_length, Nat.min_l by exact Hle. lia. }
  rewrite Hl, Hs. symmetry. apply skipn_len_app.
Qed.

Lemma WInv_mutex s : WInv s -> ~ (2 <= w_wpc s <= 5 /\ 2 <= w_ipc s <= 4).
Proof.
  intros H [Hw Hi]. apply (wi_lockw s H) in Hw. apply (wi_locki s H) in Hi. congruence.
Qed.

(* ---- 2. ------------------------------------------------------------------------------ *)

Theorem C15_stream_prefix ls :
  let s := wrun enc writer_prog io_prog ls in
  prefix (w_sent s) (encs enc (w_done s)).
Proof.
  intros s. exists (skipn (w_pending s) (w_buf s)). symmetry.
  apply WInv_global. apply winv_run.
Qed.

(* ---- 3. FIFO ---------------------------------------------------------------------------- *)

Definition fifo (P : list M) (s : wst M) : Prop :=
  filter encodable P = w_done s ++ filter encodable (held s ++ w_queue s).

Lemma io_frame s k soft :
  let s' := wstep enc writer_prog io_prog s (LIo k soft) in
  w_done s' = w_done s /\ w_cur s' = w_cur s /\ w_wpc s' = w_wpc s /\ w_queue s' = w_queue s.
Proof.
  cbn [wstep].
  destruct (nth_error io_prog (w_ipc s)) as [[]|]; wsimpl; auto;
    destruct (w_buf s), soft, (w_lock s); wsimpl; auto.
Qed.

Lemma fifo_step P s l : WInv s -> fifo P s ->
  fifo (P ++ puts [l]) (wstep enc writer_prog io_prog s l).
Proof.
  intros H HF. destruct l as [m| |k soft].
  - (* LPut *)
    unfold fifo, held in *. cbn [wstep puts]. wsimpl.
    rewrite filter_app, HF, <- app_assoc. f_equal.
    rewrite app_assoc. symmetry. apply filter_app.
  - (* LWriter *)
    cbn [puts]. rewrite app_nil_r.
    destruct H as [Hw Hi Hlw Hli Hwt Hit Hc0 Hc He Hp0 Hpl _ _].
    destruct s as [q b lk wpc cur wtmp wenc ipc pend itmp sent dn].
    unfold fifo, held in *. wsimpl. cbn [wstep]. wsimpl.
    destruct wpc as [|[|[|[|[|[|[|[|wpc]]]]]]]]; [.. | lia]; cbn [nth_error writer_prog]; wsimpl.
    + (* WGet *)
      destruct q as [|m r]; [exact HF|]. wsimpl.
      rewrite HF. cbn [Nat.leb andb app]. destruct cur; reflexivity.
    + destruct lk; exact HF.
    + exact HF.
    + (* WEnc *)
      destruct cur as [m|]; [|exact HF].
      destruct (enc m) as [e|] eqn:E; wsimpl; [exact HF|].
      assert (Em : encodable m = false) by (unfold encodable; rewrite E; reflexivity).
      cbn [Nat.leb andb app filter] in HF |- *. rewrite Em in HF. exact HF.
    + (* WStore *)
      destruct (He eq_refl) as (m & Ecur & E). subst cur. wsimpl.
      assert (Em : encodable m = true) by (unfold encodable; rewrite E; reflexivity).
      cbn [Nat.leb andb app filter] in HF |- *. rewrite Em in HF.
      rewrite <- app_assoc. exact HF.
    + rewrite HF. cbn [Nat.leb andb]. reflexivity.
    + rewrite HF. cbn [Nat.leb andb]. reflexivity.
    + rewrite HF. cbn [Nat.leb andb]. destruct cur; reflexivity.
  - (* LIo *)
    cbn [puts]. rewrite app_nil_r.
    destruct (io_frame s k soft) as (Ed & Ec & Ep & Eq).
    unfold fifo, held in *. rewrite Ed, Ec, Ep, Eq. exact HF.
Qed.

Lemma fifo_run ls : fifo (puts ls) (wrun enc writer_prog io_prog ls).
Proof.
  induction ls as [|l ls IH] using rev_ind; [reflexivity|].
  rewrite wrun_snoc, puts_app. apply fifo_step; [apply winv_run | exact IH].
Qed.

Theorem C15_fifo ls :
  let s := wrun enc writer_prog io_prog ls in
  filter encodable (puts ls) = w_done s ++ filter encodable (held s ++ w_queue s).
Proof. exact (fifo_run ls). Qed.

(* ---- 4. exactness at quiescence ---------------------------------------------------------- *)

Lemma held_idle s : writer_idle s -> held s = [].
Proof.
  unfold writer_idle, held. intros [E|Hp]; [rewrite E; reflexivity|].
  destruct (w_cur s); [|reflexivity].
  replace (w_wpc s <=? 4) with false by (symmetry; apply Nat.leb_gt; lia).
  rewrite andb_false_r. reflexivity.
Qed.

Theorem C15_stream_exact ls :
  let s := wrun enc writer_prog io_prog ls in
  quiescent s -> w_sent s = encs enc (filter encodable (puts ls)).
Proof.
  intros s (Hq & Hidle & Hb & Hp).
  pose proof (WInv_global s (winv_run ls)) as Hg.
  pose proof (C15_fifo ls) as Hf. cbv zeta in Hf. fold s in Hf.
  rewrite (held_idle s Hidle), Hq in Hf. cbn [app filter] in Hf. rewrite app_nil_r in Hf.
  rewrite Hb, Hp in Hg. cbn [skipn] in Hg. rewrite app_nil_r in Hg.
  rewrite Hf. exact Hg.
Qed.

(* the I/O thread's position is irrelevant, and an empty buffer already forces w_pending = 0 *)
Lemma WInv_buf_empty_pending s : WInv s -> w_buf s = [] -> w_pending s = 0.
Proof. intros H Hb. pose proof (wi_pend_le s H) as Hle. rewrite Hb in Hle. cbn in Hle. lia. Qed.

(* ---- 5. an unencodable message is dropped alone ------------------------------------------ *)

Lemma filter_encodable_Forall l : Forall (fun m => enc m <> None) (filter encodable l).
Proof.
  induction l as [|m l IH]; cbn [filter]; [constructor|].
  unfold encodable at 1. destruct (enc m) eqn:E; [|exact IH].
  constructor; [congruence | exact IH].
Qed.

Theorem C15_drop_alone ls :
  let s := wrun enc writer_prog io_prog ls in
  (* every stored message is encodable, the stored messages are an initial segment of the
     encodable puts (the unencodable ones removed, nothing else changed) ... *)
  Forall (fun m => enc m <> None) (w_done s) /\
  prefix (w_done s) (filter encodable (puts ls)) /\
  (* ... and so is the byte stream: it is the same whether or not the unencodable messages
     had been queued at all *)
  prefix (w_sent s) (encs enc (filter encodable (puts ls))) /\
  encs enc (puts ls) = encs enc (filter encodable (puts ls)).
Proof.
  intros s. pose proof (C15_fifo ls) as Hf. cbv zeta in Hf. fold s in Hf.
  assert (Hp : prefix (w_done s) (filter encodable (puts ls))) by (eexists; exact Hf).
  split; [|split; [exact Hp|split]].
  - pose proof (filter_encodable_Forall (puts ls)) as HA. rewrite Hf in HA.
    apply Forall_app in HA. apply HA.
  - apply (prefix_trans _ (encs enc (w_done s))); [apply C15_stream_prefix|].
    rewrite Hf, encs_app. eexists; reflexivity.
  - apply encs_filter.
Qed.

End C15.

#[local] Arguments quiescent {M}.
#[local] Arguments writer_idle {M}.
#[local] Arguments puts {M}.
#[local] Arguments encodable {M}.
#[local] Arguments held {M}.

(* ---- 6. the lock is necessary at this granularity ------------------------------------------ *)

Definition writer_nolock : list winstr := [WGet; WLoad; WEnc; WStore; WSignal].
Definition io_nolock : list iinstr := [ISend; ILoad; IStore].
Definition enc_nat (n : nat) : option bytes := Some [Z.of_nat n].

(* the writer loads, the I/O thread sends and removes, the writer stores its stale copy:
   byte 1 is handed to the transport twice *)
Definition sched_dup : list (wlabel nat) :=
  [LPut 1; LPut 2;
   LWriter; LWriter; LWriter; LWriter; LWriter; LWriter;   (* message 1 stored: buffer = [1] *)
   LWriter; LWriter;                                         (* WGet 2; WLoad: stale copy [1] *)
   LIo 1 false; LIo 0 false; LIo 0 false;                    (* send [1]; load; store: buffer = [] *)
   LWriter; LWriter;                                         (* WEnc; WStore: buffer = [1;2] *)
   LIo 0 false; LIo 2 false].                                (* next iteration; send [1;2] *)

Theorem C15_unlocked_refuted :
  exists ls : list (wlabel nat),
    let s := wrun enc_nat writer_nolock io_nolock ls in
    ~ prefix (w_sent s) (encs enc_nat (w_done s)).
Proof.
  exists sched_dup. vm_compute. intros [c Hc]. discriminate Hc.
Qed.

(* the I/O thread loads, the writer appends, the I/O thread stores its stale shortened copy:
   message 2 is lost although everything is quiescent *)
Definition sched_loss : list (wlabel nat) :=
  [LPut 1; LPut 2;
   LWriter; LWriter; LWriter; LWriter; LWriter; LWriter;   (* message 1 stored: buffer = [1] *)
   LWriter; LWriter; LWriter;                                (* WGet 2; WLoad; WEnc *)
   LIo 1 false; LIo 0 false;                                 (* send [1]; load: stale copy [1] *)
   LWriter; LWriter; LWriter;                                (* WStore: buffer = [1;2]; signal; next *)
   LIo 0 false; LIo 0 false].                                (* store: buffer = []; next iteration *)

Theorem C15_unlocked_loses :
  exists ls : list (wlabel nat),
    let s := wrun enc_nat writer_nolock io_nolock ls in
    quiescent s /\ w_wpc s = 0 /\ w_ipc s = 0 /\
    w_done s = filter (encodable enc_nat) (puts ls) /\
    w_sent s <> encs enc_nat (filter (encodable enc_nat) (puts ls)).
Proof.
  exists sched_loss. vm_compute.
  repeat split; try reflexivity; try (left; reflexivity). intros Hc. discriminate Hc.
Qed.

(* ---- 7. non-vacuity of C15_stream_exact ---------------------------------------------------- *)

(* message 0 cannot be encoded; message n > 0 is encoded as three bytes n *)
Definition enc3 (n : nat) : option bytes :=
  match n with 0 => None | _ => Some [Z.of_nat n; Z.of_nat n; Z.of_nat n] end.

(* three producers (1 and 3; 0; 2) interleaved with the writer and the I/O loop; partial writes
   of 1, 2, 2, 1 (k = 0 is clamped to 1) and 3 bytes, one soft error; message 3 is appended
   while 2 accepted bytes of message 2 are still waiting to be removed from the buffer *)
Definition sched_ex : list (wlabel nat) :=
  let W := LWriter in let I k := LIo k false in
  [LPut 1; W; LPut 0; W; W; LPut 2; W; W;    (* 1 stored: buffer = 1 1 1 *)
   I 1; W; I 0; W; I 0; I 0;                 (* 1 byte accepted, then removed under the lock *)
   LPut 3; W; W; I 0; W; I 0;                (* the writer takes 0 and acquires the lock *)
   LIo 5 true; W; I 2;                       (* soft error; then 2 bytes accepted *)
   W;                                        (* encoding of 0 raises: dropped alone, lock released *)
   I 0; W; I 0; I 0; I 0;                    (* the 2 bytes removed; the writer takes 2 *)
   W; W; W; W; W; W; W; W;                   (* 2 stored; next iteration; 3 taken *)
   I 0; I 2; W; W; W; W; W;                  (* 2 bytes of 2 accepted; 3 appended meanwhile *)
   I 0; I 0; I 0; I 0; I 0;                  (* removed; next iteration *)
   I 0; I 0; I 0; I 0; I 0; I 0;             (* k = 0: 1 byte *)
   I 100; I 0; I 0; I 0; I 0; I 0;           (* the rest *)
   W; W].

Example C15_stream_exact_nonvacuous :
  let s := wrun enc3 writer_prog io_prog sched_ex in
  quiescent s /\
  puts sched_ex = [1; 0; 2; 3] /\
  w_done s = [1; 2; 3] /\
  w_sent s = [1; 1; 1; 2; 2; 2; 3; 3; 3]%Z /\
  w_sent s = encs enc3 (filter (encodable enc3) (puts sched_ex)).
Proof.
  vm_compute. repeat split; try reflexivity. left; reflexivity.
Qed.

Print Assumptions winv_init.
Print Assumptions winv_step.
Print Assumptions winv_run.
Print Assumptions WInv_global.
Print Assumptions WInv_pending_front.
Print Assumptions WInv_mutex.
Print Assumptions C15_stream_prefix.
Print Assumptions C15_fifo.
Print Assumptions C15_stream_exact.
Print Assumptions C15_drop_alone.
Print Assumptions C15_unlocked_refuted.
Print Assumptions C15_unlocked_loses.
Print Assumptions C15_stream_exact_nonvacuous.
