"""C05 — stream framing is chunking-invariant, ordered, exactly-once, always progresses."""
from __future__ import annotations

import queue
import random
import sys

import implobs as O
import vlib
from props import c02, c04

FILES = ["Props/C05.v"]
PRE = ("From DV Require Import Prelude.Base Model.Wire Model.Types Model.Obs Model.Msg Model.Defs Model.DefsObs Model.Framing "
       "Gen.GenDict Gen.GenConst Gen.GenRegistry Gen.GenDefs.\nFrom Coq Require Import String.\n")


class Done(BaseException):
    pass


class Spin(BaseException):
    pass


class FakeQueue:
    def __init__(self, chunks):
        self.chunks = list(chunks)

    def get(self, block=True, timeout=None):
        if not self.chunks:
            raise Done()
        c = self.chunks.pop(0)
        if c is None:            # nothing arrives for the 5 s the reader waits: the wait times out
            import queue
            raise queue.Empty()
        return c


class Null:
    def __getattr__(self, k):
        return lambda *a, **kw: None


class Stub:
    is_stopped = False


def run_reader(chunks, line_limit=None):
    """Feed `chunks` to the real PeerConnection.work_read_queue.  Returns
    (delivered frames as bytes, closed?, leftover buffer, spun?)."""
    from diameter.node import peer as P
    conn = P.PeerConnection.__new__(P.PeerConnection)
    conn._read_buffer = b""
    conn._read_buffer_queue = FakeQueue(chunks)
    conn._last_read = 0
    conn._last_msg = 0
    conn.logger = Null()
    conn.msg_dump = Null()
    conn.state = P.PEER_READY
    conn._direction = P.PEER_RECV
    delivered = []
    conn.message_handler = lambda c, m: delivered.append(m)
    closed = []
    conn.close = lambda signal_node=True: closed.append(True)
    spun = False
    n = [0]

    def tr(frame, event, arg):
        if frame.f_code.co_name == "work_read_queue":
            return loc
        return None

    def loc(frame, event, arg):
        if event == "line":
            n[0] += 1
            if n[0] > line_limit:
                raise Spin()
        return loc
    if line_limit:
        sys.settrace(tr)
    died = None
    from props.c04 import WallGuard
    guard = WallGuard(6.0)       # a decoder that loops inside one frame is not seen by the line count of the reader
    guard.__enter__()
    try:
        conn.work_read_queue(_thread=Stub())
    except Done:
        pass
    except Spin:
        spun = True
    except Exception as e:   # noqa -- the reader thread would have died here
        died = type(e).__name__
    except BaseException as e:   # noqa
        if type(e).__name__ != "Spin":
            raise
        spun = True
    finally:
        guard.__exit__()
        if line_limit:
            sys.settrace(None)
    if died:
        return delivered, "died:" + died, bytes(conn._read_buffer), spun
    return delivered, bool(closed), bytes(conn._read_buffer), spun


def frames_corpus(rng, rows_by_ty):
    good = c04.valid_corpus(rng, rows_by_ty, 14)
    good = [g for g in good if len(g) <= 600] + [g for g in good if len(g) > 600][:1]
    # well-formed frames at the edges: a bare 20-byte header (known and unknown command), reserved flag bits set
    def hdr(flags, code, n=20):
        return bytes([1]) + n.to_bytes(3, "big") + bytes([flags]) + code.to_bytes(3, "big") + bytes(4) + (77).to_bytes(4, "big") + (78).to_bytes(4, "big")
    good += [hdr(0x80, 280), hdr(0x00, 8388000), hdr(0x88, 280), hdr(0x8f, 272)]
    if good and len(good[0]) >= 20:
        good.append(good[0][:4] + bytes([good[0][4] | 0x08]) + good[0][5:])
    return good


def undecodable(rng, kind=0):
    """a frame with a consistent header whose body does not decode.  kind 0: truncated AVP header (the unpacker's
    ConversionError); kind 1: intact AVP framing, but a Grouped AVP whose payload is garbage (AvpDecodeError raised while the
    typed class reads its attributes); kind 2: the same inside a Credit-Control request"""
    def avp(code, payload, flags=0x40):
        n = 8 + len(payload)
        return code.to_bytes(4, "big") + bytes([flags]) + n.to_bytes(3, "big") + payload + bytes((-n) % 4)
    if kind >= 3:
        # an AVP header whose length field is smaller than the header itself (0, 1, 7), followed by more bytes
        lf = {3: 0, 4: 1, 5: 7}[kind]
        body, cmd = (263).to_bytes(4, "big") + bytes([0x40]) + lf.to_bytes(3, "big") + bytes(8), 272
    elif kind == 0:
        body, cmd = bytes.fromhex("000001074000"), 272
    elif kind == 1:
        body, cmd = avp(260, bytes.fromhex("0000010a400000" "0c00")), 257
    else:
        body, cmd = avp(263, b"s;1") + avp(456, b"\xff\xff\xff"), 272
    n = 20 + len(body)
    return bytes([1]) + n.to_bytes(3, "big") + bytes([0x80]) + cmd.to_bytes(3, "big") + bytes(12) + body


def with_length(frame, L):
    return frame[:1] + L.to_bytes(3, "big") + frame[4:]


def cuts_to_chunks(stream, cuts):
    pts = [0] + sorted(cuts) + [len(stream)]
    return [stream[a:b] for a, b in zip(pts, pts[1:]) if b > a]


def check(run):
    from diameter.message import Message
    thorough = run.tier == "thorough"
    rng = random.Random(run.seed)
    run.rule = ("streams of 1..6 messages (base and application commands) x every 1-cut and (short streams) every 2-cut, "
                "byte-at-a-time and random k-cuts; undecodable frames and frames whose length field is 0, 1..19, shorter or "
                "longer than the frame inserted at every position; real PeerConnection.work_read_queue vs the Coq reader model; "
                "non-trivial = distinct (stream, cut) pair with at least one cut")
    run.assumptions = ["the message handler does not raise (C14)", "the reader thread is driven synchronously: queue.get "
                       "returns the scripted network reads in order"]
    run.obligations(FILES)
    rows = O.dict_rows()
    rows_by_ty = {}
    for code, vendor, tn, m, name, vf in rows:
        rows_by_ty.setdefault(tn, []).append((code, vendor))
    good = frames_corpus(rng, rows_by_ty)
    bads = [undecodable(rng, k) for k in range(6)]
    bad = bads[0]
    cases, meta = [], []

    hung = set()
    spins = [0]

    def decodes(fr):
        # guarded: a decoder that does not come back must become a finding, not a hanging check
        from props.c04 import WallGuard
        if fr in hung:
            return False
        try:
            with WallGuard(3.0):
                Message.from_bytes(fr)
            return True
        except Exception:   # noqa
            return False
        except BaseException as e:   # noqa
            if type(e).__name__ != "Spin":
                raise
            hung.add(fr)
            run.violation("no-spin", {"frame": fr.hex()[:200], "len": len(fr)}, "Message.from_bytes did not return within 3 s",
                          what="decoding one frame's body never terminates: the reader spins without consuming input")
            return False

    def one(stream_frames, chunks, kind, pauses=True):
        """stream_frames: [(bytes, role)] role in good|bad|len:<n>"""
        if pauses and len(chunks) > 1 and (kind == "k-cut" or (kind == "1-cut" and len(chunks[0]) % 3 == 0)):
            # the same reads with a silence (the reader's 5 s queue wait times out) before, between and after them
            one(stream_frames, [x for c in chunks for x in (None, c)] + [None], kind + "+pauses", pauses=False)
        if spins[0] >= 3:
            return            # three spinning inputs are on record: every further one costs seconds and adds nothing
        stream = b"".join(f for f, _ in stream_frames)
        case = {"frames": [(len(f), r) for f, r in stream_frames], "chunks": [(-1 if c is None else len(c)) for c in chunks], "kind": kind,
                "stream": stream.hex()[:300]}
        dl, closed, left, spun = run_reader(chunks, line_limit=60 * len(stream) + 3000)
        spins[0] += 1 if spun else 0
        got = [m.as_bytes() if False else None for m in dl]
        run.count(1, [(stream[:80], tuple(-1 if c is None else len(c) for c in chunks))] if len(chunks) > 1 else [])
        # oracle -----------------------------------------------------------------
        if spun:
            run.violation("progress", case, "reader spins without consuming input",
                          what="reader loops without consuming input")
        if isinstance(closed, str):
            run.violation("reader-survives", case, closed,
                          what=f"an exception ({closed[5:]}) escapes work_read_queue: the reader thread ends and the connection is never serviced again")
            return
        all_wellformed = all(r in ("good", "bad") for _, r in stream_frames)
        if all_wellformed and not spun:
            want = [f for f, r in stream_frames if r == "good"]
            # delivered messages re-encode to the frames (typed classes may reorder AVPs: compare header ids)
            got_ids = [(m.header.hop_by_hop_identifier, m.header.end_to_end_identifier, m.header.command_code, m.header.length) for m in dl]
            want_ids = [(int.from_bytes(f[12:16], "big"), int.from_bytes(f[16:20], "big"), int.from_bytes(f[5:8], "big"), len(f)) for f in want]
            if closed or got_ids != want_ids or left != b"":
                run.violation("chunking-invariant", case,
                              {"closed": closed, "delivered": len(dl), "expected": len(want), "left": len(left)},
                              what="delivery of a stream of well-formed frames depends on how it was cut into reads")
        # model side: which frames are decodable is the implementation's own Message.from_bytes
        exp_deliv = [(m.header.command_code, m.header.hop_by_hop_identifier, m.header.length) for m in dl]
        cases.append((stream, [c for c in chunks if c is not None], [f for f, r in stream_frames if decodes(f)], exp_deliv, closed, left, spun))
        meta.append(case)

    # streams of well-formed frames ------------------------------------------------
    short = sorted(good, key=len)[:6]
    n_streams = 30 if thorough else 8
    for si in range(n_streams):
        k = rng.randrange(1, 7) if si else 2
        pool = short if si % 3 else good
        sf = []
        for _ in range(k):
            if rng.random() < 0.25:
                sf.append((rng.choice(bads), "bad"))
            else:
                sf.append((rng.choice(pool), "good"))
        if si == 1:
            sf = [(bad, "bad"), (short[0], "good")]      # the seed-corpus history
        if si in (2, 3, 4, 5, 6):
            sf = [(short[0], "good"), (bads[si - 1], "bad"), (short[1 % len(short)], "good")]
        # frames the library's decoder accepts after all (it is lenient about some malformed bodies) count as good ones
        sf = [(f, "good" if r == "bad" and decodes(f) else r) for f, r in sf]
        # unique hop-by-hop ids so that delivery order is observable
        sf = [(f[:12] + (1000 + i).to_bytes(4, "big") + f[16:], r) for i, (f, r) in enumerate(sf)]
        stream = b"".join(f for f, _ in sf)
        one(sf, [stream], "whole")
        if len(stream) <= 300 or thorough:
            for c in range(1, len(stream)):
                one(sf, cuts_to_chunks(stream, [c]), "1-cut")
        else:
            for c in sorted(set(rng.sample(range(1, len(stream)), 60) + list(range(1, 41)))):
                one(sf, cuts_to_chunks(stream, [c]), "1-cut")
        if len(stream) <= 120 or (thorough and len(stream) <= 300):
            for c1 in range(1, len(stream)):
                for c2 in range(c1 + 1, len(stream), 1 if len(stream) <= 80 else 3):
                    one(sf, cuts_to_chunks(stream, [c1, c2]), "2-cut")
        one(sf, [stream[i:i + 1] for i in range(len(stream))], "byte-at-a-time")
        for _ in range(6):
            kk = rng.randrange(2, 8)
            one(sf, cuts_to_chunks(stream, rng.sample(range(1, len(stream)), min(kk, len(stream) - 1))), "k-cut")
    # corrupted length fields at every position ---------------------------------------
    base = [short[0], short[1 % len(short)], short[2 % len(short)]]
    base = [(f[:12] + (2000 + i).to_bytes(4, "big") + f[16:]) for i, f in enumerate(base)]
    for pos in range(len(base) + 1):
        for L in [0, 1, 7, 19, 20, 21, len(base[0]) - 4, len(base[0]) + 4, len(base[0]) + 400, 0xffffff]:
            fr = with_length(base[0][:12] + (3000).to_bytes(4, "big") + base[0][16:], L)
            sf = [(f, "good") for f in base[:pos]] + [(fr, f"len:{L}")] + [(f, "good") for f in base[pos:]]
            stream = b"".join(f for f, _ in sf)
            one(sf, [stream], "whole")
            cuts = range(1, len(stream), 1 if thorough else 5)
            for c in cuts:
                one(sf, cuts_to_chunks(stream, [c]), "1-cut")
            one(sf, [stream[i:i + 1] for i in range(len(stream))], "byte-at-a-time")
    run.sample(meta[1])
    run.sample(meta[len(meta) // 2])

    # model ------------------------------------------------------------------------------
    texts = []
    for stream, chunks, okframes, exp_deliv, closed, left, spun in cases:
        okf = "[" + "; ".join(O.hx(f) for f in dict.fromkeys(okframes)) + "]"
        ch = "[" + "; ".join(O.hx(c) for c in chunks) + "]"
        dl = "[" + "; ".join(f"({c}, {h}, {ln})" for c, h, ln in exp_deliv) + "]"
        texts.append(f"({okf}, {ch}, {dl}, {O.coq_bool(closed)}, {O.hx(left)}, {O.coq_bool(spun)})")
    okd = ("Definition ok (c : list bytes * list bytes * list (Z * Z * Z) * bool * bytes * bool) : bool :=\n"
           "  let '(good, chunks, dl, closed, lft, spun) := c in\n"
           "  let dec := fun fr => List.existsb (bytes_eqb fr) good in\n"
           "  let r := feed_all dec reader0 chunks in\n"
           "  let hd := fun fr => match dec_hdr fr with Ok (h, _) => (h_code h, h_hbh h, h_length h) | Err _ => (0, 0, 0) end in\n"
           "  list_eqb (fun x y => let '(a, b, c) := x in let '(d, e, f) := y in (a =? d) && (b =? e) && (c =? f))\n"
           "           (List.map hd (r_delivered r)) dl\n"
           "  && Bool.eqb (r_closed r) closed && Bool.eqb (r_spin r) spun\n"
           "  && (if closed || spun then true else bytes_eqb (r_buf r) lft).\n")
    mism, errs = vlib.eval_mismatches(run.workdir, PRE, okd, texts, chunk=400, tag="frm")
    for i in mism:
        run.mismatch("reader model vs work_read_queue", meta[i], texts[i][-300:])
    for e in errs:
        run.mismatch("coq evaluation", {}, e)
    node_level(run, thorough)
    return run.finish()


def node_level(run, thorough):
    """The same claim seen from the socket: a running node (virtual sockets, virtual time) is fed a stream of watchdog
    requests cut into network reads at chosen offsets — around the node's recv size (2048) in particular — in both ready
    sub-states; every request must be answered, once, in order."""
    import nodesim as NS
    from vsim import Sim
    K = 40
    probe = NS.build_message(dict(kind="dwr", host="cli0.example.net", hbh=1, e2e=1))
    L = len(probe)
    cutsets = [[], [2047], [2048], [2049], [4096], [2048, 4096], [L], [L - 1], [L + 1], [20], [19], [K * L - 1],
               [2048 + 1, 2048 + 2]] + ([[c] for c in range(2040, 2056)] if thorough else [])
    import logging
    # every logger of the package at DEBUG: the dump / statistics code that runs on the reader thread is exercised too
    quiet = logging.NullHandler()
    lg = logging.getLogger("diameter")
    old_level = lg.level
    lg.addHandler(quiet)
    lg.setLevel(logging.DEBUG)
    was_disabled = logging.root.manager.disable
    logging.disable(logging.NOTSET)          # (the checks run with logging switched off globally)
    try:
        _node_level(run, cutsets, K, L)
    finally:
        logging.disable(was_disabled)
        lg.setLevel(old_level)
        lg.removeHandler(quiet)


def _node_level(run, cutsets, K, L):
    import nodesim as NS
    from vsim import Sim
    from diameter.message import Message
    from diameter.message.avp import Avp
    for waiting_dwa, joined in ((False, False), (True, False), (False, True)):
        for cuts in (cutsets if not joined else [[], [L], [2048]]):
            sim = Sim(seed=1, t0=NS.T0)
            try:
                sim.script_random([77, 12345])
                node = sim.node_mod.Node("srv.example.net", "example.net", ip_addresses=["10.0.0.1"], tcp_port=3868)
                node.idle_timeout = 5
                node.dwa_timeout = 50
                app = sim.app_mod.SimpleThreadingApplication(4, is_auth_application=True, request_handler=lambda a, m: None)
                node.add_application(app, [node.add_peer("aaa://cli0.example.net", "example.net")])
                node.start()
                sim.run()
                sim.script_random([1000])
                r = sim.connect_in()
                sim.run()
                cer = NS.build_message(dict(kind="cer", host="cli0.example.net", hbh=1, e2e=1))
                if not joined:
                    r.feed(cer)
                    sim.run()
                    r.take_messages()
                frames = [NS.build_message(dict(kind="dwr", host="cli0.example.net", hbh=100 + i, e2e=500 + i)) for i in range(K)]
                # a watchdog request that carries an AVP outside its definition, Grouped with garbage inside: it decodes
                # (extra AVPs stay as they are) and must be served like the others
                odd = Message.from_bytes(frames[5])
                odd.append_avp(Avp(443, 0, bytes.fromhex("0102030405ff"), 0x40))
                frames[5] = odd.as_bytes()
                if waiting_dwa:
                    sim.advance(7)          # the node's own DWR goes out: READY_WAITING_DWA
                    own = [m for m in r.take_messages() if m.header.is_request and m.header.command_code == 280]
                    if own:
                        frames.insert(3, NS.build_message(dict(kind="dwa", host="cli0.example.net", hbh=own[0].header.hop_by_hop_identifier,
                                                               e2e=own[0].header.end_to_end_identifier)))
                stream = (cer if joined else b"") + b"".join(frames)     # joined: the CER and what follows arrive in ONE read
                pos = 0
                for c in sorted(set(x for x in cuts if 0 < x < len(stream))) + [len(stream)]:
                    r.feed(stream[pos:c])
                    pos = c
                    sim.run()
                sim.advance(1)
                got = [m.header.hop_by_hop_identifier for m in r.take_messages() if not m.header.is_request and m.header.command_code == 280]
                conn = next(iter(node.connections.values()), None)
                case = {"scenario": "node-level stream of %d DWRs" % K, "cuts": cuts, "awaiting_dwa": waiting_dwa, "frame_len": L,
                        "cer_in_the_same_read": joined}
                run.count(1, [("node-stream", tuple(cuts), waiting_dwa, joined)])
                want = [100 + i for i in range(K)]
                if got != want or sim.thread_deaths or conn is None or (waiting_dwa and conn.state != sim.peer_mod.PEER_READY):
                    run.violation("chunking-invariance", case,
                                  {"answered": got[:60], "deaths": [str(d)[:80] for d in sim.thread_deaths],
                                   "state": None if conn is None else hex(conn.state)},
                                  {"answered": "hop-by-hop 100..%d, once each, in order" % (99 + K)},
                                  what="a stream of requests cut into network reads was not delivered and answered message by message")
            finally:
                sim.shutdown()


def replay(r):
    c = r["case"]
    stream = bytes.fromhex(c["stream"])
    if sum(n for n in c["chunks"] if n >= 0) != len(stream):
        print("replay: stream truncated in the replay file; re-run ./check C05")
        return False
    chunks, i = [], 0
    for n in c["chunks"]:
        if n < 0:
            chunks.append(None)
            continue
        chunks.append(stream[i:i + n])
        i += n
    dl, closed, left, spun = run_reader(chunks, line_limit=60 * len(stream) + 3000)
    print("replay: delivered", len(dl), "closed", closed, "left", len(left), "spun", spun)
    return not spun
