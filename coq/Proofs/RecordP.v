From DV Require Import Prelude.Base Model.Record.

(* invariant of the one-statement program, for any identifiers and any initial table *)
Definition rinv (e1 e2 : Z) (t0 : option (list Z)) (s : rst) : Prop :=
  r_crashed s = false /\
  ((r_p1 s = record_prog /\ r_p2 s = record_prog /\ r_table s = t0) \/
   (r_p1 s = [] /\ r_p2 s = record_prog /\ r_table s = Some (window_of t0 ++ [e1])) \/
   (r_p1 s = record_prog /\ r_p2 s = [] /\ r_table s = Some (window_of t0 ++ [e2])) \/
   (r_p1 s = [] /\ r_p2 s = [] /\
    (r_table s = Some (window_of t0 ++ [e1; e2]) \/ r_table s = Some (window_of t0 ++ [e2; e1])))).

Lemma rinv_init e1 e2 t0 : rinv e1 e2 t0 (rinit record_prog t0).
Proof. split; [reflexivity | left; repeat split]. Qed.

Lemma app_two (w : list Z) a b : (w ++ [a]) ++ [b] = w ++ [a; b].
Proof. rewrite <- app_assoc; reflexivity. Qed.

Lemma rinv_step e1 e2 t0 s b : rinv e1 e2 t0 s -> rinv e1 e2 t0 (rstep e1 e2 s b).
Proof.
  intros [C H]. unfold rstep; rewrite C.
  destruct H as [[P1 [P2 T]] | [[P1 [P2 T]] | [[P1 [P2 T]] | [P1 [P2 T]]]]]; destruct b; rewrite ?P1, ?P2; cbn.
  - split; [reflexivity|]. right; left; repeat split; try assumption. rewrite T; destruct t0; reflexivity.
  - split; [reflexivity|]. right; right; left; repeat split; try assumption. rewrite T; destruct t0; reflexivity.
  - split; [exact C|]. right; left; repeat split; assumption.
  - split; [reflexivity|]. right; right; right; repeat split; try assumption. left; rewrite T; cbn; rewrite app_two; reflexivity.
  - split; [reflexivity|]. right; right; right; repeat split; try assumption. right; rewrite T; cbn; rewrite app_two; reflexivity.
  - split; [exact C|]. right; right; left; repeat split; assumption.
  - split; [exact C|]. right; right; right; repeat split; assumption.
  - split; [exact C|]. right; right; right; repeat split; assumption.
Qed.

Lemma rinv_run e1 e2 t0 l : forall s, rinv e1 e2 t0 s -> rinv e1 e2 t0 (rrun e1 e2 l s).
Proof.
  induction l as [|b l IH]; intros s H; [exact H|].
  unfold rrun; cbn [fold_left]; apply IH; apply rinv_step; exact H.
Qed.

(* every schedule: nothing raises; once both threads are through, both identifiers are in the window, behind what was there *)
Lemma record_all_schedules e1 e2 t0 l :
  let s := rrun e1 e2 l (rinit record_prog t0) in
  r_crashed s = false /\
  (r_p1 s = [] -> r_p2 s = [] ->
   exists w, r_table s = Some (window_of t0 ++ w) /\ In e1 w /\ In e2 w /\ length w = 2%nat).
Proof.
  cbn zeta. pose proof (rinv_run e1 e2 t0 l _ (rinv_init e1 e2 t0)) as [C H]. split; [exact C|].
  intros D1 D2.
  destruct H as [[P1 _] | [[_ [P2 _]] | [[P1 _] | [_ [_ [T | T]]]]]];
    try (rewrite D1 in P1; discriminate); try (rewrite D2 in P2; discriminate).
  - exists [e1; e2]; repeat split; cbn; auto.
  - exists [e2; e1]; repeat split; cbn; auto.
Qed.

(* the statement order before commit 7984a40: a schedule loses the first identifier *)
Lemma record_test_then_create_refuted :
  exists l, let s := rrun 1 2 l (rinit record_prog_test_then_create None) in
            r_p1 s = [] /\ r_p2 s = [] /\ r_crashed s = false /\ r_table s = Some [2].
Proof. exists [true; false; true; true; false; false]. vm_compute. repeat split. Qed.

Example record_example :
  r_table (rrun 7 9 [false; true] (rinit record_prog (Some [5]))) = Some [5; 9; 7].
Proof. reflexivity. Qed.
