(* Model of diameter.node.Node / PeerConnection / Application at the granularity of
   "environment event -> run every thread to quiescence" (the macro-step semantics of
   tools/vsim).  One function per Python method; the step function composes them the way
   the reader / writer / I-O threads do.  Names are strings (String imported; list
   functions written qualified).  Definitions only. *)
From DV Require Import Prelude.Base.
From Coq Require Import String.

(* ---- abstract messages -------------------------------------------------------- *)
Inductive cmd : Set := CE | DW | DP | App (code : Z).
Definition cmd_eqb (a b : cmd) : bool :=
  match a, b with
  | CE, CE | DW, DW | DP, DP => true
  | App x, App y => x =? y
  | _, _ => false
  end.

(* hasattr semantics of typed messages: a declared attribute is always "there" (None if
   the AVP was absent); an undeclared one raises AttributeError *)
Inductive pres (A : Type) : Type := Undeclared | Absent | Present (a : A).
Arguments Undeclared {A}.
Arguments Absent {A}.
Arguments Present {A} a.

Record msg : Type := {
  m_cmd : cmd; m_req : bool; m_p : bool; m_e : bool; m_t : bool;
  m_app : Z; m_hbh : Z; m_e2e : Z;
  m_origin : pres string;        (* Origin-Host *)
  m_drealm : pres string;        (* Destination-Realm *)
  m_result : pres Z;             (* Result-Code *)
  m_missing : list (Z * Z);      (* required AVPs that are not set, in definition order (typed classes) *)
  m_has_failed_avp_slot : bool;  (* the answer class of this request declares Failed-AVP *)
  m_auth : list Z; m_acct : list Z;   (* advertised application ids (CER/CEA), vendor-specific included *)
  m_tag : Z                      (* opaque payload tag so that distinct messages stay distinct *)
}.

(* the environment's choice whether the application's request handler raises on this message travels in the tag *)
Definition TAG_HANDLER_RAISES : Z := 1.
Definition handler_raises (m : msg) : bool := m_tag m =? TAG_HANDLER_RAISES.

(* what the node puts on the wire, as far as the properties look at it *)
Record omsg : Type := {
  o_cmd : cmd; o_req : bool; o_app : Z; o_hbh : Z; o_e2e : Z;
  o_result : option Z; o_failed : list (Z * Z); o_tag : Z
}.

(* ---- configuration and state ---------------------------------------------------- *)
Inductive cstate : Set :=
| SConnecting | SConnected | SReady | SReadyWaitDwa | SDisconnecting | SClosing | SClosed.
Definition cstate_eqb (a b : cstate) : bool :=
  match a, b with
  | SConnecting, SConnecting | SConnected, SConnected | SReady, SReady | SReadyWaitDwa, SReadyWaitDwa
  | SDisconnecting, SDisconnecting | SClosing, SClosing | SClosed, SClosed => true
  | _, _ => false
  end.
Definition is_ready_state (s : cstate) : bool :=
  match s with SReady | SReadyWaitDwa => true | _ => false end.

(* DISCONNECT_REASON_* *)
Definition R_DPR : Z := 32.             Definition R_SHUTDOWN : Z := 33.
Definition R_CLEAN : Z := 34.           Definition R_SOCKET_FAIL : Z := 48.
Definition R_GONE : Z := 49.            Definition R_FAILED_CONNECT : Z := 50.
Definition R_FAILED_CE : Z := 51.       Definition R_CER_REJECTED : Z := 52.
Definition R_DWA_TIMEOUT : Z := 53.     Definition R_UNKNOWN : Z := 64.

Record peer : Type := {
  p_name : string; p_realm : string; p_has_addr : bool; p_persistent : bool; p_always : bool;
  p_cea : option Z; p_cer : option Z; p_dwa : option Z; p_idle : option Z; p_rwait : Z;
  p_conn : option nat; p_reason : option Z; p_lastconn : option Z; p_lastdisc : option Z;
  p_reqs : Z
}.

Record conn : Type := {
  c_id : nat; c_recv : bool (* PEER_RECV *); c_state : cstate;
  c_node_name : string; c_host : string (* host_identity *);
  c_last_read : Z; c_last_dwr : Z;
  c_auth : list Z; c_acct : list Z;
  c_hbh : Z;                (* SequenceGenerator state of hop_by_hop_seq *)
  c_sock_open : bool;
  c_stalled : bool;         (* the socket accepts no writes at the moment *)
  c_out : list omsg;        (* encoded but not yet accepted by the socket *)
  c_workers : bool          (* reader/writer threads alive *)
}.

Record app : Type := {
  a_id : Z; a_auth : bool; a_acct : bool;
  a_ready : bool;
  a_waiting : list (Z * Z)  (* (hop-by-hop id, deadline) of callers blocked in send_request *)
}.

Record cfg : Type := {
  g_host : string; g_realm : string;
  g_cea : Z; g_cer : Z; g_dwa : Z; g_idle : Z; g_wakeup : Z;
  g_rsize : nat;            (* retransmit_queue_size *)
  g_validate : bool;
  g_state_id : Z
}.

(* route table: realm -> (application index | default) -> peer names *)
Inductive rkey : Set := RApp (i : nat) | RDefault.
Definition route : Type := (string * list (rkey * list string))%type.

Record node : Type := {
  n_cfg : cfg;
  n_now : Z; n_io_deadline : Z; n_stopping : bool;
  n_peers : list peer; n_conns : list conn; n_next_cid : nat;
  n_half_ready : list nat; n_socket_peers : list nat;
  n_routes : list route; n_apps : list app;
  n_app_waiting : list (Z * Z * nat);           (* (hbh, e2e) -> application index *)
  n_peer_waiting : list (string * list (Z * Z)); (* host identity -> (hop-by-hop, end-to-end) ids awaiting an application answer *)
  n_origin_waiting : list (nat * Z * Z * string);   (* (connection, hbh, e2e) -> origin host *)
  n_sent_answers : list (string * list Z);      (* origin host -> last answered end-to-end ids (bounded) *)
  n_e2e : Z                                     (* SequenceGenerator state of end_to_end_seq *)
}.

(* ---- outputs ---------------------------------------------------------------------- *)
Inductive output : Type :=
| OQueue (cid : nat) (m : omsg)         (* the node hands m to the connection (Node.send_message): ghost, not observed *)
| OSend (cid : nat) (m : omsg)          (* bytes of m accepted by the socket of cid *)
| ODeliver (app : nat) (m : msg)        (* Application.receive_request *)
| OAnswerTo (app : nat) (m : msg)       (* a blocked send_request caller is handed its answer *)
| OUnexpected (app : nat) (m : msg)     (* Application.handle_answer *)
| OClose (cid : nat) (reason : Z)       (* socket closed, connection removed *)
| ODial (peer : string)                 (* connect() called *)
| ONotRoutable.                         (* NotRoutable raised to the calling application thread *)

(* ---- small helpers ---------------------------------------------------------------- *)
Definition seq_next (s : Z) : Z := if s =? 4294967295 then 1 else s + 1.

Fixpoint upd_conn (l : list conn) (i : nat) (f : conn -> conn) : list conn :=
  match l with
  | [] => []
  | c :: r => if Nat.eqb (c_id c) i then f c :: r else c :: upd_conn r i f
  end.
Definition get_conn (n : node) (i : nat) : option conn := List.find (fun c => Nat.eqb (c_id c) i) (n_conns n).
Fixpoint upd_peer (l : list peer) (name : string) (f : peer -> peer) : list peer :=
  match l with
  | [] => []
  | p :: r => if String.eqb (p_name p) name then f p :: r else p :: upd_peer r name f
  end.
Definition get_peer (n : node) (name : string) : option peer :=
  List.find (fun p => String.eqb (p_name p) name) (n_peers n).
Fixpoint upd_app (l : list app) (i : nat) (f : app -> app) : list app :=
  match l, i with
  | [], _ => []
  | a :: r, O => f a :: r
  | a :: r, S j => a :: upd_app r j f
  end.

Definition set_conns (n : node) (l : list conn) : node :=
  {| n_cfg := n_cfg n; n_now := n_now n; n_io_deadline := n_io_deadline n; n_stopping := n_stopping n;
     n_peers := n_peers n; n_conns := l; n_next_cid := n_next_cid n; n_half_ready := n_half_ready n;
     n_socket_peers := n_socket_peers n; n_routes := n_routes n; n_apps := n_apps n;
     n_app_waiting := n_app_waiting n; n_peer_waiting := n_peer_waiting n;
     n_origin_waiting := n_origin_waiting n; n_sent_answers := n_sent_answers n; n_e2e := n_e2e n |}.
Definition set_peers (n : node) (l : list peer) : node :=
  {| n_cfg := n_cfg n; n_now := n_now n; n_io_deadline := n_io_deadline n; n_stopping := n_stopping n;
     n_peers := l; n_conns := n_conns n; n_next_cid := n_next_cid n; n_half_ready := n_half_ready n;
     n_socket_peers := n_socket_peers n; n_routes := n_routes n; n_apps := n_apps n;
     n_app_waiting := n_app_waiting n; n_peer_waiting := n_peer_waiting n;
     n_origin_waiting := n_origin_waiting n; n_sent_answers := n_sent_answers n; n_e2e := n_e2e n |}.
Definition set_apps (n : node) (l : list app) : node :=
  {| n_cfg := n_cfg n; n_now := n_now n; n_io_deadline := n_io_deadline n; n_stopping := n_stopping n;
     n_peers := n_peers n; n_conns := n_conns n; n_next_cid := n_next_cid n; n_half_ready := n_half_ready n;
     n_socket_peers := n_socket_peers n; n_routes := n_routes n; n_apps := l;
     n_app_waiting := n_app_waiting n; n_peer_waiting := n_peer_waiting n;
     n_origin_waiting := n_origin_waiting n; n_sent_answers := n_sent_answers n; n_e2e := n_e2e n |}.
Definition set_tables (n : node) (hr sp : list nat) : node :=
  {| n_cfg := n_cfg n; n_now := n_now n; n_io_deadline := n_io_deadline n; n_stopping := n_stopping n;
     n_peers := n_peers n; n_conns := n_conns n; n_next_cid := n_next_cid n; n_half_ready := hr;
     n_socket_peers := sp; n_routes := n_routes n; n_apps := n_apps n;
     n_app_waiting := n_app_waiting n; n_peer_waiting := n_peer_waiting n;
     n_origin_waiting := n_origin_waiting n; n_sent_answers := n_sent_answers n; n_e2e := n_e2e n |}.
Definition set_waiting (n : node) (aw : list (Z * Z * nat)) (pw : list (string * list (Z * Z)))
           (ow : list (nat * Z * Z * string)) (sa : list (string * list Z)) : node :=
  {| n_cfg := n_cfg n; n_now := n_now n; n_io_deadline := n_io_deadline n; n_stopping := n_stopping n;
     n_peers := n_peers n; n_conns := n_conns n; n_next_cid := n_next_cid n; n_half_ready := n_half_ready n;
     n_socket_peers := n_socket_peers n; n_routes := n_routes n; n_apps := n_apps n;
     n_app_waiting := aw; n_peer_waiting := pw; n_origin_waiting := ow; n_sent_answers := sa; n_e2e := n_e2e n |}.
Definition set_time (n : node) (now dl : Z) : node :=
  {| n_cfg := n_cfg n; n_now := now; n_io_deadline := dl; n_stopping := n_stopping n;
     n_peers := n_peers n; n_conns := n_conns n; n_next_cid := n_next_cid n; n_half_ready := n_half_ready n;
     n_socket_peers := n_socket_peers n; n_routes := n_routes n; n_apps := n_apps n;
     n_app_waiting := n_app_waiting n; n_peer_waiting := n_peer_waiting n;
     n_origin_waiting := n_origin_waiting n; n_sent_answers := n_sent_answers n; n_e2e := n_e2e n |}.
Definition set_misc (n : node) (stopping : bool) (next_cid : nat) (e2e : Z) : node :=
  {| n_cfg := n_cfg n; n_now := n_now n; n_io_deadline := n_io_deadline n; n_stopping := stopping;
     n_peers := n_peers n; n_conns := n_conns n; n_next_cid := next_cid; n_half_ready := n_half_ready n;
     n_socket_peers := n_socket_peers n; n_routes := n_routes n; n_apps := n_apps n;
     n_app_waiting := n_app_waiting n; n_peer_waiting := n_peer_waiting n;
     n_origin_waiting := n_origin_waiting n; n_sent_answers := n_sent_answers n; n_e2e := e2e |}.

Definition set_cstate (c : conn) (s : cstate) : conn :=
  {| c_id := c_id c; c_recv := c_recv c; c_state := s; c_node_name := c_node_name c; c_host := c_host c;
     c_last_read := c_last_read c; c_last_dwr := c_last_dwr c; c_auth := c_auth c; c_acct := c_acct c;
     c_hbh := c_hbh c; c_sock_open := c_sock_open c; c_stalled := c_stalled c; c_out := c_out c;
     c_workers := c_workers c |}.
Definition set_cout (c : conn) (o : list omsg) : conn :=
  {| c_id := c_id c; c_recv := c_recv c; c_state := c_state c; c_node_name := c_node_name c; c_host := c_host c;
     c_last_read := c_last_read c; c_last_dwr := c_last_dwr c; c_auth := c_auth c; c_acct := c_acct c;
     c_hbh := c_hbh c; c_sock_open := c_sock_open c; c_stalled := c_stalled c; c_out := o;
     c_workers := c_workers c |}.
Definition set_ctimes (c : conn) (lr ld : Z) : conn :=
  {| c_id := c_id c; c_recv := c_recv c; c_state := c_state c; c_node_name := c_node_name c; c_host := c_host c;
     c_last_read := lr; c_last_dwr := ld; c_auth := c_auth c; c_acct := c_acct c;
     c_hbh := c_hbh c; c_sock_open := c_sock_open c; c_stalled := c_stalled c; c_out := c_out c;
     c_workers := c_workers c |}.
Definition set_cident (c : conn) (node_name host : string) (auth acct : list Z) : conn :=
  {| c_id := c_id c; c_recv := c_recv c; c_state := c_state c; c_node_name := node_name; c_host := host;
     c_last_read := c_last_read c; c_last_dwr := c_last_dwr c; c_auth := auth; c_acct := acct;
     c_hbh := c_hbh c; c_sock_open := c_sock_open c; c_stalled := c_stalled c; c_out := c_out c;
     c_workers := c_workers c |}.
Definition set_csock (c : conn) (open stalled workers : bool) : conn :=
  {| c_id := c_id c; c_recv := c_recv c; c_state := c_state c; c_node_name := c_node_name c; c_host := c_host c;
     c_last_read := c_last_read c; c_last_dwr := c_last_dwr c; c_auth := c_auth c; c_acct := c_acct c;
     c_hbh := c_hbh c; c_sock_open := open; c_stalled := stalled; c_out := c_out c; c_workers := workers |}.
Definition set_chbh (c : conn) (h : Z) : conn :=
  {| c_id := c_id c; c_recv := c_recv c; c_state := c_state c; c_node_name := c_node_name c; c_host := c_host c;
     c_last_read := c_last_read c; c_last_dwr := c_last_dwr c; c_auth := c_auth c; c_acct := c_acct c;
     c_hbh := h; c_sock_open := c_sock_open c; c_stalled := c_stalled c; c_out := c_out c;
     c_workers := c_workers c |}.

Definition set_pconn (p : peer) (c : option nat) (reason lastconn lastdisc : option Z) : peer :=
  {| p_name := p_name p; p_realm := p_realm p; p_has_addr := p_has_addr p; p_persistent := p_persistent p;
     p_always := p_always p; p_cea := p_cea p; p_cer := p_cer p; p_dwa := p_dwa p; p_idle := p_idle p;
     p_rwait := p_rwait p; p_conn := c; p_reason := reason; p_lastconn := lastconn; p_lastdisc := lastdisc;
     p_reqs := p_reqs p |}.
Definition set_preqs (p : peer) (k : Z) : peer :=
  {| p_name := p_name p; p_realm := p_realm p; p_has_addr := p_has_addr p; p_persistent := p_persistent p;
     p_always := p_always p; p_cea := p_cea p; p_cer := p_cer p; p_dwa := p_dwa p; p_idle := p_idle p;
     p_rwait := p_rwait p; p_conn := p_conn p; p_reason := p_reason p; p_lastconn := p_lastconn p;
     p_lastdisc := p_lastdisc p; p_reqs := k |}.

Definition mem_nat (x : nat) (l : list nat) : bool := List.existsb (Nat.eqb x) l.
Definition remove_nat (x : nat) (l : list nat) : list nat := List.filter (fun y => negb (Nat.eqb x y)) l.
Definition mem_z (x : Z) (l : list Z) : bool := List.existsb (Z.eqb x) l.
Definition remove_z (x : Z) (l : list Z) : list Z := List.filter (fun y => negb (Z.eqb x y)) l.
Definition inter_z (a b : list Z) : list Z := List.filter (fun x => mem_z x b) a.

(* node.auth_application_ids / acct_application_ids *)
(* (Python sets: an application id registered twice counts once) *)
Fixpoint dedup_z (l : list Z) : list Z :=
  match l with
  | [] => []
  | x :: r => if mem_z x r then dedup_z r else x :: dedup_z r
  end.
Definition node_auth (n : node) : list Z := dedup_z (List.map a_id (List.filter a_auth (n_apps n))).
Definition node_acct (n : node) : list Z := dedup_z (List.map a_id (List.filter a_acct (n_apps n))).

(* _find_connection_peer: by node_name, else by host_identity *)
Definition find_conn_peer (n : node) (c : conn) : option peer :=
  match get_peer n (c_node_name c) with
  | Some p => Some p
  | None => get_peer n (c_host c)
  end.

(* ---- sending ------------------------------------------------------------------------ *)
(* _record_answer *)
Definition bounded_append (k : nat) (l : list Z) (x : Z) : list Z :=
  let l' := (l ++ [x])%list in
  List.skipn (List.length l' - k) l'.
Fixpoint sa_append (k : nat) (sa : list (string * list Z)) (origin : string) (e2e : Z) : list (string * list Z) :=
  match sa with
  | [] => [(origin, bounded_append k [] e2e)]
  | (o, l) :: r => if String.eqb o origin then (o, bounded_append k l e2e) :: r
                   else (o, l) :: sa_append k r origin e2e
  end.
(* the origin table is keyed by connection AND identifiers: hop-by-hop identifiers are unique per connection only *)
Definition ow_key (cid : nat) (hbh e2e : Z) (x : nat * Z * Z * string) : bool :=
  let '(c, h, e, _) := x in Nat.eqb c cid && (h =? hbh) && (e =? e2e).
Definition record_answer (n : node) (cid : nat) (hbh e2e : Z) : node :=
  match List.find (ow_key cid hbh e2e) (n_origin_waiting n) with
  | None => n
  | Some (_, _, _, origin) =>
      set_waiting n (n_app_waiting n) (n_peer_waiting n)
        (List.filter (fun x => negb (ow_key cid hbh e2e x)) (n_origin_waiting n))
        (sa_append (g_rsize (n_cfg n)) (n_sent_answers n) origin e2e)
  end.

(* a request that will never be answered leaves the origin table (route_answer failing after it took the waiting
   entry; a capabilities-exchange request that is ignored) *)
Definition drop_origin (n : node) (cid : nat) (hbh e2e : Z) : node :=
  set_waiting n (n_app_waiting n) (n_peer_waiting n)
    (List.filter (fun x => negb (ow_key cid hbh e2e x)) (n_origin_waiting n))
    (n_sent_answers n).

Definition mem_zz (x : Z * Z) (l : list (Z * Z)) : bool := List.existsb (fun y => (fst x =? fst y) && (snd x =? snd y)) l.
Definition remove_zz (x : Z * Z) (l : list (Z * Z)) : list (Z * Z) :=
  List.filter (fun y => negb ((fst x =? fst y) && (snd x =? snd y))) l.
Definition pw_remove (pw : list (string * list (Z * Z))) (host : string) (k : Z * Z) : list (string * list (Z * Z)) :=
  List.map (fun e => if String.eqb (fst e) host then (fst e, remove_zz k (snd e)) else e) pw.

(* the writer thread encodes the queued message and appends it to the connection's write buffer;
   the bytes reach the socket at the next I/O iteration (see `flush`) if the connection still
   exists then *)
Definition queue_out (n : node) (cid : nat) (m : omsg) : node * list output :=
  (set_conns n (upd_conn (n_conns n) cid (fun c => set_cout c (c_out c ++ [m])%list)), [OQueue cid m]).

(* Node.send_message *)
Definition send_message (n : node) (cid : nat) (m : omsg) : node * list output :=
  let n1 :=
    if o_req m then n
    else match get_conn n cid with
         | Some c => set_waiting n (n_app_waiting n) (pw_remove (n_peer_waiting n) (c_host c) (o_hbh m, o_e2e m))
                                 (n_origin_waiting n) (n_sent_answers n)
         | None => n
         end in
  let '(n2, out) := queue_out n1 cid m in
  ((if o_req m then n2 else record_answer n2 cid (o_hbh m) (o_e2e m)), out).

(* Message.to_answer + Node._generate_answer, reduced to what is observed *)
Definition answer_of (m : msg) (result : option Z) (failed : list (Z * Z)) : omsg :=
  {| o_cmd := m_cmd m; o_req := false; o_app := m_app m; o_hbh := m_hbh m; o_e2e := m_e2e m;
     o_result := result; o_failed := failed; o_tag := 0 |}.

(* ---- connection tables ------------------------------------------------------------------ *)
(* _flag_connection_as_ready: READY, and every application one of whose routed peers is
   connected through this connection becomes ready *)
Definition app_peers (n : node) (i : nat) : list string :=
  List.flat_map (fun r => List.flat_map (fun kv => match fst kv with
                                                   | RApp j => if Nat.eqb i j then snd kv else []
                                                   | RDefault => []
                                                   end) (snd r)) (n_routes n).
Definition peer_has_conn (n : node) (name : string) (cid : nat) : bool :=
  match get_peer n name with
  | Some p => match p_conn p with Some k => Nat.eqb k cid | None => false end
  | None => false
  end.
Definition set_aready (a : app) (b : bool) : app :=
  {| a_id := a_id a; a_auth := a_auth a; a_acct := a_acct a; a_ready := b; a_waiting := a_waiting a |}.
Definition flag_ready (n : node) (cid : nat) : node :=
  let n1 := set_conns n (upd_conn (n_conns n) cid (fun c => set_cstate c SReady)) in
  set_apps n1 (List.map (fun ia => let '(i, a) := ia in
                   if List.existsb (fun nm => peer_has_conn n1 nm cid) (app_peers n1 i) then set_aready a true else a)
                 (List.combine (List.seq 0 (List.length (n_apps n1))) (n_apps n1))).

(* _assign_peer_connection *)
Definition assign_peer_conn (n : node) (cid : nat) : node :=
  match get_conn n cid with
  | None => n
  | Some c =>
      if String.eqb (c_host c) "" then n else
      match get_peer n (c_host c) with
      | None => n
      | Some p =>
          let was_half := mem_nat cid (n_half_ready n) in
          let n1 := set_peers n (upd_peer (n_peers n) (c_host c) (fun p =>
                      set_pconn p (match p_conn p with Some k => Some k | None => Some cid end) None
                                (if was_half then Some (n_now n) else p_lastconn p) (p_lastdisc p))) in
          if was_half then set_tables n1 (remove_nat cid (n_half_ready n1)) (n_socket_peers n1) else n1
      end
  end.

(* remove_peer_connection (as repaired: peer.connection is cleared only if it IS this
   connection; socket_peers and _half_ready_connections are pruned) *)
Definition any_peer_ready (n : node) (names : list string) : bool :=
  List.existsb (fun nm => match get_peer n nm with
                          | Some p => match p_conn p with
                                      | Some k => match get_conn n k with
                                                  | Some c => is_ready_state (c_state c)
                                                  | None => false
                                                  end
                                      | None => false
                                      end
                          | None => false
                          end) names.
Definition remove_conn (n : node) (cid : nat) (reason : Z) : node :=
  match get_conn n cid with
  | None => n
  | Some c =>
      let n1 := set_conns n (List.filter (fun x => negb (Nat.eqb (c_id x) cid)) (n_conns n)) in
      let n2 := match find_conn_peer n c with
                | None => n1
                | Some p =>
                    match p_conn p with
                    | Some k =>
                        if Nat.eqb k cid then
                          set_peers n1 (upd_peer (n_peers n1) (p_name p) (fun p =>
                            set_pconn p None (match p_reason p with Some r => Some r | None => Some reason end)
                                      (p_lastconn p) (Some (n_now n))))
                        else n1          (* another connection of the peer is its connection *)
                    | None => n1
                    end
                end in
      (* the requests of this host that were still waiting for the application's answer will never be answered:
         their entries in the origin table go with them *)
      let gone := match List.find (fun e => String.eqb (fst e) (c_host c)) (n_peer_waiting n2) with
                  | Some e => snd e
                  | None => []
                  end in
      let n3 := set_waiting n2 (n_app_waiting n2)
                  (List.filter (fun e => negb (String.eqb (fst e) (c_host c))) (n_peer_waiting n2))
                  (List.filter (fun x => let '(k, h, e, _) := x in negb (Nat.eqb k cid && mem_zz (h, e) gone)) (n_origin_waiting n2))
                  (n_sent_answers n2) in
      let n4 := set_tables n3 (remove_nat cid (n_half_ready n3)) (remove_nat cid (n_socket_peers n3)) in
      set_apps n4 (List.map (fun ia => let '(i, a) := ia in
                      if any_peer_ready n4 (app_peers n4 i) then a else set_aready a false)
                    (List.combine (List.seq 0 (List.length (n_apps n4))) (n_apps n4)))
  end.

(* close_connection_socket: close the socket, stop the workers, remove the connection *)
Definition close_conn (n : node) (cid : nat) (reason : Z) : node * list output :=
  match get_conn n cid with
  | None => (n, [])
  | Some c => (remove_conn n cid reason, [OClose cid reason])
  end.

(* _add_peer_connection for an accepted (inbound) connection *)
Definition new_conn (cid : nat) (recv : bool) (st : cstate) (name : string) (now hbh0 : Z) : conn :=
  {| c_id := cid; c_recv := recv; c_state := st; c_node_name := name; c_host := ""; c_last_read := now;
     c_last_dwr := 0; c_auth := []; c_acct := []; c_hbh := hbh0; c_sock_open := true; c_stalled := false;
     c_out := []; c_workers := true |}.

(* ---- base protocol handlers ------------------------------------------------------------------ *)
Definition RC_SUCCESS : Z := 2001.   Definition RC_UNKNOWN_PEER : Z := 3010.
Definition RC_NO_COMMON_APP : Z := 5010.  Definition RC_MISSING_AVP : Z := 5005.
Definition RC_UNABLE : Z := 5012.    Definition RC_APP_UNSUPPORTED : Z := 3007.
Definition RC_REALM_NOT_SERVED : Z := 3003.  Definition RC_TOO_BUSY : Z := 3004.
Definition APP_RELAY : Z := 4294967295.

Definition pres_get {A} (p : pres A) : option A := match p with Present a => Some a | _ => None end.

(* receive_cer.  RFC 6733 5.6.4 election: the other connections towards the same peer (by node name:
   established ones and those still being dialled) are removed when the local host name is the greater
   one, otherwise the new connection is refused with ELECTION_LOST. *)
Definition RC_ELECTION_LOST : Z := 4003.
Fixpoint close_all (n : node) (cids : list nat) (reason : Z) : node * list output :=
  match cids with
  | [] => (n, [])
  | k :: r => let '(n1, o1) := close_conn n k reason in
              let '(n2, o2) := close_all n1 r reason in (n2, (o1 ++ o2)%list)
  end.
Definition election_rivals (n : node) (cid : nat) (host : string) : list nat :=
  List.map c_id (List.filter (fun c => negb (Nat.eqb (c_id c) cid) && String.eqb (c_node_name c) host) (n_conns n)).

Definition recv_cer (n : node) (cid : nat) (m : msg) : node * list output :=
  match get_conn n cid with
  | None => (n, [])
  | Some c0 =>
  if negb (cstate_eqb (c_state c0) SConnected) then (drop_origin n cid (m_hbh m) (m_e2e m), [])  (* only while the CER is awaited *)
  else
  match pres_get (m_origin m) with
  | None => (n, [])      (* cannot happen after validation; AttributeError path handled by the caller *)
  | Some host =>
      match get_peer n host with
      | None =>
          let n1 := set_conns n (upd_conn (n_conns n) cid (fun c => set_cstate c SClosing)) in
          send_message n1 cid (answer_of m (Some RC_UNKNOWN_PEER) [])
      | Some _ =>
          let n0 := set_conns n (upd_conn (n_conns n) cid (fun c =>
                      if String.eqb (c_node_name c) "" then set_cident c host (c_host c) (c_auth c) (c_acct c) else c)) in
          let rivals := election_rivals n0 cid host in
          let won := String.ltb host (g_host (n_cfg n0)) in
          match rivals, won with
          | _ :: _, false =>
              let n1 := set_conns n0 (upd_conn (n_conns n0) cid (fun c => set_cstate c SClosing)) in
              send_message n1 cid (answer_of m (Some RC_ELECTION_LOST) [])
          | _, _ =>
              let '(n1, oel) := close_all n0 rivals R_CLEAN in
              let sup_auth := inter_z (node_auth n1) (m_auth m) in
              let sup_acct := inter_z (node_acct n1) (m_acct m) in
              let relay := mem_z APP_RELAY (m_auth m) || mem_z APP_RELAY (m_acct m) in
              match sup_auth, sup_acct, relay with
              | [], [], false =>
                  let '(n2, o) := send_message n1 cid (answer_of m (Some RC_NO_COMMON_APP) []) in (n2, (oel ++ o)%list)
              | _, _, _ =>
                  let n2 := set_conns n1 (upd_conn (n_conns n1) cid (fun c => set_cident c (c_node_name c) host sup_auth sup_acct)) in
                  let n3 := flag_ready (assign_peer_conn n2 cid) cid in
                  let '(n4, o) := send_message n3 cid (answer_of m (Some RC_SUCCESS) []) in (n4, (oel ++ o)%list)
              end
          end
      end
  end
  end.

(* receive_cea: only while the answer is awaited (CONNECTED); a result other than 2001, or an Origin-Host
   other than the peer that was dialled, closes the connection *)
Definition recv_cea (n : node) (cid : nat) (m : msg) : node * list output :=
  match get_conn n cid with
  | None => (n, [])
  | Some c0 =>
      if negb (cstate_eqb (c_state c0) SConnected) then (n, [])
      else
      match m_result m with
      | Present 2001 =>
          match pres_get (m_origin m) with
          | None => (n, [])       (* AttributeError in the handler of an ANSWER: nothing is sent *)
          | Some host =>
              if negb (String.eqb (c_node_name c0) "") && negb (String.eqb host (c_node_name c0))
              then close_conn n cid R_CER_REJECTED
              else
              let n1 := set_conns n (upd_conn (n_conns n) cid (fun c =>
                          set_cident c (c_node_name c) host (inter_z (node_auth n) (m_auth m)) (inter_z (node_acct n) (m_acct m)))) in
              (flag_ready (assign_peer_conn n1 cid) cid, [])
          end
      | _ => close_conn n cid R_CER_REJECTED
      end
  end.

(* receive_dwr / receive_dwa / receive_dpr / receive_dpa *)
Definition recv_dwr (n : node) (cid : nat) (m : msg) : node * list output :=
  send_message n cid (answer_of m (Some RC_SUCCESS) []).
Definition recv_dwa (n : node) (cid : nat) : node * list output :=
  (set_conns n (upd_conn (n_conns n) cid (fun c =>
     set_ctimes (if cstate_eqb (c_state c) SReadyWaitDwa then set_cstate c SReady else c) (c_last_read c) 0)), []).
Definition recv_dpr (n : node) (cid : nat) (m : msg) : node * list output :=
  let n1 := set_conns n (upd_conn (n_conns n) cid (fun c => set_cstate c SDisconnecting)) in
  let n2 := match get_conn n1 cid with
            | Some c => match find_conn_peer n1 c with
                        | Some p => set_peers n1 (upd_peer (n_peers n1) (p_name p) (fun p =>
                                      set_pconn p (p_conn p) (Some R_DPR) (p_lastconn p) (p_lastdisc p)))
                        | None => n1
                        end
            | None => n1
            end in
  send_message n2 cid (answer_of m (Some RC_SUCCESS) []).
(* DPA: CLOSING, then the I/O thread closes the socket once the write buffer is empty *)
Definition recv_dpa (n : node) (cid : nat) : node * list output :=
  let n1 := set_conns n (upd_conn (n_conns n) cid (fun c => set_cstate c SClosing)) in
  match get_conn n1 cid with
  | Some c => match c_out c with
              | [] => close_conn n1 cid R_CLEAN
              | _ => (n1, [])
              end
  | None => (n1, [])
  end.

Definition set_awaiting (a : app) (l : list (Z * Z)) : app :=
  {| a_id := a_id a; a_auth := a_auth a; a_acct := a_acct a; a_ready := a_ready a; a_waiting := l |}.

(* ---- application routing ---------------------------------------------------------------------- *)
Definition pw_add (pw : list (string * list (Z * Z))) (host : string) (k : Z * Z) : list (string * list (Z * Z)) :=
  if List.existsb (fun e => String.eqb (fst e) host) pw
  then List.map (fun e => if String.eqb (fst e) host
                          then (fst e, if mem_zz k (snd e) then snd e else (snd e ++ [k])%list) else e) pw
  else (pw ++ [(host, [k])])%list.

Definition route_lookup (n : node) (realm : string) : option (list (rkey * list string)) :=
  match List.find (fun r => String.eqb (fst r) realm) (n_routes n) with
  | Some r => Some (snd r)
  | None => None
  end.

(* _receive_app_request *)
Definition recv_app_request (n : node) (cid : nat) (m : msg) : node * list output :=
  match get_conn n cid with
  | None => (n, [])
  | Some c =>
      let peer := find_conn_peer n c in
      match m_drealm m with
      | Undeclared => send_message n cid (answer_of m (Some RC_APP_UNSUPPORTED) [])
      | Absent => send_message n cid (answer_of m (Some RC_UNABLE) [])     (* None.decode() -> catch-all *)
      | Present realm =>
          match route_lookup n realm with
          | None => send_message n cid (answer_of m (Some RC_REALM_NOT_SERVED) [])
          | Some entries =>
              let pick := List.find (fun kv => match fst kv with
                            | RApp i => match List.nth_error (n_apps n) i with
                                        | Some a => (a_id a =? m_app m) &&
                                                    match peer with
                                                    | Some p => List.existsb (String.eqb (p_name p)) (snd kv)
                                                    | None => true
                                                    end
                                        | None => false
                                        end
                            | RDefault => false
                            end) entries in
              match pick with
              | Some (RApp i, _) =>
                  let n1 := set_waiting n (n_app_waiting n) (pw_add (n_peer_waiting n) (c_host c) (m_hbh m, m_e2e m))
                                        (n_origin_waiting n) (n_sent_answers n) in
                  (* Application.receive_request runs the application's handler in the reader thread; when it raises,
                     the catch-all of _receive_message answers UNABLE_TO_COMPLY *)
                  if handler_raises m
                  then let '(n2, o) := send_message n1 cid (answer_of m (Some RC_UNABLE) []) in (n2, ODeliver i m :: o)
                  else (n1, [ODeliver i m])
              | _ => send_message n cid (answer_of m (Some RC_APP_UNSUPPORTED) [])
              end
          end
      end
  end.

(* _receive_app_answer + Application.receive_answer (as repaired: the entry is dropped once the
   answer has arrived) *)
Definition recv_app_answer (n : node) (m : msg) : node * list output :=
  match List.find (fun x => let '(h, e, _) := x in (h =? m_hbh m) && (e =? m_e2e m)) (n_app_waiting n) with
  | None => (n, [])
  | Some (_, _, i) =>
      match List.nth_error (n_apps n) i with
      | None => (n, [])
      | Some a =>
          let n1 := set_waiting n (List.filter (fun x => let '(h, e, _) := x in negb ((h =? m_hbh m) && (e =? m_e2e m))) (n_app_waiting n))
                                (n_peer_waiting n) (n_origin_waiting n) (n_sent_answers n) in
          if mem_z (m_hbh m) (List.map fst (a_waiting a))
          then (set_apps n1 (upd_app (n_apps n1) i (fun a =>
                  set_awaiting a (List.filter (fun w => negb (fst w =? m_hbh m)) (a_waiting a)))), [OAnswerTo i m])
          else (n1, [OUnexpected i m])
      end
  end.

(* ---- Node._receive_message --------------------------------------------------------------------- *)
Definition sa_mem (sa : list (string * list Z)) (origin : string) (e2e : Z) : bool :=
  List.existsb (fun e => String.eqb (fst e) origin && mem_z e2e (snd e)) sa.

Definition upd_last_read (n : node) (cid : nat) : node :=
  set_conns n (upd_conn (n_conns n) cid (fun c => set_ctimes c (n_now n) (c_last_dwr c))).

Definition receive_message (n : node) (cid : nat) (m : msg) : node * list output :=
  (* origin bookkeeping (as repaired: requests only) *)
  let record := fun o =>
        if m_req m then
          set_waiting n (n_app_waiting n) (n_peer_waiting n)
            ((List.filter (fun x => negb (ow_key cid (m_hbh m) (m_e2e m) x)) (n_origin_waiting n))
               ++ [(cid, m_hbh m, m_e2e m, o)])%list
            (n_sent_answers n)
        else n in
  let n0 := match m_origin m with
            | Undeclared => n
            | Absent => record "<none>"%string        (* hasattr is true for a declared attribute: None is recorded *)
            | Present o => record o
            end in
  (* validation of required AVPs *)
  match (if m_req m && g_validate (n_cfg n0) then m_missing m else []) with
  | _ :: _ =>
      send_message n0 cid (answer_of m (Some RC_MISSING_AVP) (if m_has_failed_avp_slot m then m_missing m else []))
  | [] =>
      (* T flag: retransmission of an already answered request *)
      let dup := match m_origin m with
                 | Present o => m_req m && m_t m && sa_mem (n_sent_answers n0) o (m_e2e m)
                 | Absent => m_req m && m_t m && sa_mem (n_sent_answers n0) "<none>"%string (m_e2e m)
                 | Undeclared => false
                 end in
      if dup then send_message n0 cid (answer_of m (Some RC_UNABLE) [])
      else
        match m_req m, m_cmd m with
        | true, CE =>
            match m_origin m with
            | Present _ => recv_cer n0 cid m
            | _ => send_message n0 cid (answer_of m (Some RC_UNABLE) [])    (* handler raises -> catch-all *)
            end
        | false, CE =>
            recv_cea n0 cid m
        | true, DW => recv_dwr n0 cid m
        | false, DW => recv_dwa n0 cid
        | true, DP => recv_dpr n0 cid m
        | false, DP => recv_dpa n0 cid
        | true, App _ => recv_app_request n0 cid m
        | false, App _ => recv_app_answer n0 m
        end
  end.

(* PeerConnection.__dispatch_message: the gate (as repaired: CLOSING / CLOSED ignore everything) *)
Definition gate_passes (c : conn) (m : msg) : bool :=
  match c_state c with
  | SClosing | SClosed => false
  | SConnected =>
      cmd_eqb (m_cmd m) CE && (if c_recv c then m_req m else negb (m_req m))
  | _ => true
  end.

Definition dispatch (n : node) (cid : nat) (m : msg) : node * list output :=
  match get_conn n cid with
  | None => (n, [])                 (* removed connection: as repaired nothing reaches the node *)
  | Some c => if gate_passes c m then receive_message n cid m else (n, [])
  end.

Fixpoint dispatch_all (n : node) (cid : nat) (ms : list msg) : node * list output :=
  match ms with
  | [] => (n, [])
  | m :: r => let '(n1, o1) := dispatch n cid m in
              let '(n2, o2) := dispatch_all n1 cid r in (n2, (o1 ++ o2)%list)
  end.

(* the write branch of the I/O loop: every open, writable socket takes the whole write buffer;
   a CLOSING connection whose buffer has been emptied is closed (CLEAN_DISCONNECT) *)
Fixpoint flush_conns (n : node) (cids : list nat) : node * list output :=
  match cids with
  | [] => (n, [])
  | cid :: r =>
      let '(n1, o1) :=
        match get_conn n cid with
        | None => (n, [])
        | Some c =>
            if c_stalled c || negb (c_sock_open c) then (n, [])
            else
              let outs := List.map (OSend cid) (c_out c) in
              let n' := set_conns n (upd_conn (n_conns n) cid (fun c => set_cout c [])) in
              match c_out c with
              | [] => (n', [])
              | _ => if cstate_eqb (c_state c) SClosing
                     then let '(n'', oc) := close_conn n' cid R_CLEAN in (n'', (outs ++ oc)%list)
                     else (n', outs)
              end
        end in
      let '(n2, o2) := flush_conns n1 r in (n2, (o1 ++ o2)%list)
  end.
Definition flush (n : node) : node * list output := flush_conns n (List.map c_id (n_conns n)).

(* ---- node originated requests ------------------------------------------------------------------- *)
Definition own_request (n : node) (cid : nat) (c : cmd) : node * omsg :=
  match get_conn n cid with
  | None => (n, {| o_cmd := c; o_req := true; o_app := 0; o_hbh := 0; o_e2e := 0; o_result := None; o_failed := []; o_tag := 0 |})
  | Some cn =>
      let h := seq_next (c_hbh cn) in
      let e := seq_next (n_e2e n) in
      let n1 := set_conns n (upd_conn (n_conns n) cid (fun c => set_chbh c h)) in
      (set_misc n1 (n_stopping n1) (n_next_cid n1) e,
       {| o_cmd := c; o_req := true; o_app := 0; o_hbh := h; o_e2e := e; o_result := None; o_failed := []; o_tag := 0 |})
  end.
Definition send_cer (n : node) (cid : nat) : node * list output :=
  let '(n1, m) := own_request n cid CE in send_message n1 cid m.
Definition send_dwr (n : node) (cid : nat) : node * list output :=
  let '(n1, m) := own_request n cid DW in
  let '(n2, o) := send_message n1 cid m in
  (set_conns n2 (upd_conn (n_conns n2) cid (fun c =>
     set_ctimes (if is_ready_state (c_state c) then set_cstate c SReadyWaitDwa else c) (c_last_read c) (n_now n2))), o).
Definition send_dpr (n : node) (cid : nat) : node * list output :=
  let '(n1, m) := own_request n cid DP in
  let n2 := set_conns n1 (upd_conn (n_conns n1) cid (fun c => set_cstate c SDisconnecting)) in
  send_message n2 cid m.

(* ---- timers ------------------------------------------------------------------------------------------ *)
Definition opt_or (o : option Z) (d : Z) : Z := match o with Some x => if x =? 0 then d else x | None => d end.

(* _check_timers for one connection *)
Definition check_timers (n : node) (cid : nat) : node * list output :=
  if n_stopping n then (n, []) else
  match get_conn n cid with
  | None => (n, [])
  | Some c =>
      let p := find_conn_peer n c in
      let idle := match p with Some p => opt_or (p_idle p) (g_idle (n_cfg n)) | None => g_idle (n_cfg n) end in
      let dwa := match p with Some p => opt_or (p_dwa p) (g_dwa (n_cfg n)) | None => g_dwa (n_cfg n) end in
      let cea := match p with Some p => opt_or (p_cea p) (g_cea (n_cfg n)) | None => g_cea (n_cfg n) end in
      let cer := match p with Some p => opt_or (p_cer p) (g_cer (n_cfg n)) | None => g_cer (n_cfg n) end in
      let since := n_now n - c_last_read c in
      match c_state c with
      | SConnected =>
          if (negb (c_recv c) && (cea <? since)) || (c_recv c && (cer <? since))
          then close_conn n cid R_FAILED_CE else (n, [])
      | SReadyWaitDwa =>
          if dwa <? n_now n - c_last_dwr c then close_conn n cid R_DWA_TIMEOUT else (n, [])
      | SReady => if idle <? since then send_dwr n cid else (n, [])
      | _ => (n, [])
      end
  end.

(* _connect_to_peer with the scripted outcome of socket.connect *)
Inductive dial_result : Set := DialOk | DialRefused | DialInProgress.

Definition connect_to_peer (n : node) (name : string) (hbh0 : Z) (res : dial_result) : node * list output :=
  match get_peer n name with
  | None => (n, [])
  | Some p =>
      match p_conn p with
      | Some _ => (n, [])
      | None =>
          if negb (p_has_addr p) then (n, []) else
          let cid := n_next_cid n in
          let c := new_conn cid false SConnecting name (n_now n) hbh0 in
          let n1 := set_misc (set_conns n (n_conns n ++ [c])%list) (n_stopping n) (S cid) (n_e2e n) in
          let n2 := set_tables n1 (n_half_ready n1) (n_socket_peers n1 ++ [cid])%list in
          let n3 := set_peers n2 (upd_peer (n_peers n2) name (fun p => set_pconn p (Some cid) None (Some (n_now n2)) (p_lastdisc p))) in
          match res with
          | DialRefused =>
              (* as repaired: the socket and the workers of the failed connection are released *)
              let '(n4, o) := close_conn n3 cid R_SOCKET_FAIL in (n4, (ODial name :: o))
          | DialInProgress => (n3, [ODial name])
          | DialOk =>
              let n4 := set_conns n3 (upd_conn (n_conns n3) cid (fun c => set_cstate c SConnected)) in
              let '(n5, o) := send_cer n4 cid in (n5, (ODial name :: o))
          end
      end
  end.

(* _reconnect_peers: which peers are dialled at this wake-up *)
Definition wants_reconnect (n : node) (p : peer) : bool :=
  negb (n_stopping n) && p_persistent p
  && match p_conn p with Some _ => false | None => true end
  && match p_lastdisc p with
     | None => false
     | Some t => p_rwait p <=? n_now n - t
     end
  && negb (match p_reason p with Some r => (r =? R_DPR) && negb (p_always p) | None => false end).

(* one iteration of the I/O loop body after select returned: timers for every connection,
   then reconnects.  `dials` scripts the outcome of each connect() in order. *)
Fixpoint timers_all (n : node) (cids : list nat) : node * list output :=
  match cids with
  | [] => (n, [])
  | c :: r => let '(n1, o1) := check_timers n c in
              let '(n2, o2) := timers_all n1 r in (n2, (o1 ++ o2)%list)
  end.

Fixpoint reconnect_all (n : node) (names : list string) (dials : list (Z * dial_result))
  : node * list output * list (Z * dial_result) :=
  match names with
  | [] => (n, [], dials)
  | nm :: r =>
      match get_peer n nm with
      | Some p =>
          if wants_reconnect n p && p_has_addr p then
            match dials with
            | (h0, res) :: dr =>
                let '(n1, o1) := connect_to_peer n nm h0 res in
                let '(n2, o2, d2) := reconnect_all n1 r dr in (n2, (o1 ++ o2)%list, d2)
            | [] => let '(n1, o1) := connect_to_peer n nm 0 DialOk in
                    let '(n2, o2, d2) := reconnect_all n1 r [] in (n2, (o1 ++ o2)%list, d2)
            end
          else reconnect_all n r dials
      | None => reconnect_all n r dials
      end
  end.

Definition dials := list (Z * dial_result).
Definition io_iteration (n : node) (ds : dials) : node * list output * dials :=
  let '(n1, o1) := timers_all n (List.map c_id (n_conns n)) in
  let '(n2, o2, ds') := reconnect_all n1 (List.map p_name (n_peers n1)) ds in
  (set_time n2 (n_now n2) (n_now n2 + g_wakeup (n_cfg n2)), (o1 ++ o2)%list, ds').

(* ---- events ------------------------------------------------------------------------------------------ *)
Inductive event : Type :=
| EAccept (hbh0 : Z)                               (* a peer connected to the listener *)
| ERecv (cid : nat) (ms : list msg)                 (* one network read holding these frames *)
| EPeerClose (cid : nat)                            (* orderly EOF *)
| EReadErr (cid : nat) (hard : bool)
| EConnDone (cid : nat) (ok : bool)                 (* in-progress connect finished *)
| EStall (cid : nat) (b : bool)                     (* socket stops / resumes accepting writes *)
| ETick (dt : Z)                                   (* the clock advances by dt seconds *)
| EAppAnswer (app : nat) (m : omsg)                 (* Application.send_answer *)
| EAppRequest (app : nat) (m : omsg) (realm : pres string) (pick : nat) (timeout : Z)  (* Application.send_request (blocking) *)
| EStop (force : bool)                             (* Node.stop() is called: DPR to every ready peer unless forced *)
| EStopFinish (tclose : Z) (tend : Z)              (* the waiting ends: remaining connections are closed at tclose; stop returns at tend *)
| EStart.                                          (* Node.start(): persistent peers are dialled *)

(* Application.send_answer -> Node.route_answer (as repaired: the host whose waiting set holds
   the answer's (hop-by-hop, end-to-end) pair) + send_message *)
Definition route_answer (n : node) (m : omsg) : option nat * node :=
  match List.find (fun e => mem_zz (o_hbh m, o_e2e m) (snd e)) (n_peer_waiting n) with
  | None => (None, n)
  | Some (host, _) =>
      let n1 := set_waiting n (n_app_waiting n) (pw_remove (n_peer_waiting n) host (o_hbh m, o_e2e m))
                            (n_origin_waiting n) (n_sent_answers n) in
      match List.find (fun c => String.eqb (c_host c) host) (n_conns n1) with
      | None => (None, n1)        (* the entries of a connection leave with it: nothing of this request is left *)
      | Some c => if is_ready_state (c_state c) then (Some (c_id c), n1)
                  else (None, drop_origin n1 (c_id c) (o_hbh m) (o_e2e m))
      end
  end.

(* Node.route_request *)
Definition route_request (n : node) (i : nat) (realm : pres string) : option (list peer) :=
  let rn := match realm with Present r => r | _ => g_realm (n_cfg n) end in
  match route_lookup n rn with
  | None => None
  | Some entries =>
      let names := match List.find (fun kv => match fst kv with RApp j => Nat.eqb i j | RDefault => false end) entries with
                   | Some kv => Some (snd kv)
                   | None => match List.find (fun kv => match fst kv with RDefault => true | _ => false end) entries with
                             | Some kv => Some (snd kv)
                             | None => None
                             end
                   end in
      match names with
      | None | Some [] => None
      | Some l =>
          Some (List.flat_map (fun nm => match get_peer n nm with
                  | Some p => match p_conn p with
                              | Some k => match get_conn n k with
                                          | Some c => if is_ready_state (c_state c) then [p] else []
                                          | None => []
                                          end
                              | None => []
                              end
                  | None => [] end) l)
      end
  end.

(* select_least_used_peer: min by counters.requests (first minimum) *)
Fixpoint least_used (l : list peer) : option peer :=
  match l with
  | [] => None
  | p :: r => match least_used r with
              | Some q => if p_reqs q <? p_reqs p then Some q else Some p
              | None => Some p
              end
  end.


(* the I/O thread comes back to select only after: flushing what earlier threads queued, one pass
   of timers / reconnects, and flushing what that pass queued (DWR, CER) *)
Definition settle (n : node) (ds : dials) : node * list output * dials :=
  let '(n1, o1) := flush n in
  let '(n2, o2, ds') := io_iteration n1 ds in
  let '(n3, o3) := flush n2 in
  (n3, (o1 ++ o2 ++ o3)%list, ds').
Definition settle' (n : node) (ds : dials) : node * list output :=
  let '(n1, o1, _) := settle n ds in (n1, o1).

(* Output queued by an APPLICATION thread (send_answer / send_request) while the I/O thread sleeps in select(): the
   wake-up that the writer thread triggers finds a write list that was built before the output existed, so that
   iteration only checks timers and reconnects (at the current time); the output is written by the following one. *)
Definition settle_app (n : node) (ds : dials) : node * list output * dials :=
  let '(n1, o1, ds') := io_iteration n ds in
  let '(n2, o2) := flush n1 in
  (n2, (o1 ++ o2)%list, ds').
Definition settle_app' (n : node) (ds : dials) : node * list output :=
  let '(n1, o1, _) := settle_app n ds in (n1, o1).

(* `ds` scripts the outcome (and the hop-by-hop start value) of every connect() the node makes
   while reacting to the event *)
Definition step (n : node) (ds : dials) (e : event) : node * list output :=
  match e with
  | EAccept hbh0 =>
      if n_stopping n then
        (* the socket is closed at once, nothing is registered (the harness still numbers the attempt) *)
        (set_misc n (n_stopping n) (S (n_next_cid n)) (n_e2e n), [OClose (n_next_cid n) R_SHUTDOWN])
      else
        let cid := n_next_cid n in
        let c := new_conn cid true SConnected "" (n_now n) hbh0 in
        let n1 := set_misc (set_conns n (n_conns n ++ [c])%list) (n_stopping n) (S cid) (n_e2e n) in
        let n2 := set_tables n1 (n_half_ready n1 ++ [cid])%list (n_socket_peers n1 ++ [cid])%list in
        settle' n2 ds
  | ERecv cid ms =>
      match get_conn n cid with
      | None => (n, [])
      | Some _ =>
          (* the I/O thread queues the bytes and finishes its iteration (timers see the OLD last-read time);
             then the reader thread handles the frames; then the I/O thread flushes and checks again *)
          let '(n1, o1, ds1) := io_iteration n ds in
          let n2 := upd_last_read n1 cid in
          let '(n3, o3) := dispatch_all n2 cid ms in
          let '(n4, o4) := settle' n3 ds1 in
          (n4, (o1 ++ o3 ++ o4)%list)
      end
  | EPeerClose cid =>
      let '(n1, o1) := close_conn n cid R_GONE in
      let '(n2, o2) := settle' n1 ds in (n2, (o1 ++ o2)%list)
  | EReadErr cid hard =>
      let '(n1, o1) := (if hard then close_conn n cid R_SOCKET_FAIL else (n, [])) in
      let '(n2, o2) := settle' n1 ds in (n2, (o1 ++ o2)%list)
  | EConnDone cid ok =>
      match get_conn n cid with
      | Some c =>
          if cstate_eqb (c_state c) SConnecting then
            if ok then
              let n1 := set_conns n (upd_conn (n_conns n) cid (fun c => set_cstate c SConnected)) in
              let n2 := match find_conn_peer n1 c with
                        | Some p => set_peers n1 (upd_peer (n_peers n1) (p_name p) (fun p =>
                                      set_pconn p (p_conn p) (p_reason p) (Some (n_now n1)) (p_lastdisc p)))
                        | None => n1
                        end in
              let '(n3, o3) := send_cer n2 cid in
              (* the CER is only queued: the same iteration's timers run before it can be written *)
              let '(n4, o4, ds4) := io_iteration n3 ds in
              let '(n5, o5) := settle' n4 ds4 in (n5, (o3 ++ o4 ++ o5)%list)
            else
              let '(n1, o1) := close_conn n cid R_FAILED_CONNECT in
              let '(n2, o2) := settle' n1 ds in (n2, (o1 ++ o2)%list)
          else (n, [])
      | None => (n, [])
      end
  | EStall cid b =>
      match get_conn n cid with
      | None => (n, [])
      | Some c =>
          let n1 := set_conns n (upd_conn (n_conns n) cid (fun c => set_csock c (c_sock_open c) b (c_workers c))) in
          if b then (n1, [])
          else match c_out c with
               | [] => (n1, [])          (* nothing buffered: select is not even woken *)
               | _ => settle' n1 ds
               end
      end
  | ETick dt =>
      (* the I/O thread sleeps in select until its deadline; each wake-up runs one iteration *)
      let target := n_now n + dt in
      (fix wake (fuel : nat) (n : node) (ds : dials) (acc : list output) : node * list output :=
         let expire := fun (n : node) =>
           set_apps n (List.map (fun a => set_awaiting a (List.filter (fun w => target <? snd w) (a_waiting a))) (n_apps n)) in
         match fuel with
         | O => (expire (set_time n target (n_io_deadline n)), acc)
         | S f =>
             if n_io_deadline n <=? target then
               let n1 := set_time n (n_io_deadline n) (n_io_deadline n) in
               let '(n2, o2, ds2) := settle n1 ds in
               wake f n2 ds2 (acc ++ o2)%list
             else (expire (set_time n target (n_io_deadline n)), acc)
         end) (S (Z.to_nat dt)) n ds []
  | EAppAnswer i m =>
      match route_answer n m with
      | (None, n1) => (n1, [ONotRoutable])
      | (Some cid, n1) =>
          let '(n2, o2) := send_message n1 cid m in
          let '(n3, o3) := settle_app' n2 ds in (n3, (o2 ++ o3)%list)
      end
  | EAppRequest i m realm pick timeout =>
      (* end-to-end id: from the node's generator unless the caller set one *)
      let '(n0, e2e) := (if o_e2e m =? 0 then (set_misc n (n_stopping n) (n_next_cid n) (seq_next (n_e2e n)), seq_next (n_e2e n))
                         else (n, o_e2e m)) in
      match route_request n0 i realm with
      | None | Some [] => (n0, [ONotRoutable])
      | Some usable =>
          let chosen := match usable with
                        | [p] => Some p
                        | _ => List.nth_error usable (Nat.modulo pick (List.length usable))
                        end in
          match chosen with
          | None => (n0, [ONotRoutable])
          | Some p =>
              match p_conn p with
              | None => (n0, [ONotRoutable])
              | Some cid =>
                  match get_conn n0 cid with
                  | None => (n0, [ONotRoutable])
                  | Some c =>
                      let '(n1, hbh) := (if o_hbh m =? 0
                                         then (set_conns n0 (upd_conn (n_conns n0) cid (fun c => set_chbh c (seq_next (c_hbh c)))), seq_next (c_hbh c))
                                         else (n0, o_hbh m)) in
                      let m' := {| o_cmd := o_cmd m; o_req := true; o_app := (if o_app m =? 0 then match List.nth_error (n_apps n1) i with Some a => a_id a | None => 0 end else o_app m);
                                   o_hbh := hbh; o_e2e := e2e; o_result := None; o_failed := []; o_tag := o_tag m |} in
                      let n2 := set_waiting n1 ((List.filter (fun x => let '(h, e, _) := x in negb ((h =? hbh) && (e =? e2e))) (n_app_waiting n1)) ++ [(hbh, e2e, i)])%list
                                            (n_peer_waiting n1) (n_origin_waiting n1) (n_sent_answers n1) in
                      let n3 := set_apps n2 (upd_app (n_apps n2) i (fun a => set_awaiting a (a_waiting a ++ [(hbh, n_now n2 + timeout)])%list)) in
                      let '(n4, o4) := send_message n3 cid m' in
                      let '(n5, o5) := settle_app' n4 ds in (n5, (o4 ++ o5)%list)
                  end
              end
          end
      end
  | EStop force =>
      let n0 := set_misc n true (n_next_cid n) (n_e2e n) in
      if force then (n0, [])
      else
        let '(n1, o1) :=
          (fix go (cids : list nat) (n : node) (acc : list output) : node * list output :=
             match cids with
             | [] => (n, acc)
             | c :: r => match get_conn n c with
                         | Some cn => if is_ready_state (c_state cn)
                                      then let '(n', o') := send_dpr n c in go r n' (acc ++ o')%list
                                      else go r n acc
                         | None => go r n acc
                         end
             end) (List.map c_id (n_conns n0)) n0 [] in
        let '(n2, o2) := settle' n1 ds in (n2, (o1 ++ o2)%list)
  | EStopFinish tclose tend =>
      (* the I/O thread sees the stop flag at its wake-up tclose: every remaining connection is closed
         with NODE_SHUTDOWN; listeners are closed and the applications stopped before stop() returns at tend *)
      let n0 := set_time n tclose (n_io_deadline n) in
      let '(n1, o1) :=
        (fix go (cids : list nat) (n : node) (acc : list output) : node * list output :=
           match cids with
           | [] => (n, acc)
           | c :: r => let '(n', o') := close_conn n c R_SHUTDOWN in go r n' (acc ++ o')%list
           end) (List.map c_id (n_conns n0)) n0 [] in
      (set_time (set_apps n1 (List.map (fun a => set_awaiting a []) (n_apps n1))) tend (n_io_deadline n1), o1)
  | EStart =>
      let '(n1, o1, ds1) :=
        (fix go (names : list string) (n : node) (ds : dials) (acc : list output) : node * list output * dials :=
           match names with
           | [] => (n, acc, ds)
           | nm :: r =>
               match get_peer n nm with
               | Some p =>
                   if p_persistent p then
                     match ds with
                     | (h0, res) :: dr => let '(n1, o1) := connect_to_peer n nm h0 res in go r n1 dr (acc ++ o1)%list
                     | [] => let '(n1, o1) := connect_to_peer n nm 0 DialOk in go r n1 [] (acc ++ o1)%list
                     end
                   else go r n ds acc
               | None => go r n ds acc
               end
           end) (List.map p_name (n_peers n)) n ds [] in
      let '(n2, o2) := settle' n1 ds1 in (n2, (o1 ++ o2)%list)
  end.

Definition run (n : node) (evs : list (dials * event)) : node * list (list output) :=
  List.fold_left (fun acc de => let '(n, outs) := acc in
                                let '(n', o) := step n (fst de) (snd de) in (n', (outs ++ [o])%list)) evs (n, []).
