"""C10 — node-layer property (outbound routing); see tools/nodecheck.py and tools/nodeoracles.py."""
import nodecheck

PROFILE = dict(outbound=0.6, peers=3)
W = nodecheck.weights(app_request=8, answer_request=7, odd_answer=3, tick=5, cea=10, conndone=8, cer=8, close=1.5, dpr=1)
N_QUICK, N_THOROUGH, LENGTH = 60, 1500, 24
THEMES = (("ready", 2, 60, 2, 3000), ("two_peers", 400, 0, None, 0), ("realms", 120, 0, None, 0), ("default_peer", 160, 0, None, 0))
# the hop-by-hop identifiers of outbound requests come from the per-connection SequenceGenerator: the bridge theorem
# C10_hbh_fresh is about the model's generator, Link/LinkIds.v ties that generator's step program to node/_helpers.py
FILES = ["Link/LinkIds.v", "Props/C10.v"]


def _concurrent_senders(run):
    """failing-input search when the generator's tie broke: requests sent concurrently from several threads draw their
    hop-by-hop identifiers under every schedule with <= 3 pre-emptions (the C16 exploration)"""
    from props import c16
    extra = []
    for kind, start, nt, nd, pre, cap in [("seq", 10, 2, 2, 3, 20000), ("seq", 0xfffffffe, 3, 1, 3, 20000), ("seq", 77, 4, 1, 2, 20000)]:
        before = len(run.violations)
        c16._explore(run, kind, start, nt, nd, pre, cap, [], extra)
        for v in run.violations[before:]:
            v["what"] = ("requests sent concurrently on one connection: " + (v.get("what") or "two senders obtained the same / a zero "
                         "hop-by-hop identifier"))
        if run.violations:
            break


class _SendRace:
    """`n` application threads block in Application.send_request towards one ready peer; a peer thread answers every request
    the moment it is on the wire (optionally the last one twice: a duplicated answer).  The node model hands an answer to
    the waiting sender in one atomic step (OAnswerTo); this exploration runs the real send_request / receive_answer /
    Node.send_message under every interleaving of their source lines with <= max_pre pre-emptions and demands what the
    property states: every blocked sender returns exactly the answer bearing its identifiers, nothing reaches the
    unexpected-answer handler except the duplicate, no thread dies."""
    def __init__(self, n, dup):
        import nodesim as NS
        from vsim import Sim
        self.NS, self.n, self.dup = NS, n, dup
        self.sim = sim = Sim(seed=1, t0=NS.T0)
        sim.script_random([77, 12345])
        self.node = node = sim.node_mod.Node("srv.example.net", "example.net", ip_addresses=["10.0.0.1"], tcp_port=3868)
        self.unexpected = []
        outer = self

        class App(sim.app_mod.Application):
            def handle_request(self, m):
                pass

            def handle_answer(self, m):
                outer.unexpected.append((m.header.hop_by_hop_identifier, m.header.end_to_end_identifier))
        self.app = app = App(4, is_auth_application=True)
        peer = node.add_peer("aaa://cli0.example.net", "example.net")
        node.add_application(app, [peer])
        node.start()
        sim.run()
        sim.script_random([1000])
        self.remote = r = sim.connect_in()
        sim.run()
        r.feed(NS.build_message(dict(kind="cer", host="cli0.example.net", hbh=1, e2e=1)))
        sim.run()
        r.take_messages()

    def launch(self, chooser):
        sim, NS = self.sim, self.NS
        self.outcomes, self.wire = {}, []
        state = {"prev": None}

        def ch(runnable):
            pick = chooser(list(runnable), state["prev"])
            state["prev"] = pick
            return pick
        A = sim.app_mod.Application
        sim.line_mode([A.send_request, A.receive_answer, sim.node_mod.Node.send_message], ch)
        from diameter.message.commands import CreditControlRequest

        def sender(t):
            m = CreditControlRequest()
            m.session_id = "s;%d" % t
            m.origin_host, m.origin_realm, m.destination_realm = b"srv.example.net", b"example.net", b"example.net"
            m.auth_application_id, m.cc_request_type, m.cc_request_number = 4, 1, 0
            m.header.end_to_end_identifier = 0x7000 + t
            try:
                a = self.app.send_request(m, timeout=5)
                self.outcomes[t] = ["answer", m.header.hop_by_hop_identifier, a.header.hop_by_hop_identifier,
                                    a.header.end_to_end_identifier]
            except Exception as e:   # noqa
                self.outcomes[t] = [type(e).__name__, m.header.hop_by_hop_identifier]

        def peer():
            served = 0
            while served < self.n:
                sim._block(lambda: len(self.remote.sent) >= 20, 20.0, "peer waits for a request")
                buf, got = self.remote.sent, []
                while len(buf) >= 20:       # frames and identifiers from the wire, not through the library's decoder
                    ln = int.from_bytes(buf[1:4], "big")
                    if ln < 20 or len(buf) < ln:
                        break
                    got.append((buf[4] & 0x80, int.from_bytes(buf[12:16], "big"), int.from_bytes(buf[16:20], "big")))
                    del buf[:ln]
                if not got:
                    break
                for is_req, hbh, e2e in got:
                    if is_req:
                        self.wire.append((hbh, e2e))
                        served += 1
                        ans = NS.build_message(dict(kind="ans", hbh=hbh, e2e=e2e, host="cli0.example.net"))
                        self.remote.feed(ans)
                        if self.dup and served == self.n:
                            self.remote.feed(ans)
        sim.spawn(peer, name="P")
        for t in range(self.n):
            sim.spawn(sender, t, name="S%d" % t)
        sim.run()
        sim.line_mode(None)
        sim.advance(6)
        sim.run()

    def finish(self):
        o = dict(outcomes={str(k): v for k, v in self.outcomes.items()}, wire=list(self.wire),
                 unexpected=list(self.unexpected), deaths=list(self.sim.thread_deaths))
        self.sim.shutdown()
        return o


def _judge_send(n, dup):
    def judge(o):
        oc = o["outcomes"]
        hb = [h for h, _e in o["wire"]]
        ok = (len(oc) == n and len(o["wire"]) == n and len(set(hb)) == n and 0 not in hb and not o["deaths"]
              and all(v[0] == "answer" and v[1] == v[2] and v[3] == 0x7000 + int(t) and (v[1], v[3]) in o["wire"]
                      for t, v in oc.items()))
        # a duplicated answer goes to nobody (the sender already has its answer) or to the unexpected-answer handler of the
        # sending application; without a duplicate that handler must stay silent
        ok = ok and (set(o["unexpected"]) <= set(o["wire"][-1:]) and len(o["unexpected"]) <= 1 if dup else not o["unexpected"])
        if ok:
            return None
        return ("answer-to-sender", {"outcomes": oc, "requests_on_the_wire": [[hex(a), hex(b)] for a, b in o["wire"]],
                                     "handle_answer": [[hex(a), hex(b)] for a, b in o["unexpected"]], "deaths": o["deaths"]},
                "every blocked sender returns the answer bearing its own identifiers; handle_answer is not called for an "
                "answer somebody waits for",
                "the answer bearing a blocked sender's identifiers arrived while it was waiting, yet send_request did not "
                "return it (timed out / wrong answer) or it went to the unexpected-answer handler")
    return judge


def sender_answer_race(run):
    import racelib
    total = 0
    plans = [(1, False, 2, 400), (2, False, 2, 1200), (1, True, 2, 400), (3, False, 1, 1500)] if run.tier == "thorough" else \
            [(1, False, 2, 120), (2, False, 1, 200), (1, True, 1, 80)]
    for n, dup, pre, cap in plans:
        if run.violations:
            break
        total += racelib.explore(run, lambda: _SendRace(n, dup), _judge_send(n, dup),
                                 "blocked senders against a peer that answers at once", pre, cap,
                                 extra_case={"senders": n, "duplicate_answer": dup})
    run.extra["sender_answer_race_schedules"] = total


def check(run):
    orig_obligations = run.obligations

    def obligations_then_race(files):
        out = orig_obligations(files)
        sender_answer_race(run)
        return out
    run.obligations = obligations_then_race
    return nodecheck.run(run, "C10", FILES, PROFILE, W, N_QUICK, N_THOROUGH, LENGTH, themes=THEMES, on_broken=_concurrent_senders)


def replay(r):
    c = r.get("case", {})
    if str(c.get("scenario", "")).startswith("blocked senders"):
        import racelib
        n, dup = int(c["senders"]), bool(c["duplicate_answer"])
        o = racelib.replay_schedule(lambda: _SendRace(n, dup), c["schedule"])
        print("replay: outcomes", o["outcomes"], "handle_answer", o["unexpected"], "deaths", o["deaths"])
        return _judge_send(n, dup)(o) is None
    return nodecheck.replay_generic(r)
