"""Fail-closed translator from (a small subset of) the Python source under /repo
to Coq text.  Every unit either produces a definition or raises
TranslationError(file:line) -- nothing is skipped silently.

Units:
  ids       _helpers.SequenceGenerator.{__init__,next_sequence}, SessionGenerator.next_id
            -> Gen/GenIds.v  (step programs + constants + init expression)
  (further units are added by the other gen_* functions below)
"""
from __future__ import annotations

import ast
import os

SRC = os.environ.get("DIAMETER_SRC", "/repo/src/diameter")


class TranslationError(Exception):
    pass


def _parse(relpath):
    path = os.path.join(SRC, relpath)
    with open(path) as f:
        src = f.read()
    return path, ast.parse(src, path)


def _find_class(tree, name, path):
    for n in tree.body:
        if isinstance(n, ast.ClassDef) and n.name == name:
            return n
    raise TranslationError(f"{path}: class {name} not found")


def _find_func(cls, name, path):
    for n in cls.body:
        if isinstance(n, ast.FunctionDef) and n.name == name:
            return n
    raise TranslationError(f"{path}: {cls.name}.{name} not found")


def _strip_doc(body):
    if body and isinstance(body[0], ast.Expr) and isinstance(body[0].value, ast.Constant) \
            and isinstance(body[0].value.value, str):
        return body[1:]
    return body


def _is_self_attr(node, attr=None):
    return (isinstance(node, ast.Attribute) and isinstance(node.value, ast.Name)
            and node.value.id == "self" and (attr is None or node.attr == attr))


def _class_int_consts(cls):
    out = {}
    for n in cls.body:
        if isinstance(n, ast.Assign) and len(n.targets) == 1 and isinstance(n.targets[0], ast.Name) \
                and isinstance(n.value, ast.Constant) and isinstance(n.value.value, int):
            out[n.targets[0].id] = n.value.value
        if isinstance(n, ast.AnnAssign) and isinstance(n.target, ast.Name) and n.value is not None \
                and isinstance(n.value, ast.Constant) and isinstance(n.value.value, int):
            out[n.target.id] = n.value.value
    return out


# --------------------------------------------------------------------------
# integer expressions -> Gallina (Z)
# --------------------------------------------------------------------------
_BINOPS = {ast.Add: "Z.add", ast.Sub: "Z.sub", ast.Mult: "Z.mul", ast.FloorDiv: "Z.div",
           ast.Mod: "Z.modulo", ast.BitAnd: "Z.land", ast.BitOr: "Z.lor",
           ast.LShift: "Z.shiftl", ast.RShift: "Z.shiftr", ast.BitXor: "Z.lxor"}


def zexpr(node, env, path):
    """env maps python names / self attributes to Coq identifiers; a callable
    env['__call__'] may translate whitelisted calls."""
    if isinstance(node, ast.Constant) and isinstance(node.value, int) and not isinstance(node.value, bool):
        return f"({node.value})" if node.value < 0 else str(node.value)
    if isinstance(node, ast.Name):
        if node.id in env:
            return env[node.id]
        raise TranslationError(f"{path}:{node.lineno}: unknown name {node.id}")
    if _is_self_attr(node):
        key = "self." + node.attr
        if key in env:
            return env[key]
        raise TranslationError(f"{path}:{node.lineno}: unknown attribute {key}")
    if isinstance(node, ast.BinOp) and type(node.op) in _BINOPS:
        return f"({_BINOPS[type(node.op)]} {zexpr(node.left, env, path)} {zexpr(node.right, env, path)})"
    if isinstance(node, ast.UnaryOp) and isinstance(node.op, ast.Invert):
        return f"(Z.lnot {zexpr(node.operand, env, path)})"
    if isinstance(node, ast.UnaryOp) and isinstance(node.op, ast.USub):
        return f"(Z.opp {zexpr(node.operand, env, path)})"
    if isinstance(node, ast.Call):
        # int(x) is the identity on ints
        if isinstance(node.func, ast.Name) and node.func.id == "int" and len(node.args) == 1 and not node.keywords:
            return zexpr(node.args[0], env, path)
        if "__call__" in env:
            r = env["__call__"](node)
            if r is not None:
                return r
    raise TranslationError(f"{path}:{getattr(node, 'lineno', '?')}: untranslatable expression {ast.dump(node)[:120]}")


# --------------------------------------------------------------------------
# unit "ids": step programs of the id generators
# --------------------------------------------------------------------------
def _is_seq(node):
    return _is_self_attr(node, "_sequence")


def _mentions_seq(node):
    return any(_is_seq(n) for n in ast.walk(node))


def _step_program(fn, path, want_lines=False):
    """Translate the body of next_sequence / next_id into the instr list of
    Model/Ids.v.  One instruction per source line that touches shared state;
    the trailing lines that only format a local are collapsed into IRetLoc."""
    prog = []          # instruction texts
    lines = []         # source line of each instruction

    def emit(s, lineno=0):
        prog.append(s)
        lines.append(lineno)
        return len(prog) - 1

    def is_lock_with(st):
        if not isinstance(st, ast.With) or len(st.items) != 1:
            return False
        it = st.items[0]
        return it.optional_vars is None and _is_self_attr(it.context_expr)

    def do_if(st):
        t = st.test
        ok = (isinstance(t, ast.Compare) and len(t.ops) == 1 and isinstance(t.ops[0], ast.Eq)
              and _is_seq(t.left) and _is_self_attr(t.comparators[0], "MAX_SEQUENCE"))
        if not ok:
            raise TranslationError(f"{path}:{st.lineno}: unsupported test in generator")
        if len(st.body) != 1 or len(st.orelse) != 1:
            raise TranslationError(f"{path}:{st.lineno}: unsupported if/else shape")
        b, e = st.body[0], st.orelse[0]
        if not (isinstance(b, ast.Assign) and len(b.targets) == 1 and _is_seq(b.targets[0])
                and _is_self_attr(b.value, "MIN_SEQUENCE")):
            raise TranslationError(f"{path}:{b.lineno}: expected self._sequence = self.MIN_SEQUENCE")
        if not (isinstance(e, ast.AugAssign) and _is_seq(e.target) and isinstance(e.op, ast.Add)
                and isinstance(e.value, ast.Constant) and e.value.value == 1):
            raise TranslationError(f"{path}:{e.lineno}: expected self._sequence += 1")
        i_if = emit(None, st.lineno)
        i_set = emit(None, b.lineno)
        i_inc = emit("IInc", e.lineno)
        prog[i_if] = f"IIfMax {i_inc}"
        prog[i_set] = f"ISetMin {i_inc + 1}"

    def block(stmts, in_lock):
        """returns True when the block ended with a return"""
        i = 0
        while i < len(stmts):
            st = stmts[i]
            if is_lock_with(st):
                emit("IAcq", st.lineno)
                returned = block(st.body, True)
                emit("IRel", st.lineno)
                if returned:
                    if i != len(stmts) - 1:
                        raise TranslationError(f"{path}:{st.lineno}: code after return")
                    return True
            elif isinstance(st, ast.If):
                do_if(st)
            elif isinstance(st, ast.Return):
                if st.value is not None and _is_seq(st.value):
                    emit("IRetSeq", st.lineno)
                elif st.value is not None and not _mentions_seq(st.value):
                    emit("IRetLoc", st.lineno)
                else:
                    raise TranslationError(f"{path}:{st.lineno}: unsupported return")
                if i != len(stmts) - 1:
                    raise TranslationError(f"{path}:{st.lineno}: code after return")
                return True
            elif isinstance(st, ast.Assign) and len(st.targets) == 1 and isinstance(st.targets[0], ast.Name) \
                    and _mentions_seq(st.value):
                emit("ILoad", st.lineno)
            elif isinstance(st, (ast.Assign, ast.AugAssign)) and not _mentions_seq(st) \
                    and all(isinstance(t, ast.Name) for t in (st.targets if isinstance(st, ast.Assign) else [st.target])):
                pass   # purely local formatting line: part of the final IRetLoc
            else:
                raise TranslationError(f"{path}:{st.lineno}: unsupported statement {type(st).__name__}")
            i += 1
        return False

    if not block(_strip_doc(fn.body), False):
        raise TranslationError(f"{path}:{fn.lineno}: {fn.name} does not end in a return")
    if want_lines:
        return "[" + "; ".join(prog) + "]", list(zip(lines, prog))
    return "[" + "; ".join(prog) + "]"


def ids_line_tables():
    """For the correspondence: per function, the list [(lineno, instr text)] in
    program order (index = position)."""
    path, tree = _parse("node/_helpers.py")
    seqc = _find_class(tree, "SequenceGenerator", path)
    sesc = _find_class(tree, "SessionGenerator", path)
    return {"next_sequence": _step_program(_find_func(seqc, "next_sequence", path), path, True)[1],
            "next_id": _step_program(_find_func(sesc, "next_id", path), path, True)[1]}


def gen_ids():
    path, tree = _parse("node/_helpers.py")
    seqc = _find_class(tree, "SequenceGenerator", path)
    sesc = _find_class(tree, "SessionGenerator", path)
    sc = _class_int_consts(seqc)
    ss = _class_int_consts(sesc)
    for k in ("MIN_SEQUENCE", "MAX_SEQUENCE"):
        if k not in sc or k not in ss:
            raise TranslationError(f"{path}: constant {k} not found")
    out = ["(* GENERATED by tools/translate.py from node/_helpers.py -- do not edit *)",
           "From DV Require Import Prelude.Base Model.Ids.",
           f"Definition seq_min : Z := {sc['MIN_SEQUENCE']}.",
           f"Definition seq_max : Z := {sc['MAX_SEQUENCE']}.",
           f"Definition sess_min : Z := {ss['MIN_SEQUENCE']}.",
           f"Definition sess_max : Z := {ss['MAX_SEQUENCE']}."]
    out.append("Definition next_sequence_prog : list instr := "
               + _step_program(_find_func(seqc, "next_sequence", path), path) + ".")
    out.append("Definition next_id_prog : list instr := "
               + _step_program(_find_func(sesc, "next_id", path), path) + ".")

    # __init__: the include_now branch
    init = _find_func(seqc, "__init__", path)
    body = _strip_doc(init.body)
    # tolerate leading statements that create a lock attribute
    cand = [st for st in body if isinstance(st, ast.If)]
    if len(cand) != 1 or not (isinstance(cand[0].test, ast.Name) and cand[0].test.id == "include_now"):
        raise TranslationError(f"{path}:{init.lineno}: SequenceGenerator.__init__ shape changed")
    for st in body:
        if st is cand[0]:
            continue
        ok = (isinstance(st, ast.Assign) and len(st.targets) == 1 and _is_self_attr(st.targets[0])
              and st.targets[0].attr != "_sequence" and isinstance(st.value, ast.Call))
        if not ok:
            raise TranslationError(f"{path}:{st.lineno}: unexpected statement in SequenceGenerator.__init__")
    st = cand[0].body
    if len(st) != 1 or not (isinstance(st[0], ast.Assign) and _is_seq(st[0].targets[0])):
        raise TranslationError(f"{path}:{init.lineno}: include_now branch shape changed")
    rnd = {}

    def call(node):
        f = node.func
        if (isinstance(f, ast.Attribute) and isinstance(f.value, ast.Name) and f.value.id == "random"
                and f.attr == "randint" and len(node.args) == 2):
            env2 = {"self.MIN_SEQUENCE": "seq_min", "self.MAX_SEQUENCE": "seq_max"}
            rnd["lo"] = zexpr(node.args[0], env2, path)
            rnd["hi"] = zexpr(node.args[1], env2, path)
            return "r"
        return None
    env = {"include_now": "now", "self.MIN_SEQUENCE": "seq_min", "self.MAX_SEQUENCE": "seq_max",
           "__call__": call}
    e = zexpr(st[0].value, env, path)
    if "lo" not in rnd:
        raise TranslationError(f"{path}:{init.lineno}: random.randint not found in include_now branch")
    out.append(f"Definition seq_init_gen (now r : Z) : Z := {e}.")
    out.append(f"Definition seq_init_rand_lo : Z := {rnd['lo']}.")
    out.append(f"Definition seq_init_rand_hi : Z := {rnd['hi']}.")
    return "\n".join(out) + "\n"


# --------------------------------------------------------------------------
# unit "getters": exception discipline of the typed AVP value getters (T2)
# --------------------------------------------------------------------------
_TYCLS = {"Avp": "TUntyped", "AvpOctetString": "TOctet", "AvpUtf8String": "TUtf8",
          "AvpInteger32": "TInt32", "AvpInteger64": "TInt64", "AvpUnsigned32": "TUns32",
          "AvpUnsigned64": "TUns64", "AvpFloat32": "TFloat32", "AvpFloat64": "TFloat64",
          "AvpTime": "TTime", "AvpAddress": "TAddress", "AvpGrouped": "TGrouped"}
_EXN = {"struct.error": "EStructError", "ValueError": "EValueError", "UnicodeDecodeError": "EUnicodeDecodeError",
        "OSError": "EOSError", "OverflowError": "EOverflowError", "TypeError": "ETypeError",
        "AttributeError": "EAttributeError", "ConversionError": "EConversionError",
        "AvpDecodeError": "EAvpDecodeError", "Exception": "EException", "socket.error": "EOSError"}


def _dotted(node):
    if isinstance(node, ast.Name):
        return node.id
    if isinstance(node, ast.Attribute):
        b = _dotted(node.value)
        return None if b is None else b + "." + node.attr
    return None


def _classify_call(node, path):
    """primitive performed by a call inside a getter; None = harmless"""
    f = node.func
    name = _dotted(f)
    if name == "struct.unpack":
        return "PStructUnpack"
    if name == "socket.inet_ntop":
        return "PInetNtop"
    if name in ("datetime.datetime.fromtimestamp",):
        return "PFromTimestamp"
    if name in ("Avp.from_unpacker",):
        return "PFromUnpacker"
    if name in ("Unpacker", "hasattr", "getattr", "setattr", "isinstance", "len", "AvpDecodeError", "AvpEncodeError"):
        return None
    if isinstance(f, ast.Attribute):
        if f.attr == "decode":
            return "PDecodeUtf8"
        if f.attr in ("hex", "append", "is_done"):
            return None
    raise TranslationError(f"{path}:{node.lineno}: unclassified call {ast.dump(f)[:80]} in a value getter")


def _getter_rows(cls, path):
    getter = None
    for n in cls.body:
        if isinstance(n, ast.FunctionDef) and n.name == "value" and any(
                isinstance(d, ast.Name) and d.id == "property" for d in n.decorator_list):
            getter = n
    if getter is None:
        return None
    rows = []

    def visit(stmts, caught):
        for st in stmts:
            if isinstance(st, ast.Try):
                names = []
                for h in st.handlers:
                    if h.type is None:
                        names.append("EException")
                    else:
                        ts = h.type.elts if isinstance(h.type, ast.Tuple) else [h.type]
                        for t in ts:
                            dn = _dotted(t)
                            if dn not in _EXN:
                                raise TranslationError(f"{path}:{h.lineno}: unknown exception class {dn}")
                            names.append(_EXN[dn])
                    # the handler must re-raise as AvpDecodeError
                    ok = any(isinstance(x, ast.Raise) and isinstance(x.exc, ast.Call)
                             and _dotted(x.exc.func) == "AvpDecodeError" for x in ast.walk(ast.Module(h.body, [])))
                    if not ok:
                        raise TranslationError(f"{path}:{h.lineno}: handler does not raise AvpDecodeError")
                visit(st.body, caught + names)
                for h in st.handlers:
                    visit(h.body, caught)
                visit(st.orelse, caught)
                visit(st.finalbody, caught)
                continue
            # nested blocks
            for field in ("body", "orelse"):
                sub = getattr(st, field, None)
                if isinstance(sub, list) and sub and isinstance(sub[0], ast.stmt):
                    pass
            own = []
            if isinstance(st, (ast.If, ast.While, ast.For, ast.With)):
                hdr = st.test if isinstance(st, (ast.If, ast.While)) else (st.iter if isinstance(st, ast.For) else None)
                if hdr is not None:
                    own = [c for c in ast.walk(hdr) if isinstance(c, ast.Call)]
                for c in own:
                    p = _classify_call(c, path)
                    if p:
                        rows.append((p, list(caught)))
                visit(st.body, caught)
                visit(getattr(st, "orelse", []), caught)
                continue
            for c in ast.walk(st):
                if isinstance(c, ast.Call):
                    p = _classify_call(c, path)
                    if p:
                        rows.append((p, list(caught)))
    visit(_strip_doc(getter.body), [])
    return rows


def gen_getters():
    path, tree = _parse("message/avp/avp.py")
    out = ["(* GENERATED by tools/translate.py from message/avp/avp.py: for every typed value getter, each",
           "   primitive it calls together with the exception classes caught around it -- do not edit *)",
           "From DV Require Import Prelude.Base Model.Wire Model.Exn.",
           "Definition getter_rows : list (ty * prim * list exn) := ["]
    body = []
    seen = set()
    for n in tree.body:
        if isinstance(n, ast.ClassDef) and n.name in _TYCLS:
            rows = _getter_rows(n, path)
            seen.add(n.name)
            if rows is None:
                raise TranslationError(f"{path}: class {n.name} has no value getter")
            for p, caught in rows:
                body.append(f"  ({_TYCLS[n.name]}, {p}, [{'; '.join(caught)}])")
    missing = set(_TYCLS) - seen
    if missing:
        raise TranslationError(f"{path}: AVP classes not found: {sorted(missing)}")
    # Avp.__str__: the value getter must be called inside try/except AvpDecodeError
    base = _find_class(tree, "Avp", path)
    st = _find_func(base, "__str__", path)
    ok = False
    for t in ast.walk(st):
        if isinstance(t, ast.Try):
            uses = any(_is_self_attr(x, "value") for b in t.body for x in ast.walk(b))
            names = [_dotted(h.type) for h in t.handlers if h.type is not None]
            if uses and "AvpDecodeError" in names:
                ok = True
    body.append(f"  (TUntyped, PValueGetter, [{'EAvpDecodeError' if ok else ''}])")
    out.append(";\n".join(body))
    out.append("].")
    return "\n".join(out) + "\n"


# --------------------------------------------------------------------------
# unit "write": micro-step programs of the outbound path (C15)
# --------------------------------------------------------------------------
def _is_log_call(st):
    if isinstance(st, ast.Expr) and isinstance(st.value, ast.Call):
        n = _dotted(st.value.func) or ""
        return n.startswith("self.logger.") or n.startswith("self.msg_dump.") or n.startswith("self.connection_logger.")
    return False


def _writer_program(fn, path):
    prog = []

    def stmts(body):
        for st in body:
            if _is_log_call(st):
                continue
            if isinstance(st, ast.While):
                stmts(st.body)
            elif isinstance(st, ast.If) and "is_stopped" in ast.dump(st.test):
                continue
            elif isinstance(st, ast.Try):
                # except queue.Empty: continue   /   except Exception: log
                for h in st.handlers:
                    dn = _dotted(h.type) if h.type is not None else "BaseException"
                    if dn not in ("queue.Empty", "Exception"):
                        raise TranslationError(f"{path}:{h.lineno}: unexpected handler {dn} in work_write_queue")
                    for hs in h.body:
                        if not (_is_log_call(hs) or isinstance(hs, ast.Continue)):
                            raise TranslationError(f"{path}:{hs.lineno}: unexpected statement in handler")
                had_enc = any(isinstance(x, ast.AugAssign) for x in ast.walk(ast.Module(st.body, [])))
                if had_enc and not any(_dotted(h.type) == "Exception" for h in st.handlers):
                    raise TranslationError(f"{path}:{st.lineno}: encode failure is not caught by `except Exception`")
                stmts(st.body)
            elif isinstance(st, (ast.Assign, ast.AnnAssign)) and isinstance(st.value, ast.Call) and \
                    (_dotted(st.value.func) or "").endswith("_write_msg_queue.get"):
                prog.append("WGet")
            elif isinstance(st, ast.With) and len(st.items) == 1 and _is_self_attr(st.items[0].context_expr, "write_lock"):
                prog.append("WAcq")
                stmts(st.body)
                prog.append("WRel")
            elif isinstance(st, ast.AugAssign) and _is_self_attr(st.target, "_write_buffer") and isinstance(st.op, ast.Add) \
                    and isinstance(st.value, ast.Call) and (_dotted(st.value.func) or "").endswith(".as_bytes"):
                prog.extend(["WLoad", "WEnc", "WStore"])
            elif isinstance(st, ast.Expr) and isinstance(st.value, ast.Call) and _dotted(st.value.func) == "self.demand_attention":
                prog.append("WSignal")
            else:
                raise TranslationError(f"{path}:{st.lineno}: unsupported statement in work_write_queue: {type(st).__name__}")
    stmts(_strip_doc(fn.body))
    return prog


def _remove_out_bytes_program(fn, path):
    body = _strip_doc(fn.body)
    if len(body) != 1 or not isinstance(body[0], ast.Assign) or not _is_self_attr(body[0].targets[0], "_write_buffer"):
        raise TranslationError(f"{path}:{fn.lineno}: remove_out_bytes shape changed")
    v = body[0].value
    ok = (isinstance(v, ast.Subscript) and _is_self_attr(v.value, "_write_buffer") and isinstance(v.slice, ast.Slice)
          and v.slice.upper is None and v.slice.step is None and isinstance(v.slice.lower, ast.Name)
          and v.slice.lower.id == fn.args.args[1].arg)
    if not ok:
        raise TranslationError(f"{path}:{body[0].lineno}: expected self._write_buffer = self._write_buffer[n:]")
    return ["ILoad", "IStore"]


def _io_send_program(fn, path, rob):
    """the send branch of Node._handle_connections: `for wsock in ready_w:` ... send ... with lock: remove"""
    loop = None
    for n in ast.walk(fn):
        if isinstance(n, ast.For) and isinstance(n.iter, ast.Name) and n.iter.id == "ready_w":
            loop = n
    if loop is None:
        raise TranslationError(f"{path}:{fn.lineno}: `for wsock in ready_w` not found")
    prog = []
    seen_send = False
    for st in loop.body:
        if isinstance(st, ast.Try) and any(isinstance(x, ast.Call) and (_dotted(x.func) or "").endswith(".send") for x in ast.walk(st)):
            sends = [x for x in ast.walk(ast.Module(st.body, [])) if isinstance(x, ast.Call) and (_dotted(x.func) or "") == "wsock.send"]
            if len(sends) != 1 or _dotted(sends[0].args[0]) != "conn.write_buffer":
                raise TranslationError(f"{path}:{st.lineno}: expected exactly one wsock.send(conn.write_buffer)")
            # the handler must `continue` (no removal after a failed send)
            for h in st.handlers:
                if not any(isinstance(x, ast.Continue) for x in h.body):
                    raise TranslationError(f"{path}:{h.lineno}: failed send does not `continue`")
            prog.append("ISend")
            seen_send = True
        elif isinstance(st, ast.With) and len(st.items) == 1 and _dotted(st.items[0].context_expr) == "conn.write_lock":
            if not seen_send:
                raise TranslationError(f"{path}:{st.lineno}: write_lock region before the send")
            prog.append("IAcq")
            first = True
            for b in st.body:
                if isinstance(b, ast.Expr) and isinstance(b.value, ast.Call) and _dotted(b.value.func) == "conn.remove_out_bytes":
                    if not first or _dotted(b.value.args[0]) != "sent_bytes":
                        raise TranslationError(f"{path}:{b.lineno}: remove_out_bytes(sent_bytes) must come first in the lock region")
                    prog.extend(rob)
                elif any(isinstance(x, ast.Call) and (_dotted(x.func) or "").endswith(".send") for x in ast.walk(b)):
                    raise TranslationError(f"{path}:{b.lineno}: send inside the lock region")
                first = False
            prog.append("IRel")
        elif any(isinstance(x, ast.Call) and _dotted(x.func) == "conn.remove_out_bytes" for x in ast.walk(st)):
            raise TranslationError(f"{path}:{st.lineno}: remove_out_bytes outside the write_lock region")
    return prog


def _write_state_shape(pc, path):
    """the data structures the micro-steps act on: a FIFO queue.Queue() of messages, an immutable bytes buffer, and
    add_out_msg = one put() on that queue (a priority queue, a deque used as a stack, a mutable bytearray ... are other
    programs than the one the theorems are about)"""
    init = _find_func(pc, "__init__", path)
    seen = {}
    for st in ast.walk(init):
        if isinstance(st, (ast.Assign, ast.AnnAssign)):
            tgt = st.targets[0] if isinstance(st, ast.Assign) else st.target
            if _is_self_attr(tgt, "_write_msg_queue"):
                v = st.value
                ok = isinstance(v, ast.Call) and _dotted(v.func) == "queue.Queue" and not v.args and not v.keywords
                if not ok:
                    raise TranslationError(f"{path}:{st.lineno}: _write_msg_queue is not a plain queue.Queue()")
                seen["q"] = True
            if _is_self_attr(tgt, "_write_buffer"):
                v = st.value
                if not (isinstance(v, ast.Constant) and v.value == b""):
                    raise TranslationError(f"{path}:{st.lineno}: _write_buffer is not initialised to the immutable b\"\"")
                seen["b"] = True
    if set(seen) != {"q", "b"}:
        raise TranslationError(f"{path}:{init.lineno}: write queue / buffer initialisation not found")
    add = _find_func(pc, "add_out_msg", path)
    body = _strip_doc(add.body)
    ok = (len(body) == 1 and isinstance(body[0], ast.Expr) and isinstance(body[0].value, ast.Call)
          and _dotted(body[0].value.func) == "self._write_msg_queue.put" and len(body[0].value.args) == 1
          and isinstance(body[0].value.args[0], ast.Name) and body[0].value.args[0].id == add.args.args[1].arg
          and not body[0].value.keywords)
    if not ok:
        raise TranslationError(f"{path}:{add.lineno}: add_out_msg is not a single put() of the message on the write queue")


def gen_write():
    ppath, ptree = _parse("node/peer.py")
    pc = _find_class(ptree, "PeerConnection", ppath)
    _write_state_shape(pc, ppath)
    wp = _writer_program(_find_func(pc, "work_write_queue", ppath), ppath)
    rob = _remove_out_bytes_program(_find_func(pc, "remove_out_bytes", ppath), ppath)
    npath, ntree = _parse("node/node.py")
    nc = _find_class(ntree, "Node", npath)
    ip = _io_send_program(_find_func(nc, "_handle_connections", npath), npath, rob)
    return ("(* GENERATED by tools/translate.py from node/peer.py (work_write_queue, remove_out_bytes) and\n"
            "   node/node.py (send branch of _handle_connections) -- do not edit *)\n"
            "From DV Require Import Prelude.Base Model.WriteBuf.\n"
            f"Definition writer_prog_gen : list winstr := [{'; '.join(wp)}].\n"
            f"Definition io_prog_gen : list iinstr := [{'; '.join(ip)}].\n")

# ---------------------------------------------------------------------------------------------------------------
# C10 hand-over: Application.send_request (after routing) and Application.receive_answer as the two thread programs of
# Model/Handoff.v.  Fail closed: any statement that is not recognised stops the translation.
_HBH = "message.header.hop_by_hop_identifier"


_E2E_H = "message.header.end_to_end_identifier"


def _is_waiter_key(node, keyname=None):
    """the key of the waiter table: the hop-by-hop identifier, or the pair (hop-by-hop, end-to-end), or the local name that
    was bound to that pair"""
    if _dotted(node) == _HBH:
        _KEY_KINDS.append("hbh")
        return True
    if isinstance(node, ast.Tuple) and [_dotted(e) for e in node.elts] == [_HBH, _E2E_H]:
        _KEY_KINDS.append("pair")
        return True
    return keyname is not None and isinstance(node, ast.Name) and node.id == keyname


_KEY_KINDS = []


def _is_waiting_table_sub(node, keyname=None):
    return (isinstance(node, ast.Subscript) and _is_self_attr(node.value, "_answer_waiting")
            and _is_waiter_key(node.slice, keyname))


def _is_plain_log(st):
    if isinstance(st, ast.Expr) and isinstance(st.value, ast.Call):
        n = _dotted(st.value.func) or ""
        return n.startswith("logger.") or n.startswith("self.logger.")
    return False


def _sender_program(fn, path):
    body = _strip_doc(fn.body)
    # everything up to and including `peer, _ = self.node.route_request(self, message)` is the routing (C10 node model)
    start = None
    for i, st in enumerate(body):
        if isinstance(st, ast.Assign) and isinstance(st.value, ast.Call) and _dotted(st.value.func) == "self.node.route_request":
            start = i + 1
        elif start is None and any(isinstance(x, ast.Attribute) and x.attr in ("_answer_waiting", "send_message") for x in ast.walk(st)):
            raise TranslationError(f"{path}:{st.lineno}: waiter table / send before route_request")
    if start is None:
        raise TranslationError(f"{path}:{fn.lineno}: route_request call not found in send_request")
    prog, waiter, keyname = [], None, None
    for st in body[start:]:
        if isinstance(st, ast.Assign) and len(st.targets) == 1 and isinstance(st.targets[0], ast.Name) \
                and isinstance(st.value, ast.Call) and _dotted(st.value.func) == "WaitingMessage" and not st.value.args:
            waiter = st.targets[0].id
        elif isinstance(st, ast.Assign) and len(st.targets) == 1 and isinstance(st.targets[0], ast.Name) \
                and isinstance(st.value, ast.Tuple) and _is_waiter_key(st.value) and keyname is None and not prog:
            keyname = st.targets[0].id          # a local name for the key, bound before anything else happens
        elif isinstance(st, ast.Assign) and len(st.targets) == 1 and _is_waiting_table_sub(st.targets[0], keyname) \
                and isinstance(st.value, ast.Name) and st.value.id == waiter:
            prog.append("SReg")
        elif isinstance(st, ast.Expr) and isinstance(st.value, ast.Call) and _dotted(st.value.func) == "self.node.send_message" \
                and [_dotted(a) for a in st.value.args] == ["peer", "message"]:
            prog.append("SSend")
        elif isinstance(st, ast.Try):
            waits = [x for x in ast.walk(ast.Module(st.body, [])) if isinstance(x, ast.Call)
                     and _dotted(x.func) == f"{waiter}.event.wait"]
            if len(waits) != 1 or [_dotted(a) for a in waits[0].args] != ["timeout"]:
                raise TranslationError(f"{path}:{st.lineno}: expected exactly one {waiter}.event.wait(timeout) in the try body")
            # shape of the body: `if wait(...) is not True: raise TimeoutError`, `if waiter.answer is None: raise EmptyAnswer`,
            # `return waiter.answer`
            b = st.body
            ok = (len(b) == 3 and isinstance(b[0], ast.If) and isinstance(b[0].test, ast.Compare)
                  and b[0].test.left is waits[0] and isinstance(b[0].test.ops[0], ast.IsNot)
                  and isinstance(b[0].test.comparators[0], ast.Constant) and b[0].test.comparators[0].value is True
                  and len(b[0].body) == 1 and isinstance(b[0].body[0], ast.Raise) and not b[0].orelse
                  and isinstance(b[1], ast.If) and isinstance(b[1].test, ast.Compare) and _dotted(b[1].test.left) == f"{waiter}.answer"
                  and isinstance(b[1].test.ops[0], ast.Is) and isinstance(b[1].test.comparators[0], ast.Constant)
                  and b[1].test.comparators[0].value is None and len(b[1].body) == 1 and isinstance(b[1].body[0], ast.Raise)
                  and isinstance(b[2], ast.Return) and _dotted(b[2].value) == f"{waiter}.answer")
            if not ok:
                raise TranslationError(f"{path}:{st.lineno}: the waiting block of send_request has an unknown shape")
            for h in st.handlers:
                if not (len(h.body) == 1 and isinstance(h.body[0], ast.Raise) and h.body[0].exc is None):
                    raise TranslationError(f"{path}:{h.lineno}: handler of the waiting block does not re-raise")
            prog.append("SWait")
            fb = st.finalbody
            if not (len(fb) == 1 and isinstance(fb[0], ast.Delete) and len(fb[0].targets) == 1 and _is_waiting_table_sub(fb[0].targets[0], keyname)):
                raise TranslationError(f"{path}:{st.lineno}: finally block is not a single del of the waiter entry")
            prog.append("SDel")
        elif _is_plain_log(st):
            continue
        else:
            raise TranslationError(f"{path}:{st.lineno}: unrecognised statement in send_request after routing")
    return prog


def _dispatcher_program(fn, path):
    body = _strip_doc(fn.body)
    prog, waiter, i = [], None, 0
    while i < len(body) and _is_plain_log(body[i]):
        i += 1
    st = body[i] if i < len(body) else None
    if isinstance(st, ast.Assign) and len(st.targets) == 1 and isinstance(st.targets[0], ast.Name) \
            and isinstance(st.value, ast.Call) and isinstance(st.value.func, ast.Attribute) and st.value.func.attr == "get" \
            and _is_self_attr(st.value.func.value, "_answer_waiting") and len(st.value.args) == 1 and _is_waiter_key(st.value.args[0]) \
            and not st.value.keywords:
        waiter = st.targets[0].id
        prog.append("DGet")
        i += 1
        st = body[i] if i < len(body) else None
        ok = (isinstance(st, ast.If) and isinstance(st.test, ast.Compare) and _dotted(st.test.left) == waiter
              and isinstance(st.test.ops[0], ast.IsNot) and isinstance(st.test.comparators[0], ast.Constant)
              and st.test.comparators[0].value is None)
        if not ok:
            raise TranslationError(f"{path}:{fn.lineno}: expected `if {waiter} is not None` after the lookup")
        then = st.body
    elif isinstance(st, ast.If) and isinstance(st.test, ast.Compare) and _dotted(st.test.left) == _HBH \
            and isinstance(st.test.ops[0], ast.In) and _is_self_attr(st.test.comparators[0], "_answer_waiting"):
        prog.append("DTest")
        first = st.body[0] if st.body else None
        if not (isinstance(first, ast.Assign) and isinstance(first.targets[0], ast.Name) and _is_waiting_table_sub(first.value)):
            raise TranslationError(f"{path}:{st.lineno}: expected the waiter to be indexed first after the membership test")
        waiter = first.targets[0].id
        prog.append("DIndex")
        then = st.body[1:]
    else:
        raise TranslationError(f"{path}:{fn.lineno}: receive_answer does not start with a lookup of the waiter")
    if i + 1 != len(body):
        raise TranslationError(f"{path}:{fn.lineno}: statements after the if/else of receive_answer")
    for b in then:
        if isinstance(b, ast.Assign) and len(b.targets) == 1 and _dotted(b.targets[0]) == f"{waiter}.answer" \
                and _dotted(b.value) == "message":
            prog.append("DStore")
        elif isinstance(b, ast.Expr) and isinstance(b.value, ast.Call) and _dotted(b.value.func) == f"{waiter}.event.set" \
                and not b.value.args:
            prog.append("DSet")
        elif _is_plain_log(b):
            continue
        else:
            raise TranslationError(f"{path}:{b.lineno}: unrecognised statement in the waiter branch of receive_answer")
    for b in st.orelse:
        if isinstance(b, ast.Expr) and isinstance(b.value, ast.Call) and _dotted(b.value.func) == "self.handle_answer" \
                and [_dotted(a) for a in b.value.args] == ["message"]:
            prog.append("DHandle")
        elif _is_plain_log(b):
            continue
        else:
            raise TranslationError(f"{path}:{b.lineno}: unrecognised statement in the else branch of receive_answer")
    return prog


def gen_handoff():
    apath, atree = _parse("node/application.py")
    ac = _find_class(atree, "Application", apath)
    del _KEY_KINDS[:]
    sp = _sender_program(_find_func(ac, "send_request", apath), apath)
    dp = _dispatcher_program(_find_func(ac, "receive_answer", apath), apath)
    if len(set(_KEY_KINDS)) != 1:
        raise TranslationError(f"{apath}: send_request and receive_answer do not use the same key for _answer_waiting: {_KEY_KINDS}")
    # no subclass the library ships may replace the two methods
    for n in atree.body:
        if isinstance(n, ast.ClassDef) and n.name != "Application":
            for f in n.body:
                if isinstance(f, ast.FunctionDef) and f.name in ("send_request", "receive_answer"):
                    raise TranslationError(f"{apath}:{f.lineno}: {n.name} overrides {f.name}")
    return ("(* GENERATED by tools/translate.py from node/application.py (Application.send_request after routing,\n"
            "   Application.receive_answer) -- do not edit *)\n"
            "From DV Require Import Prelude.Base Model.Handoff.\n"
            f"Definition sender_prog_gen : list sinstr := [{'; '.join(sp)}].\n"
            f"Definition disp_prog_gen : list dinstr := [{'; '.join(dp)}].\n")

# ---------------------------------------------------------------------------------------------------------------
# C17 recording step: the statements of Node._record_answer that touch `_sent_answers`, as the thread program of
# Model/Record.v.  Fail closed.
_E2E = "message.header.end_to_end_identifier"


def _is_new_window(node):
    return (isinstance(node, ast.Call) and _dotted(node.func) == "deque" and not node.args and len(node.keywords) == 1
            and node.keywords[0].arg == "maxlen" and _dotted(node.keywords[0].value) == "self.retransmit_queue_size")


def _is_sent_sub(node):
    return (isinstance(node, ast.Subscript) and _is_self_attr(node.value, "_sent_answers") and _dotted(node.slice) == "origin_host")


def _record_program(fn, path):
    prog = []
    for st in _strip_doc(fn.body):
        touches = any(isinstance(x, ast.Attribute) and x.attr == "_sent_answers" for x in ast.walk(st))
        if not touches:
            continue
        if isinstance(st, ast.Expr) and isinstance(st.value, ast.Call) and isinstance(st.value.func, ast.Attribute) \
                and st.value.func.attr == "append" and [_dotted(a) for a in st.value.args] == [_E2E] and not st.value.keywords:
            tgt = st.value.func.value
            if isinstance(tgt, ast.Call) and isinstance(tgt.func, ast.Attribute) and tgt.func.attr == "setdefault" \
                    and _is_self_attr(tgt.func.value, "_sent_answers") and len(tgt.args) == 2 and not tgt.keywords \
                    and _dotted(tgt.args[0]) == "origin_host" and _is_new_window(tgt.args[1]):
                prog.append("RSetdefaultAppend")
                continue
            if _is_sent_sub(tgt):
                prog.append("RAppend")
                continue
        if isinstance(st, ast.If) and not st.orelse and isinstance(st.test, ast.Compare) and _dotted(st.test.left) == "origin_host" \
                and isinstance(st.test.ops[0], ast.NotIn) and _is_self_attr(st.test.comparators[0], "_sent_answers") \
                and len(st.body) == 1 and isinstance(st.body[0], ast.Assign) and len(st.body[0].targets) == 1 \
                and _is_sent_sub(st.body[0].targets[0]) and _is_new_window(st.body[0].value):
            prog.extend(["RTest", "RCreate"])
            continue
        raise TranslationError(f"{path}:{st.lineno}: unrecognised statement on _sent_answers in _record_answer")
    if not prog:
        raise TranslationError(f"{path}:{fn.lineno}: _record_answer does not touch _sent_answers")
    return prog


def gen_record():
    npath, ntree = _parse("node/node.py")
    nc = _find_class(ntree, "Node", npath)
    rp = _record_program(_find_func(nc, "_record_answer", npath), npath)
    # nothing else in the Node class may write the table (reads: the T-flag check; deletion of a whole origin is not done)
    for f in nc.body:
        if isinstance(f, ast.FunctionDef) and f.name not in ("_record_answer", "__init__"):
            for x in ast.walk(f):
                if isinstance(x, (ast.Assign, ast.AugAssign, ast.Delete)):
                    tg = x.targets if not isinstance(x, ast.AugAssign) else [x.target]
                    for t in tg:
                        if any(isinstance(y, ast.Attribute) and y.attr == "_sent_answers" for y in ast.walk(t)):
                            raise TranslationError(f"{npath}:{x.lineno}: {f.name} writes _sent_answers")
                if isinstance(x, ast.Call) and isinstance(x.func, ast.Attribute) and x.func.attr in (
                        "append", "appendleft", "pop", "popleft", "clear", "remove", "setdefault", "update", "extend") \
                        and any(isinstance(y, ast.Attribute) and y.attr == "_sent_answers" for y in ast.walk(x.func.value)):
                    raise TranslationError(f"{npath}:{x.lineno}: {f.name} modifies _sent_answers")
    return ("(* GENERATED by tools/translate.py from node/node.py (Node._record_answer: the statements on _sent_answers)\n"
            "   -- do not edit *)\n"
            "From DV Require Import Prelude.Base Model.Record.\n"
            f"Definition record_prog_gen : list rinstr := [{'; '.join(rp)}].\n")


UNITS = {"GenIds.v": gen_ids, "GenGetters.v": gen_getters, "GenWrite.v": gen_write, "GenHandoff.v": gen_handoff, "GenRecord.v": gen_record}


def regenerate(outdir, units=None):
    """Write the generated files; returns {file: None | error string}."""
    res = {}
    os.makedirs(outdir, exist_ok=True)
    for fname, fn in UNITS.items():
        if units is not None and fname not in units:
            continue
        target = os.path.join(outdir, fname)
        try:
            text = fn()
            err = None
        except TranslationError as e:
            # fail closed: a file that does not compile, carrying the reason
            text = f"(* TRANSLATION FAILED: {e} *)\nTranslation_failed.\n"
            err = str(e)
        old = None
        if os.path.exists(target):
            with open(target) as f:
                old = f.read()
        if old != text:
            with open(target, "w") as f:
                f.write(text)
        res[fname] = err
    return res


if __name__ == "__main__":
    import sys
    r = regenerate(sys.argv[1] if len(sys.argv) > 1 else "/verif/coq/Gen")
    for k, v in r.items():
        print(k, "OK" if v is None else "FAILED: " + v)
