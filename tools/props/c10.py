"""C10 — node-layer property (outbound routing); see tools/nodecheck.py and tools/nodeoracles.py."""
import nodecheck

PROFILE = dict(outbound=0.6, peers=3)
W = nodecheck.weights(app_request=8, answer_request=7, odd_answer=3, tick=5, cea=10, conndone=8, cer=8, close=1.5, dpr=1)
N_QUICK, N_THOROUGH, LENGTH = 60, 1500, 24
THEMES = (("ready", 2, 60, 2, 3000), ("two_peers", 400, 0, None, 0), ("realms", 120, 0, None, 0), ("default_peer", 160, 0, None, 0))
# the hop-by-hop identifiers of outbound requests come from the per-connection SequenceGenerator: the bridge theorem
# C10_hbh_fresh is about the model's generator, Link/LinkIds.v ties that generator's step program to node/_helpers.py
FILES = ["Link/LinkIds.v", "Props/C10.v"]


def _concurrent_senders(run):
    """failing-input search when the generator's tie broke: requests sent concurrently from several threads draw their
    hop-by-hop identifiers under every schedule with <= 3 pre-emptions (the C16 exploration)"""
    from props import c16
    extra = []
    for kind, start, nt, nd, pre, cap in [("seq", 10, 2, 2, 3, 20000), ("seq", 0xfffffffe, 3, 1, 3, 20000), ("seq", 77, 4, 1, 2, 20000)]:
        before = len(run.violations)
        c16._explore(run, kind, start, nt, nd, pre, cap, [], extra)
        for v in run.violations[before:]:
            v["what"] = ("requests sent concurrently on one connection: " + (v.get("what") or "two senders obtained the same / a zero "
                         "hop-by-hop identifier"))
        if run.violations:
            break


def check(run):
    return nodecheck.run(run, "C10", FILES, PROFILE, W, N_QUICK, N_THOROUGH, LENGTH, themes=THEMES, on_broken=_concurrent_senders)


replay = nodecheck.replay_generic
