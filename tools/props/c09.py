"""C09 — node-layer property; see tools/nodecheck.py and tools/nodeoracles.py."""
import nodecheck

PROFILE = dict(outbound=0.0, peers=3)
W = nodecheck.weights(request=9, app_answer=7, bad_app_answer=2, close=2, dpr=1.5, accept=4, cer=8)
N_QUICK, N_THOROUGH, LENGTH = 60, 1500, 20
THEMES = (("answers", 500, 0, None, 0), ("two_peers", 300, 0, None, 0), ("refused_twin", 250, 0, None, 0), ("twin_ids", 150, 0, None, 0), ("foreign_cea", None, 0, None, 0), ("reconnect_after_dpr", 80, 0, None, 0), ("nohost_reconnect", None, 0, None, 0), ("ready", 1, 30, 2, 500))
FILES = ["Props/C09.v"]


def known(v, k):
    if k["id"] == "C09-second-connection-same-peer":
        c = v["case"]
        return v["clause"] in ("answer-to-requester", "gone-is-not-routable") and bool(c.get("same_host_connections"))
    return False


class _Race:
    """one ready peer whose request was delivered and not answered; two application threads submit the answer at the same
    time.  The node model takes a submission as one atomic step (EAppAnswer); this exploration runs the real
    Node.route_answer / send_message under every interleaving of their source lines with <= `max_pre` pre-emptions and
    demands what every sequential order gives: exactly one submission succeeds and the answer is transmitted once."""
    def __init__(self, two_requests):
        import nodesim as NS
        from vsim import Sim
        self.sim = sim = Sim(seed=1, t0=NS.T0)
        sim.script_random([77, 12345])
        N = sim.node_mod
        self.node = node = N.Node("srv.example.net", "example.net", ip_addresses=["10.0.0.1"], tcp_port=3868)
        self.reqs = []
        self.app = app = sim.app_mod.SimpleThreadingApplication(4, is_auth_application=True,
                                                                request_handler=lambda a, m: self.reqs.append(m))
        peer = node.add_peer("aaa://cli0.example.net", "example.net")
        node.add_application(app, [peer])
        node.start()
        sim.run()
        sim.script_random([1000])
        self.remote = r = sim.connect_in()
        sim.run()
        r.feed(NS.build_message(dict(kind="cer", host="cli0.example.net", hbh=1, e2e=1)))
        sim.run()
        for k in range(2 if two_requests else 1):
            r.feed(NS.build_message(dict(kind="req", hbh=0x1001 + k, e2e=0x2001 + k, host="cli0.example.net")))
        sim.run()
        r.take_messages()

    def launch(self, chooser, plan):
        sim = self.sim
        self.outcomes = {}
        state = {"prev": None}

        def ch(runnable):
            pick = chooser(list(runnable), state["prev"])
            state["prev"] = pick
            return pick
        sim.line_mode([sim.node_mod.Node.route_answer, sim.node_mod.Node.send_message], ch)
        for t, which in enumerate(plan):
            def submit(t=t, which=which):
                ans = self.app.generate_answer(self.reqs[which], 2001)
                try:
                    self.app.send_answer(ans)
                    self.outcomes[t] = "accepted"
                except Exception as e:   # noqa
                    self.outcomes[t] = type(e).__name__
            sim.spawn(submit, name="S%d" % t)
        sim.run()
        sim.line_mode(None)
        sim.advance(1)

    def finish(self):
        got = [m.header.hop_by_hop_identifier for m in self.remote.take_messages() if not m.header.is_request]
        o = dict(outcomes=dict(self.outcomes), transmitted=got, deaths=list(self.sim.thread_deaths))
        self.sim.shutdown()
        return o


def concurrent_submissions(run, max_pre, cap):
    n_total = 0
    for plan in ([0, 0], [0, 0, 0], [0, 1, 0]):
        stack, n = [[]], 0
        while stack and n < cap:
            prefix = stack.pop()
            rec = []
            s = _Race(two_requests=1 in plan)

            def chooser(runnable, prev, prefix=prefix, rec=rec):
                i = len(rec)
                pre = rec[-1][2] if rec else 0
                c = prefix[i] if i < len(prefix) and prefix[i] in runnable else (prev if prev in runnable else runnable[0])
                rec.append((runnable, c, pre + (1 if (prev in runnable and c != prev) else 0)))
                return c
            try:
                s.launch(chooser, plan)
                o = s.finish()
            except Exception as e:   # noqa
                try:
                    s.sim.shutdown()
                except Exception:   # noqa
                    pass
                o = dict(error=f"{type(e).__name__}: {e}", outcomes={}, transmitted=[], deaths=[])
            n += 1
            sched = [d[1] for d in rec]
            run.count(1, [("race", tuple(plan), tuple(sched))] if len(set(sched)) > 1 else ())
            case = {"scenario": "concurrent submissions of the answer to one request", "submitters": [hex(0x1001 + w) for w in plan],
                    "schedule": sched}
            if "error" in o:
                run.violation("no-spin", case, o["error"], what="harness: " + o["error"])
                break
            want = {0x1001 + w for w in plan}
            acc = [t for t, v in o["outcomes"].items() if v == "accepted"]
            per_req = {h: sum(1 for t in acc if 0x1001 + plan[t] == h) for h in want}
            sent = {h: o["transmitted"].count(h) for h in want}
            if any(v != 1 for v in per_req.values()) or any(v != 1 for v in sent.values()) or o["deaths"]:
                run.violation("second-fails", case, {"outcomes": {str(k): v for k, v in o["outcomes"].items()},
                                                     "transmitted": [hex(h) for h in o["transmitted"]], "deaths": o["deaths"]},
                              "per request: one submission accepted, the others fail; the answer is transmitted once",
                              what="two concurrent submissions of one answer: both were accepted / the answer was transmitted "
                                   "more than once (or not at all)")
                break
            for i in range(len(prefix), len(rec)):
                runnable, chosen, _p = rec[i]
                prev = rec[i - 1][1] if i else None
                before = rec[i - 1][2] if i else 0
                for alt in runnable:
                    if alt != chosen and before + (1 if (prev in runnable and alt != prev) else 0) <= max_pre:
                        stack.append(sched[:i] + [alt])
        n_total += n
    run.extra["concurrent_submission_schedules"] = n_total


def check(run):
    orig_obligations = run.obligations

    def obligations_then_race(files):
        out = orig_obligations(files)
        if run.tier == "thorough":
            concurrent_submissions(run, 2, 1500)
        else:
            concurrent_submissions(run, 1, 150)
        return out
    run.obligations = obligations_then_race
    return nodecheck.run(run, "C09", FILES, PROFILE, W, N_QUICK, N_THOROUGH, LENGTH, themes=THEMES, known=known)


def replay(r):
    c = r.get("case", {})
    if str(c.get("scenario", "")).startswith("concurrent submissions"):
        plan = [int(x, 16) - 0x1001 for x in c["submitters"]]
        s = _Race(two_requests=1 in plan)
        pre = list(c["schedule"])
        k = [0]

        def chooser(runnable, prev):
            i = k[0]
            k[0] += 1
            return pre[i] if i < len(pre) and pre[i] in runnable else (prev if prev in runnable else runnable[0])
        s.launch(chooser, plan)
        o = s.finish()
        print("replay: outcomes", o["outcomes"], "transmitted", [hex(h) for h in o["transmitted"]])
        acc = [t for t, v in o["outcomes"].items() if v == "accepted"]
        return all(sum(1 for t in acc if plan[t] == w) == 1 and o["transmitted"].count(0x1001 + w) == 1 for w in set(plan))
    return nodecheck.replay_generic(r)
