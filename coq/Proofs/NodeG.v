(* C17 as a HISTORY property of the node model (Model/Node.v).

   The window of answered end-to-end identifiers that the node keeps per origin host
   (n_sent_answers) is compared with a ghost history computed from what the node RECEIVES
   (the frames that pass the connection's gate) and what it QUEUES (OQueue outputs carrying answers).

   Attribution of an answer to an origin host.  The ghost keeps a table of PENDING requests
   (hop-by-hop id, end-to-end id) -> origin host:
     - when a request with a declared Origin-Host attribute is received (it passes the gate of an existing
       connection), its pair is bound to its origin (an absent value counts as the origin "<none>", as in
       the implementation); an older pending request with the same pair is FORGOTTEN (the later
       request takes the pair over: this is what _receive_message does, so no distinctness hypothesis on
       the pairs of unanswered requests is needed; under that hypothesis nothing is ever forgotten);
     - when an answer is queued (OQueue cid a, o_req a = false), it is attributed to the origin bound to
       (o_hbh a, o_e2e a) in the table, the end-to-end id is appended to that origin's history and the
       binding is dropped; an answer whose pair is not pending is attributed to nobody.
     - when connections are closed (remove_peer_connection), the requests they had delivered to an application
       and that are still unanswered will never be answered: the node pops the host's entry of the per-host
       table n_peer_waiting and forgets these pairs in the origin table too.  The ghost does the same: the
       pairs listed under the hosts that LEFT n_peer_waiting (`gone_between n n'` = `lost`, read off the
       per-host table before and after) are dropped from the pending table (ghost_drop).  A host leaves
       the table only when one of its connections is removed (`keeps`, keeps_spec).  Without this drop a
       stale binding could attribute a later answer that reuses the pair to an origin for which the node
       records nothing (C17_history_example_close).
     - a request that will never be answered is FORGOTTEN (Node.drop_origin; ghost_unbind removes every binding
       of its pair, like the filter of record_answer):
         * an unexpected CER: a capabilities-exchange request that reaches _receive_message on a connection whose
           state is not CONNECTED (`cer_unexpected`, read off the node state at that frame) is either answered with
           an error (5005 / 5012) or ignored; after the outputs of its frame (the error answer, if any, is
           attributed first) its pair is unbound (C17_history_example_cer_ignored);
         * an application's answer that is not routable (fst (route_answer n m) = None, trace entry
           [ONotRoutable]) although a host was waiting for it in the per-host table (`waits`): the host's
           connection is gone or no longer ready; the pair is unbound (C17_history_example_answer_not_routable).
   `answered n0 evs o` is the list of end-to-end ids attributed to o, oldest first.  The ghost never looks
   at n_origin_waiting or n_sent_answers: that its table coincides with n_origin_waiting is part of the
   invariant (C17_history_pending).  Of the node's state it reads which frames pass the gate
   (`received`), frame by frame (a network read may hold several frames, and the gate of the second
   depends on what the first did): ghost_frames; there also whether the frame's connection is awaiting a CER
   (c_state); the per-host table n_peer_waiting at the points where connections may have been closed in
   between; and, for an application's answer, whether Node.route_answer finds a connection for it.  Order within one event:
     network read    drop (the I/O thread finishes its iteration: n -> read_state), then per frame
                     [bind the request; drop (CER election, CEA/DPA handling close connections before anything
                     is queued); see the outputs; unbind an unexpected CER], then drop (flush + I/O iteration
                     afterwards);
     answer of an application   routable: see the outputs, then drop relative to the state in which
                     Node.route_answer has taken the pair out of the per-host table (the I/O thread runs after the
                     answer is queued); not routable: unbind the pair if a host was waiting for it, else nothing;
     any other event see the outputs (the trace entry; no answer among them), then drop.
   recv_trace_answers / answered_from_trace tie the frame-by-frame outputs back to the trace.

   Results.
     trace_run                         the trace agrees with `run`
     C17_history_window (_gen)         window of o = last g_rsize elements of `answered n0 evs o`
     C17_history_pending               the ghost's pending table = n_origin_waiting
     C17_history_duplicate_rejected    T flag + end-to-end id in that tail => exactly one 5012 answer, no delivery
     C17_history_no_false_duplicate    no T flag, or id not in that tail => outputs of the routing function
                                       for the unflagged request (C08_route_refines)
     C17_history_flag_irrelevant       same premise, any command: the T flag changes nothing at all
     answered_from_trace               every element of the history is an answer queued in the trace
   Hypotheses.  wf_init n0 (only "n_origin_waiting and n_sent_answers start empty" is used for the window,
   see _gen; reachability gives the distinct origins of the table).  For the two step theorems the
   connection must exist when the bytes arrive (get_conn n cid) and be READY in the state in which the
   reader thread sees the frame (`read_state n ds cid`, NodeD): the I/O thread finishes its iteration first
   and may in that iteration close the connection on a watchdog timeout.  "Well-formed" (validation off or
   no missing AVP) is needed for the rejection and for flag_irrelevant, not for no_false_duplicate (the
   routing function covers the 5005 case).  No hypothesis on the distinctness of pairs (see above;
   ghost_request_fresh, C17_history_example_pair_reuse). *)
From DV Require Import Prelude.Base Model.Node Proofs.NodeB Proofs.NodeC Proofs.NodeD.
From Coq Require Import String.

(* ====================================================================== *)
(* 0. the trace of a run                                                   *)
(* ====================================================================== *)
Fixpoint trace (n : node) (evs : list (dials * event)) : list (event * list output) :=
  match evs with
  | [] => []
  | de :: r => (snd de, snd (step n (fst de) (snd de))) :: trace (fst (step n (fst de) (snd de))) r
  end.

Lemma run_fold evs : forall n acc,
  List.fold_left (fun acc de => let '(n, outs) := acc in
                                let '(n', o) := step n (fst de) (snd de) in (n', (outs ++ [o])%list)) evs (n, acc)
  = (fst (run n evs), (acc ++ List.map snd (trace n evs))%list).
Proof.
  induction evs as [|de r IH]; intros n acc.
  - cbn. rewrite List.app_nil_r. reflexivity.
  - rewrite run_cons. cbn [List.fold_left trace List.map snd].
    destruct (step n (fst de) (snd de)) as [n' o]. cbn [fst snd]. rewrite IH.
    rewrite <- List.app_assoc. reflexivity.
Qed.

(* the trace lists the events of the run, each with the outputs `run` reports for it *)
Theorem trace_run n evs :
  List.map snd (trace n evs) = snd (run n evs) /\ List.map fst (trace n evs) = List.map snd evs.
Proof.
  split.
  - unfold run at 1. rewrite run_fold. reflexivity.
  - revert n. induction evs as [|de r IH]; intros n; [reflexivity|].
    cbn [trace List.map fst]. rewrite IH. reflexivity.
Qed.

(* ====================================================================== *)
(* 1. what every function leaves alone, and what closing a connection drops *)
(* ====================================================================== *)
(* the per-host table of delivered, unanswered requests; what a closing connection takes with it *)
(* `keeps n n'`: between n and n' some connections were removed, one after the other; each removal takes the
   entry of the connection's host out of the per-host table and the pairs listed there out of the origin
   table; windows and configuration stay (same4 / drop1).  keeps_spec: the net effect on the origin table is
   ow_drop (lost pw pw'), computed from the per-host table before and after alone. *)
Definition pw_t : Type := list (string * list (Z * Z)).
Definition look (pw : pw_t) (host : string) : list (Z * Z) :=
  match List.find (fun e => String.eqb (fst e) host) pw with Some e => snd e | None => [] end.
Definition ow_drop (gone : list (Z * Z)) (ow : list (Z * Z * string)) : list (Z * Z * string) :=
  List.filter (fun x => let '(h, e, _) := x in negb (mem_zz (h, e) gone)) ow.
Definition hosts (pw : pw_t) : list string := List.map fst pw.
Definition mem_host (h : string) (l : list string) : bool := List.existsb (String.eqb h) l.
Definition lost (pw pw' : pw_t) : list (Z * Z) :=
  List.flat_map (look pw) (List.filter (fun h => negb (mem_host h (hosts pw'))) (hosts pw)).

Definition same4 (n n' : node) : Prop :=
  n_peer_waiting n' = n_peer_waiting n /\ n_origin_waiting n' = n_origin_waiting n
  /\ n_sent_answers n' = n_sent_answers n /\ n_cfg n' = n_cfg n.
Definition drop1 (host : string) (n n' : node) : Prop :=
  n_peer_waiting n' = List.filter (fun e => negb (String.eqb (fst e) host)) (n_peer_waiting n)
  /\ n_origin_waiting n' = ow_drop (look (n_peer_waiting n) host) (n_origin_waiting n)
  /\ n_sent_answers n' = n_sent_answers n /\ n_cfg n' = n_cfg n.
Inductive keeps : node -> node -> Prop :=
| k_same n n' : same4 n n' -> keeps n n'
| k_drop host n n1 n' : drop1 host n n1 -> keeps n1 n' -> keeps n n'.

Lemma keeps_refl n : keeps n n.
Proof. apply k_same. repeat split. Qed.
Lemma same4_keeps a b c : same4 a b -> keeps b c -> keeps a c.
Proof.
  intros (A1 & A2 & A3 & A4) K. revert a A1 A2 A3 A4. induction K as [b c (B1 & B2 & B3 & B4)|h b b1 c (D1 & D2 & D3 & D4) K IH]; intros a A1 A2 A3 A4.
  - apply k_same. repeat split; congruence.
  - apply (k_drop h a b1 c); [|exact K]. repeat split; congruence.
Qed.
Lemma keeps_trans a b c : keeps a b -> keeps b c -> keeps a c.
Proof.
  intros K1 K2. induction K1 as [a b S|h a a1 b D K IH]; [eapply same4_keeps; eassumption|].
  eapply k_drop; [exact D|]. apply IH. exact K2.
Qed.
Ltac kp := solve [apply k_same; repeat split; reflexivity].

Lemma remove_conn_k n cid r : keeps n (remove_conn n cid r).
Proof.
  unfold remove_conn. destruct (get_conn n cid) as [c|]; [|apply keeps_refl].
  eapply (k_drop (c_host c)); [|apply keeps_refl].
  destruct (find_conn_peer n c) as [p|]; [|repeat split; reflexivity].
  destruct (p_conn p) as [k|]; [|repeat split; reflexivity]. destruct (Nat.eqb k cid); repeat split; reflexivity.
Qed.

Lemma mem_zz_app q a b : mem_zz q (a ++ b) = mem_zz q a || mem_zz q b.
Proof. apply List.existsb_app. Qed.
Lemma mem_zz_flat {A} q (f : A -> list (Z * Z)) l :
  mem_zz q (List.flat_map f l) = List.existsb (fun k => mem_zz q (f k)) l.
Proof.
  induction l as [|k l IH]; [reflexivity|]. cbn [List.flat_map List.existsb]. rewrite mem_zz_app, IH. reflexivity.
Qed.
Lemma ow_drop_ext a b ow : (forall q, mem_zz q a = mem_zz q b) -> ow_drop a ow = ow_drop b ow.
Proof. intros H. apply List.filter_ext. intros [[h e] o]. rewrite H. reflexivity. Qed.
Lemma ow_drop_nil ow : ow_drop [] ow = ow.
Proof. unfold ow_drop. induction ow as [|[[h e] o] r IH]; [reflexivity|]. cbn. f_equal. exact IH. Qed.
Lemma ow_drop_drop a b ow : ow_drop b (ow_drop a ow) = ow_drop (a ++ b) ow.
Proof.
  unfold ow_drop. induction ow as [|[[h e] o] r IH]; [reflexivity|]. cbn [List.filter]. rewrite mem_zz_app.
  destruct (mem_zz (h, e) a); cbn [negb orb]; [exact IH|]. cbn [List.filter].
  destruct (mem_zz (h, e) b); cbn [negb]; [exact IH|]. f_equal. exact IH.
Qed.

Lemma mem_host_in h l : mem_host h l = true <-> List.In h l.
Proof.
  unfold mem_host. rewrite List.existsb_exists. split.
  - intros (x & Hin & E). apply String.eqb_eq in E. subst x. exact Hin.
  - intros Hin. exists h. split; [exact Hin|apply String.eqb_refl].
Qed.

Lemma mem_lost q a b :
  mem_zz q (lost a b) = true <->
  exists k, List.In k (hosts a) /\ mem_host k (hosts b) = false /\ mem_zz q (look a k) = true.
Proof.
  unfold lost. rewrite mem_zz_flat, List.existsb_exists. split.
  - intros (k & Hin & Hq). apply List.filter_In in Hin. destruct Hin as [Hin Hb].
    exists k. repeat split; [exact Hin| |exact Hq]. destruct (mem_host k (hosts b)); [discriminate Hb|reflexivity].
  - intros (k & Hin & Hb & Hq). exists k. split; [|exact Hq]. apply List.filter_In. split; [exact Hin|].
    rewrite Hb. reflexivity.
Qed.

Lemma look_filter_neq pw h k :
  k <> h -> look (List.filter (fun e => negb (String.eqb (fst e) h)) pw) k = look pw k.
Proof.
  intros Hn. unfold look. induction pw as [|e r IH]; [reflexivity|]. cbn [List.filter List.find].
  destruct (String.eqb (fst e) h) eqn:E1; cbn [negb].
  - apply String.eqb_eq in E1. destruct (String.eqb (fst e) k) eqn:E2; [|exact IH].
    apply String.eqb_eq in E2. exfalso. apply Hn. congruence.
  - cbn [List.find]. destruct (String.eqb (fst e) k); [reflexivity|exact IH].
Qed.

Lemma look_in q pw h : mem_zz q (look pw h) = true -> List.In h (hosts pw).
Proof.
  unfold look. destruct (List.find _ pw) as [e|] eqn:F; [|discriminate].
  intros _. apply List.find_some in F. destruct F as [Hin E]. apply String.eqb_eq in E. subst h.
  unfold hosts. apply List.in_map. exact Hin.
Qed.

Lemma hosts_filter_in pw h k :
  List.In k (hosts (List.filter (fun e => negb (String.eqb (fst e) h)) pw)) <-> List.In k (hosts pw) /\ k <> h.
Proof.
  unfold hosts. rewrite !List.in_map_iff. split.
  - intros (e & E & Hin). apply List.filter_In in Hin. destruct Hin as [Hin Hb]. subst k. split; [exists e; split; [reflexivity|exact Hin]|].
    intros E. rewrite E, String.eqb_refl in Hb. discriminate Hb.
  - intros [(e & E & Hin) Hn]. exists e. split; [exact E|]. apply List.filter_In. split; [exact Hin|].
    subst k. destruct (String.eqb (fst e) h) eqn:E2; [apply String.eqb_eq in E2; contradiction|reflexivity].
Qed.

Lemma lost_same pw : lost pw pw = [].
Proof.
  unfold lost. replace (List.filter _ (hosts pw)) with (@nil string); [reflexivity|].
  symmetry. assert (H : forall l, (forall k, List.In k l -> List.In k (hosts pw)) ->
     List.filter (fun h => negb (mem_host h (hosts pw))) l = []).
  { induction l as [|k l IH]; intros Hl; [reflexivity|]. cbn [List.filter].
    destruct (mem_host k (hosts pw)) eqn:E; cbn [negb]; [apply IH; intros x Hx; apply Hl; right; exact Hx|].
    exfalso. assert (mem_host k (hosts pw) = true) by (apply mem_host_in, Hl; left; reflexivity). congruence. }
  apply H. auto.
Qed.

Lemma lost_step pw pw' h q :
  (forall k, List.In k (hosts pw') -> List.In k (hosts (List.filter (fun e => negb (String.eqb (fst e) h)) pw))) ->
  mem_zz q (lost pw pw')
  = mem_zz q (look pw h ++ lost (List.filter (fun e => negb (String.eqb (fst e) h)) pw) pw').
Proof.
  intros Hsub. set (pw1 := List.filter _ pw) in *.
  apply Bool.eq_iff_eq_true. rewrite mem_zz_app, Bool.orb_true_iff, !mem_lost. split.
  - intros (k & Hin & Hb & Hq). destruct (string_dec k h) as [E|E].
    + left. subst k. exact Hq.
    + right. exists k. split; [apply hosts_filter_in; split; assumption|]. split; [exact Hb|].
      unfold pw1. rewrite look_filter_neq by exact E. exact Hq.
  - intros [Hq|(k & Hin & Hb & Hq)].
    + exists h. split; [eapply look_in; exact Hq|]. split; [|exact Hq].
      destruct (mem_host h (hosts pw')) eqn:E; [|reflexivity]. exfalso.
      apply mem_host_in, Hsub, hosts_filter_in in E. destruct E as [_ E]. apply E. reflexivity.
    + apply hosts_filter_in in Hin. destruct Hin as [Hin Hn]. exists k. split; [exact Hin|]. split; [exact Hb|].
      unfold pw1 in Hq. rewrite look_filter_neq in Hq by exact Hn. exact Hq.
Qed.

Lemma keeps_spec n n' : keeps n n' ->
  n_sent_answers n' = n_sent_answers n /\ n_cfg n' = n_cfg n
  /\ (forall k, List.In k (hosts (n_peer_waiting n')) -> List.In k (hosts (n_peer_waiting n)))
  /\ n_origin_waiting n' = ow_drop (lost (n_peer_waiting n) (n_peer_waiting n')) (n_origin_waiting n).
Proof.
  induction 1 as [n n' (S1 & S2 & S3 & S4)|h n n1 n' (D1 & D2 & D3 & D4) K (I1 & I2 & I3 & I4)].
  - rewrite S1, lost_same, ow_drop_nil. repeat split; auto.
  - assert (Hsub : forall k, List.In k (hosts (n_peer_waiting n')) ->
                     List.In k (hosts (List.filter (fun e => negb (String.eqb (fst e) h)) (n_peer_waiting n)))).
    { intros k Hk. rewrite <- D1. apply I3. exact Hk. }
    split; [congruence|]. split; [congruence|]. split.
    + intros k Hk. apply Hsub, hosts_filter_in in Hk. apply Hk.
    + rewrite I4, D2, ow_drop_drop, D1. apply ow_drop_ext. intros q. symmetry. apply lost_step. exact Hsub.
Qed.

Lemma close_conn_k n cid r : keeps n (fst (close_conn n cid r)).
Proof. unfold close_conn. destruct (get_conn n cid); cbn [fst]; [apply remove_conn_k|apply keeps_refl]. Qed.

Lemma close_all_k cids : forall n r, keeps n (fst (close_all n cids r)).
Proof.
  induction cids as [|k l IH]; intros n r; [apply keeps_refl|]. cbn [close_all].
  pose proof (close_conn_k n k r) as H1. destruct (close_conn n k r) as [n1 o1].
  pose proof (IH n1 r) as H2. destruct (close_all n1 l r) as [n2 o2].
  cbn [fst] in *. eapply keeps_trans; eassumption.
Qed.

Lemma send_req_k n cid m : o_req m = true -> keeps n (fst (send_message n cid m)).
Proof. intros H. unfold send_message, queue_out. rewrite H. kp. Qed.

Lemma own_request_k n cid c : keeps n (fst (own_request n cid c)).
Proof. unfold own_request. destruct (get_conn n cid); kp. Qed.

Lemma send_cer_k n cid : keeps n (fst (send_cer n cid)).
Proof.
  unfold send_cer. pose proof (own_request_k n cid CE) as K. pose proof (own_request_req n cid CE) as H.
  destruct (own_request n cid CE) as [n1 m]. cbn [fst snd] in *.
  eapply keeps_trans; [exact K|apply send_req_k; exact H].
Qed.
Lemma send_dwr_k n cid : keeps n (fst (send_dwr n cid)).
Proof.
  unfold send_dwr. pose proof (own_request_k n cid DW) as K. pose proof (own_request_req n cid DW) as H.
  destruct (own_request n cid DW) as [n1 m]. cbn [fst snd] in *.
  pose proof (send_req_k n1 cid m H) as K2. destruct (send_message n1 cid m) as [n2 o]. cbn [fst] in *.
  eapply keeps_trans; [exact K|]. eapply keeps_trans; [exact K2|kp].
Qed.
Lemma send_dpr_k n cid : keeps n (fst (send_dpr n cid)).
Proof.
  unfold send_dpr. pose proof (own_request_k n cid DP) as K. pose proof (own_request_req n cid DP) as H.
  destruct (own_request n cid DP) as [n1 m]. cbn [fst snd] in *. cbv zeta.
  eapply keeps_trans; [exact K|]. eapply keeps_trans; [|apply send_req_k; exact H]. kp.
Qed.

Lemma check_timers_k n cid : keeps n (fst (check_timers n cid)).
Proof.
  unfold check_timers. destruct (n_stopping n); [apply keeps_refl|].
  destruct (get_conn n cid) as [c|]; [|apply keeps_refl]. cbv zeta.
  destruct (c_state c); try apply keeps_refl;
    match goal with |- context [if ?b then _ else _] => destruct b end;
    first [apply keeps_refl | apply close_conn_k | apply send_dwr_k].
Qed.

Lemma timers_all_k cids : forall n, keeps n (fst (timers_all n cids)).
Proof.
  induction cids as [|cid r IH]; intros n; [apply keeps_refl|]. cbn [timers_all].
  pose proof (check_timers_k n cid) as H1. destruct (check_timers n cid) as [n1 o1].
  pose proof (IH n1) as H2. destruct (timers_all n1 r) as [n2 o2].
  cbn [fst] in *. eapply keeps_trans; eassumption.
Qed.

Lemma connect_to_peer_k n name h res : keeps n (fst (connect_to_peer n name h res)).
Proof.
  unfold connect_to_peer. destruct (get_peer n name) as [p|]; [|apply keeps_refl].
  destruct (p_conn p); [apply keeps_refl|].
  destruct (negb (p_has_addr p)); [apply keeps_refl|]. cbv zeta.
  destruct res.
  - match goal with |- context [send_cer ?a ?b] =>
      pose proof (send_cer_k a b) as Hc; destruct (send_cer a b) as [n5 o] end.
    cbn [fst] in *. eapply keeps_trans; [|exact Hc]. kp.
  - match goal with |- context [close_conn ?a ?b ?c] =>
      pose proof (close_conn_k a b c) as Hc; destruct (close_conn a b c) as [n4 o] end.
    cbn [fst] in *. eapply keeps_trans; [|exact Hc]. kp.
  - kp.
Qed.

Lemma reconnect_all_k names : forall n ds, keeps n (fst (fst (reconnect_all n names ds))).
Proof.
  induction names as [|nm r IH]; intros n ds; [apply keeps_refl|]. cbn [reconnect_all].
  destruct (get_peer n nm) as [p|]; [|apply IH].
  destruct (wants_reconnect n p && p_has_addr p); [|apply IH].
  destruct ds as [|[h0 res] dr].
  - pose proof (connect_to_peer_k n nm 0 DialOk) as H1. destruct (connect_to_peer n nm 0 DialOk) as [n1 o1].
    pose proof (IH n1 []) as H2. destruct (reconnect_all n1 r []) as [[n2 o2] d2].
    cbn [fst] in *. eapply keeps_trans; eassumption.
  - pose proof (connect_to_peer_k n nm h0 res) as H1. destruct (connect_to_peer n nm h0 res) as [n1 o1].
    pose proof (IH n1 dr) as H2. destruct (reconnect_all n1 r dr) as [[n2 o2] d2].
    cbn [fst] in *. eapply keeps_trans; eassumption.
Qed.

Lemma io_iteration_k n ds : keeps n (fst (fst (io_iteration n ds))).
Proof.
  unfold io_iteration.
  pose proof (timers_all_k (List.map c_id (n_conns n)) n) as H1.
  destruct (timers_all n (List.map c_id (n_conns n))) as [n1 o1].
  pose proof (reconnect_all_k (List.map p_name (n_peers n1)) n1 ds) as H2.
  destruct (reconnect_all n1 (List.map p_name (n_peers n1)) ds) as [[n2 o2] ds'].
  cbn [fst] in *. eapply keeps_trans; [exact H1|]. eapply keeps_trans; [exact H2|kp].
Qed.

Lemma flush_one_k n cid : keeps n (fst (flush_one n cid)).
Proof.
  unfold flush_one. destruct (get_conn n cid) as [c|]; [|apply keeps_refl].
  destruct (c_stalled c || negb (c_sock_open c)); [apply keeps_refl|]. cbv zeta.
  destruct (c_out c) as [|x l]; [kp|].
  destruct (cstate_eqb (c_state c) SClosing); [|kp].
  match goal with |- context [close_conn ?a ?b ?c] =>
    pose proof (close_conn_k a b c) as Hc; destruct (close_conn a b c) as [n'' oc] end.
  cbn [fst] in *. eapply keeps_trans; [|exact Hc]. kp.
Qed.

Lemma flush_conns_k cids : forall n, keeps n (fst (flush_conns n cids)).
Proof.
  induction cids as [|cid r IH]; intros n; [apply keeps_refl|].
  rewrite flush_conns_cons.
  pose proof (flush_one_k n cid) as H1. destruct (flush_one n cid) as [n1 o1].
  pose proof (IH n1) as H2. destruct (flush_conns n1 r) as [n2 o2].
  cbn [fst] in *. eapply keeps_trans; eassumption.
Qed.
Lemma flush_k n : keeps n (fst (flush n)).
Proof. apply flush_conns_k. Qed.

Lemma settle_k n ds : keeps n (fst (fst (settle n ds))).
Proof.
  unfold settle.
  pose proof (flush_k n) as H1. destruct (flush n) as [n1 o1].
  pose proof (io_iteration_k n1 ds) as H2. destruct (io_iteration n1 ds) as [[n2 o2] ds'].
  pose proof (flush_k n2) as H3. destruct (flush n2) as [n3 o3].
  cbn [fst] in *. eapply keeps_trans; [exact H1|]. eapply keeps_trans; eassumption.
Qed.
Lemma settle'_k n ds : keeps n (fst (settle' n ds)).
Proof.
  unfold settle'. pose proof (settle_k n ds) as H. destruct (settle n ds) as [[n1 o1] d]. exact H.
Qed.

Lemma k_then_settle (r : node * list output) n ds :
  keeps n (fst r) ->
  keeps n (fst (let '(n1, o1) := r in let '(n2, o2) := settle' n1 ds in (n2, (o1 ++ o2)%list))).
Proof.
  destruct r as [n1 o1]. intros H1. pose proof (settle'_k n1 ds) as H2.
  destruct (settle' n1 ds) as [n2 o2]. cbn [fst] in *. eapply keeps_trans; eassumption.
Qed.

Lemma settle_app_k n ds : keeps n (fst (fst (settle_app n ds))).
Proof.
  unfold settle_app.
  pose proof (io_iteration_k n ds) as H2. destruct (io_iteration n ds) as [[n2 o2] ds'].
  pose proof (flush_k n2) as H3. destruct (flush n2) as [n3 o3].
  cbn [fst] in *. eapply keeps_trans; eassumption.
Qed.
Lemma settle_app'_k n ds : keeps n (fst (settle_app' n ds)).
Proof.
  unfold settle_app'. pose proof (settle_app_k n ds) as H. destruct (settle_app n ds) as [[n1 o1] d]. exact H.
Qed.

Lemma k_then_settle_app (r : node * list output) n ds :
  keeps n (fst r) ->
  keeps n (fst (let '(n1, o1) := r in let '(n2, o2) := settle_app' n1 ds in (n2, (o1 ++ o2)%list))).
Proof.
  destruct r as [n1 o1]. intros H1. pose proof (settle_app'_k n1 ds) as H2.
  destruct (settle_app' n1 ds) as [n2 o2]. cbn [fst] in *. eapply keeps_trans; eassumption.
Qed.

Lemma wake_k target fuel : forall n0 n ds acc, keeps n0 n -> keeps n0 (fst (wake target fuel n ds acc)).
Proof.
  induction fuel as [|f IH]; intros n0 n ds acc K; cbn [wake].
  - cbn [fst]. eapply keeps_trans; [exact K|kp].
  - destruct (n_io_deadline n <=? target); [|cbn [fst]; eapply keeps_trans; [exact K|kp]].
    cbv zeta.
    match goal with |- context [settle ?a ?b] =>
      pose proof (settle_k a b) as H2; destruct (settle a b) as [[n2 o2] ds2] end.
    cbn [fst] in H2. apply IH. eapply keeps_trans; [exact K|]. eapply keeps_trans; [|exact H2]. kp.
Qed.

Lemma stop_go_k cids : forall n0 n acc, keeps n0 n -> keeps n0 (fst (stop_go cids n acc)).
Proof.
  induction cids as [|c r IH]; intros n0 n acc K; cbn [stop_go]; [exact K|].
  destruct (get_conn n c) as [cn|]; [|apply IH; exact K].
  destruct (is_ready_state (c_state cn)); [|apply IH; exact K].
  pose proof (send_dpr_k n c) as H2. destruct (send_dpr n c) as [n' o'].
  apply IH. eapply keeps_trans; eassumption.
Qed.

Lemma finish_go_k cids : forall n0 n acc, keeps n0 n -> keeps n0 (fst (finish_go cids n acc)).
Proof.
  induction cids as [|c r IH]; intros n0 n acc K; cbn [finish_go]; [exact K|].
  pose proof (close_conn_k n c R_SHUTDOWN) as H2. destruct (close_conn n c R_SHUTDOWN) as [n' o'].
  apply IH. eapply keeps_trans; eassumption.
Qed.

Lemma start_go_k names : forall n0 n ds acc, keeps n0 n -> keeps n0 (fst (fst (start_go names n ds acc))).
Proof.
  induction names as [|nm r IH]; intros n0 n ds acc K; cbn [start_go]; [exact K|].
  destruct (get_peer n nm) as [p|]; [|apply IH; exact K].
  destruct (p_persistent p); [|apply IH; exact K].
  destruct ds as [|[h0 res] dr].
  - pose proof (connect_to_peer_k n nm 0 DialOk) as H2. destruct (connect_to_peer n nm 0 DialOk) as [n1 o1].
    apply IH. eapply keeps_trans; eassumption.
  - pose proof (connect_to_peer_k n nm h0 res) as H2. destruct (connect_to_peer n nm h0 res) as [n1 o1].
    apply IH. eapply keeps_trans; eassumption.
Qed.

(* every event other than a network read and an application's answer leaves the windows and the
   configuration alone and changes the table of pending requests only by closing connections *)
Lemma step_k n ds e :
  (forall cid ms, e <> ERecv cid ms) -> (forall i m, e <> EAppAnswer i m) -> keeps n (fst (step n ds e)).
Proof.
  intros HnR HnA. destruct e as [hbh0|cid ms|cid|cid hard|cid ok|cid b|dt|i m|i m realm pick tmo|force|tclose tend|].
  - (* EAccept *)
    cbn [step]. destruct (n_stopping n); [kp|]. cbv zeta.
    eapply keeps_trans; [|apply settle'_k]. kp.
  - exfalso. exact (HnR _ _ eq_refl).
  - (* EPeerClose *)
    cbn [step]. apply k_then_settle. apply close_conn_k.
  - (* EReadErr *)
    cbn [step]. apply k_then_settle. destruct hard; [apply close_conn_k|apply keeps_refl].
  - (* EConnDone *)
    cbn [step]. destruct (get_conn n cid) as [c|]; [|apply keeps_refl].
    destruct (cstate_eqb (c_state c) SConnecting); [|apply keeps_refl].
    destruct ok.
    + cbv zeta.
      match goal with |- context [send_cer ?a ?b] =>
        assert (K2 : keeps n a);
        [|pose proof (send_cer_k a b) as H3; destruct (send_cer a b) as [n3 o3]] end.
      { match goal with |- context [find_conn_peer ?a ?b] => destruct (find_conn_peer a b) end; kp. }
      pose proof (io_iteration_k n3 ds) as H4. destruct (io_iteration n3 ds) as [[n4 o4] ds4].
      pose proof (settle'_k n4 ds4) as H5. destruct (settle' n4 ds4) as [n5 o5].
      cbn [fst] in *. eapply keeps_trans; [exact K2|]. eapply keeps_trans; [exact H3|].
      eapply keeps_trans; eassumption.
    + apply k_then_settle. apply close_conn_k.
  - (* EStall *)
    cbn [step]. destruct (get_conn n cid) as [c|]; [|apply keeps_refl]. cbv zeta.
    destruct b; [kp|]. destruct (c_out c); [kp|]. eapply keeps_trans; [|apply settle'_k]. kp.
  - (* ETick *)
    rewrite step_tick. apply wake_k. apply keeps_refl.
  - exfalso. exact (HnA _ _ eq_refl).
  - (* EAppRequest *)
    rewrite step_app_request.
    assert (K0 : keeps n (fst (e2e_prep n m))).
    { unfold e2e_prep. destruct (o_e2e m =? 0); kp. }
    generalize dependent (fst (e2e_prep n m)). intros n0 K0. generalize (snd (e2e_prep n m)). intros e2e.
    unfold req_core.
    destruct (route_request n0 i realm) as [usable|]; [|exact K0].
    destruct usable as [|p0 rest]; [exact K0|].
    destruct (choose (p0 :: rest) pick) as [p|]; [|exact K0].
    destruct (p_conn p) as [cid|]; [|exact K0].
    destruct (get_conn n0 cid) as [c|]; [|exact K0].
    assert (K1 : keeps n0 (fst (if o_hbh m =? 0
               then (set_conns n0 (upd_conn (n_conns n0) cid (fun c => set_chbh c (seq_next (c_hbh c)))), seq_next (c_hbh c))
               else (n0, o_hbh m)))) by (destruct (o_hbh m =? 0); kp).
    destruct (if o_hbh m =? 0 then _ else _) as [n1 hbh]. cbn [fst] in K1. cbv zeta.
    eapply keeps_trans; [exact K0|]. eapply keeps_trans; [exact K1|].
    apply k_then_settle_app. eapply keeps_trans; [|apply send_req_k; reflexivity]. kp.
  - (* EStop *)
    rewrite step_stop. cbv zeta. destruct force; [kp|].
    apply k_then_settle. apply stop_go_k. kp.
  - (* EStopFinish *)
    rewrite step_stop_finish. cbv zeta.
    match goal with |- context [finish_go ?l ?a ?b] =>
      pose proof (finish_go_k l n a b) as H1; destruct (finish_go l a b) as [n1 o1] end.
    cbn [fst] in *. eapply keeps_trans; [apply H1; kp|kp].
  - (* EStart *)
    rewrite step_start.
    pose proof (start_go_k (List.map p_name (n_peers n)) n n ds [] (keeps_refl n)) as H1.
    destruct (start_go (List.map p_name (n_peers n)) n ds []) as [[n1 o1] ds1]. cbn [fst] in H1.
    apply (k_then_settle (n1, o1)). exact H1.
Qed.

Lemma flag_ready_k n cid : same4 n (flag_ready n cid).
Proof. repeat split. Qed.
Lemma assign_peer_conn_k n cid : same4 n (assign_peer_conn n cid).
Proof.
  unfold assign_peer_conn. destruct (get_conn n cid) as [c|]; [|repeat split].
  destruct (String.eqb (c_host c) ""); [repeat split|].
  destruct (get_peer n (c_host c)) as [p|]; [|repeat split]. cbv zeta.
  destruct (mem_nat cid (n_half_ready n)); repeat split.
Qed.
(* ---- functions that close nothing: the table of pending requests, the windows and the configuration
   stay, and no host leaves the per-host table (its lists may change) ---- *)
Definition hsub (pw pw' : pw_t) : Prop := forall k, List.In k (hosts pw) -> List.In k (hosts pw').
Definition kept (n n' : node) : Prop :=
  n_origin_waiting n' = n_origin_waiting n /\ n_sent_answers n' = n_sent_answers n /\ n_cfg n' = n_cfg n
  /\ hsub (n_peer_waiting n) (n_peer_waiting n').

Lemma kept_refl n : kept n n.
Proof. repeat split. intros k H. exact H. Qed.
Lemma kept_trans a b c : kept a b -> kept b c -> kept a c.
Proof. intros (A1 & A2 & A3 & A4) (B1 & B2 & B3 & B4). repeat split; try congruence. intros k H. apply B4, A4, H. Qed.
Lemma same4_kept n n' : same4 n n' -> kept n n'.
Proof. intros (S1 & S2 & S3 & S4). repeat split; try assumption. rewrite S1. intros k H. exact H. Qed.

Ltac kp ::= solve [apply k_same; repeat split; reflexivity | apply same4_kept; repeat split; reflexivity].

Lemma hosts_pw_remove pw h p : hosts (pw_remove pw h p) = hosts pw.
Proof.
  unfold hosts, pw_remove. rewrite List.map_map. apply List.map_ext. intros e. destruct (String.eqb (fst e) h); reflexivity.
Qed.
Lemma hsub_pw_add pw h p : hsub pw (pw_add pw h p).
Proof.
  unfold pw_add. destruct (List.existsb _ pw).
  - match goal with |- hsub pw ?x => assert (E : hosts x = hosts pw); [|intros k H; rewrite E; exact H] end.
    unfold hosts. rewrite List.map_map. apply List.map_ext. intros e. destruct (String.eqb (fst e) h); reflexivity.
  - intros k H. unfold hosts. rewrite List.map_app. apply List.in_or_app. left. exact H.
Qed.
Lemma kept_pw_remove n n' h p :
  n_peer_waiting n' = pw_remove (n_peer_waiting n) h p -> n_origin_waiting n' = n_origin_waiting n ->
  n_sent_answers n' = n_sent_answers n -> n_cfg n' = n_cfg n -> kept n n'.
Proof. intros E1 E2 E3 E4. repeat split; try assumption. rewrite E1. intros k H. rewrite hosts_pw_remove. exact H. Qed.

(* a host is waiting for the answer to the pair p (Node.route_answer finds it in the per-host table) *)
Definition waits (n : node) (p : Z * Z) : bool :=
  match List.find (fun e => mem_zz p (snd e)) (n_peer_waiting n) with Some _ => true | None => false end.

(* Node.route_answer: a routable answer only leaves its host's list; an answer that is not routable although a host
   was waiting for it takes its pair out of the origin table (drop_origin) *)
Lemma route_answer_k n a :
  match fst (route_answer n a) with
  | Some _ => kept n (snd (route_answer n a))
  | None => n_origin_waiting (snd (route_answer n a))
            = (if waits n (o_hbh a, o_e2e a) then ow_remove (n_origin_waiting n) (o_hbh a) (o_e2e a)
               else n_origin_waiting n)
            /\ n_sent_answers (snd (route_answer n a)) = n_sent_answers n
            /\ n_cfg (snd (route_answer n a)) = n_cfg n
  end.
Proof.
  unfold route_answer, waits. destruct (List.find _ (n_peer_waiting n)) as [[host l]|]; [|repeat split]. cbv zeta.
  destruct (List.find _ _) as [c|]; [|repeat split].
  destruct (is_ready_state (c_state c)); [eapply kept_pw_remove; reflexivity|repeat split].
Qed.

(* ====================================================================== *)
(* 2. the ghost history                                                    *)
(* ====================================================================== *)
(* pending requests, and the answers attributed so far, oldest first: (origin host, end-to-end id) *)
Definition ghost : Type := (list (Z * Z * string) * list (string * Z))%type.
Definition ghost0 : ghost := ([], []).

(* a request is received: its pair is bound to its origin (replacing an older binding of the pair) *)
Definition ghost_request (g : ghost) (m : msg) : ghost :=
  if m_req m then
    match origin_key m with
    | Some o => ((ow_remove (fst g) (m_hbh m) (m_e2e m) ++ [(m_hbh m, m_e2e m, o)])%list, snd g)
    | None => g
    end
  else g.

(* an answer is queued: attributed to the origin its pair is bound to, if any *)
Definition ghost_answer (g : ghost) (a : omsg) : ghost :=
  match ow_get (fst g) (o_hbh a) (o_e2e a) with
  | Some o => (ow_remove (fst g) (o_hbh a) (o_e2e a), (snd g ++ [(o, o_e2e a)])%list)
  | None => g
  end.

(* connections were closed: the pairs that waited under the hosts which left the per-host table are dropped *)
Definition ghost_drop (g : ghost) (gone : list (Z * Z)) : ghost := (ow_drop gone (fst g), snd g).
(* what the closing connections took with them between two states *)
Definition gone_between (n n' : node) : list (Z * Z) := lost (n_peer_waiting n) (n_peer_waiting n').

Definition ghost_out (g : ghost) (o : output) : ghost :=
  match o with
  | OQueue _ a => if o_req a then g else ghost_answer g a
  | _ => g
  end.
Definition ghost_outs (g : ghost) (outs : list output) : ghost := List.fold_left ghost_out outs g.

(* the frame reaches Node._receive_message: its connection exists and the gate lets it through *)
Definition received (n : node) (cid : nat) (m : msg) : bool :=
  match get_conn n cid with Some c => gate_passes c m | None => false end.

(* a request that will never be answered is forgotten: every binding of its pair goes *)
Definition ghost_unbind (g : ghost) (hbh e2e : Z) : ghost := (ow_remove (fst g) hbh e2e, snd g).

(* a capabilities-exchange request reaches Node._receive_message on a connection that is not awaiting one
   (state other than CONNECTED): it is either answered with an error or ignored; it does not stay pending *)
Definition cer_unexpected (n : node) (cid : nat) (m : msg) : bool :=
  match get_conn n cid with
  | Some c => gate_passes c m && m_req m && cmd_eqb (m_cmd m) CE && negb (cstate_eqb (c_state c) SConnected)
  | None => false
  end.

(* the frames of one read, in order: each is received (or dropped by the gate), then the outputs the
   node produces for it are seen; n is the state in which the reader thread sees the frame.  An unexpected
   CER is unbound after its outputs (an error answer to it is attributed first) *)
Fixpoint ghost_frames (n : node) (g : ghost) (cid : nat) (ms : list msg) : ghost :=
  match ms with
  | [] => g
  | m :: r =>
      let g1 := if received n cid m then ghost_request g m else g in
      let g2 := ghost_drop g1 (gone_between n (fst (dispatch n cid m))) in
      let g3 := ghost_outs g2 (snd (dispatch n cid m)) in
      let g4 := if cer_unexpected n cid m then ghost_unbind g3 (m_hbh m) (m_e2e m) else g3 in
      ghost_frames (fst (dispatch n cid m)) g4 cid r
  end.

(* one event.  A network read: the frames, one after the other, in the state in which the reader thread
   starts on them (`read_state`, NodeD).  Every other event: the outputs of the step (the trace entry). *)
Definition ghost_step (n : node) (ds : dials) (e : event) (g : ghost) : ghost :=
  match e with
  | ERecv cid ms =>
      match get_conn n cid with
      | None => g
      | Some _ =>
          let rs := read_state n ds cid in
          let g1 := ghost_frames rs (ghost_drop g (gone_between n rs)) cid ms in
          ghost_drop g1 (gone_between (fst (dispatch_all rs cid ms)) (fst (step n ds e)))
      end
  | EAppAnswer _ m =>
      match fst (route_answer n m) with
      | Some _ =>
          (* Node.route_answer takes the answer's pair out of the per-host table, then the answer is queued,
             then the I/O thread may close connections *)
          ghost_drop (ghost_outs g (snd (step n ds e))) (gone_between (snd (route_answer n m)) (fst (step n ds e)))
      | None =>
          (* not routable (the trace entry is [ONotRoutable]): when a host was waiting for it, its connection
             is gone or no longer ready and the request is forgotten *)
          if waits n (o_hbh m, o_e2e m) then ghost_unbind g (o_hbh m) (o_e2e m) else g
      end
  | _ => ghost_drop (ghost_outs g (snd (step n ds e))) (gone_between n (fst (step n ds e)))
  end.

Fixpoint ghost_run (n : node) (g : ghost) (evs : list (dials * event)) : ghost :=
  match evs with
  | [] => g
  | de :: r => ghost_run (fst (step n (fst de) (snd de))) (ghost_step n (fst de) (snd de) g) r
  end.

Definition answers_of (h : list (string * Z)) (o : string) : list Z :=
  List.map snd (List.filter (fun p => String.eqb (fst p) o) h).

(* the end-to-end identifiers of the answers queued so far for received requests of origin o *)
Definition answered (n0 : node) (evs : list (dials * event)) (o : string) : list Z :=
  answers_of (snd (ghost_run n0 ghost0 evs)) o.
(* the requests received so far and not answered yet *)
Definition pending (n0 : node) (evs : list (dials * event)) : list (Z * Z * string) :=
  fst (ghost_run n0 ghost0 evs).

(* the last k elements *)
Definition lastn {A} (k : nat) (l : list A) : list A := List.skipn (List.length l - k) l.

(* under "unanswered requests have pairwise distinct pairs" the ghost never forgets a pending request:
   binding a pair that is not pending is a plain append *)
Lemma ow_remove_fresh ow h e : ow_get ow h e = None -> ow_remove ow h e = ow.
Proof.
  unfold ow_remove. induction ow as [|[[h' e'] o] r IH]; [reflexivity|].
  cbn [ow_get List.filter]. destruct ((h' =? h) && (e' =? e)); [discriminate|].
  intros H. cbn [negb]. f_equal. exact (IH H).
Qed.
Lemma ghost_request_fresh g m o :
  m_req m = true -> origin_key m = Some o -> ow_get (fst g) (m_hbh m) (m_e2e m) = None ->
  ghost_request g m = ((fst g ++ [(m_hbh m, m_e2e m, o)])%list, snd g).
Proof. intros Hr Ho Hf. unfold ghost_request. rewrite Hr, Ho, (ow_remove_fresh _ _ _ Hf). reflexivity. Qed.

(* ---- the ghost and the trace ------------------------------------------------------------- *)
Lemma ghost_outs_app g a b : ghost_outs g (a ++ b) = ghost_outs (ghost_outs g a) b.
Proof. apply List.fold_left_app. Qed.

Lemma ghost_outs_rq outs : rq outs -> forall g, ghost_outs g outs = g.
Proof.
  induction 1 as [|o l Ho _ IH]; intros g; [reflexivity|].
  cbn [ghost_outs List.fold_left]. fold (ghost_outs (ghost_out g o) l). rewrite IH.
  destruct o; try reflexivity. cbn in Ho. cbn [ghost_out]. rewrite Ho. reflexivity.
Qed.

(* only the queued answers of a list of outputs matter *)
Lemma ghost_outs_answers outs : forall g, ghost_outs g outs = ghost_outs g (List.filter is_answer_queue outs).
Proof.
  induction outs as [|o l IH]; intros g; [reflexivity|].
  cbn [List.filter]. destruct (is_answer_queue o) eqn:E.
  - cbn [ghost_outs List.fold_left]. apply IH.
  - cbn [ghost_outs List.fold_left]. fold (ghost_outs (ghost_out g o) l). rewrite <- IH.
    destruct o; try reflexivity. cbn in E. cbn [ghost_out]. destruct (o_req m); [reflexivity|discriminate E].
Qed.

Lemma rq_no_answers outs : rq outs -> List.filter is_answer_queue outs = [].
Proof.
  induction 1 as [|o l Ho _ IH]; [reflexivity|]. cbn [List.filter]. rewrite IH.
  destruct o; try reflexivity. cbn in Ho. cbn. rewrite Ho. reflexivity.
Qed.

Lemma step_recv_eq n ds cid ms c :
  get_conn n cid = Some c ->
  step n ds (ERecv cid ms) =
  (fst (settle' (fst (dispatch_all (read_state n ds cid) cid ms)) (snd (io_iteration n ds))),
   (snd (fst (io_iteration n ds)) ++ snd (dispatch_all (read_state n ds cid) cid ms)
      ++ snd (settle' (fst (dispatch_all (read_state n ds cid) cid ms)) (snd (io_iteration n ds))))%list).
Proof.
  intros H. cbn [step]. rewrite H. unfold read_state.
  destruct (io_iteration n ds) as [[n1 o1] ds1]. cbn [fst snd].
  destruct (dispatch_all (upd_last_read n1 cid) cid ms) as [n3 o3]. cbn [fst snd].
  destruct (settle' n3 ds1) as [n4 o4]. reflexivity.
Qed.

Lemma dispatch_all_cons n cid m r :
  dispatch_all n cid (m :: r) =
  (fst (dispatch_all (fst (dispatch n cid m)) cid r),
   (snd (dispatch n cid m) ++ snd (dispatch_all (fst (dispatch n cid m)) cid r))%list).
Proof.
  cbn [dispatch_all]. destruct (dispatch n cid m) as [n1 o1]. cbn [fst snd].
  destruct (dispatch_all n1 cid r) as [n2 o2]. reflexivity.
Qed.

(* the answers in the trace entry of a network read are those produced for its frames, frame by frame:
   the ghost sees every queued answer of the trace, in the order of the trace *)
Theorem recv_trace_answers n ds cid ms c :
  get_conn n cid = Some c ->
  List.filter is_answer_queue (snd (step n ds (ERecv cid ms)))
  = List.filter is_answer_queue (snd (dispatch_all (read_state n ds cid) cid ms)).
Proof.
  intros H. rewrite (step_recv_eq n ds cid ms c H). cbn [snd].
  rewrite !List.filter_app.
  rewrite (rq_no_answers _ (io_iteration_rq n ds)), (rq_no_answers _ (settle'_rq _ _)).
  rewrite List.app_nil_r. reflexivity.
Qed.

(* ====================================================================== *)
(* 3. window arithmetic                                                    *)
(* ====================================================================== *)
Lemma skipn_skipn' {A} (b : nat) : forall (a : nat) (l : list A), List.skipn a (List.skipn b l) = List.skipn (b + a) l.
Proof.
  induction b as [|b IH]; intros a l; [reflexivity|].
  destruct l as [|x l]; [cbn; apply List.skipn_nil|]. cbn [List.skipn Nat.add]. apply IH.
Qed.

(* appending to the window = taking the window of the extended history *)
Lemma bounded_append_lastn k l x : bounded_append k (lastn k l) x = lastn k (l ++ [x]).
Proof.
  destruct (bounded_append_spec k (lastn k l) x) as (E & _). rewrite E. clear E. unfold lastn.
  rewrite !List.app_length, List.skipn_length. cbn [List.length].
  rewrite !List.skipn_app, skipn_skipn', List.skipn_length. f_equal.
  - f_equal. lia.
  - f_equal. lia.
Qed.

Lemma lastn_nil {A} k : @lastn A k [] = [].
Proof. reflexivity. Qed.

Lemma answers_of_snoc h o e o' :
  answers_of (h ++ [(o, e)]) o' = if String.eqb o o' then (answers_of h o' ++ [e])%list else answers_of h o'.
Proof.
  unfold answers_of. rewrite List.filter_app, List.map_app. cbn [List.filter fst].
  destruct (String.eqb o o'); cbn [List.map snd]; [reflexivity|apply List.app_nil_r].
Qed.

(* ====================================================================== *)
(* 4. the invariant: the ghost's table IS n_origin_waiting, and every window is the tail of the    *)
(*    origin's history                                                                             *)
(* ====================================================================== *)
Definition Inv (n : node) (g : ghost) : Prop :=
  fst g = n_origin_waiting n /\
  forall o, sa_get (n_sent_answers n) o = lastn (g_rsize (n_cfg n)) (answers_of (snd g) o).

Lemma Inv_kept n n' g : kept n n' -> Inv n g -> Inv n' g.
Proof. intros (K1 & K2 & K3 & _) [H1 H2]. unfold Inv. rewrite K1, K2, K3. split; assumption. Qed.

(* connections close: the ghost drops what the node drops *)
Lemma Inv_keeps n n' g : keeps n n' -> Inv n g -> Inv n' (ghost_drop g (gone_between n n')).
Proof.
  intros K [H1 H2]. destruct (keeps_spec n n' K) as (K2 & K3 & _ & K1). unfold Inv, ghost_drop, gone_between.
  cbn [fst snd]. rewrite K1, K2, K3, H1. split; [reflexivity|exact H2].
Qed.

(* a node function result that closes nothing: the invariant is carried along its outputs and no host
   leaves the per-host table *)
Definition tr (n : node) (r : node * list output) : Prop :=
  (forall g, Inv n g -> Inv (fst r) (ghost_outs g (snd r))) /\ hsub (n_peer_waiting n) (n_peer_waiting (fst r)).

Lemma tr_quiet n n' outs : kept n n' -> rq outs -> tr n (n', outs).
Proof.
  intros K R. split; [|apply K]. intros g H. cbn [fst snd]. rewrite (ghost_outs_rq _ R). eapply Inv_kept; eassumption.
Qed.
Lemma tr_nil n : tr n (n, []).
Proof. apply tr_quiet; [apply kept_refl|apply rq_nil]. Qed.
Lemma tr_app n n1 o1 n2 o2 : tr n (n1, o1) -> tr n1 (n2, o2) -> tr n (n2, (o1 ++ o2)%list).
Proof.
  intros [T1 S1] [T2 S2]. split; [|intros k H; apply S2, S1, H].
  intros g H. cbn [fst snd]. rewrite ghost_outs_app. apply (T2 _ (T1 _ H)).
Qed.
Lemma tr_pre n n0 r : kept n n0 -> tr n0 r -> tr n r.
Proof.
  intros K [T S]. split; [|intros k H; apply S, K, H]. intros g H. apply T. eapply Inv_kept; eassumption.
Qed.
Lemma tr_post n n1 o n2 : tr n (n1, o) -> kept n1 n2 -> tr n (n2, o).
Proof.
  intros [T S] K. split; [|intros k H; apply K, S, H]. intros g H. cbn [fst snd]. eapply Inv_kept; [exact K|]. exact (T _ H).
Qed.
Lemma tr_cons_other n n' x o : is_queue x = false -> tr n (n', o) -> tr n (n', x :: o).
Proof.
  intros Hx [T S]. split; [|exact S]. intros g H. cbn [fst snd ghost_outs List.fold_left].
  replace (ghost_out g x) with g by (destruct x; try reflexivity; discriminate Hx). exact (T _ H).
Qed.

(* recording an answer in the node = attributing it in the ghost *)
Lemma Inv_record n g a :
  Inv n g -> Inv (record_answer n (o_hbh a) (o_e2e a)) (ghost_answer g a).
Proof.
  intros [Hp Hw]. rewrite record_answer_eq. unfold ghost_answer. rewrite Hp.
  destruct (ow_get (n_origin_waiting n) (o_hbh a) (o_e2e a)) as [o|]; [|split; assumption].
  split; cbn [fst snd set_waiting n_origin_waiting n_sent_answers n_cfg]; [reflexivity|].
  intros o'. destruct (C17_window (g_rsize (n_cfg n)) (n_sent_answers n) o (o_e2e a)) as [W1 W2].
  rewrite answers_of_snoc. destruct (String.eqb o o') eqn:E.
  - apply String.eqb_eq in E. subst o'. rewrite W1, Hw. apply bounded_append_lastn.
  - apply String.eqb_neq in E. rewrite W2 by (intros E'; apply E; symmetry; exact E'). apply Hw.
Qed.

(* the only thing an answer on its way out changes in the per-host table: its pair leaves a list *)
Definition psim (p : Z * Z) (n n' : node) : Prop :=
  n_origin_waiting n' = n_origin_waiting n /\ n_sent_answers n' = n_sent_answers n /\ n_cfg n' = n_cfg n
  /\ (n_peer_waiting n' = n_peer_waiting n \/ exists h, n_peer_waiting n' = pw_remove (n_peer_waiting n) h p).
Lemma psim_kept p n n' : psim p n n' -> kept n n'.
Proof.
  intros (E1 & E2 & E3 & [E4|[h E4]]); [apply same4_kept; repeat split; assumption|].
  eapply kept_pw_remove; eassumption.
Qed.

Lemma send_answer_eq n cid a :
  o_req a = false ->
  exists n2, psim (o_hbh a, o_e2e a) n n2
             /\ send_message n cid a = (record_answer n2 (o_hbh a) (o_e2e a), [OQueue cid a]).
Proof.
  intros H. unfold send_message, queue_out. rewrite H. eexists. split; [|reflexivity].
  destruct (get_conn n cid); repeat split; solve [left; reflexivity | right; eexists; reflexivity].
Qed.

Lemma record_answer_pw n h e : n_peer_waiting (record_answer n h e) = n_peer_waiting n.
Proof. rewrite record_answer_eq. destruct (ow_get _ h e); reflexivity. Qed.

Lemma send_req_kept n cid m : o_req m = true -> kept n (fst (send_message n cid m)).
Proof. intros H. unfold send_message, queue_out. rewrite H. kp. Qed.

(* Node.send_message: a request leaves everything alone; an answer is recorded / attributed *)
Lemma tr_send n cid a : tr n (send_message n cid a).
Proof.
  destruct (o_req a) eqn:Hr.
  - rewrite send_message_pair. apply tr_quiet; [apply send_req_kept; exact Hr|].
    constructor; [exact Hr|constructor].
  - destruct (send_answer_eq n cid a Hr) as (n2 & K & E). rewrite E. apply psim_kept in K. split.
    + intros g H. cbn [fst snd ghost_outs List.fold_left ghost_out]. rewrite Hr.
      apply Inv_record. eapply Inv_kept; eassumption.
    + cbn [fst]. rewrite record_answer_pw. apply K.
Qed.

Lemma same4_refl n : same4 n n.
Proof. repeat split. Qed.
Lemma same4_trans a b c : same4 a b -> same4 b c -> same4 a c.
Proof. intros (A1 & A2 & A3 & A4) (B1 & B2 & B3 & B4). repeat split; congruence. Qed.
Ltac s4 := solve [repeat split; reflexivity].

Lemma send_hosts n cid a : hosts (n_peer_waiting (fst (send_message n cid a))) = hosts (n_peer_waiting n).
Proof.
  unfold send_message, queue_out. destruct (o_req a); [reflexivity|]. cbn [fst]. rewrite record_answer_pw.
  destruct (get_conn n cid); [|reflexivity]. cbn. apply hosts_pw_remove.
Qed.

(* a node function result in general: first some connections are closed (nothing else is put out), then
   nothing is closed any more; whether a host has left the table is settled in the first part *)
Definition trc (n : node) (r : node * list output) : Prop :=
  exists n1 o1 o2, snd r = (o1 ++ o2)%list /\ keeps n n1 /\ rq o1 /\ tr n1 (fst r, o2)
    /\ forall k, List.In k (hosts (n_peer_waiting n)) ->
         (List.In k (hosts (n_peer_waiting (fst r))) <-> List.In k (hosts (n_peer_waiting n1))).

Lemma trc_tr n r : tr n r -> trc n r.
Proof.
  destruct r as [n' o]. intros T. exists n, [], o. split; [reflexivity|]. split; [apply keeps_refl|].
  split; [apply rq_nil|]. split; [exact T|]. intros k H. split; [intros _; exact H|intros _; apply T, H].
Qed.
Lemma trc_keeps n n' o : keeps n n' -> rq o -> trc n (n', o).
Proof.
  intros K R. exists n', o, []. split; [symmetry; apply List.app_nil_r|]. split; [exact K|]. split; [exact R|].
  split; [apply tr_nil|]. intros k H. reflexivity.
Qed.
Lemma trc_close n cid r : trc n (close_conn n cid r).
Proof.
  pose proof (close_conn_k n cid r) as K. pose proof (close_conn_rq n cid r) as R.
  destruct (close_conn n cid r) as [n1 o1]. apply trc_keeps; assumption.
Qed.
Lemma trc_pre n n0 r : same4 n n0 -> trc n0 r -> trc n r.
Proof.
  intros S (n1 & o1 & o2 & E & K & R & T & Hh). exists n1, o1, o2. split; [exact E|].
  split; [eapply same4_keeps; eassumption|]. split; [exact R|]. split; [exact T|].
  destruct S as (S1 & _). rewrite <- S1. exact Hh.
Qed.

Lemma only_close_rq outs : only_close outs -> rq outs.
Proof. apply Forall_impl. intros [] H; try contradiction H; exact I. Qed.

(* close some connections, then send one message from a state that differs from the result only in
   what `same4` ignores *)
Lemma trc_then_send n n1 oel X cid a :
  keeps n n1 -> rq oel -> same4 n1 X ->
  trc n (let '(n2, o) := send_message X cid a in (n2, (oel ++ o)%list)).
Proof.
  intros K1 R K2. pose proof (tr_send X cid a) as T. pose proof (send_hosts X cid a) as Hs.
  destruct (send_message X cid a) as [n2 o]. cbn [fst] in *.
  exists X, oel, o. split; [reflexivity|]. split; [eapply keeps_trans; [exact K1|apply k_same; exact K2]|].
  split; [exact R|]. split; [exact T|]. intros k _. cbn [fst]. rewrite Hs. reflexivity.
Qed.

(* Node.recv_cer: either as above, or the request is ignored (the connection is not awaiting a CER) and forgotten *)
Lemma trc_recv_cer n cid m :
  trc n (recv_cer n cid m)
  \/ exists c0, get_conn n cid = Some c0 /\ cstate_eqb (c_state c0) SConnected = false
                /\ recv_cer n cid m = (drop_origin n (m_hbh m) (m_e2e m), []).
Proof.
  unfold recv_cer.
  destruct (get_conn n cid) as [c0|]; [|left; apply trc_tr, tr_nil].
  destruct (cstate_eqb (c_state c0) SConnected) eqn:Es; cbn [negb];
    [left|right; exists c0; split; [reflexivity|split; [exact Es|reflexivity]]].
  destruct (pres_get (m_origin m)) as [host|]; [|apply trc_tr, tr_nil].
  destruct (get_peer n host) as [p|]; [|apply trc_tr; eapply tr_pre; [|apply tr_send]; kp].
  cbv zeta.
  destruct (election_rivals _ cid host) as [|r0 rs];
    [|destruct (String.ltb host _); [|apply trc_tr; eapply tr_pre; [|apply tr_send]; kp]];
    (match goal with |- context [close_all ?a ?b ?c] =>
       pose proof (close_all_k b a c) as Hk; pose proof (only_close_rq _ (close_all_only_close b a c)) as Hq;
       assert (K0 : keeps n a) by kp;
       destruct (close_all a b c) as [n1 oel] end;
     cbn [fst snd] in Hk, Hq;
     destruct (inter_z _ (m_auth m)); destruct (inter_z _ (m_acct m));
       destruct (mem_z APP_RELAY (m_auth m) || mem_z APP_RELAY (m_acct m));
       (apply (trc_then_send n n1);
        [eapply keeps_trans; eassumption | exact Hq |
         first [apply same4_refl
               | eapply same4_trans; [|apply flag_ready_k]; eapply same4_trans; [|apply assign_peer_conn_k]; s4]])).
Qed.

Lemma trc_recv_cea n cid m : trc n (recv_cea n cid m).
Proof.
  unfold recv_cea.
  destruct (get_conn n cid) as [c0|]; [|apply trc_tr, tr_nil].
  destruct (negb (cstate_eqb (c_state c0) SConnected)); [apply trc_tr, tr_nil|].
  apply (match_2001 (trc n)); [|apply trc_close].
  destruct (pres_get (m_origin m)) as [host|]; [|apply trc_tr, tr_nil].
  destruct (negb (String.eqb (c_node_name c0) "") && negb (String.eqb host (c_node_name c0)));
    [apply trc_close|].
  apply trc_tr, tr_quiet; [|apply rq_nil]. apply same4_kept.
  eapply same4_trans; [|apply flag_ready_k]. eapply same4_trans; [|apply assign_peer_conn_k]. s4.
Qed.

Lemma tr_recv_dpr n cid m : tr n (recv_dpr n cid m).
Proof.
  unfold recv_dpr. cbv zeta. eapply tr_pre; [|apply tr_send].
  match goal with |- context [match get_conn ?a ?b with _ => _ end] => destruct (get_conn a b) as [c|] end; [|kp].
  match goal with |- context [match find_conn_peer ?a ?b with _ => _ end] => destruct (find_conn_peer a b) end; kp.
Qed.

Lemma trc_recv_dpa n cid : trc n (recv_dpa n cid).
Proof.
  unfold recv_dpa. cbv zeta.
  destruct (get_conn _ cid) as [c|]; [|apply trc_tr, tr_quiet; [kp|apply rq_nil]].
  destruct (c_out c); [|apply trc_tr, tr_quiet; [kp|apply rq_nil]].
  eapply trc_pre; [|apply trc_close]. s4.
Qed.

Lemma tr_recv_app_request n cid m : tr n (recv_app_request n cid m).
Proof.
  unfold recv_app_request.
  destruct (get_conn n cid) as [c|]; [|apply tr_nil]. cbv zeta.
  destruct (m_drealm m) as [| |realm]; try apply tr_send.
  destruct (route_lookup n realm) as [entries|]; [|apply tr_send].
  destruct (List.find _ entries) as [[[i|] names]|]; try apply tr_send.
  destruct (handler_raises m).
  - match goal with |- context [send_message ?x cid ?a] =>
      pose proof (tr_send x cid a) as T;
      assert (K : kept n x) by (repeat split; try reflexivity; apply hsub_pw_add);
      destruct (send_message x cid a) as [n2 o] end.
    apply tr_cons_other; [reflexivity|]. eapply tr_pre; eassumption.
  - apply tr_quiet; [repeat split; try reflexivity; apply hsub_pw_add|]. constructor; [exact I|constructor].
Qed.

Lemma tr_recv_app_answer n m : tr n (recv_app_answer n m).
Proof.
  unfold recv_app_answer.
  destruct (List.find _ (n_app_waiting n)) as [[[h e] i]|]; [|apply tr_nil].
  destruct (List.nth_error (n_apps n) i) as [a|]; [|apply tr_nil]. cbv zeta.
  destruct (mem_z (m_hbh m) (List.map fst (a_waiting a)));
    (apply tr_quiet; [kp|constructor; [exact I|constructor]]).
Qed.

(* the connection of the frame is not awaiting a CER, and the frame is one *)
Definition cer_cond (n : node) (cid : nat) (m : msg) : Prop :=
  exists c0, get_conn n cid = Some c0 /\ cstate_eqb (c_state c0) SConnected = false /\ m_req m = true /\ m_cmd m = CE.

Lemma trc_rm_handle n cid m :
  trc n (rm_handle n cid m)
  \/ (cer_cond n cid m /\ rm_handle n cid m = (drop_origin n (m_hbh m) (m_e2e m), [])).
Proof.
  unfold rm_handle, cer_cond. destruct (m_req m), (m_cmd m).
  - destruct (m_origin m); try (left; apply trc_tr, tr_send).
    destruct (trc_recv_cer n cid m) as [T|(c0 & Hc & Hs & E)]; [left; exact T|right].
    split; [exists c0; repeat split; assumption|exact E].
  - left. unfold recv_dwr. apply trc_tr, tr_send.
  - left. apply trc_tr, tr_recv_dpr.
  - left. apply trc_tr, tr_recv_app_request.
  - left. apply trc_recv_cea.
  - left. unfold recv_dwa. apply trc_tr, tr_quiet; [kp|apply rq_nil].
  - left. apply trc_recv_dpa.
  - left. apply trc_tr, tr_recv_app_answer.
Qed.

(* the origin bookkeeping of _receive_message = the ghost's binding of the request's pair *)
Lemma Inv_request n g m : Inv n g -> Inv (rm_n0 n m) (ghost_request g m).
Proof.
  intros [Hp Hw]. unfold rm_n0, rm_record, ghost_request, origin_key.
  destruct (m_origin m), (m_req m); try (split; assumption);
    (split; [cbn [fst set_waiting n_origin_waiting]; rewrite Hp; reflexivity|exact Hw]).
Qed.

Lemma lost_ext pw pw1 pw2 :
  (forall k, List.In k (hosts pw) -> (List.In k (hosts pw2) <-> List.In k (hosts pw1))) -> lost pw pw2 = lost pw pw1.
Proof.
  intros H. unfold lost. f_equal. apply filter_ext_in. intros k Hk. f_equal.
  apply Bool.eq_iff_eq_true. rewrite !mem_host_in. apply H. exact Hk.
Qed.

Lemma trc_inv n r g :
  trc n r -> Inv n g -> Inv (fst r) (ghost_outs (ghost_drop g (gone_between n (fst r))) (snd r)).
Proof.
  intros (n1 & o1 & o2 & E & K & R & [T _] & Hh) H. rewrite E, ghost_outs_app, (ghost_outs_rq _ R).
  unfold gone_between. rewrite (lost_ext _ _ _ Hh). apply (T _ (Inv_keeps _ _ _ K H)).
Qed.

Lemma rm_n0_pw n m : n_peer_waiting (rm_n0 n m) = n_peer_waiting n.
Proof. unfold rm_n0, rm_record. destruct (m_origin m), (m_req m); reflexivity. Qed.

(* ---- an application's answer: its pair has left the per-host lists before the I/O thread closes anything;
   the pair is no longer pending then, so it does not matter that the ghost reads the table of the state
   before the answer ---- *)
Definition pair_ne (q p : Z * Z) : Prop := (fst p =? fst q) && (snd p =? snd q) = false.

Lemma mem_remove_zz q p l : pair_ne q p -> mem_zz q (remove_zz p l) = mem_zz q l.
Proof.
  unfold pair_ne, mem_zz, remove_zz. intros Hn. induction l as [|y l IH]; [reflexivity|]. cbn [List.filter List.existsb].
  destruct ((fst p =? fst y) && (snd p =? snd y)) eqn:E; cbn [negb].
  - rewrite IH. apply Bool.andb_true_iff in E. destruct E as [E1 E2]. apply Z.eqb_eq in E1, E2.
    rewrite <- E1, <- E2. rewrite (Z.eqb_sym (fst q)), (Z.eqb_sym (snd q)), Hn. reflexivity.
  - cbn [List.existsb]. rewrite IH. reflexivity.
Qed.

Lemma look_pw_remove pw h0 p k :
  look (pw_remove pw h0 p) k = if String.eqb k h0 then remove_zz p (look pw k) else look pw k.
Proof.
  unfold look, pw_remove. induction pw as [|e r IH]; [cbn; destruct (String.eqb k h0); reflexivity|].
  cbn [List.map List.find].
  destruct (String.eqb (fst e) h0) eqn:E1; cbn [fst snd]; destruct (String.eqb (fst e) k) eqn:E2; try exact IH.
  - apply String.eqb_eq in E1, E2. rewrite <- E2, E1, String.eqb_refl. reflexivity.
  - apply String.eqb_eq in E2. rewrite <- E2, E1. reflexivity.
Qed.

Lemma lost_pw_remove q pw h0 p pw3 :
  pair_ne q p -> mem_zz q (lost (pw_remove pw h0 p) pw3) = mem_zz q (lost pw pw3).
Proof.
  intros Hn. unfold lost. rewrite hosts_pw_remove, !mem_zz_flat.
  induction (List.filter _ (hosts pw)) as [|k l IH]; [reflexivity|]. cbn [List.existsb]. rewrite IH, look_pw_remove.
  destruct (String.eqb k h0); [rewrite (mem_remove_zz _ _ _ Hn)|]; reflexivity.
Qed.

Lemma ow_drop_psim p n n' pw3 ow :
  psim p n n' -> (forall h e o, List.In (h, e, o) ow -> pair_ne (h, e) p) ->
  ow_drop (lost (n_peer_waiting n') pw3) ow = ow_drop (lost (n_peer_waiting n) pw3) ow.
Proof.
  intros (_ & _ & _ & [E|[h0 E]]) Hn; rewrite E; [reflexivity|].
  apply List.filter_ext_in. intros [[h e] o] Hin. rewrite (lost_pw_remove _ _ _ _ _ (Hn _ _ _ Hin)). reflexivity.
Qed.

Lemma ow_get_none ow hb ee h e o :
  ow_get ow hb ee = None -> List.In (h, e, o) ow -> (h =? hb) && (e =? ee) = false.
Proof.
  induction ow as [|[[h' e'] o'] r IH]; intros G Hin; [destruct Hin|]. cbn [ow_get] in G.
  destruct ((h' =? hb) && (e' =? ee)) eqn:E; [discriminate G|]. destruct Hin as [Hin|Hin]; [|exact (IH G Hin)].
  injection Hin as -> -> _. exact E.
Qed.

Lemma record_answer_no_entry n hb ee h e o :
  List.In (h, e, o) (n_origin_waiting (record_answer n hb ee)) -> pair_ne (h, e) (hb, ee).
Proof.
  unfold pair_ne. cbn [fst snd]. rewrite (Z.eqb_sym hb), (Z.eqb_sym ee). rewrite record_answer_eq.
  destruct (ow_get (n_origin_waiting n) hb ee) eqn:G; [|apply ow_get_none; exact G].
  cbn [n_origin_waiting set_waiting]. unfold ow_remove. intros Hin. apply List.filter_In in Hin. destruct Hin as [_ Hb].
  destruct ((h =? hb) && (e =? ee)); [discriminate Hb|reflexivity].
Qed.

Lemma send_then_drop n cid a pw3 :
  ow_drop (lost (n_peer_waiting (fst (send_message n cid a))) pw3) (n_origin_waiting (fst (send_message n cid a)))
  = ow_drop (lost (n_peer_waiting n) pw3) (n_origin_waiting (fst (send_message n cid a))).
Proof.
  destruct (o_req a) eqn:Hr.
  - replace (n_peer_waiting (fst (send_message n cid a))) with (n_peer_waiting n); [reflexivity|].
    unfold send_message, queue_out. rewrite Hr. reflexivity.
  - destruct (send_answer_eq n cid a Hr) as (n2 & K & E). rewrite E. cbn [fst]. rewrite record_answer_pw.
    apply (ow_drop_psim _ _ _ _ _ K). intros h e o Hin. eapply record_answer_no_entry. exact Hin.
Qed.

(* ---- one frame ---- *)
Lemma ghost_drop_same g n : ghost_drop g (gone_between n n) = g.
Proof. unfold ghost_drop, gone_between. rewrite lost_same, ow_drop_nil. destruct g; reflexivity. Qed.

(* forgetting a request in the node (drop_origin) = unbinding its pair in the ghost *)
Lemma Inv_unbind n g h e : Inv n g -> Inv (drop_origin n h e) (ghost_unbind g h e).
Proof. intros [Hp Hw]. split; [cbn [fst ghost_unbind]; rewrite Hp; reflexivity|exact Hw]. Qed.

Lemma ow_remove_id ow hb ee :
  (forall h e o, List.In (h, e, o) ow -> (h =? hb) && (e =? ee) = false) -> ow_remove ow hb ee = ow.
Proof.
  induction ow as [|[[h e] o] r IH]; intros H; [reflexivity|]. unfold ow_remove. cbn [List.filter].
  rewrite (H h e o (or_introl eq_refl)). cbn [negb]. f_equal. apply IH. intros h' e' o' Hin. eapply H. right. exact Hin.
Qed.
Lemma Inv_unbind_id n g hb ee :
  (forall h e o, List.In (h, e, o) (n_origin_waiting n) -> (h =? hb) && (e =? ee) = false) ->
  Inv n g -> Inv n (ghost_unbind g hb ee).
Proof. intros Hn [Hp Hw]. split; [|exact Hw]. cbn [fst ghost_unbind]. rewrite Hp. apply ow_remove_id. exact Hn. Qed.

Lemma send_answer_no_entry n cid a h e o :
  o_req a = false -> List.In (h, e, o) (n_origin_waiting (fst (send_message n cid a))) ->
  (h =? o_hbh a) && (e =? o_e2e a) = false.
Proof.
  intros Hr Hin. destruct (send_answer_eq n cid a Hr) as (n2 & _ & E). rewrite E in Hin. cbn [fst] in Hin.
  apply record_answer_no_entry in Hin. unfold pair_ne in Hin. cbn [fst snd] in Hin.
  rewrite (Z.eqb_sym h), (Z.eqb_sym e). exact Hin.
Qed.

(* an unexpected CER is not pending after its frame: it was answered with an error, or ignored and forgotten *)
Lemma cer_no_entry n cid m :
  cer_cond n cid m ->
  forall h e o, List.In (h, e, o) (n_origin_waiting (fst (receive_message n cid m))) ->
                (h =? m_hbh m) && (e =? m_e2e m) = false.
Proof.
  intros (c0 & Hc & Hs & Hr & Hcmd) h e o. rewrite receive_message_unfold.
  destruct (if m_req m && _ then _ else _); [|apply (send_answer_no_entry _ _ (answer_of m _ _)); reflexivity].
  destruct (rm_dup _ m); [apply (send_answer_no_entry _ _ (answer_of m _ _)); reflexivity|].
  unfold rm_handle. rewrite Hr, Hcmd.
  destruct (m_origin m) eqn:Ho; try (apply (send_answer_no_entry _ _ (answer_of m _ _)); reflexivity).
  unfold recv_cer. rewrite rm_n0_get_conn, Hc, Hs. cbn [negb fst]. unfold drop_origin.
  cbn [n_origin_waiting set_waiting]. intros Hin. apply List.filter_In in Hin. destruct Hin as [_ Hb].
  destruct ((h =? m_hbh m) && (e =? m_e2e m)); [discriminate Hb|reflexivity].
Qed.

Lemma handle_inv n0 cid m g0 r :
  trc n0 r \/ (cer_cond n0 cid m /\ r = (drop_origin n0 (m_hbh m) (m_e2e m), [])) -> Inv n0 g0 ->
  Inv (fst r) (ghost_outs (ghost_drop g0 (gone_between n0 (fst r))) (snd r))
  \/ (cer_cond n0 cid m
      /\ Inv (fst r) (ghost_unbind (ghost_outs (ghost_drop g0 (gone_between n0 (fst r))) (snd r)) (m_hbh m) (m_e2e m))).
Proof.
  intros [T|[C E]] H; [left; apply trc_inv; assumption|right]. split; [exact C|]. subst r.
  cbn [fst snd ghost_outs List.fold_left].
  change (gone_between n0 (drop_origin n0 (m_hbh m) (m_e2e m))) with (gone_between n0 n0).
  rewrite ghost_drop_same. apply Inv_unbind, H.
Qed.

Lemma receive_message_inv n cid m g :
  Inv n g ->
  Inv (fst (receive_message n cid m))
      (ghost_outs (ghost_drop (ghost_request g m) (gone_between n (fst (receive_message n cid m))))
                  (snd (receive_message n cid m)))
  \/ (cer_cond n cid m
      /\ Inv (fst (receive_message n cid m))
             (ghost_unbind (ghost_outs (ghost_drop (ghost_request g m) (gone_between n (fst (receive_message n cid m))))
                                       (snd (receive_message n cid m))) (m_hbh m) (m_e2e m))).
Proof.
  intros H. apply (Inv_request n g m) in H.
  assert (Hcc : cer_cond (rm_n0 n m) cid m -> cer_cond n cid m) by (unfold cer_cond; rewrite rm_n0_get_conn; trivial).
  assert (Hr : trc (rm_n0 n m) (receive_message n cid m)
               \/ (cer_cond (rm_n0 n m) cid m
                   /\ receive_message n cid m = (drop_origin (rm_n0 n m) (m_hbh m) (m_e2e m), []))).
  { rewrite receive_message_unfold.
    destruct (if m_req m && g_validate (n_cfg (rm_n0 n m)) then m_missing m else []); [|left; apply trc_tr, tr_send].
    destruct (rm_dup (rm_n0 n m) m); [left; apply trc_tr, tr_send|apply trc_rm_handle]. }
  destruct (handle_inv _ cid m _ _ Hr H) as [A|[C A]]; unfold gone_between in *; rewrite (rm_n0_pw n m) in A;
    [left; exact A|right; split; [apply Hcc, C|exact A]].
Qed.

Lemma cer_cond_iff n cid m c :
  get_conn n cid = Some c -> gate_passes c m = true -> (cer_unexpected n cid m = true <-> cer_cond n cid m).
Proof.
  intros Hc Hg. unfold cer_unexpected, cer_cond. rewrite Hc, Hg. cbn [andb]. split.
  - intros H. apply Bool.andb_true_iff in H. destruct H as [H H3]. apply Bool.andb_true_iff in H. destruct H as [H1 H2].
    exists c. split; [reflexivity|]. split; [destruct (cstate_eqb _ _); [discriminate H3|reflexivity]|].
    split; [exact H1|]. destruct (m_cmd m); try discriminate H2. reflexivity.
  - intros (c0 & E & Hs & Hr & Hcmd). injection E as <-. rewrite Hs, Hr, Hcmd. reflexivity.
Qed.

Lemma dispatch_inv n cid m g :
  Inv n g ->
  Inv (fst (dispatch n cid m))
      (let g3 := ghost_outs (ghost_drop (if received n cid m then ghost_request g m else g)
                                        (gone_between n (fst (dispatch n cid m)))) (snd (dispatch n cid m)) in
       if cer_unexpected n cid m then ghost_unbind g3 (m_hbh m) (m_e2e m) else g3).
Proof.
  intros H. cbv zeta. unfold dispatch, received.
  destruct (get_conn n cid) as [c|] eqn:Hc;
    [|unfold cer_unexpected; rewrite Hc; cbn [fst snd]; rewrite ghost_drop_same; exact H].
  destruct (gate_passes c m) eqn:Hg;
    [|unfold cer_unexpected; rewrite Hc, Hg; cbn [fst snd andb]; rewrite ghost_drop_same; exact H].
  pose proof (cer_cond_iff n cid m c Hc Hg) as Hi.
  destruct (receive_message_inv n cid m g H) as [A|[C A]]; destruct (cer_unexpected n cid m).
  - apply Inv_unbind_id; [apply cer_no_entry, Hi; reflexivity|exact A].
  - exact A.
  - exact A.
  - apply Hi in C. discriminate C.
Qed.

Lemma frames_inv cid ms : forall n g,
  Inv n g -> Inv (fst (dispatch_all n cid ms)) (ghost_frames n g cid ms).
Proof.
  induction ms as [|m r IH]; intros n g H; [exact H|].
  rewrite dispatch_all_cons. cbn [fst ghost_frames]. apply IH. apply (dispatch_inv n cid m g H).
Qed.

Lemma read_state_k n ds cid : keeps n (read_state n ds cid).
Proof. unfold read_state. eapply keeps_trans; [apply io_iteration_k|]. kp. Qed.

Lemma step_inv_g n ds e g : Inv n g -> Inv (fst (step n ds e)) (ghost_step n ds e g).
Proof.
  intros H.
  assert (Hother : (forall cid ms, e <> ERecv cid ms) -> (forall i m, e <> EAppAnswer i m) ->
                   Inv (fst (step n ds e))
                       (ghost_drop (ghost_outs g (snd (step n ds e))) (gone_between n (fst (step n ds e))))).
  { intros H1 H2. rewrite (ghost_outs_rq _ (step_rq n ds e H1 H2)).
    apply Inv_keeps; [apply step_k; assumption|exact H]. }
  destruct e as [hbh0|cid ms|cid|cid hard|cid ok|cid b|dt|i m|i m realm pick tmo|force|tclose tend|];
    try (apply Hother; intros; discriminate).
  - (* ERecv *)
    cbn [ghost_step]. destruct (get_conn n cid) as [c|] eqn:Hc.
    + cbv zeta. rewrite (step_recv_eq n ds cid ms c Hc). cbn [fst].
      apply Inv_keeps; [apply settle'_k|]. apply frames_inv.
      apply Inv_keeps; [apply read_state_k|exact H].
    + cbn [step]. rewrite Hc. exact H.
  - (* EAppAnswer *)
    cbn [ghost_step]. clear Hother. cbn [step].
    pose proof (route_answer_k n m) as K. destruct (route_answer n m) as [[cid|] n1]; cbn [fst snd] in K |- *.
    + pose proof (tr_send n1 cid m) as [T _]. pose proof (send_then_drop n1 cid m) as Hd.
      destruct (send_message n1 cid m) as [n2 o2].
      pose proof (settle_app'_k n2 ds) as K3. pose proof (settle_app'_rq n2 ds) as R3.
      destruct (settle_app' n2 ds) as [n3 o3]. cbn [fst snd] in *.
      rewrite ghost_outs_app, (ghost_outs_rq _ R3).
      pose proof (T _ (Inv_kept _ _ _ K H)) as H2. pose proof (Inv_keeps _ _ _ K3 H2) as H3.
      unfold ghost_drop, gone_between in *. destruct H2 as [H2 _]. rewrite H2, Hd in H3. rewrite H2. exact H3.
    + destruct K as (K1 & K2 & K3). destruct H as [Hp Hw]. unfold Inv. rewrite K1, K2, K3.
      destruct (waits n (o_hbh m, o_e2e m)); (split; [|exact Hw]); [cbn [fst ghost_unbind]; rewrite Hp|exact Hp]; reflexivity.
Qed.

Lemma run_inv evs : forall n g, Inv n g -> Inv (fst (run n evs)) (ghost_run n g evs).
Proof.
  induction evs as [|de r IH]; intros n g H; [exact H|].
  rewrite run_cons. cbn [ghost_run]. apply IH. apply step_inv_g. exact H.
Qed.

Lemma run_cfg n evs : n_cfg (fst (run n evs)) = n_cfg n.
Proof.
  assert (T : trans MAny n (fst (run n evs))) by (apply run_t; [apply evs_pre_any|constructor]).
  apply trans_const in T. apply T.
Qed.

(* ====================================================================== *)
(* 5. C17: the window is the tail of the history                            *)
(* ====================================================================== *)
(* C17: from empty tables, the pending table of the ghost is n_origin_waiting and every origin's window is the last g_rsize answers attributed to it *)
Theorem C17_history_window_gen n0 evs :
  n_origin_waiting n0 = [] -> n_sent_answers n0 = [] ->
  pending n0 evs = n_origin_waiting (fst (run n0 evs))
  /\ forall o, sa_get (n_sent_answers (fst (run n0 evs))) o = lastn (g_rsize (n_cfg n0)) (answered n0 evs o).
Proof.
  intros H1 H2.
  assert (H0 : Inv n0 ghost0).
  { split; [cbn; symmetry; exact H1|]. intros o. rewrite H2. reflexivity. }
  destruct (run_inv evs n0 ghost0 H0) as [Hp Hw]. split; [exact Hp|].
  intros o. rewrite (Hw o), run_cfg. reflexivity.
Qed.

(* C17: in every run from a well-formed initial node, the window the node holds for an origin host is the last g_rsize end-to-end identifiers of the answers queued for received requests of that origin *)
Theorem C17_history_window n0 evs o :
  wf_init n0 ->
  sa_get (n_sent_answers (fst (run n0 evs))) o = lastn (g_rsize (n_cfg n0)) (answered n0 evs o).
Proof.
  intros (_ & _ & _ & _ & _ & H6 & H7 & _). apply (C17_history_window_gen n0 evs H6 H7).
Qed.

(* C17: the requests the ghost holds as received and not yet answered are exactly the node's n_origin_waiting *)
Theorem C17_history_pending n0 evs :
  wf_init n0 -> pending n0 evs = n_origin_waiting (fst (run n0 evs)).
Proof.
  intros (_ & _ & _ & _ & _ & H6 & H7 & _). apply (C17_history_window_gen n0 evs H6 H7).
Qed.

(* ====================================================================== *)
(* 6. one network read: what the I/O thread adds around the reader thread's outputs             *)
(* ====================================================================== *)
(* before the frames are handled the I/O thread finishes its iteration, afterwards it flushes and
   iterates once more: on its own it only closes, writes, dials persistent peers and queues its own CER / DWR
   (`sysout`, NodeC): never an answer, never a delivery *)
Lemma recv_io_sysout n ds cid ms :
  List.Forall (sysout (pmap n)) (snd (fst (io_iteration n ds)))
  /\ List.Forall (sysout (pmap n))
       (snd (settle' (fst (dispatch_all (read_state n ds cid) cid ms)) (snd (io_iteration n ds)))).
Proof.
  pose proof (io_iteration_g (sysout (pmap n)) (pmap n) n ds (sysP_sysout _) (dialP_sysout _) eq_refl) as G1.
  split; [apply G1|].
  pose proof (gres_pmap _ _ _ G1) as P1.
  pose proof (dispatch_all_d cid ms (read_state n ds cid)) as (F3 & _).
  assert (P3 : pmap (fst (dispatch_all (read_state n ds cid) cid ms)) = pmap n).
  { rewrite (proj1 F3). exact P1. }
  pose proof (settle'_sys (fst (dispatch_all (read_state n ds cid) cid ms)) (snd (io_iteration n ds))) as [_ G4].
  rewrite P3 in G4. exact G4.
Qed.

Lemma step_recv_one n ds cid m c0 :
  get_conn n cid = Some c0 ->
  exists pre post,
    snd (step n ds (ERecv cid [m])) = (pre ++ snd (dispatch (read_state n ds cid) cid m) ++ post)%list
    /\ List.Forall (sysout (pmap n)) pre /\ List.Forall (sysout (pmap n)) post.
Proof.
  intros H. rewrite (step_recv_eq n ds cid [m] c0 H). cbn [snd].
  destruct (recv_io_sysout n ds cid [m]) as [S1 S2].
  eexists. eexists. split; [|split; [exact S1|exact S2]].
  rewrite dispatch_all_cons. cbn [snd dispatch_all]. rewrite List.app_nil_r. reflexivity.
Qed.

Lemma sysout_no_deliver pm l : List.Forall (sysout pm) l -> forall i m, ~ List.In (ODeliver i m) l.
Proof. intros H i m Hin. rewrite List.Forall_forall in H. exact (H _ Hin). Qed.

Lemma sysout_clear pm l : List.Forall (sysout pm) l -> List.map out_clear_t l = l.
Proof.
  induction 1 as [|o l Ho _ IH]; [reflexivity|]. cbn [List.map]. rewrite IH.
  destruct o; try contradiction Ho; reflexivity.
Qed.

(* membership in the window the reader thread consults = membership in the tail of the history *)
Lemma window_mem n0 evs ds cid o e :
  wf_init n0 ->
  (sa_mem (n_sent_answers (read_state (fst (run n0 evs)) ds cid)) o e = true
   <-> List.In e (lastn (g_rsize (n_cfg n0)) (answered n0 evs o))).
Proof.
  intros Hw.
  assert (Hreach : reach n0 (fst (run n0 evs))) by (exists evs; split; [exact Hw|reflexivity]).
  destruct (C19_windows_bounded _ _ Hreach) as (_ & Hnd & _).
  destruct (keeps_spec _ _ (read_state_k (fst (run n0 evs)) ds cid)) as (K2 & _). rewrite K2.
  rewrite (C17_sa_mem_get _ o e Hnd), (C17_history_window n0 evs o Hw). reflexivity.
Qed.

Lemma read_state_cfg n0 evs ds cid : n_cfg (read_state (fst (run n0 evs)) ds cid) = n_cfg n0.
Proof. destruct (keeps_spec _ _ (read_state_k (fst (run n0 evs)) ds cid)) as (_ & K3 & _). rewrite K3. apply run_cfg. Qed.

(* ====================================================================== *)
(* 7. C17: duplicates are rejected, nothing else is                         *)
(* ====================================================================== *)
(* C17: a T-flagged, well-formed request read from a ready connection whose end-to-end identifier is among the last g_rsize answers attributed to its origin host is answered 5012 on its connection and delivered to no application; everything else in the step is the I/O thread's own output *)
Theorem C17_history_duplicate_rejected n0 evs ds cid c0 c m o :
  wf_init n0 ->
  let n := fst (run n0 evs) in
  let rs := read_state n ds cid in
  get_conn n cid = Some c0 -> get_conn rs cid = Some c -> is_ready_state (c_state c) = true ->
  m_req m = true -> m_t m = true -> m_origin m = Present o ->
  g_validate (n_cfg n0) = false \/ m_missing m = [] ->
  List.In (m_e2e m) (lastn (g_rsize (n_cfg n0)) (answered n0 evs o)) ->
  exists pre post,
    snd (step n ds (ERecv cid [m])) = (pre ++ [OQueue cid (answer_of m (Some RC_UNABLE) [])] ++ post)%list
    /\ List.Forall (sysout (pmap n)) pre /\ List.Forall (sysout (pmap n)) post
    /\ forall i m', ~ List.In (ODeliver i m') (snd (step n ds (ERecv cid [m]))).
Proof.
  intros Hw n rs Hc0 Hc Hr Hreq Ht Ho Hval Hin.
  assert (Hmem : sa_mem (n_sent_answers rs) o (m_e2e m) = true) by (apply (window_mem n0 evs ds cid o _ Hw); exact Hin).
  assert (Hval' : g_validate (n_cfg rs) = false \/ m_missing m = []).
  { unfold rs, n. rewrite read_state_cfg. exact Hval. }
  destruct (C17_dup_iff rs cid m o Hreq Ho Hval') as [D _]. destruct (D (conj Ht Hmem)) as [Dout _].
  destruct (step_recv_one n ds cid m c0 Hc0) as (pre & post & E & Hpre & Hpost).
  fold rs in E. rewrite (C08_gate_then_route rs cid c m Hc Hr), Dout in E.
  exists pre, post. split; [exact E|]. split; [exact Hpre|]. split; [exact Hpost|].
  intros i m' Hd. rewrite E in Hd. apply List.in_app_or in Hd. destruct Hd as [Hd|Hd].
  - exact (sysout_no_deliver _ _ Hpre _ _ Hd).
  - apply List.in_app_or in Hd. destruct Hd as [[Hd|[]]|Hd]; [discriminate Hd|].
    exact (sysout_no_deliver _ _ Hpost _ _ Hd).
Qed.

Lemma spec_route_clear n c m :
  m_t m && already_answered n m = false -> spec_route n c m = spec_route n c (clear_t m).
Proof. intros H. unfold spec_route. rewrite H. reflexivity. Qed.

Lemma not_duplicate n0 evs ds cid m o :
  wf_init n0 -> m_origin m = Present o ->
  m_t m = false \/ ~ List.In (m_e2e m) (lastn (g_rsize (n_cfg n0)) (answered n0 evs o)) ->
  m_t m = false \/ sa_mem (n_sent_answers (read_state (fst (run n0 evs)) ds cid)) o (m_e2e m) = false.
Proof.
  intros Hw Ho [H|H]; [left; exact H|right].
  destruct (sa_mem _ o (m_e2e m)) eqn:E; [|reflexivity].
  exfalso. apply H. apply (window_mem n0 evs ds cid o _ Hw). exact E.
Qed.

(* C17: an application request read from a ready connection that does not carry the T flag, or whose end-to-end identifier is not among the last g_rsize answers attributed to its origin host, is never rejected as a duplicate: the routing function decides as it does for the same request without the flag, and the step outputs exactly what that decision prescribes (C08) *)
Theorem C17_history_no_false_duplicate n0 evs ds cid c0 c m o k :
  wf_init n0 ->
  let n := fst (run n0 evs) in
  let rs := read_state n ds cid in
  get_conn n cid = Some c0 -> get_conn rs cid = Some c -> is_ready_state (c_state c) = true ->
  m_req m = true -> m_cmd m = App k -> m_origin m = Present o ->
  m_t m = false \/ ~ List.In (m_e2e m) (lastn (g_rsize (n_cfg n0)) (answered n0 evs o)) ->
  spec_route rs c m = spec_route rs c (clear_t m)
  /\ exists pre post,
       snd (step n ds (ERecv cid [m])) = (pre ++ route_outputs cid m (spec_route rs c (clear_t m)) ++ post)%list
       /\ List.Forall (sysout (pmap n)) pre /\ List.Forall (sysout (pmap n)) post.
Proof.
  intros Hw n rs Hc0 Hc Hr Hreq Hcmd Ho Hno.
  assert (Hs : spec_route rs c m = spec_route rs c (clear_t m)).
  { apply spec_route_clear. unfold already_answered, origin_key. rewrite Ho.
    destruct (not_duplicate n0 evs ds cid m o Hw Ho Hno) as [H|H]; fold n in H; fold rs in H; rewrite H;
      [reflexivity|apply Bool.andb_false_r]. }
  split; [exact Hs|].
  destruct (step_recv_one n ds cid m c0 Hc0) as (pre & post & E & Hpre & Hpost).
  fold rs in E. rewrite (C08_gate_then_route rs cid c m Hc Hr), (C08_route_refines rs cid c m k Hc Hreq Hcmd), Hs in E.
  exists pre, post. split; [exact E|]. split; assumption.
Qed.

(* C17: for every kind of request (base protocol included) read from a ready connection: when it is well-formed and not a duplicate in the above sense, the T flag changes nothing: same next state, same outputs up to the flag of the message handed on *)
Theorem C17_history_flag_irrelevant n0 evs ds cid c0 c m o :
  wf_init n0 ->
  let n := fst (run n0 evs) in
  let rs := read_state n ds cid in
  get_conn n cid = Some c0 -> get_conn rs cid = Some c -> is_ready_state (c_state c) = true ->
  m_req m = true -> m_origin m = Present o ->
  g_validate (n_cfg n0) = false \/ m_missing m = [] ->
  m_t m = false \/ ~ List.In (m_e2e m) (lastn (g_rsize (n_cfg n0)) (answered n0 evs o)) ->
  step n ds (ERecv cid [clear_t m])
  = (fst (step n ds (ERecv cid [m])), List.map out_clear_t (snd (step n ds (ERecv cid [m])))).
Proof.
  intros Hw n rs Hc0 Hc Hr Hreq Ho Hval Hno.
  assert (Hval' : g_validate (n_cfg rs) = false \/ m_missing m = []).
  { unfold rs, n. rewrite read_state_cfg. exact Hval. }
  destruct (C17_dup_iff rs cid m o Hreq Ho Hval') as [_ D].
  pose proof (D (not_duplicate n0 evs ds cid m o Hw Ho Hno)) as E. clear D.
  assert (Ed : dispatch_all rs cid [clear_t m]
               = (fst (dispatch_all rs cid [m]), List.map out_clear_t (snd (dispatch_all rs cid [m])))).
  { rewrite !dispatch_all_cons. cbn [dispatch_all fst snd]. rewrite !List.app_nil_r.
    rewrite (C08_gate_then_route rs cid c m Hc Hr), (C08_gate_then_route rs cid c (clear_t m) Hc Hr), E.
    reflexivity. }
  destruct (recv_io_sysout n ds cid [m]) as [S1 S2]. fold rs in S2.
  rewrite (step_recv_eq n ds cid [clear_t m] c0 Hc0), (step_recv_eq n ds cid [m] c0 Hc0). fold rs.
  rewrite Ed. cbn [fst snd]. rewrite !List.map_app, (sysout_clear _ _ S1), (sysout_clear _ _ S2). reflexivity.
Qed.

(* ====================================================================== *)
(* 7b. the history holds nothing but end-to-end ids of answers that were queued in the trace     *)
(* ====================================================================== *)
Definition from_outs (outs : list output) (p : string * Z) : Prop :=
  exists cid a, List.In (OQueue cid a) outs /\ o_req a = false /\ o_e2e a = snd p.

Lemma from_outs_incl a b p : (forall x, List.In x a -> List.In x b) -> from_outs a p -> from_outs b p.
Proof. intros H (cid & x & Hin & Hr). exists cid, x. split; [apply H; exact Hin|exact Hr]. Qed.

Lemma ghost_outs_hist outs : forall g,
  exists added, snd (ghost_outs g outs) = (snd g ++ added)%list /\ List.Forall (from_outs outs) added.
Proof.
  induction outs as [|x l IH]; intros g.
  - exists []. split; [symmetry; apply List.app_nil_r|constructor].
  - cbn [ghost_outs List.fold_left]. fold (ghost_outs (ghost_out g x) l).
    destruct (IH (ghost_out g x)) as (ad & E & F).
    assert (H0 : exists ad0, snd (ghost_out g x) = (snd g ++ ad0)%list /\ List.Forall (from_outs (x :: l)) ad0).
    { assert (Hnil : exists ad0, snd g = (snd g ++ ad0)%list /\ List.Forall (from_outs (x :: l)) ad0)
        by (exists []; split; [symmetry; apply List.app_nil_r|constructor]).
      destruct x as [cid a| | | | | | |]; try exact Hnil. cbn [ghost_out].
      destruct (o_req a) eqn:Hr; [exact Hnil|]. unfold ghost_answer.
      destruct (ow_get (fst g) (o_hbh a) (o_e2e a)) as [o|]; [|exact Hnil].
      exists [(o, o_e2e a)]. split; [reflexivity|]. constructor; [|constructor].
      exists cid, a. split; [left; reflexivity|]. split; [exact Hr|reflexivity]. }
    destruct H0 as (ad0 & E0 & F0). exists (ad0 ++ ad)%list. split.
    + rewrite E, E0, List.app_assoc. reflexivity.
    + apply List.Forall_app. split; [exact F0|].
      eapply List.Forall_impl; [|exact F]. intros p. apply from_outs_incl. intros y Hy. right. exact Hy.
Qed.

Lemma ghost_request_hist g m : snd (ghost_request g m) = snd g.
Proof. unfold ghost_request. destruct (m_req m); [|reflexivity]. destruct (origin_key m); reflexivity. Qed.

Lemma ghost_frames_hist cid ms : forall n g,
  exists added, snd (ghost_frames n g cid ms) = (snd g ++ added)%list
                /\ List.Forall (from_outs (snd (dispatch_all n cid ms))) added.
Proof.
  induction ms as [|m r IH]; intros n g.
  - exists []. split; [symmetry; apply List.app_nil_r|constructor].
  - rewrite dispatch_all_cons. cbn [ghost_frames snd].
    set (g1 := if received n cid m then ghost_request g m else g).
    assert (E0 : snd g1 = snd g) by (unfold g1; destruct (received n cid m); [apply ghost_request_hist|reflexivity]).
    set (g2 := ghost_drop g1 (gone_between n (fst (dispatch n cid m)))).
    destruct (ghost_outs_hist (snd (dispatch n cid m)) g2) as (a1 & E1 & F1).
    set (g4 := if cer_unexpected n cid m then ghost_unbind (ghost_outs g2 (snd (dispatch n cid m))) (m_hbh m) (m_e2e m)
               else ghost_outs g2 (snd (dispatch n cid m))).
    assert (E4 : snd g4 = snd (ghost_outs g2 (snd (dispatch n cid m)))) by (unfold g4; destruct (cer_unexpected n cid m); reflexivity).
    destruct (IH (fst (dispatch n cid m)) g4) as (a2 & E2 & F2).
    exists (a1 ++ a2)%list. split.
    + rewrite E2, E4, E1. unfold g2. cbn [ghost_drop snd]. rewrite E0, List.app_assoc. reflexivity.
    + apply List.Forall_app. split; (eapply List.Forall_impl; [|eassumption]); intros p; apply from_outs_incl;
        intros y Hy; apply List.in_or_app; [left|right]; exact Hy.
Qed.

Lemma ghost_step_hist n ds e g :
  exists added, snd (ghost_step n ds e g) = (snd g ++ added)%list
                /\ List.Forall (from_outs (snd (step n ds e))) added.
Proof.
  assert (Hnil : exists added, snd g = (snd g ++ added)%list /\ List.Forall (from_outs (snd (step n ds e))) added)
    by (exists []; split; [symmetry; apply List.app_nil_r|constructor]).
  destruct e; try (cbn [ghost_step ghost_drop snd]; apply ghost_outs_hist);
    [|cbn [ghost_step]; destruct (fst (route_answer n m));
      [cbn [ghost_drop snd]; apply ghost_outs_hist|destruct (waits n (o_hbh m, o_e2e m)); exact Hnil]].
  cbn [ghost_step]. destruct (get_conn n cid) as [c|] eqn:Hc.
  - cbv zeta. cbn [ghost_drop snd].
    destruct (ghost_frames_hist cid ms (read_state n ds cid) (ghost_drop g (gone_between n (read_state n ds cid))))
      as (ad & E & F).
    exists ad. split; [exact E|]. rewrite (step_recv_eq n ds cid ms c Hc). cbn [snd].
    eapply List.Forall_impl; [|exact F]. intros p. apply from_outs_incl.
    intros y Hy. apply List.in_or_app. right. apply List.in_or_app. left. exact Hy.
  - exists []. split; [symmetry; apply List.app_nil_r|constructor].
Qed.

Lemma ghost_run_hist evs : forall n g,
  exists added, snd (ghost_run n g evs) = (snd g ++ added)%list
                /\ List.Forall (fun p => exists ev outs, List.In (ev, outs) (trace n evs) /\ from_outs outs p) added.
Proof.
  induction evs as [|de r IH]; intros n g.
  - exists []. split; [symmetry; apply List.app_nil_r|constructor].
  - cbn [ghost_run trace].
    destruct (ghost_step_hist n (fst de) (snd de) g) as (a1 & E1 & F1).
    destruct (IH (fst (step n (fst de) (snd de))) (ghost_step n (fst de) (snd de) g)) as (a2 & E2 & F2).
    exists (a1 ++ a2)%list. split; [rewrite E2, E1, List.app_assoc; reflexivity|].
    apply List.Forall_app. split.
    + eapply List.Forall_impl; [|exact F1]. intros p Hp.
      exists (snd de), (snd (step n (fst de) (snd de))). split; [left; reflexivity|exact Hp].
    + eapply List.Forall_impl; [|exact F2]. intros p (ev & outs & Hin & Hp).
      exists ev, outs. split; [right; exact Hin|exact Hp].
Qed.

(* C17: every end-to-end identifier in an origin's history is that of an answer the node queued in some step of the trace *)
Theorem answered_from_trace n0 evs o e :
  List.In e (answered n0 evs o) ->
  exists ev outs cid a, List.In (ev, outs) (trace n0 evs) /\ List.In (OQueue cid a) outs
                        /\ o_req a = false /\ o_e2e a = e.
Proof.
  unfold answered, answers_of. intros H.
  apply List.in_map_iff in H. destruct H as (p & Hp & Hin). apply List.filter_In in Hin. destruct Hin as [Hin _].
  destruct (ghost_run_hist evs n0 ghost0) as (ad & E & F). rewrite E in Hin. cbn [ghost0 snd List.app] in Hin.
  rewrite List.Forall_forall in F. destruct (F p Hin) as (ev & outs & Ht & cid & a & Ha & Hr & He).
  exists ev, outs, cid, a. repeat split; try assumption. rewrite He. exact Hp.
Qed.

(* ====================================================================== *)
(* 8. examples: window size 2, two origin hosts "p" and "q", one application (id 4) routed in realm "r" *)
(* ====================================================================== *)
Module HistoryExample.
Import Witness.
(* application request (command 272) from origin o *)
Definition hx_req (o : string) (hbh e2e : Z) (t : bool) : msg :=
  {| m_cmd := App 272; m_req := true; m_p := true; m_e := false; m_t := t; m_app := 4; m_hbh := hbh; m_e2e := e2e;
     m_origin := Present o; m_drealm := Present "r"%string; m_result := Absent;
     m_missing := []; m_has_failed_avp_slot := false; m_auth := []; m_acct := []; m_tag := 0 |}.
(* the application's answer to it *)
Definition hx_ans (hbh e2e : Z) : omsg :=
  {| o_cmd := App 272; o_req := false; o_app := 4; o_hbh := hbh; o_e2e := e2e; o_result := Some 2001;
     o_failed := []; o_tag := 0 |}.
Definition hx_5012 (hbh e2e : Z) : omsg :=
  {| o_cmd := App 272; o_req := false; o_app := 4; o_hbh := hbh; o_e2e := e2e; o_result := Some 5012;
     o_failed := []; o_tag := 0 |}.
Definition hx_n0 : node := node0 [mkpeer "p" false; mkpeer "q" false].
(* both peers connect and exchange capabilities (end-to-end ids 1 and 2); "p" sends three requests
   (end-to-end ids 101, 102, 103), each delivered to the application and answered by it *)
Definition hx_evs : list (dials * event) :=
  [([], EAccept 100); ([], ERecv 0 [ce true "p" 1]);
   ([], EAccept 200); ([], ERecv 1 [ce true "q" 2]);
   ([], ERecv 0 [hx_req "p" 11 101 false]); ([], EAppAnswer 0 (hx_ans 11 101));
   ([], ERecv 0 [hx_req "p" 12 102 false]); ([], EAppAnswer 0 (hx_ans 12 102));
   ([], ERecv 0 [hx_req "p" 13 103 false]); ([], EAppAnswer 0 (hx_ans 13 103))].
Definition hx_n : node := fst (run hx_n0 hx_evs).

Lemma hx_wf : wf_init hx_n0.
Proof.
  apply wf_node0.
  - repeat constructor; cbn; intuition discriminate.
  - cbn. intros p [Hp|[Hp|[]]]; subst p; cbn; auto.
Qed.

(* the history and the windows after hx_evs: the CEA counts as an answer to origin "p" / "q"; the window of "p" holds the last two of its four answers *)
Example C17_history_example_window :
  g_rsize (n_cfg hx_n0) = 2%nat
  /\ answered hx_n0 hx_evs "p"%string = [1; 101; 102; 103]
  /\ answered hx_n0 hx_evs "q"%string = [2]
  /\ pending hx_n0 hx_evs = []
  /\ lastn 2 (answered hx_n0 hx_evs "p"%string) = [102; 103]
  /\ n_sent_answers hx_n = [("p"%string, [102; 103]); ("q"%string, [2])]
  /\ List.map (fun c => (c_id c, c_state c, c_host c)) (n_conns hx_n)
     = [(0%nat, SReady, "p"%string); (1%nat, SReady, "q"%string)]
  /\ List.map snd (trace hx_n0 hx_evs) = snd (run hx_n0 hx_evs).
Proof. vm_compute. repeat split. Qed.

(* a T-flagged repeat of 103 from "p" is answered 5012 and not delivered; the evicted 101 is delivered again; 103 from the other origin "q" is delivered; 103 from "p" without the flag is delivered *)
Example C17_history_example_steps :
  snd (step hx_n [] (ERecv 0 [hx_req "p" 14 103 true])) = [OQueue 0%nat (hx_5012 14 103); OSend 0%nat (hx_5012 14 103)]
  /\ snd (step hx_n [] (ERecv 0 [hx_req "p" 15 101 true])) = [ODeliver 0%nat (hx_req "p" 15 101 true)]
  /\ snd (step hx_n [] (ERecv 1 [hx_req "q" 16 103 true])) = [ODeliver 0%nat (hx_req "q" 16 103 true)]
  /\ snd (step hx_n [] (ERecv 0 [hx_req "p" 14 103 false])) = [ODeliver 0%nat (hx_req "p" 14 103 false)]
  /\ answer_of (hx_req "p" 14 103 true) (Some RC_UNABLE) [] = hx_5012 14 103.
Proof. vm_compute. repeat split. Qed.

(* the hypotheses of C17_history_duplicate_rejected hold for the repeat of 103 (the theorem is not vacuous), and its conclusion read off for this history *)
Example C17_history_example_theorem :
  exists pre post,
    snd (step hx_n [] (ERecv 0 [hx_req "p" 14 103 true]))
    = (pre ++ [OQueue 0%nat (answer_of (hx_req "p" 14 103 true) (Some RC_UNABLE) [])] ++ post)%list
    /\ List.Forall (sysout (pmap hx_n)) pre /\ List.Forall (sysout (pmap hx_n)) post
    /\ forall i m', ~ List.In (ODeliver i m') (snd (step hx_n [] (ERecv 0 [hx_req "p" 14 103 true]))).
Proof.
  unfold hx_n.
  assert (Hc0 : exists c0, get_conn (fst (run hx_n0 hx_evs)) 0 = Some c0) by (vm_compute; eexists; reflexivity).
  assert (Hc : exists c, get_conn (read_state (fst (run hx_n0 hx_evs)) [] 0) 0 = Some c /\ is_ready_state (c_state c) = true)
    by (vm_compute; eexists; split; reflexivity).
  assert (Hin : List.In (m_e2e (hx_req "p" 14 103 true))
                  (lastn (g_rsize (n_cfg hx_n0)) (answered hx_n0 hx_evs "p"%string)))
    by (vm_compute; right; left; reflexivity).
  destruct Hc0 as [c0 Hc0]. destruct Hc as (c & Hc & Hr).
  exact (C17_history_duplicate_rejected hx_n0 hx_evs [] 0%nat c0 c (hx_req "p" 14 103 true) "p"%string hx_wf
           Hc0 Hc Hr eq_refl eq_refl eq_refl (or_introl eq_refl) Hin).
Qed.

(* the hypotheses of C17_history_no_false_duplicate hold for the T-flagged repeat of the evicted 101: the routing function, asked about the unflagged request, delivers to application 0, and so does the step *)
Example C17_history_example_theorem_evicted :
  exists c pre post,
    get_conn (read_state hx_n [] 0) 0 = Some c
    /\ spec_route (read_state hx_n [] 0) c (clear_t (hx_req "p" 15 101 true)) = Deliver 0
    /\ snd (step hx_n [] (ERecv 0 [hx_req "p" 15 101 true]))
       = (pre ++ route_outputs 0 (hx_req "p" 15 101 true)
                   (spec_route (read_state hx_n [] 0) c (clear_t (hx_req "p" 15 101 true))) ++ post)%list
    /\ List.Forall (sysout (pmap hx_n)) pre /\ List.Forall (sysout (pmap hx_n)) post.
Proof.
  unfold hx_n.
  assert (Hc0 : exists c0, get_conn (fst (run hx_n0 hx_evs)) 0 = Some c0) by (vm_compute; eexists; reflexivity).
  assert (Hc : exists c, get_conn (read_state (fst (run hx_n0 hx_evs)) [] 0) 0 = Some c /\ is_ready_state (c_state c) = true
                         /\ spec_route (read_state (fst (run hx_n0 hx_evs)) [] 0) c (clear_t (hx_req "p" 15 101 true)) = Deliver 0)
    by (vm_compute; eexists; repeat split; reflexivity).
  assert (Hnin : ~ List.In (m_e2e (hx_req "p" 15 101 true))
                   (lastn (g_rsize (n_cfg hx_n0)) (answered hx_n0 hx_evs "p"%string)))
    by (vm_compute; intros [H|[H|[]]]; discriminate H).
  destruct Hc0 as [c0 Hc0]. destruct Hc as (c & Hc & Hr & Hs).
  destruct (C17_history_no_false_duplicate hx_n0 hx_evs [] 0%nat c0 c (hx_req "p" 15 101 true) "p"%string 272 hx_wf
              Hc0 Hc Hr eq_refl eq_refl eq_refl (or_intror Hnin)) as (_ & pre & post & E & Hpre & Hpost).
  exists c, pre, post. repeat split; assumption.
Qed.

(* the attribution rule when a pair is reused: "p" and then "q" send a request with the same (hop-by-hop, end-to-end) pair (20, 200) before the first is answered; the application's answer goes out to "p" (connection 0) but is attributed to "q", by the ghost and by the node alike; afterwards a T-flagged repeat from "p" is delivered again and one from "q" is rejected.  Excluded by "unanswered requests have pairwise distinct pairs" *)
Definition hx_evs2 : list (dials * event) :=
  (hx_evs ++ [([], ERecv 0 [hx_req "p" 20 200 false]); ([], ERecv 1 [hx_req "q" 20 200 false]);
              ([], EAppAnswer 0 (hx_ans 20 200))])%list.
Example C17_history_example_pair_reuse :
  let n2 := fst (run hx_n0 hx_evs2) in
  List.nth 12 (List.map snd (trace hx_n0 hx_evs2)) [] = [OQueue 0%nat (hx_ans 20 200); OSend 0%nat (hx_ans 20 200)]
  /\ answered hx_n0 hx_evs2 "p"%string = [1; 101; 102; 103]
  /\ answered hx_n0 hx_evs2 "q"%string = [2; 200]
  /\ n_sent_answers n2 = [("p"%string, [102; 103]); ("q"%string, [2; 200])]
  /\ snd (step n2 [] (ERecv 0 [hx_req "p" 21 200 true])) = [ODeliver 0%nat (hx_req "p" 21 200 true)]
  /\ snd (step n2 [] (ERecv 1 [hx_req "q" 22 200 true])) = [OQueue 1%nat (hx_5012 22 200); OSend 1%nat (hx_5012 22 200)].
Proof. vm_compute. repeat split. Qed.

(* a connection closes while a request it delivered is still unanswered: "p" sends (30, 300), the application
   has not answered when the peer closes connection 0; the node forgets the pair (per-host table and origin
   table), and so does the ghost: the pending table loses the pair.  The application's late answer is not
   routable and is attributed to nobody *)
Definition hx_evs3a : list (dials * event) := (hx_evs ++ [([], ERecv 0 [hx_req "p" 30 300 false])])%list.
Definition hx_evs3 : list (dials * event) := (hx_evs3a ++ [([], EPeerClose 0)])%list.
Definition hx_evs3b : list (dials * event) := (hx_evs3 ++ [([], EAppAnswer 0 (hx_ans 30 300))])%list.
Example C17_history_example_close :
  pending hx_n0 hx_evs3a = [(30, 300, "p"%string)]
  /\ n_origin_waiting (fst (run hx_n0 hx_evs3a)) = [(30, 300, "p"%string)]
  /\ n_peer_waiting (fst (run hx_n0 hx_evs3a)) = [("p"%string, [(30, 300)])]
  /\ List.nth 11 (List.map snd (trace hx_n0 hx_evs3)) [] = [OClose 0%nat R_GONE]
  /\ pending hx_n0 hx_evs3 = []
  /\ n_origin_waiting (fst (run hx_n0 hx_evs3)) = []
  /\ n_peer_waiting (fst (run hx_n0 hx_evs3)) = []
  /\ List.nth 12 (List.map snd (trace hx_n0 hx_evs3b)) [] = [ONotRoutable]
  /\ answered hx_n0 hx_evs3b "p"%string = [1; 101; 102; 103]
  /\ n_sent_answers (fst (run hx_n0 hx_evs3b)) = [("p"%string, [102; 103]); ("q"%string, [2])].
Proof. vm_compute. repeat split. Qed.

(* a CER repeated on a READY connection (connection 0 of "p"): the node binds its pair (40, 40) to "p", ignores the
   request (no output) and forgets the pair again; the ghost binds (ghost_request) and unbinds: nothing stays pending *)
Definition hx_evs4 : list (dials * event) := (hx_evs ++ [([], ERecv 0 [ce true "p" 40])])%list.
Example C17_history_example_cer_ignored :
  cer_unexpected (read_state hx_n [] 0) 0 (ce true "p" 40) = true
  /\ fst (ghost_request (ghost_run hx_n0 ghost0 hx_evs) (ce true "p" 40)) = [(40, 40, "p"%string)]
  /\ List.nth 10 (List.map snd (trace hx_n0 hx_evs4)) [ONotRoutable] = []
  /\ pending hx_n0 hx_evs4 = []
  /\ n_origin_waiting (fst (run hx_n0 hx_evs4)) = []
  /\ answered hx_n0 hx_evs4 "p"%string = [1; 101; 102; 103].
Proof. vm_compute. repeat split. Qed.

(* an application answers after the peer's DPR: "p" sends (30, 300), then a DPR (answered: the DPA, end-to-end id
   50, is attributed to "p"); connection 0 is DISCONNECTING when the application's answer to (30, 300) arrives: a host
   was waiting for it but the answer is not routable; the node forgets the pair, and so does the ghost *)
Definition hx_evs5a : list (dials * event) := (hx_evs3a ++ [([], ERecv 0 [dpr "p" 50])])%list.
Definition hx_evs5 : list (dials * event) := (hx_evs5a ++ [([], EAppAnswer 0 (hx_ans 30 300))])%list.
Example C17_history_example_answer_not_routable :
  pending hx_n0 hx_evs5a = [(30, 300, "p"%string)]
  /\ n_origin_waiting (fst (run hx_n0 hx_evs5a)) = [(30, 300, "p"%string)]
  /\ n_peer_waiting (fst (run hx_n0 hx_evs5a)) = [("p"%string, [(30, 300)])]
  /\ List.map (fun c => (c_id c, c_state c, c_host c)) (n_conns (fst (run hx_n0 hx_evs5a)))
     = [(0%nat, SDisconnecting, "p"%string); (1%nat, SReady, "q"%string)]
  /\ waits (fst (run hx_n0 hx_evs5a)) (30, 300) = true
  /\ fst (route_answer (fst (run hx_n0 hx_evs5a)) (hx_ans 30 300)) = None
  /\ List.nth 12 (List.map snd (trace hx_n0 hx_evs5)) [] = [ONotRoutable]
  /\ pending hx_n0 hx_evs5 = []
  /\ n_origin_waiting (fst (run hx_n0 hx_evs5)) = []
  /\ answered hx_n0 hx_evs5 "p"%string = [1; 101; 102; 103; 50]
  /\ n_sent_answers (fst (run hx_n0 hx_evs5)) = [("p"%string, [103; 50]); ("q"%string, [2])].
Proof. vm_compute. repeat split. Qed.
End HistoryExample.

(* ====================================================================== *)
Print Assumptions trace_run.
Print Assumptions recv_trace_answers.
Print Assumptions C17_history_window_gen.
Print Assumptions C17_history_window.
Print Assumptions C17_history_pending.
Print Assumptions C17_history_duplicate_rejected.
Print Assumptions C17_history_no_false_duplicate.
Print Assumptions C17_history_flag_irrelevant.
Print Assumptions answered_from_trace.
Print Assumptions HistoryExample.C17_history_example_window.
Print Assumptions HistoryExample.C17_history_example_steps.
Print Assumptions HistoryExample.C17_history_example_theorem.
Print Assumptions HistoryExample.C17_history_example_theorem_evicted.
Print Assumptions HistoryExample.C17_history_example_pair_reuse.
Print Assumptions HistoryExample.C17_history_example_close.
Print Assumptions HistoryExample.C17_history_example_cer_ignored.
Print Assumptions HistoryExample.C17_history_example_answer_not_routable.
