(* C03: the typed-attribute layer (Model/Defs.v): gen_obj (attributes -> AVPs, python
   generate_avps_from_defs) and assign (AVPs -> attributes, python assign_attr_from_defs).

     gen_obj_unfold(_gen)  gen_obj = concatenation, over the definition tuple IN ORDER, of
                           field_avps e d (assoc (f_attr d) fields), then the extras
     C03_gen_shape         per definition: 0 / 1 / one-per-element AVPs, each with the definition's
                           code, vendor, V iff vendor <> 0, effective M, P clear; extras last, unchanged
     gen_obj_errors        gen_obj only fails with AvpEncodeError / ValueError / TypeError / AttributeError
     C03_attr_denotes      a well-formed class: each attribute denotes one dictionary AVP, injectively
     shaped, obj_equiv     the domain of the round trip, and equality of objects up to field order,
                           None vs absent, and the kind of an empty scalar list
     C03_roundtrip         assign (fresh instance) (gen_obj o) = Ok o' with o' equivalent to o, for every
                           fuel from the one `shaped` holds at
     C03_gen_total         gen_obj succeeds on every shaped object
     C03_gen_encodable     the AVPs gen_obj produces for a shaped object are wf_avp' and encode
     C03_restores          what obj_equiv says attribute by attribute
     gen_obj_equiv         gen_obj respects obj_equiv;  obj_equiv_sym
     C03_ede               encode - decode - encode = encode
     C03_assign_total      no OutOfFuel from the fuel `shaped` holds at
     ex_*                  a concrete instance (2 classes, 4 dictionary rows)

   Class well-formedness (class_ok, plus codes and vendor ids that fit 32 bits: class_wf) is a
   hypothesis ONLY for the classes involved: it is part of `shaped`, for the class of the object and
   of each nested object.  `tables_ok` (every class of the table) is defined but not needed.

   Names are strings, so String is imported: list functions are written qualified. *)
From DV Require Import Prelude.Base Proofs.BaseP Model.Wire Model.Types Model.Defs
     Proofs.WireP Proofs.TypesP Proofs.FindP.
From Coq Require Import String.

(* ====================================================================== *)
(* 0. small facts: strings, assoc, find, result                            *)
(* ====================================================================== *)
Lemma seqb_refl (s : string) : String.eqb s s = true.
Proof. apply String.eqb_refl. Qed.

Lemma seqb_neq_l (a b : string) : a <> b -> String.eqb a b = false.
Proof. intros H. apply String.eqb_neq. exact H. Qed.

Lemma assoc_set_same {A} n (v : A) l : assoc n (assoc_set n v l) = Some v.
Proof.
  induction l as [|[k x] r IH]; cbn [assoc_set assoc].
  - rewrite seqb_refl. reflexivity.
  - destruct (String.eqb k n) eqn:E; cbn [assoc]; rewrite E; [reflexivity|exact IH].
Qed.

Lemma assoc_set_other {A} n m (v : A) l : m <> n -> assoc m (assoc_set n v l) = assoc m l.
Proof.
  intros Hne. induction l as [|[k x] r IH]; cbn [assoc_set assoc].
  - rewrite seqb_neq_l by congruence. reflexivity.
  - destruct (String.eqb k n) eqn:E; cbn [assoc].
    + apply String.eqb_eq in E. subst k. rewrite seqb_neq_l by congruence. reflexivity.
    + rewrite IH. reflexivity.
Qed.

Lemma assoc_map {A B} (g : string -> A -> B) n (l : list (string * A)) :
  assoc n (List.map (fun ai => (fst ai, g (fst ai) (snd ai))) l) =
  match assoc n l with Some x => Some (g n x) | None => None end.
Proof.
  induction l as [|[k x] r IH]; cbn [List.map assoc fst snd]; [reflexivity|].
  destruct (String.eqb k n) eqn:E; [|exact IH].
  apply String.eqb_eq in E. subst k. reflexivity.
Qed.

(* find with a predicate that singles out one element of the list *)
Lemma find_unique {A} (p : A -> bool) (l : list A) (x : A) :
  In x l -> p x = true -> (forall y, In y l -> p y = true -> y = x) -> find p l = Some x.
Proof.
  induction l as [|y r IH]; intros Hin Hp Hu; [destruct Hin|].
  cbn [find]. destruct (p y) eqn:E.
  - f_equal. apply Hu; [left; reflexivity|exact E].
  - destruct Hin as [->|Hin]; [congruence|].
    apply IH; [exact Hin|exact Hp|]. intros z Hz. apply Hu. right. exact Hz.
Qed.

Lemma find_none_iff {A} (p : A -> bool) (l : list A) :
  find p l = None <-> (forall y, In y l -> p y = false).
Proof.
  split.
  - intros H y Hy. exact (find_none p l H y Hy).
  - induction l as [|y r IH]; intros H; [reflexivity|].
    cbn [find]. rewrite (H y (or_introl eq_refl)). apply IH. intros z Hz. apply H. right. exact Hz.
Qed.

Lemma Forall2_imp {A B} (P Q : A -> B -> Prop) l1 l2 :
  (forall a b, P a b -> Q a b) -> Forall2 P l1 l2 -> Forall2 Q l1 l2.
Proof. intros H F. induction F; constructor; auto. Qed.

Lemma cdef_lookup_in cs n c : cdef_lookup cs n = Some c -> In c cs /\ d_name c = n.
Proof.
  unfold cdef_lookup. intros H. apply find_some in H as [Hin He].
  apply String.eqb_eq in He. split; assumption.
Qed.

Lemma bind_ok {A B} (r : result A) (f : A -> result B) y :
  bind r f = Ok y -> exists x, r = Ok x /\ f x = Ok y.
Proof. destruct r as [x|er]; cbn [bind]; [|discriminate]. intros H. exists x. split; [reflexivity|exact H]. Qed.

Lemma map_result_length {A B} (f : A -> result B) l ys :
  map_result f l = Ok ys -> List.length ys = List.length l.
Proof.
  revert ys. induction l as [|x r IH]; intros ys H; cbn [map_result] in H.
  - injection H as <-. reflexivity.
  - apply bind_ok in H as (y & _ & H). apply bind_ok in H as (ys' & Hr & H). injection H as <-.
    cbn [List.length]. rewrite (IH ys' Hr). reflexivity.
Qed.

Lemma map_result_forall {A B} (f : A -> result B) (P : B -> Prop) l ys :
  (forall x y, In x l -> f x = Ok y -> P y) -> map_result f l = Ok ys -> Forall P ys.
Proof.
  revert ys. induction l as [|x r IH]; intros ys Hf H; cbn [map_result] in H.
  - injection H as <-. constructor.
  - apply bind_ok in H as (y & Hy & H). apply bind_ok in H as (ys' & Hr & H). injection H as <-.
    constructor; [apply (Hf x y); [left; reflexivity|exact Hy]|].
    apply IH; [|exact Hr]. intros x' y' Hin. apply Hf. right. exact Hin.
Qed.

Lemma map_result_ext_in {A B} (f g : A -> result B) l :
  (forall x, In x l -> f x = g x) -> map_result f l = map_result g l.
Proof.
  induction l as [|x r IH]; intros H; [reflexivity|].
  cbn [map_result]. rewrite (H x (or_introl eq_refl)). rewrite IH; [reflexivity|].
  intros y Hy. apply H. right. exact Hy.
Qed.

(* ====================================================================== *)
(* 1. gen_obj as a concatenation over the definition tuple                 *)
(* ====================================================================== *)
(* one grouped AVP for one nested object *)
Definition grouped_item (e : env) (d : defrow) (o' : obj) : result avp :=
  let! sub := gen_obj e o' in
  if String.eqb (f_tclass d) "" then Err AvpEncodeError else grouped_for e d sub.

(* the AVPs one definition contributes, given the value its attribute holds (None: no such field) *)
Definition field_avps (e : env) (d : defrow) (a : option aval) : result (list avp) :=
  match a with
  | None => Ok []
  | Some ANone => Ok []
  | Some (AVal v) =>
      if String.eqb (f_tclass d) "" then let! a := new_for e d (Some v) in Ok [a] else Err AttributeError
  | Some (AVals l) =>
      if String.eqb (f_tclass d) "" then map_result (fun v => new_for e d (Some v)) l else Err AttributeError
  | Some (AObj o') => let! a := grouped_item e d o' in Ok [a]
  | Some (AObjs l) => map_result (grouped_item e d) l
  | Some (AClass k) =>
      if String.eqb (f_tclass d) "" then Err AvpEncodeError else let! a := grouped_for e d [] in Ok [a]
  end.

(* ... concatenated in definition order *)
Fixpoint gen_defs (e : env) (fields : list (string * aval)) (ds : list defrow) : result (list avp) :=
  match ds with
  | [] => Ok []
  | d :: r => let! here := field_avps e d (assoc (f_attr d) fields) in
              let! more := gen_defs e fields r in Ok (here ++ more)%list
  end.

Definition has_extras (c : clsdef) : bool := d_is_msg c || d_extra c.

Lemma gos_eq e d l :
  (fix gos (l : list obj) : result (list avp) :=
     match l with
     | [] => Ok []
     | o' :: r' =>
         let! sub := gen_obj e o' in
         let! a := (if String.eqb (f_tclass d) "" then Err AvpEncodeError
                    else grouped_for e d sub) in
         let! rest := gos r' in Ok (a :: rest)
     end) l = map_result (grouped_item e d) l.
Proof.
  induction l as [|o' r IH]; [reflexivity|].
  cbn [map_result]. rewrite <- IH. unfold grouped_item.
  destruct (gen_obj e o') as [sub|er]; reflexivity.
Qed.

Lemma per_eq e n d fs :
  match assoc n
    ((fix go (fs : list (string * aval)) : list (string * (defrow -> result (list avp))) :=
     match fs with
     | [] => []
     | (n, av) :: r =>
         (n, fun d =>
               match av with
               | ANone => Ok []
               | AVal v =>
                   if String.eqb (f_tclass d) "" then let! a := new_for e d (Some v) in Ok [a]
                   else Err AttributeError
               | AVals l =>
                   if String.eqb (f_tclass d) "" then map_result (fun v => new_for e d (Some v)) l
                   else Err AttributeError
               | AObj o' =>
                   let! sub := gen_obj e o' in
                   if String.eqb (f_tclass d) "" then Err AvpEncodeError
                   else let! a := grouped_for e d sub in Ok [a]
               | AObjs l =>
                   (fix gos (l : list obj) : result (list avp) :=
                      match l with
                      | [] => Ok []
                      | o' :: r' =>
                          let! sub := gen_obj e o' in
                          let! a := (if String.eqb (f_tclass d) "" then Err AvpEncodeError
                                     else grouped_for e d sub) in
                          let! rest := gos r' in Ok (a :: rest)
                      end) l
               | AClass k =>
                   if String.eqb (f_tclass d) "" then Err AvpEncodeError
                   else let! a := grouped_for e d [] in Ok [a]
               end) :: go r
     end) fs)
  with Some f => f d | None => Ok [] end = field_avps e d (assoc n fs).
Proof.
  induction fs as [|[k av] r IH]; [reflexivity|].
  cbn [assoc]. destruct (String.eqb k n); [|exact IH].
  destruct av as [|v|l|o'|l|kk]; cbn [field_avps]; try reflexivity.
  - unfold grouped_item. destruct (gen_obj e o') as [sub|er]; cbn [bind]; [|reflexivity].
    destruct (String.eqb (f_tclass d) ""); reflexivity.
  - apply gos_eq.
Qed.

(* (1) *)
Theorem gen_obj_unfold_gen : forall e cls fields extra,
  gen_obj e (Obj cls fields extra) =
  match cdef_lookup (e_classes e) cls with
  | None => Ok []
  | Some c =>
      if d_has_defs c then
        let! ordered := gen_defs e fields (d_defs c) in
        Ok (if has_extras c then ordered ++ extra else ordered)%list
      else Ok []
  end.
Proof.
  intros e cls fields extra. cbn [gen_obj].
  destruct (cdef_lookup (e_classes e) cls) as [c|]; [|reflexivity].
  destruct (d_has_defs c); cbn [negb]; [|reflexivity].
  match goal with |- bind ?X _ = bind ?Y _ => assert (HE : X = Y) end.
  { induction (d_defs c) as [|d r IH]; [reflexivity|].
    cbn [gen_defs]. rewrite <- IH. rewrite per_eq. reflexivity. }
  rewrite HE. destruct (gen_defs e fields (d_defs c)) as [ordered|er]; cbn [bind]; [|reflexivity].
  unfold has_extras. destruct (d_is_msg c), (d_extra c); reflexivity.
Qed.

Theorem gen_obj_unfold : forall e cls fields extra c,
  cdef_lookup (e_classes e) cls = Some c -> d_has_defs c = true ->
  gen_obj e (Obj cls fields extra) =
  (let! ordered := gen_defs e fields (d_defs c) in
   Ok (if has_extras c then ordered ++ extra else ordered)%list).
Proof. intros e cls fields extra c Hc Hd. rewrite gen_obj_unfold_gen, Hc, Hd. reflexivity. Qed.

(* ====================================================================== *)
(* 2. the shape of what gen_obj produces                                   *)
(* ====================================================================== *)
(* the M flag an AVP created for definition d ends up with: the definition's override,
   else the dictionary default, else untouched (clear) *)
Definition eff_mand (e : env) (d : defrow) : option bool :=
  match mand_opt (f_mand d) with
  | Some b => Some b
  | None => match lookup (e_rows e) (f_code d) (f_vendor d) with
            | Some r => if row_mand r =? 0 then None else Some (row_mand r =? 2)
            | None => None
            end
  end.

(* "a bears the code, vendor and flags of definition d" *)
Definition avp_for (e : env) (d : defrow) (a : avp) : Prop :=
  a_code a = f_code d /\ a_vendor a = f_vendor d /\
  (Z.land (a_flags a) 128 = 0 <-> f_vendor d = 0) /\
  match eff_mand e d with
  | Some b => (Z.land (a_flags a) 64 <> 0 <-> b = true)
  | None => Z.land (a_flags a) 64 = 0
  end /\
  Z.land (a_flags a) 32 = 0 /\ 0 <= a_flags a < 256.

(* how many AVPs an attribute value stands for *)
Definition count_of (a : option aval) : nat :=
  match a with
  | None | Some ANone => 0%nat
  | Some (AVal _) | Some (AObj _) | Some (AClass _) => 1%nat
  | Some (AVals l) => List.length l
  | Some (AObjs l) => List.length l
  end.

Lemma new_for_inv e d v a : new_for e d v = Ok a ->
  exists r, lookup (e_rows e) (f_code d) (f_vendor d) = Some r /\ avp_for e d a /\
            match v with Some x => enc_val (e_time e) (row_ty r) x = Ok (a_payload a) | None => a_payload a = [] end.
Proof.
  unfold new_for. intros H.
  destruct (lookup (e_rows e) (f_code d) (f_vendor d)) as [r|] eqn:El.
  2:{ rewrite avp_new_unknown in H by exact El. discriminate. }
  exists r. split; [reflexivity|].
  destruct (avp_new_flags _ _ _ _ _ _ _ _ _ El H) as (H1 & H2 & H3 & H4 & H5 & H6 & H7).
  split; [|exact H7]. unfold avp_for, eff_mand. rewrite El.
  cbv zeta in H4.
  split; [exact H1|]. split; [exact H2|]. split; [exact H3|].
  split; [destruct (mand_opt (f_mand d)); exact H4|]. split; [exact H5|exact H6].
Qed.

Lemma grouped_for_inv e d sub a : grouped_for e d sub = Ok a ->
  exists r a0 p, lookup (e_rows e) (f_code d) (f_vendor d) = Some r /\ row_ty r = TGrouped /\
                 new_for e d None = Ok a0 /\ enc_avps sub = Ok p /\ a = set_payload a0 p.
Proof.
  unfold grouped_for. intros H. apply bind_ok in H as (a0 & Ha0 & H).
  destruct (lookup (e_rows e) (f_code d) (f_vendor d)) as [r|] eqn:El; [|discriminate].
  destruct (row_ty r) eqn:Ety; try discriminate.
  destruct (enc_avps sub) as [p|er] eqn:Ep; [|discriminate]. injection H as <-.
  exists r, a0, p. repeat split; assumption.
Qed.

Lemma avp_for_set_payload e d a p : avp_for e d a -> avp_for e d (set_payload a p).
Proof. unfold avp_for. cbn [set_payload a_code a_vendor a_flags]. tauto. Qed.

Lemma grouped_for_avp_for e d sub a : grouped_for e d sub = Ok a -> avp_for e d a.
Proof.
  intros H. apply grouped_for_inv in H as (r & a0 & p & _ & _ & Ha0 & _ & ->).
  apply avp_for_set_payload. apply new_for_inv in Ha0 as (r' & _ & Hf & _). exact Hf.
Qed.

Lemma grouped_item_avp_for e d o' a : grouped_item e d o' = Ok a -> avp_for e d a.
Proof.
  unfold grouped_item. intros H. apply bind_ok in H as (sub & _ & H).
  destruct (String.eqb (f_tclass d) ""); [discriminate|]. eapply grouped_for_avp_for. exact H.
Qed.

Lemma field_avps_shape e d a p : field_avps e d a = Ok p ->
  List.length p = count_of a /\ Forall (avp_for e d) p.
Proof.
  destruct a as [[|v|l|o'|l|k]|]; cbn [field_avps count_of]; intros H.
  - injection H as <-. split; [reflexivity|constructor].
  - destruct (String.eqb (f_tclass d) ""); [|discriminate].
    apply bind_ok in H as (a & Ha & H). injection H as <-. split; [reflexivity|].
    constructor; [|constructor]. apply new_for_inv in Ha as (r & _ & Hf & _). exact Hf.
  - destruct (String.eqb (f_tclass d) ""); [|discriminate]. split.
    + eapply map_result_length. exact H.
    + eapply map_result_forall; [|exact H]. cbv beta. intros x y _ Hy.
      apply new_for_inv in Hy as (r & _ & Hf & _). exact Hf.
  - apply bind_ok in H as (a & Ha & H). injection H as <-. split; [reflexivity|].
    constructor; [|constructor]. eapply grouped_item_avp_for. exact Ha.
  - split.
    + eapply map_result_length. exact H.
    + eapply map_result_forall; [|exact H]. intros x y _ Hy. eapply grouped_item_avp_for. exact Hy.
  - destruct (String.eqb (f_tclass d) ""); [discriminate|].
    apply bind_ok in H as (a & Ha & H). injection H as <-. split; [reflexivity|].
    constructor; [|constructor]. eapply grouped_for_avp_for. exact Ha.
  - injection H as <-. split; [reflexivity|constructor].
Qed.

Lemma gen_defs_shape e fields ds l : gen_defs e fields ds = Ok l ->
  exists per : list (list avp),
    Forall2 (fun d p => field_avps e d (assoc (f_attr d) fields) = Ok p) ds per /\
    l = List.concat per.
Proof.
  revert l. induction ds as [|d r IH]; intros l H; cbn [gen_defs] in H.
  - injection H as <-. exists []. split; [constructor|reflexivity].
  - apply bind_ok in H as (here & Hh & H). apply bind_ok in H as (more & Hm & H). injection H as <-.
    destruct (IH more Hm) as (per & Hper & ->). exists (here :: per).
    split; [constructor; assumption|reflexivity].
Qed.

(* (2)  No well-formedness of the class is needed: when gen_obj succeeds, every definition that
   contributed an AVP has a dictionary entry (otherwise Avp.new raised ValueError). *)
Theorem C03_gen_shape : forall e cls fields extra c l,
  cdef_lookup (e_classes e) cls = Some c -> d_has_defs c = true ->
  gen_obj e (Obj cls fields extra) = Ok l ->
  exists per : list (list avp),
    (* one list per definition, in definition order *)
    Forall2 (fun d p =>
               (* as many AVPs as the attribute holds values: 0 for unset, 1 for a scalar or an
                  object, one per element for lists ... *)
               List.length p = count_of (assoc (f_attr d) fields) /\
               (* ... each with the definition's code, vendor, V iff vendor <> 0, effective M, P clear *)
               Forall (avp_for e d) p) (d_defs c) per /\
    (* then the undeclared extra AVPs, unchanged *)
    l = (List.concat per ++ (if has_extras c then extra else []))%list.
Proof.
  intros e cls fields extra c l Hc Hd H.
  rewrite (gen_obj_unfold e cls fields extra c Hc Hd) in H.
  apply bind_ok in H as (ordered & Ho & H). injection H as <-.
  apply gen_defs_shape in Ho as (per & Hper & ->). exists per. split.
  - eapply Forall2_imp; [|exact Hper]. cbv beta. intros d p Hp. eapply field_avps_shape. exact Hp.
  - destruct (has_extras c); [reflexivity|rewrite app_nil_r; reflexivity].
Qed.

(* ====================================================================== *)
(* 5a. the errors gen_obj can return                                       *)
(* ====================================================================== *)
(* induction principle for the nested type obj *)
Section ObjInd.
  Variable P : obj -> Prop.
  Definition aval_all (av : aval) : Prop :=
    match av with AObj o => P o | AObjs l => Forall P l | _ => True end.
  Hypothesis Hobj : forall cls fields extra,
    Forall (fun na => aval_all (snd na)) fields -> P (Obj cls fields extra).
  Fixpoint obj_ind' (o : obj) : P o :=
    match o with
    | Obj cls fields extra =>
        Hobj cls fields extra
          ((fix go (fs : list (string * aval)) : Forall (fun na => aval_all (snd na)) fs :=
              match fs with
              | [] => Forall_nil _
              | (n, av) :: r =>
                  Forall_cons (n, av)
                    (match av return aval_all av with
                     | AObj o' => obj_ind' o'
                     | AObjs l =>
                         (fix gl (l : list obj) : Forall P l :=
                            match l with
                            | [] => Forall_nil _
                            | x :: r' => Forall_cons x (obj_ind' x) (gl r')
                            end) l
                     | _ => I
                     end) (go r)
              end) fields)
    end.
End ObjInd.

Definition gen_err (x : err) : Prop :=
  x = AvpEncodeError \/ x = ValueError \/ x = TypeError \/ x = AttributeError.

Lemma enc_val_err k t v x : enc_val k t v = Err x -> x = AvpEncodeError.
Proof.
  destruct t; destruct v; cbn [enc_val]; unfold wrap_enc, time_enc, addr_enc; intros H;
    repeat match type of H with context [match ?y with _ => _ end] => destruct y end; congruence.
Qed.

Lemma new_for_err e d v x : new_for e d v = Err x -> gen_err x.
Proof.
  unfold new_for, avp_new, gen_err. destruct (lookup (e_rows e) (f_code d) (f_vendor d)) as [r|]; [|intros H; injection H as <-; tauto].
  destruct v as [v|]; cbn [bind]; [|discriminate].
  destruct (enc_val (e_time e) (row_ty r) v) as [p|er] eqn:E; cbn [bind]; [discriminate|].
  intros H. injection H as <-. apply enc_val_err in E. tauto.
Qed.

Lemma grouped_for_err e d sub x : grouped_for e d sub = Err x -> gen_err x.
Proof.
  unfold grouped_for. destruct (new_for e d None) as [a|er] eqn:En; cbn [bind].
  - unfold gen_err. destruct (lookup (e_rows e) (f_code d) (f_vendor d)) as [r|]; [|intros H; injection H as <-; tauto].
    destruct (row_ty r); try (intros H; injection H as <-; tauto).
    destruct (enc_avps sub); [discriminate|intros H; injection H as <-; tauto].
  - intros H. injection H as <-. eapply new_for_err. exact En.
Qed.

Lemma map_result_err {A B} (f : A -> result B) l x :
  map_result f l = Err x -> exists y, In y l /\ f y = Err x.
Proof.
  induction l as [|a r IH]; cbn [map_result]; [discriminate|].
  destruct (f a) as [b|er] eqn:Ea; cbn [bind].
  - destruct (map_result f r) as [ys|er]; cbn [bind]; [discriminate|].
    intros H. destruct (IH H) as (y & Hy & Hf). exists y. split; [right; exact Hy|exact Hf].
  - intros H. injection H as <-. exists a. split; [left; reflexivity|exact Ea].
Qed.

Lemma grouped_item_err e d o' x :
  (forall y, gen_obj e o' = Err y -> gen_err y) -> grouped_item e d o' = Err x -> gen_err x.
Proof.
  intros IH. unfold grouped_item. destruct (gen_obj e o') as [sub|er]; cbn [bind].
  - destruct (String.eqb (f_tclass d) ""); [intros H; injection H as <-; unfold gen_err; tauto|].
    apply grouped_for_err.
  - intros H. injection H as <-. apply IH. reflexivity.
Qed.

Lemma field_avps_err e d a x :
  match a with Some av => aval_all (fun o => forall y, gen_obj e o = Err y -> gen_err y) av | None => True end ->
  field_avps e d a = Err x -> gen_err x.
Proof.
  destruct a as [[|v|l|o'|l|k]|]; cbn [field_avps aval_all]; intros IH H; try discriminate.
  - destruct (String.eqb (f_tclass d) ""); [|injection H as <-; unfold gen_err; tauto].
    destruct (new_for e d (Some v)) as [a|er] eqn:En; cbn [bind] in H; [discriminate|].
    injection H as <-. eapply new_for_err. exact En.
  - destruct (String.eqb (f_tclass d) ""); [|injection H as <-; unfold gen_err; tauto].
    apply map_result_err in H as (y & _ & Hy). eapply new_for_err. exact Hy.
  - destruct (grouped_item e d o') as [a|er] eqn:Eg; cbn [bind] in H; [discriminate|].
    injection H as <-. eapply grouped_item_err; [exact IH|exact Eg].
  - apply map_result_err in H as (y & Hin & Hy). rewrite Forall_forall in IH.
    eapply grouped_item_err; [apply IH; exact Hin|exact Hy].
  - destruct (String.eqb (f_tclass d) ""); [injection H as <-; unfold gen_err; tauto|].
    destruct (grouped_for e d []) as [a|er] eqn:Eg; cbn [bind] in H; [discriminate|].
    injection H as <-. eapply grouped_for_err. exact Eg.
Qed.

Lemma assoc_in {A} n (l : list (string * A)) v : assoc n l = Some v -> exists k, In (k, v) l.
Proof.
  induction l as [|[k x] r IH]; cbn [assoc]; [discriminate|].
  destruct (String.eqb k n).
  - intros H. injection H as <-. exists k. left. reflexivity.
  - intros H. destruct (IH H) as (k' & Hk). exists k'. right. exact Hk.
Qed.

(* (5a) *)
Theorem gen_obj_errors : forall e o x, gen_obj e o = Err x ->
  x = AvpEncodeError \/ x = ValueError \/ x = TypeError \/ x = AttributeError.
Proof.
  intros e o. induction o as [cls fields extra IH] using obj_ind'. intros x H.
  rewrite gen_obj_unfold_gen in H.
  destruct (cdef_lookup (e_classes e) cls) as [c|]; [|discriminate].
  destruct (d_has_defs c); [|discriminate].
  destruct (gen_defs e fields (d_defs c)) as [ordered|er] eqn:Eg; cbn [bind] in H; [discriminate|].
  injection H as <-. clear extra. revert Eg. generalize (d_defs c) as ds.
  induction ds as [|d r IHd]; cbn [gen_defs]; [discriminate|].
  destruct (field_avps e d (assoc (f_attr d) fields)) as [here|er'] eqn:Ef; cbn [bind].
  - destruct (gen_defs e fields r) as [more|er']; cbn [bind]; [discriminate|].
    intros H. injection H as <-. apply IHd. reflexivity.
  - intros H. injection H as <-. eapply field_avps_err; [|exact Ef].
    destruct (assoc (f_attr d) fields) as [av|] eqn:Ea; [|exact I].
    apply assoc_in in Ea as (k & Hk). rewrite Forall_forall in IH. exact (IH (k, av) Hk).
Qed.

(* ====================================================================== *)
(* 3. assign as a named loop                                               *)
(* ====================================================================== *)
Definition assign_step (e : env) (f : nat) (c : clsdef) (o : obj) (a : avp) : result obj :=
  match def_for_key (d_defs c) (a_code a) (a_vendor a) with
  | Some d =>
      let cur := assoc (f_attr d) (obj_fields o) in
      if String.eqb (f_tclass d) "" then
        let v := match dec_val (e_time e) (type_of (dict_of (e_rows e)) a) (a_payload a) with
                 | Ok x => Some x
                 | Err _ => None
                 end in
        match cur with
        | Some (AVals l0) =>
            match v with
            | Some x => Ok (set_field o (f_attr d) (AVals (l0 ++ [x])%list))
            | None => Err OutOfFuel
            end
        | Some (AObjs _) => Err OutOfFuel
        | _ => Ok (set_field o (f_attr d) (match v with Some x => AVal x | None => ANone end))
        end
      else
        match type_of (dict_of (e_rows e)) a with
        | TGrouped =>
            let! kids := group_kids (a_payload a) in
            let! sub := assign e f (fresh (e_classes e) (f_tclass d)) kids in
            match cur with
            | Some (AObjs l0) => Ok (set_field o (f_attr d) (AObjs (l0 ++ [sub])%list))
            | Some (AVals []) => Ok (set_field o (f_attr d) (AObjs [sub]))
            | Some (AVals _) => Err OutOfFuel
            | _ => Ok (set_field o (f_attr d) (AObj sub))
            end
        | _ => Err TypeError
        end
  | None => Ok (if d_extra c then add_extra o a else o)
  end.

Fixpoint assign_go (e : env) (f : nat) (c : clsdef) (o : obj) (l : list avp) : result obj :=
  match l with
  | [] => Ok o
  | a :: r => let! o' := assign_step e f c o a in assign_go e f c o' r
  end.

Lemma bind_ext {A B} (r : result A) (g h : A -> result B) :
  (forall x, g x = h x) -> bind r g = bind r h.
Proof. intros H. destruct r; cbn [bind]; [apply H|reflexivity]. Qed.

Lemma assign_S e f o avps :
  assign e (S f) o avps =
  match cdef_lookup (e_classes e) (obj_cls o) with
  | None => Err AttributeError
  | Some c => if negb (d_has_defs c) then Err AttributeError else assign_go e f c o avps
  end.
Proof.
  cbn [assign]. destruct (cdef_lookup (e_classes e) (obj_cls o)) as [c|]; [|reflexivity].
  destruct (negb (d_has_defs c)); [reflexivity|].
  generalize o. induction avps as [|a r IH]; intros o0; [reflexivity|].
  cbn [assign_go]. apply (bind_ext (assign_step e f c o0 a)). intros o'. apply IH.
Qed.

Lemma assign_go_app e f c l1 : forall o l2,
  assign_go e f c o (l1 ++ l2)%list = (let! o' := assign_go e f c o l1 in assign_go e f c o' l2).
Proof.
  induction l1 as [|a r IH]; intros o l2; [reflexivity|].
  cbn [List.app assign_go]. destruct (assign_step e f c o a) as [o'|er]; cbn [bind]; [apply IH|reflexivity].
Qed.

(* ====================================================================== *)
(* 4. table well-formedness: what class_ok gives                           *)
(* ====================================================================== *)
Lemma str_nodup_cons x r : str_nodup (x :: r) = true -> ~ In x r /\ str_nodup r = true.
Proof.
  cbn [str_nodup]. intros H. apply andb_true_iff in H as [H1 H2]. split; [|exact H2].
  intros Hin. apply negb_true_iff in H1.
  assert (List.existsb (String.eqb x) r = true); [|congruence].
  apply existsb_exists. exists x. split; [exact Hin|apply seqb_refl].
Qed.

Lemma attr_unique ds d d' : str_nodup (List.map f_attr ds) = true ->
  In d ds -> In d' ds -> f_attr d = f_attr d' -> d = d'.
Proof.
  induction ds as [|x r IH]; intros Hn Hd Hd' He; [destruct Hd|].
  cbn [List.map] in Hn. apply str_nodup_cons in Hn as [Hx Hr].
  destruct Hd as [->|Hd]; destruct Hd' as [->|Hd'].
  - reflexivity.
  - exfalso. apply Hx. rewrite He. apply in_map. exact Hd'.
  - exfalso. apply Hx. rewrite <- He. apply in_map. exact Hd.
  - apply IH; assumption.
Qed.

Definition dkey (d : defrow) : Z * Z := (f_code d, f_vendor d).

Lemma key_nodup_cons k r : key_nodup (k :: r) = true -> ~ In k r /\ key_nodup r = true.
Proof.
  destruct k as [c v]. cbn [key_nodup]. intros H. apply andb_true_iff in H as [H1 H2]. split; [|exact H2].
  intros Hin. apply negb_true_iff in H1.
  assert (List.existsb (fun k => (fst k =? c) && (snd k =? v)) r = true); [|congruence].
  apply existsb_exists. exists (c, v). split; [exact Hin|]. cbn [fst snd]. rewrite !Z.eqb_refl. reflexivity.
Qed.

Lemma key_unique ds d d' : key_nodup (List.map dkey ds) = true ->
  In d ds -> In d' ds -> dkey d = dkey d' -> d = d'.
Proof.
  induction ds as [|x r IH]; intros Hn Hd Hd' He; [destruct Hd|].
  cbn [List.map] in Hn. apply key_nodup_cons in Hn as [Hx Hr].
  destruct Hd as [->|Hd]; destruct Hd' as [->|Hd'].
  - reflexivity.
  - exfalso. apply Hx. rewrite He. apply in_map. exact Hd'.
  - exfalso. apply Hx. rewrite <- He. apply in_map. exact Hd.
  - apply IH; assumption.
Qed.

Lemma def_for_key_in ds d : key_nodup (List.map dkey ds) = true -> In d ds ->
  def_for_key ds (f_code d) (f_vendor d) = Some d.
Proof.
  intros Hn Hd. unfold def_for_key. apply find_unique.
  - apply in_rev in Hd. exact Hd.
  - rewrite !Z.eqb_refl. reflexivity.
  - intros y Hy Hp. apply in_rev in Hy. apply andb_true_iff in Hp as [H1 H2].
    apply Z.eqb_eq in H1. apply Z.eqb_eq in H2.
    apply (key_unique ds y d Hn Hy Hd). unfold dkey. congruence.
Qed.

Lemma find_attr_in ds d : str_nodup (List.map f_attr ds) = true -> In d ds ->
  find (fun d' => String.eqb (f_attr d') (f_attr d)) ds = Some d.
Proof.
  intros Hn Hd. apply find_unique; [exact Hd|apply seqb_refl|].
  intros y Hy Hp. apply String.eqb_eq in Hp. apply (attr_unique ds y d Hn Hy Hd Hp).
Qed.

(* what the theorems need of a class: class_ok, and codes / vendor ids that fit 32 bits *)
Definition class_wf (e : env) (c : clsdef) : Prop :=
  class_ok (e_rows e) (e_classes e) c = true /\
  Forall (fun d => 0 <= f_code d < 4294967296 /\ 0 <= f_vendor d < 4294967296) (d_defs c).

Definition tables_ok (e : env) : Prop := forall c, In c (e_classes e) -> class_wf e c.

Lemma class_ok_inv rows cs c : class_ok rows cs c = true ->
  (forall d, In d (d_defs c) -> def_ok rows cs d = true) /\
  str_nodup (List.map f_attr (d_defs c)) = true /\
  key_nodup (List.map dkey (d_defs c)) = true.
Proof.
  unfold class_ok. intros H.
  apply andb_true_iff in H as [H _]. apply andb_true_iff in H as [H H3]. apply andb_true_iff in H as [H1 H2].
  split; [|split; [exact H2|exact H3]].
  intros d Hd. rewrite forallb_forall in H1. apply H1. exact Hd.
Qed.

Lemma ty_eqb_eq a b : ty_eqb a b = true <-> a = b.
Proof. destruct a, b; cbn [ty_eqb]; split; intros H; try reflexivity; try discriminate. Qed.

(* a definition of a well-formed class: its dictionary row, and grouped iff container *)
Lemma def_ok_inv rows cs d : def_ok rows cs d = true ->
  exists r, lookup rows (f_code d) (f_vendor d) = Some r /\
    (f_tclass d = ""%string -> row_ty r <> TGrouped) /\
    (f_tclass d <> ""%string -> row_ty r = TGrouped /\
        exists k, cdef_lookup cs (f_tclass d) = Some k /\ d_is_msg k = false).
Proof.
  unfold def_ok. destruct (lookup rows (f_code d) (f_vendor d)) as [r|]; [|discriminate].
  intros H. exists r. split; [reflexivity|].
  destruct (String.eqb (f_tclass d) "") eqn:E.
  - apply String.eqb_eq in E. split; [|congruence].
    intros _ Hg. rewrite Hg in H. discriminate.
  - apply String.eqb_neq in E. split; [congruence|]. intros _.
    apply andb_true_iff in H as [H1 H2]. apply ty_eqb_eq in H1. split; [exact H1|].
    destruct (cdef_lookup cs (f_tclass d)) as [k|]; [|discriminate].
    exists k. split; [reflexivity|]. apply negb_true_iff in H2. exact H2.
Qed.

(* ---- a fresh instance ---------------------------------------------------- *)
Lemma fresh_cls cs cls : obj_cls (fresh cs cls) = cls.
Proof. unfold fresh. destruct (cdef_lookup cs cls); reflexivity. Qed.

Lemma fresh_extra cs cls : obj_extra (fresh cs cls) = [].
Proof. unfold fresh. destruct (cdef_lookup cs cls); reflexivity. Qed.

Lemma fresh_assoc cs cls c n : cdef_lookup cs cls = Some c ->
  assoc n (obj_fields (fresh cs cls)) =
  match assoc n (d_init c) with
  | Some i => Some (init_aval (find (fun d => String.eqb (f_attr d) n) (d_defs c)) i)
  | None => None
  end.
Proof.
  intros Hc. unfold fresh. rewrite Hc. cbn [obj_fields].
  apply (assoc_map (fun k i => init_aval (find (fun d => String.eqb (f_attr d) k) (d_defs c)) i)).
Qed.

(* the value attribute (f_attr d) has in a fresh instance *)
Definition fresh_val (c : clsdef) (d : defrow) : option aval :=
  match assoc (f_attr d) (d_init c) with
  | Some i => Some (init_aval (Some d) i)
  | None => None
  end.

Lemma fresh_assoc_def cs cls c d : cdef_lookup cs cls = Some c ->
  str_nodup (List.map f_attr (d_defs c)) = true -> In d (d_defs c) ->
  assoc (f_attr d) (obj_fields (fresh cs cls)) = fresh_val c d.
Proof.
  intros Hc Hn Hd. rewrite (fresh_assoc cs cls c _ Hc). unfold fresh_val.
  rewrite (find_attr_in (d_defs c) d Hn Hd). reflexivity.
Qed.

(* ====================================================================== *)
(* 5. shaped objects, and equality of objects up to representation          *)
(* ====================================================================== *)
(* a scalar value for definition d: in the domain of the dictionary type, and its payload fits
   the 24-bit AVP length *)
Definition scalar_ok (e : env) (d : defrow) (v : value) : Prop :=
  exists r, lookup (e_rows e) (f_code d) (f_vendor d) = Some r /\
    in_domain (row_ty r) v = true /\
    forall p, enc_val (e_time e) (row_ty r) v = Ok p -> 12 + blen p < 16777216.

(* a nested object for definition d: an instance of the definition's container class, shaped
   (sh), and its encoded AVPs fit the 24-bit AVP length *)
Definition nested_ok (e : env) (sh : obj -> Prop) (d : defrow) (o' : obj) : Prop :=
  obj_cls o' = f_tclass d /\ sh o' /\
  forall sub p, gen_obj e o' = Ok sub -> enc_avps sub = Ok p -> 12 + blen p < 16777216.

(* the value `a` (None: no such field) of the attribute of definition d, where i says how a fresh
   instance presets that attribute (None: not preset) *)
Definition field_shaped (e : env) (sh : obj -> Prop) (d : defrow) (i : option init) (a : option aval) : Prop :=
  match i with
  | Some InitList =>
      (* list attribute: a list of any length; of scalars for a scalar definition (the empty list
         may be of either kind), of container instances for a container definition *)
      match a with
      | Some (AVals vs) => f_tclass d = ""%string /\ Forall (scalar_ok e d) vs
      | Some (AObjs os) => (f_tclass d = ""%string /\ os = []) \/
                           (f_tclass d <> ""%string /\ Forall (nested_ok e sh d) os)
      | _ => False
      end
  | Some InitClass => False
  | _ =>
      (* not preset, or preset to an integer: unset (only if not preset), a scalar, or an object *)
      match a with
      | None | Some ANone => i = None
      | Some (AVal v) => f_tclass d = ""%string /\ scalar_ok e d v
      | Some (AObj o') => f_tclass d <> ""%string /\ nested_ok e sh d o'
      | _ => False
      end
  end.

Fixpoint shaped (e : env) (fuel : nat) (o : obj) : Prop :=
  match fuel with
  | O => False
  | S f =>
      match cdef_lookup (e_classes e) (obj_cls o) with
      | None => False
      | Some c =>
          d_has_defs c = true /\ class_wf e c /\
          (* no extras without a slot for them *)
          (d_extra c = false -> obj_extra o = []) /\
          (* extras are encodable and are not AVPs of a declared attribute *)
          Forall (fun a => wf_avp' a /\ def_for_key (d_defs c) (a_code a) (a_vendor a) = None) (obj_extra o) /\
          forall d, In d (d_defs c) ->
            field_shaped e (shaped e f) d (assoc (f_attr d) (d_init c)) (assoc (f_attr d) (obj_fields o))
      end
  end.

Definition unset (a : option aval) : bool :=
  match a with None | Some ANone => true | _ => false end.

(* attribute values up to: None vs absent; for a scalar definition, the empty list of either kind *)
Definition aval_equiv (oe : obj -> obj -> Prop) (d : defrow) (a b : option aval) : Prop :=
  match a with
  | None | Some ANone => unset b = true
  | Some (AVal x) => b = Some (AVal x)
  | Some (AVals x) => b = Some (AVals x) \/ (x = [] /\ b = Some (AObjs []) /\ f_tclass d = ""%string)
  | Some (AObj x) => exists y, b = Some (AObj y) /\ oe x y
  | Some (AObjs x) => (exists y, b = Some (AObjs y) /\ Forall2 oe x y) \/
                      (x = [] /\ b = Some (AVals []) /\ f_tclass d = ""%string)
  | Some (AClass k) => b = Some (AClass k)
  end.

(* objects up to the order of fields and the above, through every declared attribute *)
Fixpoint obj_equiv (e : env) (fuel : nat) (a b : obj) : Prop :=
  match fuel with
  | O => False
  | S f =>
      obj_cls a = obj_cls b /\ obj_extra a = obj_extra b /\
      match cdef_lookup (e_classes e) (obj_cls a) with
      | None => obj_fields a = obj_fields b
      | Some c => forall d, In d (d_defs c) ->
                    aval_equiv (obj_equiv e f) d (assoc (f_attr d) (obj_fields a)) (assoc (f_attr d) (obj_fields b))
      end
  end.

Lemma field_shaped_mono e (sh sh' : obj -> Prop) d i a :
  (forall o, sh o -> sh' o) -> field_shaped e sh d i a -> field_shaped e sh' d i a.
Proof.
  intros Hs. assert (Hn : forall o, nested_ok e sh d o -> nested_ok e sh' d o).
  { intros o (H1 & H2 & H3). split; [exact H1|]. split; [apply Hs; exact H2|exact H3]. }
  unfold field_shaped. destruct i as [[| |]|]; destruct a as [[|v|l|o'|l|k]|]; try tauto.
  - intros [H|[H1 H2]]; [left; exact H|right]. split; [exact H1|].
    eapply Forall_impl; [|exact H2]. exact Hn.
  - intros [H1 H2]. split; [exact H1|apply Hn; exact H2].
  - intros [H1 H2]. split; [exact H1|apply Hn; exact H2].
Qed.

Lemma shaped_S e fuel : forall o, shaped e fuel o -> shaped e (S fuel) o.
Proof.
  induction fuel as [|f IH]; intros o H; [destruct H|].
  cbn [shaped] in H. change (shaped e (S (S f)) o) with
    (match cdef_lookup (e_classes e) (obj_cls o) with
     | None => False
     | Some c =>
         d_has_defs c = true /\ class_wf e c /\ (d_extra c = false -> obj_extra o = []) /\
         Forall (fun a => wf_avp' a /\ def_for_key (d_defs c) (a_code a) (a_vendor a) = None) (obj_extra o) /\
         forall d, In d (d_defs c) ->
           field_shaped e (shaped e (S f)) d (assoc (f_attr d) (d_init c)) (assoc (f_attr d) (obj_fields o))
     end).
  destruct (cdef_lookup (e_classes e) (obj_cls o)) as [c|]; [|exact H].
  destruct H as (H1 & H2 & H3 & H4 & H5).
  split; [exact H1|]. split; [exact H2|]. split; [exact H3|]. split; [exact H4|].
  intros d Hd. eapply field_shaped_mono; [exact IH|apply H5; exact Hd].
Qed.

Lemma shaped_mono e fuel fuel' o : (fuel <= fuel')%nat -> shaped e fuel o -> shaped e fuel' o.
Proof. intros Hle H. induction Hle; [exact H|apply shaped_S; assumption]. Qed.

(* ====================================================================== *)
(* 6. round trip                                                           *)
(* ====================================================================== *)
Lemma wf_avp_of e d a : avp_for e d a ->
  0 <= f_code d < 4294967296 -> 0 <= f_vendor d < 4294967296 ->
  wf_bytes (a_payload a) -> 12 + blen (a_payload a) < 16777216 -> wf_avp' a.
Proof.
  intros (H1 & H2 & H3 & _ & _ & H6) Hc Hv Hp Hl. unfold wf_avp', avp_length. rewrite H1, H2.
  split; [exact Hc|]. split; [exact H6|]. split; [exact Hv|]. split; [exact H3|]. split; [exact Hp|].
  destruct (f_vendor d =? 0); lia.
Qed.

(* o' differs from o at most in attribute n *)
Definition others_same (n : string) (o o' : obj) : Prop :=
  obj_cls o' = obj_cls o /\ obj_extra o' = obj_extra o /\
  forall m, m <> n -> assoc m (obj_fields o') = assoc m (obj_fields o).

Lemma others_same_refl n o : others_same n o o.
Proof. repeat split. Qed.

Lemma others_same_trans n o1 o2 o3 : others_same n o1 o2 -> others_same n o2 o3 -> others_same n o1 o3.
Proof.
  intros (A1 & A2 & A3) (B1 & B2 & B3). split; [congruence|]. split; [congruence|].
  intros m Hm. rewrite (B3 m Hm). apply A3. exact Hm.
Qed.

Lemma set_field_same o n v : assoc n (obj_fields (set_field o n v)) = Some v.
Proof. destruct o as [cl fs ex]. cbn [set_field obj_fields]. apply assoc_set_same. Qed.

Lemma set_field_others o n v : others_same n o (set_field o n v).
Proof.
  destruct o as [cl fs ex]. unfold others_same. cbn [set_field obj_fields obj_cls obj_extra].
  split; [reflexivity|]. split; [reflexivity|]. intros m Hm. apply assoc_set_other. exact Hm.
Qed.

Section Roundtrip.
  Variable e : env.
  Variable f : nat.
  Variable c : clsdef.
  Hypothesis Ht : e_time e = rfc_time.
  Hypothesis Hwf : class_wf e c.
  (* the statement for nested objects, one level of fuel down *)
  Hypothesis IHf : forall o' sub, shaped e f o' -> gen_obj e o' = Ok sub ->
    Forall wf_avp' sub /\
    exists o'', assign e f (fresh (e_classes e) (obj_cls o')) sub = Ok o'' /\ obj_equiv e f o'' o'.

  Lemma c_keys : key_nodup (List.map dkey (d_defs c)) = true.
  Proof. destruct Hwf as [Hok _]. apply class_ok_inv in Hok as (_ & _ & H). exact H. Qed.

  Lemma c_attrs : str_nodup (List.map f_attr (d_defs c)) = true.
  Proof. destruct Hwf as [Hok _]. apply class_ok_inv in Hok as (_ & H & _). exact H. Qed.

  Lemma c_range d : In d (d_defs c) -> 0 <= f_code d < 4294967296 /\ 0 <= f_vendor d < 4294967296.
  Proof. destruct Hwf as [_ Hr]. rewrite Forall_forall in Hr. apply Hr. Qed.

  Lemma c_def d : In d (d_defs c) -> def_ok (e_rows e) (e_classes e) d = true.
  Proof. destruct Hwf as [Hok _]. apply class_ok_inv in Hok as (H & _ & _). apply H. Qed.

  (* ---- one scalar AVP ---- *)
  Lemma scalar_avp_facts d v a :
    In d (d_defs c) -> f_tclass d = ""%string -> scalar_ok e d v -> new_for e d (Some v) = Ok a ->
    a_code a = f_code d /\ a_vendor a = f_vendor d /\
    dec_val (e_time e) (type_of (dict_of (e_rows e)) a) (a_payload a) = Ok v /\ wf_avp' a.
  Proof.
    intros Hd Htc (r & Hl & Hdom & Hb) Hn.
    destruct (def_ok_inv _ _ d (c_def d Hd)) as (r' & Hl' & Hng & _).
    rewrite Hl in Hl'. injection Hl' as <-.
    apply new_for_inv in Hn as (r'' & Hl'' & Hfor & Hp). rewrite Hl in Hl''. injection Hl'' as <-.
    destruct (val_roundtrip (row_ty r) v (Hng Htc) Hdom) as (p & He & Hdec & Hwp).
    rewrite Ht in Hp. rewrite He in Hp. injection Hp as Hp.
    pose proof Hfor as (H1 & H2 & _).
    split; [exact H1|]. split; [exact H2|].
    assert (Hty : type_of (dict_of (e_rows e)) a = row_ty r).
    { unfold type_of, dict_of. rewrite H1, H2, Hl. reflexivity. }
    split; [rewrite Hty, Ht, <- Hp; exact Hdec|].
    destruct (c_range d Hd) as [Hc Hv].
    apply (wf_avp_of e d a Hfor Hc Hv); rewrite <- Hp; [exact Hwp|].
    apply Hb. rewrite Ht. exact He.
  Qed.

  Lemma step_scalar_list d v a cur l0 :
    In d (d_defs c) -> f_tclass d = ""%string -> scalar_ok e d v -> new_for e d (Some v) = Ok a ->
    assoc (f_attr d) (obj_fields cur) = Some (AVals l0) ->
    assign_step e f c cur a = Ok (set_field cur (f_attr d) (AVals (l0 ++ [v])%list)).
  Proof.
    intros Hd Htc Hok Hn Hcur.
    destruct (scalar_avp_facts d v a Hd Htc Hok Hn) as (H1 & H2 & Hdec & _).
    assert (Eb : String.eqb (f_tclass d) "" = true) by (rewrite Htc; reflexivity).
    unfold assign_step. rewrite H1, H2, (def_for_key_in _ d c_keys Hd). cbv beta iota zeta.
    rewrite Eb, Hdec, Hcur. reflexivity.
  Qed.

  Lemma step_scalar_single d v a cur :
    In d (d_defs c) -> f_tclass d = ""%string -> scalar_ok e d v -> new_for e d (Some v) = Ok a ->
    is_list (assoc (f_attr d) (obj_fields cur)) = false ->
    assign_step e f c cur a = Ok (set_field cur (f_attr d) (AVal v)).
  Proof.
    intros Hd Htc Hok Hn Hcur.
    destruct (scalar_avp_facts d v a Hd Htc Hok Hn) as (H1 & H2 & Hdec & _).
    assert (Eb : String.eqb (f_tclass d) "" = true) by (rewrite Htc; reflexivity).
    unfold assign_step. rewrite H1, H2, (def_for_key_in _ d c_keys Hd). cbv beta iota zeta.
    rewrite Eb, Hdec.
    destruct (assoc (f_attr d) (obj_fields cur)) as [[| | | | |]|]; cbn [is_list] in Hcur;
      try discriminate; reflexivity.
  Qed.

  (* ---- one grouped AVP ---- *)
  Lemma group_avp_facts d o' a :
    In d (d_defs c) -> f_tclass d <> ""%string -> nested_ok e (shaped e f) d o' ->
    grouped_item e d o' = Ok a ->
    a_code a = f_code d /\ a_vendor a = f_vendor d /\
    type_of (dict_of (e_rows e)) a = TGrouped /\ wf_avp' a /\
    exists sub o'', group_kids (a_payload a) = Ok sub /\
      assign e f (fresh (e_classes e) (f_tclass d)) sub = Ok o'' /\ obj_equiv e f o'' o'.
  Proof.
    intros Hd Htc (Hcls & Hsh & Hb) Hg.
    unfold grouped_item in Hg. apply bind_ok in Hg as (sub & Hsub & Hg).
    destruct (String.eqb (f_tclass d) ""); [discriminate|].
    destruct (IHf o' sub Hsh Hsub) as (Hwsub & o'' & Has & Heq).
    apply grouped_for_inv in Hg as (r & a0 & p & Hl & Hty & Ha0 & Hp & ->).
    apply new_for_inv in Ha0 as (r' & _ & Hfor & _).
    pose proof (avp_for_set_payload e d a0 p Hfor) as Hfor'.
    pose proof Hfor' as (H1 & H2 & _).
    split; [exact H1|]. split; [exact H2|].
    split. { unfold type_of, dict_of. rewrite H1, H2, Hl, Hty. reflexivity. }
    destruct (c_range d Hd) as [Hc Hv].
    split.
    { apply (wf_avp_of e d _ Hfor' Hc Hv); cbn [set_payload a_payload].
      - eapply enc_avps_wf_bytes; eassumption.
      - eapply Hb; eassumption. }
    exists sub, o''. cbn [set_payload a_payload].
    split; [apply group_kids_enc; assumption|]. split; [rewrite <- Hcls; exact Has|exact Heq].
  Qed.

  Lemma step_group_list d o' a cur l0 :
    In d (d_defs c) -> f_tclass d <> ""%string -> nested_ok e (shaped e f) d o' ->
    grouped_item e d o' = Ok a ->
    assoc (f_attr d) (obj_fields cur) = Some (AObjs l0) ->
    wf_avp' a /\ exists o'', assign_step e f c cur a = Ok (set_field cur (f_attr d) (AObjs (l0 ++ [o''])%list)) /\
                             obj_equiv e f o'' o'.
  Proof.
    intros Hd Htc Hok Hg Hcur.
    destruct (group_avp_facts d o' a Hd Htc Hok Hg) as (H1 & H2 & Hty & Hwa & sub & o'' & Hk & Has & Heq).
    split; [exact Hwa|]. exists o''. split; [|exact Heq].
    assert (Eb : String.eqb (f_tclass d) "" = false) by (apply String.eqb_neq; exact Htc).
    unfold assign_step. rewrite H1, H2, (def_for_key_in _ d c_keys Hd). cbv beta iota zeta.
    rewrite Eb, Hty, Hk. cbn [bind]. rewrite Has. cbn [bind]. rewrite Hcur. reflexivity.
  Qed.

  Lemma step_group_single d o' a cur :
    In d (d_defs c) -> f_tclass d <> ""%string -> nested_ok e (shaped e f) d o' ->
    grouped_item e d o' = Ok a ->
    is_list (assoc (f_attr d) (obj_fields cur)) = false ->
    wf_avp' a /\ exists o'', assign_step e f c cur a = Ok (set_field cur (f_attr d) (AObj o'')) /\
                             obj_equiv e f o'' o'.
  Proof.
    intros Hd Htc Hok Hg Hcur.
    destruct (group_avp_facts d o' a Hd Htc Hok Hg) as (H1 & H2 & Hty & Hwa & sub & o'' & Hk & Has & Heq).
    split; [exact Hwa|]. exists o''. split; [|exact Heq].
    assert (Eb : String.eqb (f_tclass d) "" = false) by (apply String.eqb_neq; exact Htc).
    unfold assign_step. rewrite H1, H2, (def_for_key_in _ d c_keys Hd). cbv beta iota zeta.
    rewrite Eb, Hty, Hk. cbn [bind]. rewrite Has. cbn [bind].
    destruct (assoc (f_attr d) (obj_fields cur)) as [[| | | | |]|]; cbn [is_list] in Hcur;
      try discriminate; reflexivity.
  Qed.

  (* ---- list attributes: the append loops ---- *)
  Lemma scalar_loop d : In d (d_defs c) -> f_tclass d = ""%string -> forall vs cur l0 here,
    Forall (scalar_ok e d) vs -> map_result (fun v => new_for e d (Some v)) vs = Ok here ->
    assoc (f_attr d) (obj_fields cur) = Some (AVals l0) ->
    Forall wf_avp' here /\
    exists cur', assign_go e f c cur here = Ok cur' /\ others_same (f_attr d) cur cur' /\
                 assoc (f_attr d) (obj_fields cur') = Some (AVals (l0 ++ vs)%list).
  Proof.
    intros Hd Htc. induction vs as [|v vs IH]; intros cur l0 here Hok Hm Hcur; cbn [map_result] in Hm.
    - injection Hm as <-. split; [constructor|]. exists cur. cbn [assign_go].
      split; [reflexivity|]. split; [apply others_same_refl|]. rewrite app_nil_r. exact Hcur.
    - apply bind_ok in Hm as (a & Ha & Hm). apply bind_ok in Hm as (rest & Hrest & Hm). injection Hm as <-.
      inversion Hok as [|? ? Hv Hvs]; subst.
      pose proof (step_scalar_list d v a cur l0 Hd Htc Hv Ha Hcur) as Hstep.
      destruct (scalar_avp_facts d v a Hd Htc Hv Ha) as (_ & _ & _ & Hwa).
      destruct (IH (set_field cur (f_attr d) (AVals (l0 ++ [v])%list)) (l0 ++ [v])%list rest Hvs Hrest
                   (set_field_same _ _ _)) as (Hwr & cur' & Hgo & Hsame & Hval).
      split; [constructor; assumption|]. exists cur'. cbn [assign_go]. rewrite Hstep. cbn [bind].
      split; [exact Hgo|]. split.
      + eapply others_same_trans; [apply set_field_others|exact Hsame].
      + rewrite Hval, <- app_assoc. reflexivity.
  Qed.

  Lemma group_loop d : In d (d_defs c) -> f_tclass d <> ""%string -> forall os cur l0 here,
    Forall (nested_ok e (shaped e f) d) os -> map_result (grouped_item e d) os = Ok here ->
    assoc (f_attr d) (obj_fields cur) = Some (AObjs l0) ->
    Forall wf_avp' here /\
    exists cur' os'', assign_go e f c cur here = Ok cur' /\ others_same (f_attr d) cur cur' /\
                      assoc (f_attr d) (obj_fields cur') = Some (AObjs (l0 ++ os'')%list) /\
                      Forall2 (obj_equiv e f) os'' os.
  Proof.
    intros Hd Htc. induction os as [|o' os IH]; intros cur l0 here Hok Hm Hcur; cbn [map_result] in Hm.
    - injection Hm as <-. split; [constructor|]. exists cur, []. cbn [assign_go].
      split; [reflexivity|]. split; [apply others_same_refl|]. rewrite app_nil_r. split; [exact Hcur|constructor].
    - apply bind_ok in Hm as (a & Ha & Hm). apply bind_ok in Hm as (rest & Hrest & Hm). injection Hm as <-.
      inversion Hok as [|? ? Hv Hvs]; subst.
      destruct (step_group_list d o' a cur l0 Hd Htc Hv Ha Hcur) as (Hwa & o'' & Hstep & Heq).
      destruct (IH (set_field cur (f_attr d) (AObjs (l0 ++ [o''])%list)) (l0 ++ [o''])%list rest Hvs Hrest
                   (set_field_same _ _ _)) as (Hwr & cur' & os'' & Hgo & Hsame & Hval & Hall).
      split; [constructor; assumption|]. exists cur', (o'' :: os''). cbn [assign_go]. rewrite Hstep. cbn [bind].
      split; [exact Hgo|]. split; [eapply others_same_trans; [apply set_field_others|exact Hsame]|].
      split; [rewrite Hval, <- app_assoc; reflexivity|constructor; assumption].
  Qed.

  (* ---- one definition ---- *)
  Lemma single_scalar_rt d v cur here :
    In d (d_defs c) -> f_tclass d = ""%string -> scalar_ok e d v ->
    field_avps e d (Some (AVal v)) = Ok here ->
    is_list (assoc (f_attr d) (obj_fields cur)) = false ->
    Forall wf_avp' here /\
    exists cur', assign_go e f c cur here = Ok cur' /\ others_same (f_attr d) cur cur' /\
      aval_equiv (obj_equiv e f) d (assoc (f_attr d) (obj_fields cur')) (Some (AVal v)).
  Proof.
    intros Hd Htc Hv Hgen Hcur. cbn [field_avps] in Hgen.
    assert (Eb : String.eqb (f_tclass d) "" = true) by (rewrite Htc; reflexivity). rewrite Eb in Hgen.
    apply bind_ok in Hgen as (a & Ha & Hgen). injection Hgen as <-.
    destruct (scalar_avp_facts d v a Hd Htc Hv Ha) as (_ & _ & _ & Hwa).
    split; [constructor; [exact Hwa|constructor]|].
    exists (set_field cur (f_attr d) (AVal v)). cbn [assign_go].
    rewrite (step_scalar_single d v a cur Hd Htc Hv Ha Hcur). cbn [bind].
    split; [reflexivity|]. split; [apply set_field_others|].
    rewrite set_field_same. reflexivity.
  Qed.

  Lemma single_group_rt d o' cur here :
    In d (d_defs c) -> f_tclass d <> ""%string -> nested_ok e (shaped e f) d o' ->
    field_avps e d (Some (AObj o')) = Ok here ->
    is_list (assoc (f_attr d) (obj_fields cur)) = false ->
    Forall wf_avp' here /\
    exists cur', assign_go e f c cur here = Ok cur' /\ others_same (f_attr d) cur cur' /\
      aval_equiv (obj_equiv e f) d (assoc (f_attr d) (obj_fields cur')) (Some (AObj o')).
  Proof.
    intros Hd Htc Hv Hgen Hcur. cbn [field_avps] in Hgen.
    apply bind_ok in Hgen as (a & Ha & Hgen). injection Hgen as <-.
    destruct (step_group_single d o' a cur Hd Htc Hv Ha Hcur) as (Hwa & o'' & Hstep & Heq).
    split; [constructor; [exact Hwa|constructor]|].
    exists (set_field cur (f_attr d) (AObj o'')). cbn [assign_go]. rewrite Hstep. cbn [bind].
    split; [reflexivity|]. split; [apply set_field_others|].
    rewrite set_field_same. cbn [aval_equiv]. exists o'. split; [reflexivity|exact Heq].
  Qed.

  Lemma field_roundtrip d av cur here :
    In d (d_defs c) ->
    field_shaped e (shaped e f) d (assoc (f_attr d) (d_init c)) av ->
    field_avps e d av = Ok here ->
    assoc (f_attr d) (obj_fields cur) = fresh_val c d ->
    Forall wf_avp' here /\
    exists cur', assign_go e f c cur here = Ok cur' /\ others_same (f_attr d) cur cur' /\
      aval_equiv (obj_equiv e f) d (assoc (f_attr d) (obj_fields cur')) av.
  Proof.
    intros Hd Hsh Hgen Hcur. unfold fresh_val in Hcur.
    destruct (assoc (f_attr d) (d_init c)) as [[|z|]|] eqn:Ei; cbn [field_shaped] in Hsh.
    - (* preset to a list *)
      cbn [init_aval] in Hcur.
      destruct av as [[|v|vs|o'|os|k]|]; try contradiction.
      + destruct Hsh as [Htc Hvs].
        assert (Eb : String.eqb (f_tclass d) "" = true) by (rewrite Htc; reflexivity).
        rewrite Eb in Hcur. cbn [field_avps] in Hgen. rewrite Eb in Hgen.
        destruct (scalar_loop d Hd Htc vs cur [] here Hvs Hgen Hcur) as (Hw & cur' & Hgo & Hsame & Hval).
        split; [exact Hw|]. exists cur'. split; [exact Hgo|]. split; [exact Hsame|].
        rewrite Hval. cbn [List.app aval_equiv]. left. reflexivity.
      + destruct Hsh as [[Htc ->]|[Htc Hos]].
        * assert (Eb : String.eqb (f_tclass d) "" = true) by (rewrite Htc; reflexivity).
          rewrite Eb in Hcur. cbn [field_avps map_result] in Hgen. injection Hgen as <-.
          split; [constructor|]. exists cur. cbn [assign_go].
          split; [reflexivity|]. split; [apply others_same_refl|].
          rewrite Hcur. cbn [aval_equiv]. right. repeat split. exact Htc.
        * assert (Eb : String.eqb (f_tclass d) "" = false) by (apply String.eqb_neq; exact Htc).
          rewrite Eb in Hcur. cbn [field_avps] in Hgen.
          destruct (group_loop d Hd Htc os cur [] here Hos Hgen Hcur)
            as (Hw & cur' & os'' & Hgo & Hsame & Hval & Hall).
          split; [exact Hw|]. exists cur'. split; [exact Hgo|]. split; [exact Hsame|].
          rewrite Hval. cbn [List.app aval_equiv]. left. exists os. split; [reflexivity|exact Hall].
    - (* preset to an integer *)
      cbn [init_aval] in Hcur.
      assert (Hnl : is_list (assoc (f_attr d) (obj_fields cur)) = false) by (rewrite Hcur; reflexivity).
      destruct av as [[|v|vs|o'|os|k]|]; try contradiction; try discriminate.
      + destruct Hsh as [Htc Hv]. apply single_scalar_rt; assumption.
      + destruct Hsh as [Htc Hv]. apply single_group_rt; assumption.
    - contradiction.
    - (* not preset *)
      assert (Hnl : is_list (assoc (f_attr d) (obj_fields cur)) = false) by (rewrite Hcur; reflexivity).
      destruct av as [[|v|vs|o'|os|k]|]; try contradiction.
      + cbn [field_avps] in Hgen. injection Hgen as <-. split; [constructor|]. exists cur. cbn [assign_go].
        split; [reflexivity|]. split; [apply others_same_refl|]. rewrite Hcur. reflexivity.
      + destruct Hsh as [Htc Hv]. apply single_scalar_rt; assumption.
      + destruct Hsh as [Htc Hv]. apply single_group_rt; assumption.
      + cbn [field_avps] in Hgen. injection Hgen as <-. split; [constructor|]. exists cur. cbn [assign_go].
        split; [reflexivity|]. split; [apply others_same_refl|]. rewrite Hcur. reflexivity.
  Qed.
End Roundtrip.

Section Roundtrip2.
  Variable e : env.
  Variable f : nat.
  Variable c : clsdef.
  Hypothesis Ht : e_time e = rfc_time.
  Hypothesis Hwf : class_wf e c.
  Hypothesis IHf : forall o' sub, shaped e f o' -> gen_obj e o' = Ok sub ->
    Forall wf_avp' sub /\
    exists o'', assign e f (fresh (e_classes e) (obj_cls o')) sub = Ok o'' /\ obj_equiv e f o'' o'.

  (* ---- all definitions, in order ---- *)
  Lemma defs_roundtrip fields : 
    (forall d, In d (d_defs c) ->
       field_shaped e (shaped e f) d (assoc (f_attr d) (d_init c)) (assoc (f_attr d) fields)) ->
    forall ds cur ordered,
    (forall d, In d ds -> In d (d_defs c)) ->
    str_nodup (List.map f_attr ds) = true ->
    gen_defs e fields ds = Ok ordered ->
    (forall d, In d ds -> assoc (f_attr d) (obj_fields cur) = fresh_val c d) ->
    Forall wf_avp' ordered /\
    exists cur', assign_go e f c cur ordered = Ok cur' /\
      obj_cls cur' = obj_cls cur /\ obj_extra cur' = obj_extra cur /\
      (forall m, (forall d, In d ds -> f_attr d <> m) -> assoc m (obj_fields cur') = assoc m (obj_fields cur)) /\
      (forall d, In d ds ->
         aval_equiv (obj_equiv e f) d (assoc (f_attr d) (obj_fields cur')) (assoc (f_attr d) fields)).
  Proof.
    intros Hsh. induction ds as [|d r IH]; intros cur ordered Hincl Hnd Hgen Hfresh; cbn [gen_defs] in Hgen.
    - injection Hgen as <-. split; [constructor|]. exists cur. cbn [assign_go].
      split; [reflexivity|]. split; [reflexivity|]. split; [reflexivity|]. split; [reflexivity|].
      intros d [].
    - apply bind_ok in Hgen as (here & Hh & Hgen). apply bind_ok in Hgen as (more & Hm & Hgen).
      injection Hgen as <-.
      cbn [List.map] in Hnd. apply str_nodup_cons in Hnd as [Hnotin Hnd].
      assert (Hd : In d (d_defs c)) by (apply Hincl; left; reflexivity).
      destruct (field_roundtrip e f c Ht Hwf IHf d _ cur here Hd (Hsh d Hd) Hh (Hfresh d (or_introl eq_refl)))
        as (Hwh & cur1 & Hgo1 & (Hc1 & Hx1 & Ho1) & Heq1).
      assert (Hne : forall d', In d' r -> f_attr d' <> f_attr d).
      { intros d' Hd' He. apply Hnotin. rewrite <- He. apply in_map. exact Hd'. }
      destruct (IH cur1 more (fun d' Hd' => Hincl d' (or_intror Hd')) Hnd Hm) as (Hwm & cur2 & Hgo2 & Hc2 & Hx2 & Ho2 & Heq2).
      { intros d' Hd'. rewrite (Ho1 _ (Hne d' Hd')). apply Hfresh. right. exact Hd'. }
      split; [apply Forall_app; split; assumption|].
      exists cur2. rewrite assign_go_app, Hgo1. cbn [bind].
      split; [exact Hgo2|]. split; [congruence|]. split; [congruence|]. split.
      + intros m Hm'. rewrite Ho2 by (intros d' Hd'; apply Hm'; right; exact Hd').
        apply Ho1. intros He. apply (Hm' d (or_introl eq_refl)). symmetry. exact He.
      + intros d' [<-|Hd'].
        * rewrite Ho2 by exact Hne. exact Heq1.
        * apply Heq2. exact Hd'.
  Qed.

  (* ---- the extras ---- *)
  Lemma extras_roundtrip ex : forall cur,
    Forall (fun a => wf_avp' a /\ def_for_key (d_defs c) (a_code a) (a_vendor a) = None) ex ->
    assign_go e f c cur ex =
    Ok (if d_extra c then Obj (obj_cls cur) (obj_fields cur) (obj_extra cur ++ ex)%list else cur).
  Proof.
    induction ex as [|a r IH]; intros cur Hex.
    - cbn [assign_go]. rewrite app_nil_r. destruct cur; destruct (d_extra c); reflexivity.
    - inversion Hex as [|? ? [_ Hk] Hr]; subst. cbn [assign_go]. unfold assign_step at 1. rewrite Hk. cbn [bind].
      rewrite (IH _ Hr). destruct (d_extra c); [|reflexivity].
      destruct cur as [cl fs x]. cbn [add_extra obj_cls obj_fields obj_extra]. rewrite <- app_assoc. reflexivity.
  Qed.
End Roundtrip2.

(* the statement proved by induction on the fuel: what gen_obj produced is encodable, and assigning it
   to a fresh instance WITH THE SAME FUEL gives an equivalent object *)
Lemma roundtrip_fuel e : e_time e = rfc_time -> forall fuel o l,
  shaped e fuel o -> gen_obj e o = Ok l ->
  Forall wf_avp' l /\
  exists o', assign e fuel (fresh (e_classes e) (obj_cls o)) l = Ok o' /\ obj_equiv e fuel o' o.
Proof.
  intros Ht. induction fuel as [|f IHf]; intros o l Hsh Hgen; [destruct Hsh|].
  destruct o as [cls fields extra]. cbn [shaped obj_cls obj_extra obj_fields] in Hsh.
  destruct (cdef_lookup (e_classes e) cls) as [c|] eqn:Hc; [|destruct Hsh].
  destruct Hsh as (Hdefs & Hwf & Hnoex & Hex & Hfields).
  rewrite (gen_obj_unfold e cls fields extra c Hc Hdefs) in Hgen.
  apply bind_ok in Hgen as (ordered & Hord & Hgen). injection Hgen as <-.
  assert (Hl : (if has_extras c then (ordered ++ extra)%list else ordered) = (ordered ++ extra)%list).
  { unfold has_extras. destruct (d_is_msg c); [reflexivity|]. destruct (d_extra c); [reflexivity|].
    rewrite (Hnoex eq_refl). rewrite app_nil_r. reflexivity. }
  rewrite Hl. clear Hl.
  pose proof Hwf as [Hok _]. apply class_ok_inv in Hok as (_ & Hattrs & _).
  destruct (defs_roundtrip e f c Ht Hwf IHf fields Hfields (d_defs c) (fresh (e_classes e) cls) ordered
              (fun d Hd => Hd) Hattrs Hord) as (Hwo & cur' & Hgo & Hcls & Hx & _ & Heq).
  { intros d Hd. apply (fresh_assoc_def _ _ c d Hc Hattrs Hd). }
  split.
  { apply Forall_app. split; [exact Hwo|]. eapply Forall_impl; [|exact Hex]. cbv beta. tauto. }
  cbn [obj_cls]. rewrite assign_S, fresh_cls, Hc, Hdefs. cbn [negb].
  rewrite assign_go_app, Hgo. cbn [bind]. rewrite (extras_roundtrip e f c extra cur' Hex).
  rewrite fresh_cls in Hcls. rewrite fresh_extra in Hx.
  eexists. split; [reflexivity|].
  cbn [obj_equiv]. destruct (d_extra c) eqn:Ex.
  - cbn [obj_cls obj_extra obj_fields]. rewrite Hcls, Hx, Hc. cbn [List.app].
    split; [reflexivity|]. split; [reflexivity|]. exact Heq.
  - cbn [obj_cls obj_extra obj_fields]. rewrite Hcls, Hx, Hc, (Hnoex eq_refl).
    split; [reflexivity|]. split; [reflexivity|]. exact Heq.
Qed.

(* (3)  DEVIATIONS from the requested statement, all strengthening it:
   - no `tables_ok e` hypothesis: `shaped` itself carries class_wf (class_ok + 32-bit codes) for the
     class of the object and of every nested object, i.e. exactly for the classes involved.  (The
     generated tables do NOT satisfy class_ok for every class -- Link/LinkDefs.defs_tables_wf_refuted --
     so a global hypothesis would make the theorem vacuous on them.)
   - instead of "exists fuel'": EVERY fuel' >= fuel works, and the equivalence holds at fuel'.
   - `shaped` does not ask that field names be declared or distinct: gen_obj, assign and obj_equiv
     only ever read fields through `assoc` on declared attributes (first binding wins). *)
Theorem C03_roundtrip : forall e fuel o l, e_time e = rfc_time ->
  shaped e fuel o -> gen_obj e o = Ok l ->
  forall fuel', (fuel <= fuel')%nat ->
  exists o', assign e fuel' (fresh (e_classes e) (obj_cls o)) l = Ok o' /\ obj_equiv e fuel' o' o.
Proof.
  intros e fuel o l Ht Hsh Hgen fuel' Hle.
  apply (roundtrip_fuel e Ht fuel' o l (shaped_mono e fuel fuel' o Hle Hsh) Hgen).
Qed.

(* what gen_obj produces for a shaped object can be put on the wire *)
Theorem C03_gen_encodable : forall e fuel o l, e_time e = rfc_time ->
  shaped e fuel o -> gen_obj e o = Ok l -> Forall wf_avp' l /\ exists bs, enc_avps l = Ok bs.
Proof.
  intros e fuel o l Ht Hsh Hgen. destruct (roundtrip_fuel e Ht fuel o l Hsh Hgen) as [Hw _].
  split; [exact Hw|apply enc_avps_ok; exact Hw].
Qed.

(* ---- gen_obj respects the equivalence ---- *)
Lemma map_result_Forall2 {A B} (g : A -> result B) xs ys :
  Forall2 (fun x y => g x = g y) xs ys -> map_result g xs = map_result g ys.
Proof. intros H. induction H as [|x y xs ys Hxy _ IH]; [reflexivity|]. cbn [map_result]. rewrite Hxy, IH. reflexivity. Qed.

Lemma field_avps_equiv e (oe : obj -> obj -> Prop) d a b :
  (forall x y, oe x y -> gen_obj e x = gen_obj e y) ->
  aval_equiv oe d a b -> field_avps e d a = field_avps e d b.
Proof.
  intros Hoe. unfold aval_equiv.
  assert (Hu : unset b = true -> field_avps e d b = Ok []).
  { destruct b as [[| | | | |]|]; cbn [unset]; intros; try discriminate; reflexivity. }
  destruct a as [[|v|vs|x|xs|k]|].
  - intros H. rewrite (Hu H). reflexivity.
  - intros ->. reflexivity.
  - intros [->|(-> & -> & Htc)]; [reflexivity|]. cbn [field_avps map_result]. rewrite Htc. reflexivity.
  - intros (y & -> & Hxy). cbn [field_avps]. unfold grouped_item. rewrite (Hoe x y Hxy). reflexivity.
  - intros [(ys & -> & Hall)|(-> & -> & Htc)].
    + cbn [field_avps]. apply map_result_Forall2. eapply Forall2_imp; [|exact Hall].
      intros x y Hxy. unfold grouped_item. rewrite (Hoe x y Hxy). reflexivity.
    + cbn [field_avps map_result]. rewrite Htc. reflexivity.
  - intros ->. reflexivity.
  - intros H. rewrite (Hu H). reflexivity.
Qed.

Theorem gen_obj_equiv : forall e fuel a b, obj_equiv e fuel a b -> gen_obj e a = gen_obj e b.
Proof.
  intros e. induction fuel as [|f IH]; intros a b H; [destruct H|].
  destruct a as [c1 f1 x1], b as [c2 f2 x2]. cbn [obj_equiv obj_cls obj_extra obj_fields] in H.
  destruct H as (<- & <- & H). rewrite !gen_obj_unfold_gen.
  destruct (cdef_lookup (e_classes e) c1) as [c|]; [|reflexivity].
  destruct (d_has_defs c); [|reflexivity].
  assert (HE : forall ds, (forall d, In d ds -> In d (d_defs c)) -> gen_defs e f1 ds = gen_defs e f2 ds).
  { induction ds as [|d r IHd]; intros Hincl; [reflexivity|]. cbn [gen_defs].
    rewrite (field_avps_equiv e (obj_equiv e f) d _ _ IH (H d (Hincl d (or_introl eq_refl)))).
    rewrite IHd; [reflexivity|]. intros d' Hd'. apply Hincl. right. exact Hd'. }
  rewrite (HE (d_defs c) (fun d Hd => Hd)). reflexivity.
Qed.

(* (4) encode - decode - encode = encode *)
Theorem C03_ede : forall e fuel o l, e_time e = rfc_time ->
  shaped e fuel o -> gen_obj e o = Ok l ->
  forall fuel', (fuel <= fuel')%nat ->
  exists o', assign e fuel' (fresh (e_classes e) (obj_cls o)) l = Ok o' /\ gen_obj e o' = Ok l.
Proof.
  intros e fuel o l Ht Hsh Hgen fuel' Hle.
  destruct (C03_roundtrip e fuel o l Ht Hsh Hgen fuel' Hle) as (o' & Has & Heq).
  exists o'. split; [exact Has|]. rewrite (gen_obj_equiv e fuel' o' o Heq). exact Hgen.
Qed.

(* (5b) shaped e fuel o bounds the nesting depth of o by fuel; from there on assign never runs
   out of fuel (nor hits the two "outside the model" branches, which also answer OutOfFuel) *)
Theorem C03_assign_total : forall e fuel o l, e_time e = rfc_time ->
  shaped e fuel o -> gen_obj e o = Ok l ->
  forall fuel', (fuel <= fuel')%nat ->
  assign e fuel' (fresh (e_classes e) (obj_cls o)) l <> Err OutOfFuel.
Proof.
  intros e fuel o l Ht Hsh Hgen fuel' Hle.
  destruct (C03_roundtrip e fuel o l Ht Hsh Hgen fuel' Hle) as (o' & Has & _).
  rewrite Has. discriminate.
Qed.

(* ---- gen_obj succeeds on every shaped object ("setting any subset of attributes to valid
   values produces ...") ---- *)
Lemma map_result_total {A B} (g : A -> result B) (P : A -> Prop) l :
  (forall x, P x -> exists y, g x = Ok y) -> Forall P l -> exists ys, map_result g l = Ok ys.
Proof.
  intros Hg H. induction H as [|x r Hx _ [ys IH]]; [exists []; reflexivity|].
  destruct (Hg x Hx) as [y Hy]. exists (y :: ys). cbn [map_result]. rewrite Hy, IH. reflexivity.
Qed.

Lemma new_for_total e d v r :
  lookup (e_rows e) (f_code d) (f_vendor d) = Some r ->
  match v with Some x => exists p, enc_val (e_time e) (row_ty r) x = Ok p | None => True end ->
  exists a, new_for e d v = Ok a.
Proof.
  intros Hl Hv. unfold new_for, avp_new. rewrite Hl. destruct v as [x|].
  - destruct Hv as [p Hp]. rewrite Hp. cbn [bind]. eexists. reflexivity.
  - cbn [bind]. eexists. reflexivity.
Qed.

Section GenTotal.
  Variable e : env.
  Variable f : nat.
  Variable c : clsdef.
  Hypothesis Ht : e_time e = rfc_time.
  Hypothesis Hwf : class_wf e c.
  Hypothesis IHf : forall o', shaped e f o' -> exists sub, gen_obj e o' = Ok sub.

  Lemma scalar_total d v : In d (d_defs c) -> f_tclass d = ""%string -> scalar_ok e d v ->
    exists a, new_for e d (Some v) = Ok a.
  Proof.
    intros Hd Htc (r & Hl & Hdom & _).
    destruct (def_ok_inv _ _ d (c_def e c Hwf d Hd)) as (r' & Hl' & Hng & _).
    rewrite Hl in Hl'. injection Hl' as <-.
    destruct (val_roundtrip (row_ty r) v (Hng Htc) Hdom) as (p & He & _).
    apply (new_for_total e d (Some v) r Hl). exists p. rewrite Ht. exact He.
  Qed.

  Lemma nested_total d o' : In d (d_defs c) -> f_tclass d <> ""%string -> nested_ok e (shaped e f) d o' ->
    exists a, grouped_item e d o' = Ok a.
  Proof.
    intros Hd Htc (_ & Hsh & _).
    destruct (IHf o' Hsh) as [sub Hsub].
    destruct (roundtrip_fuel e Ht f o' sub Hsh Hsub) as [Hw _].
    destruct (enc_avps_ok sub Hw) as [p Hp].
    destruct (def_ok_inv _ _ d (c_def e c Hwf d Hd)) as (r & Hl & _ & Hg).
    destruct (Hg Htc) as [Hty _].
    destruct (new_for_total e d None r Hl I) as [a0 Ha0].
    assert (Eb : String.eqb (f_tclass d) "" = false) by (apply String.eqb_neq; exact Htc).
    unfold grouped_item. rewrite Hsub. cbn [bind]. rewrite Eb.
    unfold grouped_for. rewrite Ha0. cbn [bind]. rewrite Hl, Hty, Hp. eexists. reflexivity.
  Qed.

  Lemma field_avps_total d i av : In d (d_defs c) -> field_shaped e (shaped e f) d i av ->
    exists here, field_avps e d av = Ok here.
  Proof.
    intros Hd Hsh. unfold field_shaped in Hsh.
    assert (Hs : forall v, f_tclass d = ""%string /\ scalar_ok e d v -> exists here, field_avps e d (Some (AVal v)) = Ok here).
    { intros v [Htc Hv]. destruct (scalar_total d v Hd Htc Hv) as [a Ha]. exists [a].
      cbn [field_avps]. rewrite Htc, Ha. reflexivity. }
    assert (Hn : forall o', f_tclass d <> ""%string /\ nested_ok e (shaped e f) d o' -> exists here, field_avps e d (Some (AObj o')) = Ok here).
    { intros o' [Htc Hv]. destruct (nested_total d o' Hd Htc Hv) as [a Ha]. exists [a].
      cbn [field_avps]. rewrite Ha. reflexivity. }
    destruct i as [[|z|]|]; destruct av as [[|v|vs|o'|os|k]|]; try contradiction;
      try (exists []; reflexivity); try (apply Hs; exact Hsh); try (apply Hn; exact Hsh).
    - destruct Hsh as [Htc Hvs]. cbn [field_avps]. rewrite Htc.
      apply (map_result_total _ (scalar_ok e d)); [|exact Hvs]. intros v Hv. apply scalar_total; assumption.
    - destruct Hsh as [[_ ->]|[Htc Hos]]; [exists []; reflexivity|]. cbn [field_avps].
      apply (map_result_total _ (nested_ok e (shaped e f) d)); [|exact Hos]. intros o' Ho'. apply nested_total; assumption.
  Qed.
End GenTotal.

Theorem C03_gen_total : forall e fuel o, e_time e = rfc_time -> shaped e fuel o ->
  exists l, gen_obj e o = Ok l.
Proof.
  intros e fuel o Ht. revert o. induction fuel as [|f IHf]; intros o Hsh; [destruct Hsh|].
  destruct o as [cls fields extra]. cbn [shaped obj_cls obj_extra obj_fields] in Hsh.
  destruct (cdef_lookup (e_classes e) cls) as [c|] eqn:Hc; [|destruct Hsh].
  destruct Hsh as (Hdefs & Hwf & _ & _ & Hfields).
  rewrite (gen_obj_unfold e cls fields extra c Hc Hdefs).
  assert (HE : forall ds, (forall d, In d ds -> In d (d_defs c)) -> exists ordered, gen_defs e fields ds = Ok ordered).
  { induction ds as [|d r IHd]; intros Hincl; [exists []; reflexivity|].
    assert (Hd : In d (d_defs c)) by (apply Hincl; left; reflexivity).
    destruct (field_avps_total e f c Ht Hwf IHf d _ _ Hd (Hfields d Hd)) as [here Hh].
    destruct (IHd (fun d' Hd' => Hincl d' (or_intror Hd'))) as [more Hm].
    exists (here ++ more)%list. cbn [gen_defs]. rewrite Hh, Hm. reflexivity. }
  destruct (HE (d_defs c) (fun d Hd => Hd)) as [ordered Ho]. rewrite Ho. cbn [bind]. eexists. reflexivity.
Qed.

(* ---- the remaining clauses of C03, spelled out ---- *)
(* every declared attribute denotes exactly one dictionary AVP, and no two attributes of a class
   denote the same AVP (nor share a name) *)
Theorem C03_attr_denotes : forall e c d, class_wf e c -> In d (d_defs c) ->
  (exists r, lookup (e_rows e) (f_code d) (f_vendor d) = Some r /\
             row_code r = f_code d /\ row_vendor r = f_vendor d /\
             (row_ty r = TGrouped <-> f_tclass d <> ""%string)) /\
  (forall d', In d' (d_defs c) ->
     f_attr d' = f_attr d \/ (f_code d' = f_code d /\ f_vendor d' = f_vendor d) -> d' = d).
Proof.
  intros e c d [Hok _] Hd. apply class_ok_inv in Hok as (Hdef & Hattrs & Hkeys). split.
  - destruct (def_ok_inv _ _ d (Hdef d Hd)) as (r & Hl & Hs & Hg). exists r. split; [exact Hl|].
    pose proof Hl as Hf. unfold lookup in Hf. apply find_some in Hf as [_ Hf].
    apply andb_true_iff in Hf as [H1 H2]. apply Z.eqb_eq in H1. apply Z.eqb_eq in H2.
    split; [exact H1|]. split; [exact H2|]. split.
    + intros Hty Htc. exact (Hs Htc Hty).
    + intros Htc. apply Hg. exact Htc.
  - intros d' Hd' [Ha|[Hc Hv]].
    + apply (attr_unique (d_defs c) d' d Hattrs Hd' Hd Ha).
    + apply (key_unique (d_defs c) d' d Hkeys Hd' Hd). unfold dkey. congruence.
Qed.

(* "decoding restores every attribute value that was set", read off obj_equiv: a scalar that was
   set comes back as that scalar, a non-empty list as that list, an object as an equivalent object,
   and what was unset stays unset *)
Lemma aval_equiv_inv oe d a b : aval_equiv oe d a b ->
  match b with
  | None | Some ANone => unset a = true
  | Some (AVal v) => a = Some (AVal v)
  | Some (AVals vs) => vs <> [] -> a = Some (AVals vs)
  | Some (AObj x) => exists x', a = Some (AObj x') /\ oe x' x
  | Some (AObjs xs) => xs <> [] -> exists xs', a = Some (AObjs xs') /\ Forall2 oe xs' xs
  | Some (AClass k) => a = Some (AClass k)
  end.
Proof.
  unfold aval_equiv. destruct a as [[|v'|vs'|x'|xs'|k']|].
  - destruct b as [[| | | | |]|]; cbn [unset]; intros H; try discriminate; reflexivity.
  - intros ->. reflexivity.
  - intros [->|(-> & -> & _)]; [intros _; reflexivity|]. intros Hne. exfalso. apply Hne. reflexivity.
  - intros (y & -> & Hxy). exists x'. split; [reflexivity|exact Hxy].
  - intros [(y & -> & Hall)|(-> & -> & _)].
    + intros _. exists xs'. split; [reflexivity|exact Hall].
    + intros Hne. exfalso. apply Hne. reflexivity.
  - intros ->. reflexivity.
  - destruct b as [[| | | | |]|]; cbn [unset]; intros H; try discriminate; reflexivity.
Qed.

Theorem C03_restores : forall e fuel o' o c d, obj_equiv e (S fuel) o' o ->
  cdef_lookup (e_classes e) (obj_cls o) = Some c -> In d (d_defs c) ->
  match assoc (f_attr d) (obj_fields o) with
  | None | Some ANone => unset (assoc (f_attr d) (obj_fields o')) = true
  | Some (AVal v) => assoc (f_attr d) (obj_fields o') = Some (AVal v)
  | Some (AVals vs) => vs <> [] -> assoc (f_attr d) (obj_fields o') = Some (AVals vs)
  | Some (AObj x) => exists x', assoc (f_attr d) (obj_fields o') = Some (AObj x') /\ obj_equiv e fuel x' x
  | Some (AObjs xs) => xs <> [] -> exists xs', assoc (f_attr d) (obj_fields o') = Some (AObjs xs') /\
                                               Forall2 (obj_equiv e fuel) xs' xs
  | Some (AClass k) => assoc (f_attr d) (obj_fields o') = Some (AClass k)
  end.
Proof.
  intros e fuel o' o c d H Hc Hd. cbn [obj_equiv] in H. destruct H as (Hcls & _ & H).
  rewrite Hcls, Hc in H. apply (aval_equiv_inv _ d _ _ (H d Hd)).
Qed.

(* obj_equiv is symmetric (so "equivalent" is meant in both directions) *)
Lemma Forall2_sym {A} (P : A -> A -> Prop) l1 l2 :
  (forall x y, P x y -> P y x) -> Forall2 P l1 l2 -> Forall2 P l2 l1.
Proof. intros H F. induction F; constructor; auto. Qed.

Lemma aval_equiv_sym (oe : obj -> obj -> Prop) d a b :
  (forall x y, oe x y -> oe y x) -> aval_equiv oe d a b -> aval_equiv oe d b a.
Proof.
  intros Hs. unfold aval_equiv. destruct a as [[|v|vs|x|xs|k]|].
  - destruct b as [[| | | | |]|]; cbn [unset]; intros H; try discriminate; reflexivity.
  - intros ->. reflexivity.
  - intros [->|(-> & -> & Htc)]; [left; reflexivity|right; repeat split; exact Htc].
  - intros (y & -> & Hxy). exists x. split; [reflexivity|apply Hs; exact Hxy].
  - intros [(y & -> & Hall)|(-> & -> & Htc)].
    + left. exists xs. split; [reflexivity|apply Forall2_sym; assumption].
    + right. repeat split; exact Htc.
  - intros ->. reflexivity.
  - destruct b as [[| | | | |]|]; cbn [unset]; intros H; try discriminate; reflexivity.
Qed.

Theorem obj_equiv_sym : forall e fuel a b, obj_equiv e fuel a b -> obj_equiv e fuel b a.
Proof.
  intros e. induction fuel as [|f IH]; intros a b H; [destruct H|].
  cbn [obj_equiv] in *. destruct H as (Hc & Hx & H).
  split; [symmetry; exact Hc|]. split; [symmetry; exact Hx|]. rewrite <- Hc.
  destruct (cdef_lookup (e_classes e) (obj_cls a)) as [c|]; [|symmetry; exact H].
  intros d Hd. apply aval_equiv_sym; [exact IH|apply H; exact Hd].
Qed.

(* ====================================================================== *)
(* 7. a concrete instance (the hypotheses are satisfiable)                 *)
(* ====================================================================== *)
Definition ex_rows : list drow :=
  [(1001, 0, TUns32, 2, 0, "Test-Num"%string);
   (1002, 0, TUtf8, 0, 0, "Test-Text"%string);
   (1003, 10415, TGrouped, 2, 0, "Test-Group"%string);
   (1004, 10415, TInt32, 1, 0, "Test-Inner"%string)].

Definition ex_msg : clsdef :=
  {| d_name := "TestMsg"%string; d_is_msg := true; d_has_defs := true; d_extra := true;
     d_defs := [("num"%string, 1001, 0, true, 0, ""%string);
                ("texts"%string, 1002, 0, false, 1, ""%string);
                ("grp"%string, 1003, 10415, false, 0, "TestGroup"%string)];
     d_init := [("texts"%string, InitList)] |}.
Definition ex_grp : clsdef :=
  {| d_name := "TestGroup"%string; d_is_msg := false; d_has_defs := true; d_extra := false;
     d_defs := [("inner"%string, 1004, 10415, true, 0, ""%string)];
     d_init := [] |}.
Definition ex_env : env := {| e_rows := ex_rows; e_time := rfc_time; e_classes := [ex_msg; ex_grp] |}.

Definition ex_extra : avp := {| a_code := 9999; a_flags := 0; a_vendor := 0; a_payload := [1; 2; 3] |}.
Definition ex_inner : obj := Obj "TestGroup" [("inner"%string, AVal (VInt (-5)))] [].
Definition ex_obj : obj :=
  Obj "TestMsg" [("texts"%string, AVals [VText [104; 105]; VText [233]]);
                 ("grp"%string, AObj ex_inner);
                 ("num"%string, AVal (VInt 7))] [ex_extra].

Definition scalar_okb (e : env) (d : defrow) (v : value) : bool :=
  match lookup (e_rows e) (f_code d) (f_vendor d) with
  | Some r => in_domain (row_ty r) v &&
              match enc_val (e_time e) (row_ty r) v with Ok p => 12 + blen p <? 16777216 | Err _ => true end
  | None => false
  end.
Lemma scalar_okb_ok e d v : scalar_okb e d v = true -> scalar_ok e d v.
Proof.
  unfold scalar_okb, scalar_ok. destruct (lookup (e_rows e) (f_code d) (f_vendor d)) as [r|]; [|discriminate].
  intros H. apply andb_true_iff in H as [Hd Hb]. exists r. split; [reflexivity|]. split; [exact Hd|].
  intros p Hp. rewrite Hp in Hb. apply Z.ltb_lt. exact Hb.
Qed.

Lemma ex_msg_wf : class_wf ex_env ex_msg.
Proof. split; [vm_compute; reflexivity|]. cbn [d_defs ex_msg]. repeat constructor; vm_compute; congruence. Qed.
Lemma ex_grp_wf : class_wf ex_env ex_grp.
Proof. split; [vm_compute; reflexivity|]. cbn [d_defs ex_grp]. repeat constructor; vm_compute; congruence. Qed.

Example ex_inner_shaped : shaped ex_env 1 ex_inner.
Proof.
  cbn [shaped]. change (cdef_lookup (e_classes ex_env) (obj_cls ex_inner)) with (Some ex_grp).
  split; [reflexivity|]. split; [exact ex_grp_wf|]. split; [reflexivity|]. split; [constructor|].
  intros d [<-|[]].
  change (field_shaped ex_env (shaped ex_env 0) ("inner"%string, 1004, 10415, true, 0, ""%string) None (Some (AVal (VInt (-5))))).
  cbn [field_shaped]. split; [reflexivity|].
  apply scalar_okb_ok; vm_compute; reflexivity.
Qed.

Example ex_shaped : shaped ex_env 2 ex_obj.
Proof.
  cbn [shaped]. change (cdef_lookup (e_classes ex_env) (obj_cls ex_obj)) with (Some ex_msg).
  split; [reflexivity|]. split; [exact ex_msg_wf|]. split; [discriminate|]. split.
  { constructor; [|constructor]. split; [|vm_compute; reflexivity].
    unfold wf_avp'. vm_compute. repeat split; try congruence. repeat constructor; congruence. }
  intros d [<-|[<-|[<-|[]]]].
  - change (field_shaped ex_env (shaped ex_env 1) ("num"%string, 1001, 0, true, 0, ""%string) None (Some (AVal (VInt 7)))).
    cbn [field_shaped]. split; [reflexivity|]. apply scalar_okb_ok; vm_compute; reflexivity.
  - change (field_shaped ex_env (shaped ex_env 1) ("texts"%string, 1002, 0, false, 1, ""%string) (Some InitList)
              (Some (AVals [VText [104; 105]; VText [233]]))).
    cbn [field_shaped]. split; [reflexivity|].
    repeat constructor; apply scalar_okb_ok; vm_compute; reflexivity.
  - change (field_shaped ex_env (shaped ex_env 1) ("grp"%string, 1003, 10415, false, 0, "TestGroup"%string) None
              (Some (AObj ex_inner))).
    cbn [field_shaped]. split; [discriminate|]. split; [reflexivity|]. split; [exact ex_inner_shaped|].
    intros sub p H1 H2. vm_compute in H1. injection H1 as <-. vm_compute in H2. injection H2 as <-.
    vm_compute. reflexivity.
Qed.

Definition ex_avps : list avp :=
  [{| a_code := 1001; a_flags := 64; a_vendor := 0; a_payload := [0; 0; 0; 7] |};
   {| a_code := 1002; a_flags := 0; a_vendor := 0; a_payload := [104; 105] |};
   {| a_code := 1002; a_flags := 0; a_vendor := 0; a_payload := [195; 169] |};
   {| a_code := 1003; a_flags := 192; a_vendor := 10415;
      a_payload := [0; 0; 3; 236; 128; 0; 0; 16; 0; 0; 40; 175; 255; 255; 255; 251] |};
   ex_extra].

(* definition order (num, texts, grp), not field order; M from the dictionary (1001, 1003) or
   cleared by the definition's override (1002); V with the vendor id; the extra AVP last *)
Example ex_gen : gen_obj ex_env ex_obj = Ok ex_avps.
Proof. vm_compute. reflexivity. Qed.

(* the decoded object: same attributes, in the order they were assigned *)
Example ex_assign :
  assign ex_env 2 (fresh (e_classes ex_env) "TestMsg") ex_avps =
  Ok (Obj "TestMsg" [("texts"%string, AVals [VText [104; 105]; VText [233]]);
                     ("num"%string, AVal (VInt 7));
                     ("grp"%string, AObj ex_inner)] [ex_extra]).
Proof. vm_compute. reflexivity. Qed.

(* one level of fuel less than the nesting depth is not enough *)
Example ex_assign_fuel : assign ex_env 1 (fresh (e_classes ex_env) "TestMsg") ex_avps = Err OutOfFuel.
Proof. vm_compute. reflexivity. Qed.

(* the theorems, instantiated *)
Example ex_roundtrip :
  exists o', assign ex_env 2 (fresh (e_classes ex_env) "TestMsg") ex_avps = Ok o' /\
             obj_equiv ex_env 2 o' ex_obj /\ gen_obj ex_env o' = Ok ex_avps.
Proof.
  destruct (C03_roundtrip ex_env 2 ex_obj ex_avps eq_refl ex_shaped ex_gen 2 (le_n 2)) as (o' & Ha & He).
  exists o'. split; [exact Ha|]. split; [exact He|].
  rewrite (gen_obj_equiv ex_env 2 o' ex_obj He). exact ex_gen.
Qed.

Print Assumptions gen_obj_unfold_gen.
Print Assumptions gen_obj_unfold.
Print Assumptions C03_gen_shape.
Print Assumptions gen_obj_errors.
Print Assumptions shaped_mono.
Print Assumptions C03_roundtrip.
Print Assumptions C03_gen_encodable.
Print Assumptions C03_gen_total.
Print Assumptions gen_obj_equiv.
Print Assumptions C03_ede.
Print Assumptions C03_assign_total.
Print Assumptions C03_attr_denotes.
Print Assumptions C03_restores.
Print Assumptions obj_equiv_sym.
Print Assumptions ex_shaped.
Print Assumptions ex_gen.
Print Assumptions ex_assign.
Print Assumptions ex_roundtrip.
