(* Inductive invariants of the node model (Model/Node.v): properties of every state reachable
   from a well-formed initial state by ANY list of events.

   Method.  Every function of the model is shown to be a finite composition of a dozen ATOMIC
   transitions (`astep`, closure `trans`): one lemma per model function, independent of the
   invariants.  Every invariant is then shown to be preserved by each atomic transition, hence
   by `step`, hence (induction over the event list) by `run`.

   Findings (proved below as Examples by vm_compute): the model REFUTES
     - "p_conn p = Some cid -> connection cid is live"          (C13_peer_conn_live_refuted)
     - "every host filed in n_peer_waiting is the host of a live connection",
       "no connections -> no waiting table"                      (C19_waiting_hosts_refuted)
     - the converse of C13 (known finding)                      (C13_peer_conn_converse_refuted)
   because a CER / CEA is accepted on a connection that is already identified and overwrites
   its host identity.  Those properties are proved for GUARDED histories (`greach`): every
   capabilities-exchange message carries the Origin-Host the connection is already known by. *)
From DV Require Import Prelude.Base Model.Node.
From Coq Require Import String.
From Coq Require Import List Lia Bool Arith.
Import ListNotations.
Open Scope nat_scope.


(* ---------------------------------------------------------------------------------------- *)
(* 0. list helpers                                                                            *)
(* ---------------------------------------------------------------------------------------- *)
Lemma NoDup_map_filter {A B} (f : A -> B) (g : A -> bool) (l : list A) :
  NoDup (List.map f l) -> NoDup (List.map f (List.filter g l)).
Proof.
  induction l as [|a l IH]; cbn [List.map List.filter]; intros H; [constructor|].
  inversion H as [|x xs Hnin Hnd]; subst.
  destruct (g a); cbn [List.map]; auto.
  constructor; auto. intro Hin. apply Hnin.
  apply in_map_iff in Hin. destruct Hin as [y [Hy Hin]]. apply filter_In in Hin.
  apply in_map_iff. exists y. tauto.
Qed.

Lemma NoDup_filter' {A} (g : A -> bool) (l : list A) : NoDup l -> NoDup (List.filter g l).
Proof.
  intros H. rewrite <- (map_id (List.filter g l)). apply NoDup_map_filter. now rewrite map_id.
Qed.

Lemma NoDup_app_fresh {A} (l : list A) (x : A) : NoDup l -> ~ List.In x l -> NoDup (l ++ [x])%list.
Proof.
  intros Hnd Hnin. induction l as [|a l IH]; cbn; [constructor; [tauto|constructor]|].
  inversion Hnd; subst. constructor.
  - rewrite in_app_iff. cbn. intros [H|[H|[]]]; [tauto|]. subst. apply Hnin. now left.
  - apply IH; auto. intro. apply Hnin. now right.
Qed.

Lemma in_remove_nat x y l : List.In x (remove_nat y l) <-> List.In x l /\ x <> y.
Proof.
  unfold remove_nat. rewrite filter_In. split; intros [H1 H2]; split; auto.
  - intro; subst. rewrite Nat.eqb_refl in H2. discriminate.
  - apply negb_true_iff. apply Nat.eqb_neq. auto.
Qed.

(* ---- connections ---- *)
Definition soft (f : conn -> conn) : Prop :=
  forall c, c_id (f c) = c_id c /\ c_recv (f c) = c_recv c /\ c_node_name (f c) = c_node_name c /\ c_host (f c) = c_host c.
Definition keeps_id (f : conn -> conn) : Prop := forall c, c_id (f c) = c_id c.
Lemma soft_keeps f : soft f -> keeps_id f.
Proof. intros H c. apply H. Qed.

Lemma map_id_upd_conn l i f : keeps_id f -> List.map c_id (upd_conn l i f) = List.map c_id l.
Proof.
  intros Hf. induction l as [|c l IH]; cbn; auto.
  destruct (Nat.eqb (c_id c) i); cbn; [now rewrite Hf|now rewrite IH].
Qed.

Lemma in_upd_conn l i f c' :
  List.In c' (upd_conn l i f) -> List.In c' l \/ exists c, List.In c l /\ c' = f c /\ c_id c = i.
Proof.
  induction l as [|c l IH]; cbn; [tauto|].
  destruct (Nat.eqb (c_id c) i) eqn:E; cbn.
  - intros [H|H]; [right; exists c; apply Nat.eqb_eq in E; auto|auto].
  - intros [H|H]; [auto|]. destruct (IH H) as [H1|[c0 [H1 H2]]]; [auto|right; exists c0; tauto].
Qed.

(* the other direction: every old connection has an image *)
Lemma upd_conn_image l i f c :
  List.In c l -> List.In c (upd_conn l i f) \/ (c_id c = i /\ List.In (f c) (upd_conn l i f)).
Proof.
  induction l as [|a l IH]; cbn; [tauto|].
  destruct (Nat.eqb (c_id a) i) eqn:E; cbn.
  - intros [H|H]; [subst; right; apply Nat.eqb_eq in E; auto|auto].
  - intros [H|H]; [auto|]. destruct (IH H) as [H1|[H1 H2]]; auto.
Qed.

Lemma find_conn_some l i c : List.find (fun c => Nat.eqb (c_id c) i) l = Some c -> List.In c l /\ c_id c = i.
Proof. intros H. apply find_some in H. destruct H as [H1 H2]. apply Nat.eqb_eq in H2. auto. Qed.

Lemma get_conn_some n i c : get_conn n i = Some c -> List.In c (n_conns n) /\ c_id c = i.
Proof. apply find_conn_some. Qed.

Lemma get_conn_none n i : get_conn n i = None -> ~ List.In i (List.map c_id (n_conns n)).
Proof.
  unfold get_conn. intros H Hin. apply in_map_iff in Hin. destruct Hin as [c [E Hin]].
  eapply find_none in H; eauto. cbn in H. rewrite E, Nat.eqb_refl in H. discriminate.
Qed.

Lemma find_upd_conn l i f : keeps_id f ->
  List.find (fun c => Nat.eqb (c_id c) i) (upd_conn l i f) = option_map f (List.find (fun c => Nat.eqb (c_id c) i) l).
Proof.
  intros Hf. induction l as [|c l IH]; cbn; auto.
  destruct (Nat.eqb (c_id c) i) eqn:E; cbn; [rewrite Hf, E; auto|rewrite E; auto].
Qed.

Lemma find_upd_conn_other l i j f : keeps_id f -> i <> j ->
  List.find (fun c => Nat.eqb (c_id c) j) (upd_conn l i f) = List.find (fun c => Nat.eqb (c_id c) j) l.
Proof.
  intros Hf Hij. induction l as [|c l IH]; cbn; auto.
  destruct (Nat.eqb (c_id c) i) eqn:E; cbn.
  - rewrite Hf. apply Nat.eqb_eq in E. destruct (Nat.eqb (c_id c) j) eqn:E2; auto.
    apply Nat.eqb_eq in E2. congruence.
  - destruct (Nat.eqb (c_id c) j) eqn:E2; auto.
Qed.

(* with distinct ids, find returns the element itself *)
Lemma find_conn_in l c : NoDup (List.map c_id l) -> List.In c l ->
  List.find (fun x => Nat.eqb (c_id x) (c_id c)) l = Some c.
Proof.
  induction l as [|a l IH]; cbn; [tauto|]. intros Hnd [H|H].
  - subst. now rewrite Nat.eqb_refl.
  - inversion Hnd; subst. destruct (Nat.eqb (c_id a) (c_id c)) eqn:E; [|auto].
    apply Nat.eqb_eq in E. exfalso. apply H2. rewrite E. now apply in_map.
Qed.

(* ---- peers ---- *)
Definition keeps_name (f : peer -> peer) : Prop := forall p, p_name (f p) = p_name p.

Lemma map_name_upd_peer l nm f : keeps_name f -> List.map p_name (upd_peer l nm f) = List.map p_name l.
Proof.
  intros Hf. induction l as [|p l IH]; cbn; auto.
  destruct (String.eqb (p_name p) nm); cbn; [now rewrite Hf|now rewrite IH].
Qed.

Lemma in_upd_peer l nm f p' : NoDup (List.map p_name l) ->
  List.In p' (upd_peer l nm f) ->
  (List.In p' l /\ p_name p' <> nm) \/ (exists p, List.In p l /\ p' = f p /\ p_name p = nm).
Proof.
  induction l as [|p l IH]; cbn; [tauto|]. intros Hnd.
  inversion Hnd as [|x xs Hnin Hnd']; subst.
  destruct (String.eqb (p_name p) nm) eqn:E; cbn.
  - apply String.eqb_eq in E. intros [H|H].
    + right. exists p. auto.
    + left. split; auto. intro D. apply Hnin. rewrite E, <- D. now apply in_map.
  - apply String.eqb_neq in E. intros [H|H]; [subst; left; auto|].
    destruct (IH Hnd' H) as [[H1 H2]|[q [H1 H2]]]; [left; auto|right; exists q; tauto].
Qed.

Lemma upd_peer_image l nm f p : NoDup (List.map p_name l) -> List.In p l ->
  (p_name p <> nm /\ List.In p (upd_peer l nm f)) \/ (p_name p = nm /\ List.In (f p) (upd_peer l nm f)).
Proof.
  induction l as [|a l IH]; cbn; [tauto|]. intros Hnd.
  inversion Hnd as [|x xs Hnin Hnd']; subst.
  destruct (String.eqb (p_name a) nm) eqn:E; cbn.
  - apply String.eqb_eq in E. intros [H|H].
    + subst. right. auto.
    + left. split; auto. intro D. apply Hnin. rewrite E, <- D. now apply in_map.
  - apply String.eqb_neq in E. intros [H|H]; [subst; left; auto|].
    destruct (IH Hnd' H) as [[H1 H2]|[H1 H2]]; auto.
Qed.

Lemma get_peer_some n nm p : get_peer n nm = Some p -> List.In p (n_peers n) /\ p_name p = nm.
Proof. intros H. apply find_some in H. destruct H as [H1 H2]. apply String.eqb_eq in H2. auto. Qed.

Lemma get_peer_in n p : NoDup (List.map p_name (n_peers n)) -> List.In p (n_peers n) ->
  get_peer n (p_name p) = Some p.
Proof.
  unfold get_peer. generalize (n_peers n). intros l. induction l as [|a l IH]; cbn; [tauto|].
  intros Hnd [H|H].
  - subst. now rewrite String.eqb_refl.
  - inversion Hnd; subst. destruct (String.eqb (p_name a) (p_name p)) eqn:E; [|auto].
    apply String.eqb_eq in E. exfalso. apply H2. rewrite E. now apply in_map.
Qed.
