(* RFC 6733 wire format, written from the RFC text, independently of the code.
   4.1  AVP header: code(32) flags(8) length(24) [vendor(32)] data padding
   3    Diameter header: version(8) length(24) flags(8) code(24) app(32) hbh(32) e2e(32)
   4.2/4.3 data formats. *)
From DV Require Import Prelude.Base.

Definition rfc_pad (n : Z) : Z := (- n) mod 4.

Definition rfc_avp (code flags vendor : Z) (data : bytes) : bytes :=
  be_enc 4 code ++ [flags]
  ++ be_enc 3 ((if vendor =? 0 then 8 else 12) + blen data)
  ++ (if vendor =? 0 then [] else be_enc 4 vendor)
  ++ data ++ zeros (rfc_pad (blen data)).

Definition rfc_hdr (version len flags code app hbh e2e : Z) : bytes :=
  [version] ++ be_enc 3 len ++ [flags] ++ be_enc 3 code ++ be_enc 4 app ++ be_enc 4 hbh ++ be_enc 4 e2e.

(* 4.2 basic data formats *)
Definition rfc_int (n : nat) (x : Z) : bytes := be_enc n (x mod 256 ^ Z.of_nat n).   (* two's complement *)
(* 4.3.1 Time: low 32 bits of the NTP seconds (seconds since 1900-01-01 UTC); RFC 5905 era rollover in 2036 *)
Definition rfc_time_data (unix : Z) : bytes := be_enc 4 ((unix + 2208988800) mod 4294967296).
(* 4.3.1 Address: 2-octet address family then the address *)
Definition rfc_addr_data (family : Z) (raw : bytes) : bytes := be_enc 2 family ++ raw.
