"""C17 — node-layer property; see tools/nodecheck.py and tools/nodeoracles.py."""
import nodecheck

PROFILE = dict(outbound=0.0, peers=2)
W = nodecheck.weights(retransmit=9, request=7, app_answer=8, accept=4, cer=9)
N_QUICK, N_THOROUGH, LENGTH = 60, 1500, 22
THEMES = (("retransmit", 700, 0, None, 0), ("retransmit_two_origins", None, 0, None, 0), ("twin_ids", 400, 0, None, 0), ("reused_e2e", None, 0, None, 0))
FILES = ["Props/C17.v"]


class _AnswerRace:
    """`n` requests of ONE origin host were delivered and are answered by `n` application threads at the same time; then the
    peer repeats every one of them with the T flag.  The node model records an answer in one atomic step; this exploration
    runs the real Node._record_answer under every interleaving of its source lines among the answering threads with <= max_pre
    pre-emptions and demands what every sequential order gives (the window is larger than `n`): every repeat is answered
    5012 by the node and none reaches the application again."""
    def __init__(self, n, origin="cli0.example.net"):
        import nodesim as NS
        from vsim import Sim
        self.NS, self.n, self.origin = NS, n, origin
        self.sim = sim = Sim(seed=1, t0=NS.T0)
        sim.script_random([77, 12345])
        self.node = node = sim.node_mod.Node("srv.example.net", "example.net", ip_addresses=["10.0.0.1"], tcp_port=3868)
        self.reqs = []
        self.app = app = sim.app_mod.SimpleThreadingApplication(4, is_auth_application=True,
                                                                request_handler=lambda a, m: self.reqs.append(m))
        peer = node.add_peer("aaa://cli0.example.net", "example.net")
        node.add_application(app, [peer])
        node.start()
        sim.run()
        sim.script_random([1000])
        self.remote = r = sim.connect_in()
        sim.run()
        r.feed(NS.build_message(dict(kind="cer", host="cli0.example.net", hbh=1, e2e=1)))
        sim.run()
        for k in range(n):
            r.feed(NS.build_message(dict(kind="req", hbh=0x1001 + k, e2e=0x2001 + k, host=origin)))
        sim.run()
        r.take_sent()

    def _wire(self):
        buf, out = self.remote.sent, []
        while len(buf) >= 20:       # identifiers, R bit and Result-Code from the wire, not through the library's decoder
            ln = int.from_bytes(buf[1:4], "big")
            if ln < 20 or len(buf) < ln:
                break
            f, rc, i = bytes(buf[:ln]), None, 20
            while i + 8 <= ln:
                code, fl, al = int.from_bytes(f[i:i + 4], "big"), f[i + 4], int.from_bytes(f[i + 5:i + 8], "big")
                if al < 8:
                    break
                if code == 268 and not fl & 0x80 and al == 12:
                    rc = int.from_bytes(f[i + 8:i + 12], "big")
                i += (al + 3) & ~3
            out.append([bool(f[4] & 0x80), int.from_bytes(f[12:16], "big"), int.from_bytes(f[16:20], "big"), rc])
            del buf[:ln]
        return out

    def launch(self, chooser):
        sim, NS = self.sim, self.NS
        self.outcomes = {}
        self.delivered_first = len(self.reqs)
        state = {"prev": None}

        def ch(runnable):
            pick = chooser(list(runnable), state["prev"])
            state["prev"] = pick
            return pick
        sim.line_mode([sim.node_mod.Node._record_answer], ch)
        for t in range(min(self.n, len(self.reqs))):
            def submit(t=t):
                ans = self.app.generate_answer(self.reqs[t], 2001)
                try:
                    self.app.send_answer(ans)
                    self.outcomes[t] = "accepted"
                except Exception as e:   # noqa
                    self.outcomes[t] = type(e).__name__
            sim.spawn(submit, name="S%d" % t)
        sim.run()
        sim.line_mode(None)
        sim.advance(1)
        sim.run()
        self.first = self._wire()
        for k in range(self.n):
            f = bytearray(NS.build_message(dict(kind="req", hbh=0x3001 + k, e2e=0x2001 + k, host=self.origin)))
            f[4] |= 0x10        # the T flag, set on the wire
            self.remote.feed(bytes(f))
        sim.run()
        sim.advance(1)
        sim.run()
        self.second = self._wire()

    def finish(self):
        o = dict(outcomes={str(k): v for k, v in self.outcomes.items()}, delivered_first=self.delivered_first,
                 delivered_again=[m.header.end_to_end_identifier for m in self.reqs[self.delivered_first:]],
                 answers=self.first, repeats_answered=self.second, deaths=list(self.sim.thread_deaths))
        self.sim.shutdown()
        return o


def _judge_answers(n):
    def judge(o):
        ok = (o["delivered_first"] == n and len(o["outcomes"]) == n and all(v == "accepted" for v in o["outcomes"].values())
              and sorted(a[1:] for a in o["answers"] if not a[0]) == [[0x1001 + k, 0x2001 + k, 2001] for k in range(n)]
              and not o["delivered_again"] and not o["deaths"]
              and sorted(a[1:] for a in o["repeats_answered"] if not a[0]) == [[0x3001 + k, 0x2001 + k, 5012] for k in range(n)])
        if ok:
            return None
        return ("duplicate-rejected", o,
                "every T-flagged repeat of an answered request is answered 5012 by the node and not delivered again",
                "answers sent by several application threads at the same time: a T-flagged repeat of a request the node had "
                "answered was delivered to the application again / not answered 5012")
    return judge


def _submitter(name):
    return name.startswith("S")


def concurrent_answers(run):
    import racelib
    total = 0
    near, far = "cli0.example.net", "far.example.net"      # the peer itself / an origin behind it (first answers to a new origin)
    plans = [(2, 2, 1500, near), (3, 2, 2500, near), (4, 1, 1500, near), (2, 2, 1500, far), (3, 2, 2500, far)] if run.tier == "thorough" \
        else [(2, 1, 200, near), (3, 1, 250, near), (2, 2, 450, far), (3, 1, 250, far)]
    for n, pre, cap, origin in plans:
        if run.violations:
            break
        total += racelib.explore(run, lambda: _AnswerRace(n, origin), _judge_answers(n),
                                 "answers to one origin host sent by several threads at the same time", pre, cap,
                                 extra_case={"answers": n, "origin": origin}, only=_submitter)
    run.extra["concurrent_answer_schedules"] = total


def check(run):
    orig_obligations = run.obligations

    def obligations_then_race(files):
        out = orig_obligations(files)
        concurrent_answers(run)
        return out
    run.obligations = obligations_then_race
    return nodecheck.run(run, "C17", FILES, PROFILE, W, N_QUICK, N_THOROUGH, LENGTH, themes=THEMES)


def replay(r):
    c = r.get("case", {})
    if str(c.get("scenario", "")).startswith("answers to one origin host"):
        import racelib
        n, origin = int(c["answers"]), c.get("origin", "cli0.example.net")
        o = racelib.replay_schedule(lambda: _AnswerRace(n, origin), c["schedule"], only=_submitter)
        print("replay:", {k: o[k] for k in ("outcomes", "delivered_again", "repeats_answered", "deaths")})
        return _judge_answers(n)(o) is None
    return nodecheck.replay_generic(r)
