(* C16 — identifiers are unique, also under concurrency.
   Statements only; every proof is one `exact`.  *)
From DV Require Import Prelude.Base Model.Ids Proofs.IdsP Proofs.IdsConc Proofs.IdsFmt.
From Coq Require Import String.

Definition MAX32 : Z := 4294967295.
Definition MAX64 : Z := 18446744073709551615.

(* closed form of k successive draws, for both counter widths *)
Theorem C16_seq_iter : forall mx k s, 1 <= mx -> 1 <= s <= mx ->
  iter k (next 1 mx) s = (s - 1 + Z.of_nat k) mod mx + 1.
Proof. intros mx k s Hmx Hs. exact (seq_iter mx Hmx k s Hs). Qed.

(* k <= MAX successive draws are pairwise distinct (until the space wraps) *)
Theorem C16_distinct_until_wrap : forall mx k s, 1 <= mx -> 1 <= s <= mx -> Z.of_nat k <= mx ->
  NoDup (draws mx k s).
Proof. intros mx k s Hmx Hs Hk. exact (draws_nodup mx Hmx k s Hs Hk). Qed.

Theorem C16_never_zero : forall mx s, 1 <= mx -> 1 <= s <= mx -> 1 <= next 1 mx s <= mx.
Proof. intros mx s Hmx Hs. exact (next_range mx Hmx s Hs). Qed.

Theorem C16_wrap_to_one : forall mx, next 1 mx mx = 1.
Proof. exact next_wraps. Qed.

(* the end-to-end generator starts with the low 12 bits of the start time in
   the high 12 bits, and never at 0 *)
Theorem C16_e2e_init : forall now r, 0 <= now -> 1 <= r <= 1048575 ->
  seq_init MAX32 now r / 1048576 = now mod 4096 /\ 1 <= seq_init MAX32 now r <= MAX32.
Proof. exact seq_init_high12. Qed.

(* identity;start;high32;low32[;optional...] and injective in the counter *)
Theorem C16_session_format : forall ident start s opt,
  session_parts ident start s opt = [ident; hex8 start; hex8 (s / 4294967296); hex8 s] ++ opt.
Proof. exact session_parts_fields. Qed.

Theorem C16_session_injective : forall ident start s1 s2 opt,
  0 <= s1 <= MAX64 -> 0 <= s2 <= MAX64 ->
  session_parts ident start s1 opt = session_parts ident start s2 opt -> s1 = s2.
Proof. intros ident start s1 s2 opt H1 H2. apply session_parts_inj; unfold MAX64 in *; lia. Qed.

(* any number of threads, any number of draws each, any interleaving of the
   line-granular step program: values handed out are pairwise distinct as long
   as fewer than MAX modifications happened *)
Theorem C16_concurrent_unique_seq : forall s0 draws sched, 1 <= s0 <= MAX32 ->
  let m := run locked_next_seq 1 MAX32 (init locked_next_seq s0 draws) sched in
  Z.of_nat (cnt m) < MAX32 -> NoDup (map fst (ret m)).
Proof. intros s0 draws sched Hs. exact (locked_next_seq_unique MAX32 s0 ltac:(unfold MAX32; lia) Hs draws sched). Qed.

Theorem C16_concurrent_nonzero_seq : forall s0 draws sched v k, 1 <= s0 <= MAX32 ->
  In (v, k) (ret (run locked_next_seq 1 MAX32 (init locked_next_seq s0 draws) sched)) -> 1 <= v <= MAX32.
Proof. intros s0 draws sched v k Hs. exact (locked_next_seq_range MAX32 s0 ltac:(unfold MAX32; lia) Hs draws sched v k). Qed.

Theorem C16_concurrent_unique_session : forall s0 draws sched, 1 <= s0 <= MAX64 ->
  let m := run locked_next_id 1 MAX64 (init locked_next_id s0 draws) sched in
  Z.of_nat (cnt m) < MAX64 -> NoDup (map fst (ret m)).
Proof. intros s0 draws sched Hs. exact (locked_next_id_unique MAX64 s0 ltac:(unfold MAX64; lia) Hs draws sched). Qed.

(* non-vacuity: a concrete 2-thread schedule with the wrap in it *)
Example C16_example :
  let m := run locked_next_seq 1 MAX32 (init locked_next_seq (MAX32 - 1) (fun _ => 2%nat))
             [0;0;1;0;0;0;0;0;1;1;1;1;1;1;0;0;0;0;0;0;0;1;1;1;1;1;1;1]%nat in
  map fst (ret m) = [MAX32; 1; 2; 3].
Proof. vm_compute. reflexivity. Qed.

(* the generator as it was before the repair: two threads can obtain the same id *)
Theorem C16_unlocked_refuted : exists sched,
  let m := run unlocked_next_seq 1 MAX32 (init unlocked_next_seq 10 (fun _ => 1%nat)) sched in
  map fst (ret m) = [12; 12].
Proof. exists [0;0;0;1;1;1;1;0]%nat. vm_compute. reflexivity. Qed.

Print Assumptions C16_seq_iter.
Print Assumptions C16_distinct_until_wrap.
Print Assumptions C16_never_zero.
Print Assumptions C16_wrap_to_one.
Print Assumptions C16_e2e_init.
Print Assumptions C16_session_format.
Print Assumptions C16_session_injective.
Print Assumptions C16_concurrent_unique_seq.
Print Assumptions C16_concurrent_nonzero_seq.
Print Assumptions C16_concurrent_unique_session.
Print Assumptions C16_unlocked_refuted.
