"""C18 — node-layer property (shutdown); see tools/nodecheck.py and tools/nodeoracles.py."""
import nodecheck

PROFILE = dict(outbound=0.4)
W = nodecheck.weights(stop=2.5, dpa_for_dpr=8, tick=6, accept=4, cer=8, cea=8, conndone=6, request=3, app_answer=3)
N_QUICK, N_THOROUGH, LENGTH = 60, 1500, 22
THEMES = (("shutdown", None, 0, None, 0), ("shutdown_deep", 0, 0, None, 0))
FILES = ["Props/C18.v"]


def stop_timing(run):
    """Timing inside one stop(): (a) two ready peers whose DPAs arrive in the same instant are both closed at once and
    stop() returns then, long before the wait timeout; (b) a peer that never answers its DPR is closed when the wait
    timeout expires and stop() returns (virtual wall clock and monotonic clock are different clocks, as on a real
    system).  Judged on the implementation."""
    import nodesim as NS
    from vsim import Sim
    for scenario in ("two DPAs in the same instant", "no DPA at all"):
        sim = Sim(seed=1, t0=NS.T0)
        try:
            sim.script_random([77, 12345])
            node = sim.node_mod.Node("srv.example.net", "example.net", ip_addresses=["10.0.0.1"], tcp_port=3868)
            app = sim.app_mod.SimpleThreadingApplication(4, is_auth_application=True, request_handler=lambda a, m: None)
            node.add_application(app, [node.add_peer("aaa://cli%d.example.net" % i, "example.net") for i in range(2)])
            node.start()
            sim.run()
            rem = []
            for i in range(2):
                sim.script_random([1000 + i])
                r = sim.connect_in()
                sim.run()
                r.feed(NS.build_message(dict(kind="cer", host="cli%d.example.net" % i, hbh=1, e2e=1)))
                sim.run()
                r.take_messages()
                rem.append(r)
            t_stop = sim.now
            h = sim.spawn(lambda: node.stop(wait_timeout=12), name="stop")
            sim.run()
            dprs = [[m for m in r.take_messages() if m.header.is_request and m.header.command_code == 282] for r in rem]
            if scenario.startswith("two"):
                for r, d in zip(rem, dprs):
                    if d:
                        r.feed(NS.build_message(dict(kind="dpa", host="x", hbh=d[0].header.hop_by_hop_identifier, e2e=d[0].header.end_to_end_identifier)))
                sim.run()
                sim.advance(2)
                closed_after = [r.closed_by_node for r in rem]
                limit = 11          # stop() still joins its threads (a few seconds), but does not sit out the wait timeout
            else:
                closed_after = None
                limit = 12 + 12     # the wait timeout plus the joins
            returned_at = None
            for _ in range(40):
                if h.done:
                    returned_at = sim.now - t_stop
                    break
                sim.advance(1)
            run.count(1, [("stop-timing", scenario)])
            case = {"scenario": "stop(wait_timeout=12) with two ready peers: " + scenario}
            bad = returned_at is None or returned_at > limit or not all(r.closed_by_node for r in rem) or \
                (closed_after is not None and not all(closed_after)) or any(len(d) != 1 for d in dprs)
            if bad or sim.thread_deaths:
                run.violation("close-after-dpa" if scenario.startswith("two") else "stop-returns", case,
                              {"stop_returned_after_s": returned_at, "closed_2s_after_the_dpas": closed_after,
                               "closed_at_the_end": [r.closed_by_node for r in rem], "dprs_sent": [len(d) for d in dprs]},
                              {"stop_returns_within_s": limit},
                              what="stop(): " + ("a connection whose DPA has arrived is not closed at once" if scenario.startswith("two")
                                                 else "the wait timeout does not end the wait"))
        finally:
            sim.shutdown()


def check(run):
    orig_obligations = run.obligations

    def obligations_then_more(files):
        out = orig_obligations(files)
        stop_timing(run)
        return out
    run.obligations = obligations_then_more
    return nodecheck.run(run, "C18", FILES, PROFILE, W, N_QUICK, N_THOROUGH, LENGTH, themes=THEMES)


replay = nodecheck.replay_generic
