(* Model of diameter.message.packer / avp.Avp / _base.MessageHeader / Message:
   the byte-level codec, mirroring the code branch by branch (quirks included).
   Definitions only; lemmas live in Proofs/. *)
From DV Require Import Prelude.Base.

(* ---- Packer / Unpacker ------------------------------------------------ *)
(* pack_uint: struct.pack('>L', x); struct.error is wrapped in ConversionError *)
Definition pack_uint (x : Z) : result bytes :=
  if (0 <=? x) && (x <? 4294967296) then Ok (be_enc 4 x) else Err ConversionError.

(* pack_fstring(n, s): data = s[:n]; n = ((n+3)//4)*4; data + (n - len(data)) * b'\0' *)
Definition pack_fopaque (n : Z) (s : bytes) : result bytes :=
  if n <? 0 then Err ConversionError
  else let data := btake s n in
       let n' := (n + 3) / 4 * 4 in
       Ok (data ++ zeros (n' - blen data)).

(* the unpacker is modelled by the not-yet-consumed suffix of its buffer *)
Definition unpack_uint (bs : bytes) : result (Z * bytes) :=
  if 4 <=? blen bs then Ok (be_dec (firstn 4 bs), skipn 4 bs) else Err ConversionError.

Definition unpack_fopaque (n : Z) (bs : bytes) : result (bytes * bytes) :=
  if n <? 0 then Err ConversionError
  else let j := (n + 3) / 4 * 4 in
       if blen bs <? j then Err ConversionError
       else Ok (btake bs n, bdrop bs j).

(* ---- AVP --------------------------------------------------------------- *)
Record avp : Type := { a_code : Z; a_flags : Z; a_vendor : Z; a_payload : bytes }.

Definition FLAG_V : Z := 128.
Definition FLAG_M : Z := 64.
Definition FLAG_P : Z := 32.

(* Avp.__init__: flags stored, then the vendor_id setter forces the V bit *)
Definition mk_avp (code vendor : Z) (payload : bytes) (flags : Z) : avp :=
  {| a_code := code;
     a_flags := if vendor =? 0 then Z.land flags (Z.lnot FLAG_V) else Z.lor flags FLAG_V;
     a_vendor := vendor; a_payload := payload |}.

Definition set_flag (flags bit : Z) (v : bool) : Z :=
  if v then Z.lor flags bit else Z.land flags (Z.lnot bit).
Definition set_mandatory (a : avp) (v : bool) : avp :=
  {| a_code := a_code a; a_flags := set_flag (a_flags a) FLAG_M v; a_vendor := a_vendor a; a_payload := a_payload a |}.
Definition set_private (a : avp) (v : bool) : avp :=
  {| a_code := a_code a; a_flags := set_flag (a_flags a) FLAG_P v; a_vendor := a_vendor a; a_payload := a_payload a |}.
Definition set_payload (a : avp) (p : bytes) : avp :=
  {| a_code := a_code a; a_flags := a_flags a; a_vendor := a_vendor a; a_payload := p |}.

(* Avp.length *)
Definition avp_length (a : avp) : Z :=
  (if a_vendor a =? 0 then 8 else 12) + blen (a_payload a).

(* Avp.as_packed *)
Definition enc_avp (a : avp) : result bytes :=
  let! b1 := pack_uint (a_code a) in
  let! b2 := pack_uint (Z.lor (avp_length a) (Z.shiftl (a_flags a) 24)) in
  let! b3 := (if a_vendor a =? 0 then Ok [] else pack_uint (a_vendor a)) in
  let padded := Z.land (blen (a_payload a) + 3) (Z.lnot 3) in
  let! b4 := pack_fopaque padded (a_payload a) in
  Ok (b1 ++ b2 ++ b3 ++ b4).

Fixpoint enc_avps (l : list avp) : result bytes :=
  match l with
  | [] => Ok []
  | a :: r => let! b := enc_avp a in let! br := enc_avps r in Ok (b ++ br)
  end.

(* Avp.from_unpacker (up to the dictionary lookup, which only picks the class) *)
Definition dec_avp (bs : bytes) : result (avp * bytes) :=
  let! (code, r1) := unpack_uint bs in
  let! (fl, r2) := unpack_uint r1 in
  let flags := Z.shiftr fl 24 in
  let len := Z.land fl 16777215 - 8 in
  let! (vl, r3) := (if Z.land flags FLAG_V =? 0 then Ok ((0, len), r2)
                    else let! (v, r) := unpack_uint r2 in Ok ((v, len - 4), r)) in
  let '(vendor, len') := vl in
  let! (payload, r4) := (if 0 <? len' then unpack_fopaque len' r3 else Ok ([], r3)) in
  Ok (mk_avp code vendor payload flags, r4).

(* while not unpacker.is_done(): avps.append(Avp.from_unpacker(unpacker)) *)
Fixpoint dec_avps_fuel (fuel : nat) (bs : bytes) : result (list avp) :=
  match bs with
  | [] => Ok []
  | _ => match fuel with
         | O => Err OutOfFuel
         | S f => let! (a, r) := dec_avp bs in
                  let! l := dec_avps_fuel f r in Ok (a :: l)
         end
  end.
Definition dec_avps (bs : bytes) : result (list avp) := dec_avps_fuel (List.length bs) bs.

(* ---- dictionary types -------------------------------------------------- *)
Inductive ty : Set :=
| TOctet | TUtf8 | TInt32 | TInt64 | TUns32 | TUns64 | TFloat32 | TFloat64
| TTime | TAddress | TGrouped | TUntyped.

Definition ty_eqb (a b : ty) : bool :=
  match a, b with
  | TOctet, TOctet | TUtf8, TUtf8 | TInt32, TInt32 | TInt64, TInt64 | TUns32, TUns32
  | TUns64, TUns64 | TFloat32, TFloat32 | TFloat64, TFloat64 | TTime, TTime
  | TAddress, TAddress | TGrouped, TGrouped | TUntyped, TUntyped => true
  | _, _ => false
  end.

(* the dictionary as the decoder sees it: (code, vendor) -> type; None = no entry *)
Definition dict := Z -> Z -> option ty.
Definition type_of (d : dict) (a : avp) : ty :=
  match d (a_code a) (a_vendor a) with Some t => t | None => TUntyped end.

(* ---- AVP trees (grouped AVPs decoded through the dictionary) ----------- *)
Inductive tree : Type := Node (a : avp) (kids : option (list tree)).
(* kids = None: not a grouped AVP (by the dictionary); Some l: its decoded children *)

Definition node_avp (t : tree) : avp := match t with Node a _ => a end.

(* AvpGrouped.value getter: ConversionError is re-raised as AvpDecodeError *)
Definition group_kids (payload : bytes) : result (list avp) :=
  match dec_avps payload with
  | Ok l => Ok l
  | Err ConversionError => Err AvpDecodeError
  | Err e => Err e
  end.

(* full-depth decode; depth is bounded by fuel (each level strips >= 8 bytes) *)
Fixpoint to_tree (d : dict) (fuel : nat) (a : avp) : result tree :=
  match type_of d a with
  | TGrouped =>
      match fuel with
      | O => Err OutOfFuel
      | S f =>
          let! l := group_kids (a_payload a) in
          let! ks := (fix go (l : list avp) : result (list tree) :=
                        match l with
                        | [] => Ok []
                        | x :: r => let! t := to_tree d f x in let! ts := go r in Ok (t :: ts)
                        end) l in
          Ok (Node a (Some ks))
      end
  | _ => Ok (Node a None)
  end.

(* ---- message header ----------------------------------------------------- *)
Record hdr : Type :=
  { h_version : Z; h_length : Z; h_flags : Z; h_code : Z; h_app : Z; h_hbh : Z; h_e2e : Z }.

Definition HF_R : Z := 128.
Definition HF_P : Z := 64.
Definition HF_E : Z := 32.
Definition HF_T : Z := 16.

(* MessageHeader.as_packed *)
Definition enc_hdr (h : hdr) : result bytes :=
  let! b1 := pack_uint (Z.lor (Z.shiftl (h_version h) 24) (h_length h)) in
  let! b2 := pack_uint (Z.lor (Z.shiftl (h_flags h) 24) (h_code h)) in
  let! b3 := pack_uint (h_app h) in
  let! b4 := pack_uint (h_hbh h) in
  let! b5 := pack_uint (h_e2e h) in
  Ok (b1 ++ b2 ++ b3 ++ b4 ++ b5).

(* MessageHeader.from_bytes *)
Definition dec_hdr (bs : bytes) : result (hdr * bytes) :=
  let! (vl, r1) := unpack_uint bs in
  let! (fc, r2) := unpack_uint r1 in
  let! (app, r3) := unpack_uint r2 in
  let! (hbh, r4) := unpack_uint r3 in
  let! (e2e, r5) := unpack_uint r4 in
  Ok ({| h_version := Z.shiftr vl 24; h_length := Z.land vl 16777215;
         h_flags := Z.shiftr fc 24; h_code := Z.land fc 16777215;
         h_app := app; h_hbh := hbh; h_e2e := e2e |}, r5).

Definition set_length (h : hdr) (n : Z) : hdr :=
  {| h_version := h_version h; h_length := n; h_flags := h_flags h; h_code := h_code h;
     h_app := h_app h; h_hbh := h_hbh h; h_e2e := h_e2e h |}.
Definition set_hflags (h : hdr) (f : Z) : hdr :=
  {| h_version := h_version h; h_length := h_length h; h_flags := f; h_code := h_code h;
     h_app := h_app h; h_hbh := h_hbh h; h_e2e := h_e2e h |}.

(* Message.as_bytes: the length field is recomputed *)
Definition enc_msg (h : hdr) (avps : list avp) : result bytes :=
  let! body := enc_avps avps in
  let! hb := enc_hdr (set_length h (20 + blen body)) in
  Ok (hb ++ body).

(* Message.from_bytes (generic part): header, then AVPs from offset 20 to the
   END OF THE BUFFER -- the length field is not consulted *)
Definition dec_msg (bs : bytes) : result (hdr * list avp) :=
  let! (h, r) := dec_hdr bs in
  let! l := dec_avps r in
  Ok (h, l).

(* ---- find_avps ---------------------------------------------------------- *)
(* _traverse_avp_tree over lazily decoded grouped AVPs.  `isg a` says whether
   the AVP object is an AvpGrouped instance. *)
Fixpoint traverse (d : dict) (fuel : nat) (avps : list avp) (path : list (Z * Z)) : result (list avp) :=
  match path with
  | [] => Ok []          (* find_avps returns [] for an empty path; never recursed into *)
  | (code, vendor) :: rest =>
      match fuel with
      | O => Err OutOfFuel
      | S f =>
          (fix go (l : list avp) : result (list avp) :=
             match l with
             | [] => Ok []
             | a :: r =>
                 let! here :=
                   (if (a_code a =? code) && (a_vendor a =? vendor) then
                      match rest with
                      | [] => Ok [a]
                      | _ => match type_of d a with
                             | TGrouped => let! ks := group_kids (a_payload a) in traverse d f ks rest
                             | _ => Ok [a]
                             end
                      end
                    else Ok []) in
                 let! more := go r in
                 Ok (here ++ more)
             end) avps
      end
  end.
