(* Model of a connection's outbound path (C15): producers queue messages, the writer thread
   (PeerConnection.work_write_queue) encodes them into the write buffer under write_lock, the
   I/O thread (send branch of Node._handle_connections + PeerConnection.remove_out_bytes) hands
   the buffer to the socket and removes what was accepted under the same lock.
   Granularity: FINER than source lines -- a `buf += x` / `buf = buf[n:]` line is split into its
   load and its store, so that the lock is what the proof needs.  The two thread programs are
   regenerated from the source (Gen/GenWrite.v) and tied to the ones below by Link/LinkWrite.v. *)
From DV Require Import Prelude.Base.

Inductive winstr : Set :=
| WGet        (* new_msg = self._write_msg_queue.get(True, 5) *)
| WAcq        (* with self.write_lock: *)
| WLoad       (* self._write_buffer += ...        : load of the buffer *)
| WEnc        (*   ... new_msg.as_bytes()         : may raise -> message discarded *)
| WStore      (*   store of buffer + encoding *)
| WRel        (* leaving the with block *)
| WSignal.    (* self.demand_attention() *)

Inductive iinstr : Set :=
| ISend       (* sent_bytes = wsock.send(conn.write_buffer)  (soft error: skip the rest) *)
| IAcq        (* with conn.write_lock: *)
| ILoad       (* remove_out_bytes: self._write_buffer = self._write_buffer[sent_bytes:]  : load *)
| IStore      (*   store of the shortened buffer *)
| IRel.

Definition winstr_eqb (a b : winstr) : bool :=
  match a, b with
  | WGet, WGet | WAcq, WAcq | WLoad, WLoad | WEnc, WEnc | WStore, WStore | WRel, WRel | WSignal, WSignal => true
  | _, _ => false
  end.
Definition iinstr_eqb (a b : iinstr) : bool :=
  match a, b with
  | ISend, ISend | IAcq, IAcq | ILoad, ILoad | IStore, IStore | IRel, IRel => true
  | _, _ => false
  end.

(* the programs the proofs are about *)
Definition writer_prog : list winstr := [WGet; WAcq; WLoad; WEnc; WStore; WRel; WSignal].
Definition io_prog : list iinstr := [ISend; IAcq; ILoad; IStore; IRel].

Inductive actor : Set := AWriter | AIo.

Section WriteBuf.
Variable M : Type.                       (* messages *)
Variable enc : M -> option bytes.         (* as_bytes(); None = it raises *)

Record wst : Type := {
  w_queue : list M;                       (* _write_msg_queue *)
  w_buf : bytes;                          (* _write_buffer *)
  w_lock : option actor;
  w_wpc : nat; w_cur : option M; w_wtmp : bytes; w_wenc : bytes;
  w_ipc : nat; w_pending : nat; w_itmp : bytes;
  (* ghost *)
  w_sent : bytes;                         (* everything the socket accepted, in order *)
  w_done : list M                         (* messages whose encoding has been stored, in order *)
}.

Definition wst0 : wst :=
  {| w_queue := []; w_buf := []; w_lock := None; w_wpc := 0; w_cur := None; w_wtmp := []; w_wenc := [];
     w_ipc := 0; w_pending := 0; w_itmp := []; w_sent := []; w_done := [] |}.

(* environment / scheduler labels *)
Inductive wlabel : Type :=
| LPut (m : M)                    (* some producer thread: add_out_msg *)
| LWriter                         (* the writer thread executes its next micro-step *)
| LIo (k : nat) (soft : bool).    (* the I/O thread executes its next micro-step; at ISend the socket
                                     accepts min k (length buffer) bytes, or fails softly *)

Definition upd (s : wst) (q : list M) (b : bytes) (l : option actor)
           (wpc : nat) (cur : option M) (wtmp wenc : bytes) (ipc pend : nat) (itmp : bytes)
           (sent : bytes) (dn : list M) : wst :=
  {| w_queue := q; w_buf := b; w_lock := l; w_wpc := wpc; w_cur := cur; w_wtmp := wtmp; w_wenc := wenc;
     w_ipc := ipc; w_pending := pend; w_itmp := itmp; w_sent := sent; w_done := dn |}.

Definition wstep (wp : list winstr) (ip : list iinstr) (s : wst) (l : wlabel) : wst :=
  match l with
  | LPut m => upd s (w_queue s ++ [m]) (w_buf s) (w_lock s) (w_wpc s) (w_cur s) (w_wtmp s) (w_wenc s)
                  (w_ipc s) (w_pending s) (w_itmp s) (w_sent s) (w_done s)
  | LWriter =>
      match nth_error wp (w_wpc s) with
      | None => upd s (w_queue s) (w_buf s) (w_lock s) 0 None [] [] (w_ipc s) (w_pending s) (w_itmp s) (w_sent s) (w_done s)
      | Some WGet =>
          match w_queue s with
          | [] => s                                    (* blocked in get() *)
          | m :: r => upd s r (w_buf s) (w_lock s) (S (w_wpc s)) (Some m) [] [] (w_ipc s) (w_pending s) (w_itmp s) (w_sent s) (w_done s)
          end
      | Some WAcq =>
          match w_lock s with
          | Some _ => s
          | None => upd s (w_queue s) (w_buf s) (Some AWriter) (S (w_wpc s)) (w_cur s) (w_wtmp s) (w_wenc s)
                        (w_ipc s) (w_pending s) (w_itmp s) (w_sent s) (w_done s)
          end
      | Some WLoad => upd s (w_queue s) (w_buf s) (w_lock s) (S (w_wpc s)) (w_cur s) (w_buf s) (w_wenc s)
                          (w_ipc s) (w_pending s) (w_itmp s) (w_sent s) (w_done s)
      | Some WEnc =>
          match w_cur s with
          | Some m =>
              match enc m with
              | Some e => upd s (w_queue s) (w_buf s) (w_lock s) (S (w_wpc s)) (w_cur s) (w_wtmp s) e
                              (w_ipc s) (w_pending s) (w_itmp s) (w_sent s) (w_done s)
              | None =>   (* exception: the with block is left (lock released), the message is discarded *)
                  upd s (w_queue s) (w_buf s) (match w_lock s with Some AWriter => None | x => x end) 0 None [] []
                      (w_ipc s) (w_pending s) (w_itmp s) (w_sent s) (w_done s)
              end
          | None => s
          end
      | Some WStore =>
          upd s (w_queue s) (w_wtmp s ++ w_wenc s) (w_lock s) (S (w_wpc s)) (w_cur s) (w_wtmp s) (w_wenc s)
              (w_ipc s) (w_pending s) (w_itmp s) (w_sent s)
              (match w_cur s with Some m => w_done s ++ [m] | None => w_done s end)
      | Some WRel => upd s (w_queue s) (w_buf s) (match w_lock s with Some AWriter => None | x => x end)
                         (S (w_wpc s)) (w_cur s) (w_wtmp s) (w_wenc s) (w_ipc s) (w_pending s) (w_itmp s) (w_sent s) (w_done s)
      | Some WSignal => upd s (w_queue s) (w_buf s) (w_lock s) (S (w_wpc s)) (w_cur s) (w_wtmp s) (w_wenc s)
                            (w_ipc s) (w_pending s) (w_itmp s) (w_sent s) (w_done s)
      end
  | LIo k soft =>
      match nth_error ip (w_ipc s) with
      | None => upd s (w_queue s) (w_buf s) (w_lock s) (w_wpc s) (w_cur s) (w_wtmp s) (w_wenc s) 0 0 [] (w_sent s) (w_done s)
      | Some ISend =>
          match w_buf s with
          | [] => s                                   (* nothing to write: the socket is not selected *)
          | _ =>
              if soft then s                          (* EAGAIN / EINTR / ENOBUFS: try again later *)
              else let a := Nat.min (Nat.max k 1) (List.length (w_buf s)) in
                   upd s (w_queue s) (w_buf s) (w_lock s) (w_wpc s) (w_cur s) (w_wtmp s) (w_wenc s)
                       (S (w_ipc s)) a (w_itmp s) (w_sent s ++ firstn a (w_buf s)) (w_done s)
          end
      | Some IAcq =>
          match w_lock s with
          | Some _ => s
          | None => upd s (w_queue s) (w_buf s) (Some AIo) (w_wpc s) (w_cur s) (w_wtmp s) (w_wenc s)
                        (S (w_ipc s)) (w_pending s) (w_itmp s) (w_sent s) (w_done s)
          end
      | Some ILoad => upd s (w_queue s) (w_buf s) (w_lock s) (w_wpc s) (w_cur s) (w_wtmp s) (w_wenc s)
                          (S (w_ipc s)) (w_pending s) (w_buf s) (w_sent s) (w_done s)
      | Some IStore => upd s (w_queue s) (skipn (w_pending s) (w_itmp s)) (w_lock s) (w_wpc s) (w_cur s) (w_wtmp s) (w_wenc s)
                           (S (w_ipc s)) 0 (w_itmp s) (w_sent s) (w_done s)
      | Some IRel => upd s (w_queue s) (w_buf s) (match w_lock s with Some AIo => None | x => x end) (w_wpc s) (w_cur s)
                         (w_wtmp s) (w_wenc s) (S (w_ipc s)) (w_pending s) (w_itmp s) (w_sent s) (w_done s)
      end
  end.

Definition wrun (wp : list winstr) (ip : list iinstr) (ls : list wlabel) : wst := fold_left (wstep wp ip) ls wst0.

(* the encodings of the messages stored so far, concatenated *)
Definition encs (l : list M) : bytes :=
  List.concat (List.map (fun m => match enc m with Some e => e | None => [] end) l).
End WriteBuf.
