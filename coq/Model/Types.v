(* Model of the typed AVP value getters/setters (avp.py) and the dictionary
   lookup.  Values cross the Python/Coq boundary in a representation that does
   not go through `struct` on the Python side (see tools/props/c01.py):
   floats as IEEE bit patterns, text as code points, times as unix seconds,
   addresses as (family, raw bytes). *)
From DV Require Import Prelude.Base Model.Wire.
From Coq Require String.

(* ---- dictionary -------------------------------------------------------- *)
Definition drow : Type := (Z * Z * ty * Z * Z * String.string)%type.
Definition row_code (r : drow) : Z := let '(c, _, _, _, _, _) := r in c.
Definition row_vendor (r : drow) : Z := let '(_, v, _, _, _, _) := r in v.
Definition row_ty (r : drow) : ty := let '(_, _, t, _, _, _) := r in t.
Definition row_mand (r : drow) : Z := let '(_, _, _, m, _, _) := r in m.   (* 0 None, 1 False, 2 True *)
Definition row_vfield (r : drow) : Z := let '(_, _, _, _, f, _) := r in f.
Definition row_name (r : drow) : String.string := let '(_, _, _, _, _, n) := r in n.

(* get_avp_dictionary_entry: base dictionary for vendor 0, vendor dictionary otherwise *)
Definition lookup (rows : list drow) (code vendor : Z) : option drow :=
  find (fun r => (row_code r =? code) && (row_vendor r =? vendor)) rows.
Definition dict_of (rows : list drow) : dict :=
  fun c v => match lookup rows c v with Some r => Some (row_ty r) | None => None end.

(* ---- values ------------------------------------------------------------ *)
Inductive value : Type :=
| VBytes (b : bytes)                 (* OctetString / untyped Avp *)
| VText (cps : list Z)               (* UTF8String as code points *)
| VInt (n : Z)                       (* Integer32/64, Unsigned32/64, Enumerated *)
| VFloat (bits : Z)                  (* Float32/64 as IEEE-754 bit pattern *)
| VTime (unix : Z)                   (* Time as unix seconds *)
| VAddr (family : Z) (raw : bytes)   (* Address: family and raw address bytes *)
| VAvps (l : list avp).              (* Grouped *)

(* ---- UTF-8 ------------------------------------------------------------- *)
Definition utf8_enc1 (c : Z) : option bytes :=
  if c <? 0 then None
  else if c <? 128 then Some [c]
  else if c <? 2048 then Some [192 + c / 64; 128 + c mod 64]
  else if c <? 65536 then
    (if (55296 <=? c) && (c <=? 57343) then None
     else Some [224 + c / 4096; 128 + (c / 64) mod 64; 128 + c mod 64])
  else if c <? 1114112 then
    Some [240 + c / 262144; 128 + (c / 4096) mod 64; 128 + (c / 64) mod 64; 128 + c mod 64]
  else None.

Fixpoint utf8_enc (cps : list Z) : option bytes :=
  match cps with
  | [] => Some []
  | c :: r => match utf8_enc1 c, utf8_enc r with
              | Some a, Some b => Some (a ++ b)
              | _, _ => None
              end
  end.

Definition cont (b : Z) : bool := (128 <=? b) && (b <=? 191).

(* strict decoder (what bytes.decode('utf8') accepts) *)
Fixpoint utf8_dec (bs : bytes) : option (list Z) :=
  match bs with
  | [] => Some []
  | b0 :: r0 =>
      if (0 <=? b0) && (b0 <? 128) then
        match utf8_dec r0 with Some l => Some (b0 :: l) | None => None end
      else if (194 <=? b0) && (b0 <=? 223) then
        match r0 with
        | b1 :: r1 =>
            if cont b1 then
              match utf8_dec r1 with Some l => Some ((b0 - 192) * 64 + (b1 - 128) :: l) | None => None end
            else None
        | _ => None
        end
      else if (224 <=? b0) && (b0 <=? 239) then
        match r0 with
        | b1 :: b2 :: r2 =>
            let c := (b0 - 224) * 4096 + (b1 - 128) * 64 + (b2 - 128) in
            if cont b1 && cont b2 && (2048 <=? c) && negb ((55296 <=? c) && (c <=? 57343)) then
              match utf8_dec r2 with Some l => Some (c :: l) | None => None end
            else None
        | _ => None
        end
      else if (240 <=? b0) && (b0 <=? 244) then
        match r0 with
        | b1 :: b2 :: b3 :: r3 =>
            let c := (b0 - 240) * 262144 + (b1 - 128) * 4096 + (b2 - 128) * 64 + (b3 - 128) in
            if cont b1 && cont b2 && cont b3 && (65536 <=? c) && (c <? 1114112) then
              match utf8_dec r3 with Some l => Some (c :: l) | None => None end
            else None
        | _ => None
        end
      else None
  end.

(* ---- Time -------------------------------------------------------------- *)
Record time_consts : Type := { t_1900 : Z; t_over : Z; t_cut : Z }.
(* RFC 6733 4.3.1 / RFC 5905: seconds since 1900, era rollover on 2036-02-07 06:28:16 UTC *)
Definition rfc_time : time_consts := {| t_1900 := 2208988800; t_over := 2085978496; t_cut := 2147483648 |}.

(* AvpTime setter, as the code is: no range check beyond what fits in 32 bits,
   so dates before 1968-01-20 and from 2104-02-26 on are silently wrapped into
   the other era (known finding C01-time-wrap; pinned by the test-suite) *)
Definition time_enc (k : time_consts) (s : Z) : result bytes :=
  match (if s <? t_over k then pack_u 4 (s + t_1900 k) else pack_u 4 (s - t_over k)) with
  | Ok b => Ok b
  | Err _ => Err AvpEncodeError
  end.

Definition time_dec (k : time_consts) (p : bytes) : result Z :=
  match unpack_u 4 p with
  | Ok n => if n <? t_cut k then Ok (n + t_over k) else Ok (n - t_1900 k)
  | Err _ => Err AvpDecodeError
  end.

(* ---- Address ----------------------------------------------------------- *)
(* value = (family, raw).  family 1: 4 raw bytes, 2: 16 raw bytes, 8: UTF-8 text,
   anything else: rendered as a hex string (any bytes). *)
Definition addr_ok (fam : Z) (raw : bytes) : bool :=
  if fam =? 1 then Nat.eqb (List.length raw) 4
  else if fam =? 2 then Nat.eqb (List.length raw) 16
  else if fam =? 8 then match utf8_dec raw with Some _ => true | None => false end
  else true.

(* the setter only ever produces families 1, 2 and 8 *)
Definition addr_enc (fam : Z) (raw : bytes) : result bytes :=
  if ((fam =? 1) || (fam =? 2) || (fam =? 8)) && addr_ok fam raw then Ok (be_enc 2 fam ++ raw)
  else Err AvpEncodeError.

Definition addr_dec (p : bytes) : result (Z * bytes) :=
  match unpack_u 2 (firstn 2 p) with
  | Ok fam => let raw := skipn 2 p in
              if addr_ok fam raw then Ok (fam, raw) else Err AvpDecodeError
  | Err _ => Err AvpDecodeError
  end.

(* ---- setters (value -> payload) and getters (payload -> value) ---------- *)
Definition wrap_enc (r : result bytes) : result bytes :=
  match r with Ok b => Ok b | Err _ => Err AvpEncodeError end.

Definition enc_val (k : time_consts) (t : ty) (v : value) : result bytes :=
  match t, v with
  | TOctet, VBytes b => Ok b
  | TUntyped, VBytes b => Ok b
  | TUtf8, VText cps => match utf8_enc cps with Some b => Ok b | None => Err AvpEncodeError end
  | TInt32, VInt n => wrap_enc (pack_s 4 n)
  | TInt64, VInt n => wrap_enc (pack_s 8 n)
  | TUns32, VInt n => wrap_enc (pack_u 4 n)
  | TUns64, VInt n => wrap_enc (pack_u 8 n)
  | TFloat32, VFloat b => wrap_enc (pack_u 4 b)
  | TFloat64, VFloat b => wrap_enc (pack_u 8 b)
  | TTime, VTime s => time_enc k s
  | TAddress, VAddr f raw => addr_enc f raw
  | TGrouped, VAvps l => wrap_enc (enc_avps l)
  | _, _ => Err AvpEncodeError
  end.

Definition wrap_dec {A} (r : result A) : result A :=
  match r with Ok b => Ok b | Err _ => Err AvpDecodeError end.

Definition dec_val (k : time_consts) (t : ty) (p : bytes) : result value :=
  match t with
  | TOctet | TUntyped => Ok (VBytes p)
  | TUtf8 => match utf8_dec p with Some l => Ok (VText l) | None => Err AvpDecodeError end
  | TInt32 => let! n := wrap_dec (unpack_s 4 p) in Ok (VInt n)
  | TInt64 => let! n := wrap_dec (unpack_s 8 p) in Ok (VInt n)
  | TUns32 => let! n := wrap_dec (unpack_u 4 p) in Ok (VInt n)
  | TUns64 => let! n := wrap_dec (unpack_u 8 p) in Ok (VInt n)
  | TFloat32 => let! n := wrap_dec (unpack_u 4 p) in Ok (VFloat n)
  | TFloat64 => let! n := wrap_dec (unpack_u 8 p) in Ok (VFloat n)
  | TTime => let! s := time_dec k p in Ok (VTime s)
  | TAddress => let! (f, raw) := addr_dec p in Ok (VAddr f raw)
  | TGrouped => let! l := group_kids p in Ok (VAvps l)
  end.

(* the domain of each type, as a decidable predicate on values *)
Definition in_domain (t : ty) (v : value) : bool :=
  match t, v with
  | TOctet, VBytes b | TUntyped, VBytes b => wf_bytesb b
  | TUtf8, VText cps => forallb (fun c => (0 <=? c) && (c <? 1114112) && negb ((55296 <=? c) && (c <=? 57343))) cps
  | TInt32, VInt n => (-2147483648 <=? n) && (n <? 2147483648)
  | TInt64, VInt n => (-9223372036854775808 <=? n) && (n <? 9223372036854775808)
  | TUns32, VInt n => (0 <=? n) && (n <? 4294967296)
  | TUns64, VInt n => (0 <=? n) && (n <? 18446744073709551616)
  | TFloat32, VFloat b => (0 <=? b) && (b <? 4294967296)
  | TFloat64, VFloat b => (0 <=? b) && (b <? 18446744073709551616)
  | TTime, VTime s => (-61505152 <=? s) && (s <? 4233462144)   (* 1968-01-20 03:14:08 .. 2104-02-26 09:42:24 UTC *)
  | TAddress, VAddr f raw => ((f =? 1) || (f =? 2) || (f =? 8)) && addr_ok f raw && wf_bytesb raw
  | _, _ => false
  end.

(* ---- Avp.new ------------------------------------------------------------ *)
(* entry lookup, type from the dictionary, value set, then M (default from the
   dictionary unless overridden) and P flags *)
Definition avp_new (rows : list drow) (k : time_consts) (code vendor : Z) (v : option value)
           (mand : option bool) (priv : option bool) : result avp :=
  match lookup rows code vendor with
  | None => Err ValueError
  | Some r =>
      let a0 := mk_avp code vendor [] 0 in
      let! a1 := (match v with
                  | None => Ok a0
                  | Some x => let! p := enc_val k (row_ty r) x in Ok (set_payload a0 p)
                  end) in
      let m := match mand with
               | Some b => Some b
               | None => if row_mand r =? 0 then None else Some (row_mand r =? 2)
               end in
      let a2 := match m with Some b => set_mandatory a1 b | None => a1 end in
      let a3 := match priv with Some b => set_private a2 b | None => a2 end in
      Ok a3
  end.

(* ---- IEEE-754 bit patterns from (sign, biased exponent, fraction) ------- *)
Definition ieee_bits (ebits fbits : Z) (sign bexp frac : Z) : Z :=
  sign * 2 ^ (ebits + fbits) + bexp * 2 ^ fbits + frac.
