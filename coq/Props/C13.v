(* C13 — peer/connection tables and application readiness stay consistent
   Statements copied from the proof files; each is closed by `exact`. *)
From DV Require Prelude.Base Model.Ids Proofs.IdsP Model.Node Proofs.NodeD.
From Coq Require String List Lia Bool Arith ZArith.

Module FromNodeD.
Import DV.Prelude.Base DV.Model.Node DV.Proofs.NodeD.
Import Coq.Strings.String.
Import Coq.Lists.List Coq.micromega.Lia Coq.Bool.Bool Coq.Arith.Arith.
Import ListNotations.
Open Scope nat_scope.

(* ---- invariant 1 ---- *)
Theorem I_ids : forall n0 n, reach n0 n ->
  NoDup (List.map c_id (n_conns n)) /\
  (forall c, List.In c (n_conns n) -> c_id c < n_next_cid n) /\
  NoDup (List.map p_name (n_peers n)) /\
  List.map p_name (n_peers n) = List.map p_name (n_peers n0).
Proof. exact NodeD.I_ids. Qed.

(* ---- invariant 2 (C13 / C19: the id tables) ---- *)
Theorem C13_tables_subset : forall n0 n, reach n0 n ->
  (forall x, List.In x (n_half_ready n) -> List.In x (List.map c_id (n_conns n))) /\ NoDup (n_half_ready n) /\
  (forall x, List.In x (n_socket_peers n) -> List.In x (List.map c_id (n_conns n))) /\ NoDup (n_socket_peers n).
Proof. exact NodeD.C13_tables_subset. Qed.

(* close_conn removes the id from the three tables (no reachability needed) *)
Theorem C13_closed_nowhere : forall n cid r c, get_conn n cid = Some c ->
  let n' := fst (close_conn n cid r) in
  snd (close_conn n cid r) = [OClose cid r] /\
  ~ List.In cid (List.map c_id (n_conns n')) /\ ~ List.In cid (n_half_ready n') /\ ~ List.In cid (n_socket_peers n').
Proof. exact NodeD.C13_closed_nowhere. Qed.

Theorem C13_closed_stays_closed : forall n0 n cid r c evs, reach n0 n -> get_conn n cid = Some c ->
  let n' := fst (run (fst (close_conn n cid r)) evs) in
  ~ List.In cid (List.map c_id (n_conns n')) /\ ~ List.In cid (n_half_ready n') /\ ~ List.In cid (n_socket_peers n').
Proof. exact NodeD.C13_closed_stays_closed. Qed.

(* ---- invariant 5 (C13: disconnect reason) ---- *)
Theorem C13_reason_set : forall n0 n, reach n0 n ->
  forall p, List.In p (n_peers n) -> p_conn p = None /\ p_lastdisc p <> None -> p_reason p <> None.
Proof. exact NodeD.C13_reason_set. Qed.

Theorem remove_conn_sets_reason : forall n cid r c p,
  get_conn n cid = Some c -> find_conn_peer n c = Some p -> p_conn p = Some cid ->
  exists p', get_peer (remove_conn n cid r) (p_name p) = Some p' /\
             p_conn p' = None /\ p_lastdisc p' = Some (n_now n) /\ p_reason p' <> None.
Proof. exact NodeD.remove_conn_sets_reason. Qed.

(* ---- invariant 3 (C13): under cer_guard (no peer named "", clause i') ---- *)
Theorem C13_peer_conn_live : forall n0 n, reach_c n0 n ->
  forall p cid, List.In p (n_peers n) -> p_conn p = Some cid ->
  exists c, List.In c (n_conns n) /\ c_id c = cid /\ c_node_name c = p_name p.
Proof. exact NodeD.C13_peer_conn_live. Qed.

(* host identities: empty, or the node name *)
Theorem C13_peer_conn_live_strong : forall n0 n, reach_c n0 n ->
  (forall c, List.In c (n_conns n) -> c_host c = ""%string \/ c_host c = c_node_name c) /\
  (forall p cid, List.In p (n_peers n) -> p_conn p = Some cid ->
   exists c, List.In c (n_conns n) /\ c_id c = cid /\ c_node_name c = p_name p).
Proof. exact NodeD.C13_peer_conn_live_strong. Qed.

(* the converse, run level: the peer of a connection that is past the capabilities exchange points to it *)
Theorem C13_peer_conn_exact : forall n0 n, reach_c n0 n ->
  forall c p, List.In c (n_conns n) -> List.In p (n_peers n) -> c_node_name c = p_name p ->
  is_ready_state (c_state c) = true \/ c_state c = SDisconnecting ->
  p_conn p = Some (c_id c).
Proof. exact NodeD.C13_peer_conn_exact. Qed.

(* what the election buys: one connection per peer past the capabilities exchange *)
Theorem C13_one_conn_per_peer : forall n0 n, reach_c n0 n ->
  forall c1 c2, List.In c1 (n_conns n) -> List.In c2 (n_conns n) ->
  c_node_name c1 = c_node_name c2 ->
  is_ready_state (c_state c1) = true \/ c_state c1 = SDisconnecting ->
  is_ready_state (c_state c2) = true \/ c_state c2 = SDisconnecting ->
  c1 = c2 /\ c_node_name c1 <> ""%string.
Proof. exact NodeD.C13_one_conn_per_peer. Qed.

Theorem C13_no_conns_no_peer_conn : forall n0 n, reach_c n0 n -> n_conns n = [] ->
  n_half_ready n = [] /\ n_socket_peers n = [] /\ (forall p, List.In p (n_peers n) -> p_conn p = None).
Proof. exact NodeD.C13_no_conns_no_peer_conn. Qed.

(* the election, step level (no reachability needed): once the rivals are closed, connection cid is the
   only connection that carries the node name `host`; the rivals' ids are in none of the tables *)
Theorem C13_election_clears_rivals : forall n cid host r,
  let n' := fst (close_all n (election_rivals n cid host) r) in
  (forall c', List.In c' (n_conns n') -> c_node_name c' = host -> c_id c' = cid) /\
  (forall c, get_conn n cid = Some c -> List.In c (n_conns n')) /\
  (forall c', List.In c' (n_conns n') -> List.In c' (n_conns n)).
Proof. exact NodeD.C13_election_clears_rivals. Qed.

(* _flag_connection_as_ready makes ready every application one of whose routed peers is connected
   through this connection (and changes no other application) *)
Theorem C13_ready_flag_partial : forall n cid i a, List.nth_error (n_apps n) i = Some a ->
  List.nth_error (n_apps (flag_ready n cid)) i =
    Some (if List.existsb (fun nm => peer_has_conn n nm cid) (app_peers n i) then set_aready a true else a).
Proof. exact NodeD.C13_ready_flag_partial. Qed.

(* remove_peer_connection clears the ready flag of exactly the applications none of whose routed
   peers has a ready connection left (evaluated in the state after the removal) *)
Theorem C13_ready_flag_removed : forall n cid r c i a, get_conn n cid = Some c ->
  List.nth_error (n_apps n) i = Some a ->
  let n' := remove_conn n cid r in
  List.nth_error (n_apps n') i = Some (if any_peer_ready n' (app_peers n' i) then a else set_aready a false).
Proof. exact NodeD.C13_ready_flag_removed. Qed.

Theorem cer_guard_syn_sufficient : forall n0 evs, wf_init n0 -> cer_guard_syn n0 evs -> cer_guard n0 evs.
Proof. exact NodeD.cer_guard_syn_sufficient. Qed.

(* ---- FINDING (C13), clause (i') of the guard is needed.  A CER answered 5010 NO_COMMON_APPLICATION
   leaves the connection CONNECTED with its node name set.  Peers b, c; an accepted connection sends
   CER "b" advertising only application 5 (answer 5010), then CER "c" advertising application 4: the
   node name stays b (it is filled in only when empty), the election sees no rival named c, the host
   identity becomes c and _assign_peer_connection files the connection under c; when the connection
   closes remove_peer_connection looks the peer up by node name (b): c.connection dangles.  The
   history satisfies clause (iii). ---- *)
Theorem C13_cer_origin_change_refuted :
  exists n0 evs, wf_init_g n0 /\ conn_guard n0 evs /\
    let n := fst (run n0 evs) in
    exists p cid, List.In p (n_peers n) /\ p_conn p = Some cid /\
                  ~ List.In cid (List.map c_id (n_conns n)) /\ n_conns n = [].
Proof. exact NodeD.C13_cer_origin_change_refuted. Qed.

(* ... and C13_one_conn_per_peer: an accepted connection is named p by a CER answered 5010; the node then
   dials p (p.connection is unset) and completes the exchange on connection 1; a CER "c" on connection 0
   makes it READY under its old node name: two READY connections named p. *)
Theorem C13_one_conn_per_peer_unguarded_refuted :
  exists n0 evs, wf_init_g n0 /\ conn_guard n0 evs /\
    let n := fst (run n0 evs) in
    exists c1 c2, List.In c1 (n_conns n) /\ List.In c2 (n_conns n) /\ c_node_name c1 = c_node_name c2 /\
                  is_ready_state (c_state c1) = true /\ is_ready_state (c_state c2) = true /\ c_id c1 <> c_id c2.
Proof. exact NodeD.C13_one_conn_per_peer_unguarded_refuted. Qed.

(* ---- FINDING: the hypothesis "no peer is named the empty string" is needed for C13 and C19.  The node
   dials the peer named ""; receive_cea accepts any Origin-Host on a connection without node name: the
   CEA of "q" files the connection under q; when it closes only the peer "" is cleared (C13).  With the
   CEA of "" the connection is READY without host identity and a request is filed under "" (C19).  Both
   histories satisfy (i') and (iii).  (C12 no longer needs the hypothesis: the former witness, a CER on a
   READY outbound connection, is ignored.) ---- *)
Theorem C13_empty_name_refuted :
  exists n0 evs, wf_init n0 /\ ce_guard n0 evs /\
    let n := fst (run n0 evs) in
    exists p cid, List.In p (n_peers n) /\ p_conn p = Some cid /\
                  ~ List.In cid (List.map c_id (n_conns n)) /\ n_conns n = [].
Proof. exact NodeD.C13_empty_name_refuted. Qed.
End FromNodeD.

Print Assumptions FromNodeD.I_ids.
Print Assumptions FromNodeD.C13_tables_subset.
Print Assumptions FromNodeD.C13_closed_nowhere.
Print Assumptions FromNodeD.C13_closed_stays_closed.
Print Assumptions FromNodeD.C13_reason_set.
Print Assumptions FromNodeD.remove_conn_sets_reason.
Print Assumptions FromNodeD.C13_peer_conn_live.
Print Assumptions FromNodeD.C13_peer_conn_live_strong.
Print Assumptions FromNodeD.C13_peer_conn_exact.
Print Assumptions FromNodeD.C13_one_conn_per_peer.
Print Assumptions FromNodeD.C13_no_conns_no_peer_conn.
Print Assumptions FromNodeD.C13_election_clears_rivals.
Print Assumptions FromNodeD.C13_ready_flag_partial.
Print Assumptions FromNodeD.C13_ready_flag_removed.
Print Assumptions FromNodeD.cer_guard_syn_sufficient.
Print Assumptions FromNodeD.C13_cer_origin_change_refuted.
Print Assumptions FromNodeD.C13_one_conn_per_peer_unguarded_refuted.
Print Assumptions FromNodeD.C13_empty_name_refuted.
