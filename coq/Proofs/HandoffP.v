(* Every schedule of the sender / dispatcher programs of Model/Handoff.v: the reachable set of the machine is finite; it
   is computed, shown closed under every action by computation, and every run stays inside it by induction on the
   schedule (no bound on its length). *)
From DV Require Import Prelude.Base Model.Handoff.

Definition sres_eq_dec : forall a b : sres, {a = b} + {a <> b}.
Proof. decide equality. Defined.
Definition sinstr_eq_dec : forall a b : sinstr, {a = b} + {a <> b}.
Proof. decide equality. Defined.
Definition dinstr_eq_dec : forall a b : dinstr, {a = b} + {a <> b}.
Proof. decide equality. Defined.
Definition ores_eq_dec : forall a b : option sres, {a = b} + {a <> b}.
Proof. decide equality; apply sres_eq_dec. Defined.

Definition hst_eq_dec : forall s t : hst, {s = t} + {s <> t}.
Proof.
  decide equality;
    try apply Bool.bool_dec; try apply Nat.eq_dec; try apply ores_eq_dec;
    try (apply list_eq_dec; apply sinstr_eq_dec); try (apply list_eq_dec; apply dinstr_eq_dec).
Defined.

Definition hmem (s : hst) (R : list hst) : bool := existsb (fun t => if hst_eq_dec s t then true else false) R.

Lemma hmem_In s R : hmem s R = true -> In s R.
Proof.
  unfold hmem; intro H; apply existsb_exists in H; destruct H as [t [Ht E]].
  destruct (hst_eq_dec s t) as [-> | _]; [exact Ht | discriminate].
Qed.

Lemma In_hmem s R : In s R -> hmem s R = true.
Proof.
  intro H; unfold hmem; apply existsb_exists; exists s; split; [exact H|].
  destruct (hst_eq_dec s s) as [_ | N]; [reflexivity | exfalso; apply N; reflexivity].
Qed.

Definition acts : list hact := [ASender; ATimeout; ADisp].

Definition add_new (R new : list hst) : list hst :=
  fold_left (fun acc s => if hmem s acc then acc else acc ++ [s]) new R.

Fixpoint close (fuel : nat) (R : list hst) : list hst :=
  match fuel with
  | O => R
  | S f => let R' := add_new R (flat_map (fun s => map (hstep s) acts) R) in
           if Nat.eqb (length R') (length R) then R else close f R'
  end.

Definition closed (R : list hst) : bool :=
  forallb (fun s => forallb (fun a => hmem (hstep s a) R) acts) R.

Lemma closed_step R s a : closed R = true -> In s R -> In (hstep s a) R.
Proof.
  intros C H; unfold closed in C; rewrite forallb_forall in C; specialize (C s H).
  rewrite forallb_forall in C; apply hmem_In; apply C; destruct a; simpl; auto.
Qed.

Lemma closed_run R : closed R = true -> forall l s, In s R -> In (hrun l s) R.
Proof.
  intros C l; induction l as [|a l IH]; intros s H; [exact H|].
  unfold hrun; cbn [fold_left]; apply IH; apply closed_step; assumption.
Qed.

(* a boolean property of every state of R holds at the end of every schedule from any state of R *)
Lemma sweep (P : hst -> bool) R s0 :
  closed R = true -> hmem s0 R = true -> forallb P R = true -> forall l, P (hrun l s0) = true.
Proof.
  intros C H0 HP l; rewrite forallb_forall in HP; apply HP; apply closed_run; [exact C | apply hmem_In; exact H0].
Qed.

(* ---- the code as it is ------------------------------------------------ *)
Definition s0 : hst := hinit sender_prog disp_prog.
Definition R0 : list hst := close 64 [s0].

Lemma R0_closed : closed R0 = true.
Proof. vm_compute; reflexivity. Qed.
Lemma R0_init : hmem s0 R0 = true.
Proof. vm_compute; reflexivity. Qed.

Definition res_eqb (a : option sres) (b : option sres) : bool := if ores_eq_dec a b then true else false.
Lemma res_eqb_true a b : res_eqb a b = true -> a = b.
Proof. unfold res_eqb; destruct (ores_eq_dec a b); [auto | discriminate]. Qed.
Lemma res_eqb_false a b : res_eqb a b = false -> a <> b.
Proof. unfold res_eqb; destruct (ores_eq_dec a b); [discriminate | auto]. Qed.

(* P1: nothing raises *)
Definition p_no_crash (s : hst) : bool := negb (h_crashed s).
(* P2: handle_answer is called at most once, and only after the sender timed out *)
Definition p_handler (s : hst) : bool :=
  Nat.leb (h_unexpected s) 1 && (Nat.eqb (h_unexpected s) 0 || res_eqb (h_result s) (Some RTimeout)).
(* P3: a sender that returns returns the answer (never an empty slot), and then the handler was not called *)
Definition p_result (s : hst) : bool :=
  negb (res_eqb (h_result s) (Some REmpty)) &&
  (negb (res_eqb (h_result s) (Some RAnswer)) || (h_slot s && Nat.eqb (h_unexpected s) 0)).
(* P4: once both threads are through, the sender has its answer or has timed out, the table entry is gone, and the
   answer went to exactly one place unless the sender timed out while the dispatcher was holding its waiter *)
Definition p_final (s : hst) : bool :=
  match h_sp s, h_dp s with
  | [], [] => negb (h_registered s) &&
              (res_eqb (h_result s) (Some RAnswer) || res_eqb (h_result s) (Some RTimeout))
  | _, _ => true
  end.
(* P5: the sender is blocked for ever only if the answer never comes: when the dispatcher is through and the sender
   still waits, the event is set (it will return) or the answer went to nobody because the sender -- impossible here --
   was not registered: so the event is set *)
Definition p_progress (s : hst) : bool :=
  match h_sp s, h_dp s with
  | SWait :: _, [] => h_event s
  | _, _ => true
  end.

Lemma all_no_crash l : h_crashed (hrun l s0) = false.
Proof. apply negb_true_iff; apply (sweep p_no_crash R0 s0 R0_closed R0_init); vm_compute; reflexivity. Qed.

Lemma all_handler l : (h_unexpected (hrun l s0) <= 1)%nat /\
  (h_unexpected (hrun l s0) <> 0%nat -> h_result (hrun l s0) = Some RTimeout).
Proof.
  assert (H : p_handler (hrun l s0) = true)
    by (apply (sweep p_handler R0 s0 R0_closed R0_init); vm_compute; reflexivity).
  unfold p_handler in H; apply andb_true_iff in H; destruct H as [H1 H2]; split.
  - apply Nat.leb_le; exact H1.
  - intro N; apply orb_true_iff in H2; destruct H2 as [H2 | H2].
    + apply Nat.eqb_eq in H2; contradiction.
    + apply res_eqb_true; exact H2.
Qed.

Lemma all_result l : h_result (hrun l s0) <> Some REmpty /\
  (h_result (hrun l s0) = Some RAnswer -> h_slot (hrun l s0) = true /\ h_unexpected (hrun l s0) = 0%nat).
Proof.
  assert (H : p_result (hrun l s0) = true)
    by (apply (sweep p_result R0 s0 R0_closed R0_init); vm_compute; reflexivity).
  unfold p_result in H; apply andb_true_iff in H; destruct H as [H1 H2]; split.
  - apply negb_true_iff in H1; apply res_eqb_false; exact H1.
  - intro E; rewrite E in H2; cbn in H2. apply andb_true_iff in H2; destruct H2 as [A B]; split;
      [exact A | apply Nat.eqb_eq; exact B].
Qed.

Lemma all_final l : h_sp (hrun l s0) = [] -> h_dp (hrun l s0) = [] ->
  h_registered (hrun l s0) = false /\
  (h_result (hrun l s0) = Some RAnswer \/ h_result (hrun l s0) = Some RTimeout).
Proof.
  intros E1 E2.
  assert (H : p_final (hrun l s0) = true)
    by (apply (sweep p_final R0 s0 R0_closed R0_init); vm_compute; reflexivity).
  unfold p_final in H; rewrite E1, E2 in H. apply andb_true_iff in H; destruct H as [A B]; split.
  - apply negb_true_iff; exact A.
  - apply orb_true_iff in B; destruct B as [B | B]; [left | right]; apply res_eqb_true; exact B.
Qed.

Lemma all_progress l p : h_sp (hrun l s0) = SWait :: p -> h_dp (hrun l s0) = [] -> h_event (hrun l s0) = true.
Proof.
  intros E1 E2.
  assert (H : p_progress (hrun l s0) = true)
    by (apply (sweep p_progress R0 s0 R0_closed R0_init); vm_compute; reflexivity).
  unfold p_progress in H; rewrite E1, E2 in H; exact H.
Qed.

(* without a timeout action the sender can only end with its answer *)
Lemma no_timeout_step_result s a : a <> ATimeout -> h_result s <> Some RTimeout -> h_result (hstep s a) <> Some RTimeout.
Proof.
  intros Na H; destruct a; [| contradiction |]; cbn [hstep].
  - unfold sender_step; destruct (h_sp s) as [|[] p]; try exact H; cbn.
    + destruct (h_event s); cbn; [destruct (h_slot s); discriminate | exact H].
    + destruct (h_registered s); cbn; exact H.
  - unfold disp_step; destruct (negb (h_on_wire s)); [exact H|].
    destruct (h_dp s) as [|[] p]; try exact H; cbn; try (destruct (h_found s); cbn; try exact H).
    destruct (h_registered s); cbn; exact H.
Qed.

Lemma no_timeout_run l : ~ In ATimeout l -> forall s, h_result s <> Some RTimeout -> h_result (hrun l s) <> Some RTimeout.
Proof.
  induction l as [|a l IH]; intros N s H; [exact H|].
  unfold hrun; cbn [fold_left]; apply IH.
  - intro I; apply N; right; exact I.
  - apply no_timeout_step_result; [intro E; apply N; left; exact E | exact H].
Qed.

Lemma all_no_timeout_answer l : ~ In ATimeout l -> h_sp (hrun l s0) = [] -> h_dp (hrun l s0) = [] ->
  h_result (hrun l s0) = Some RAnswer /\ h_unexpected (hrun l s0) = 0%nat.
Proof.
  intros N E1 E2. destruct (all_final l E1 E2) as [_ [A | T]].
  - split; [exact A | apply (all_result l); exact A].
  - exfalso; revert T; apply no_timeout_run; [exact N | cbn; discriminate].
Qed.

(* ---- refuted variants (witness schedules, by computation) -------------- *)
(* the waiter registered after the send: the answer of a fast peer goes to handle_answer while its sender waits, and the
   sender can then only time out *)
Lemma send_first_refuted :
  exists l, let s := hrun l (hinit sender_prog_send_first disp_prog) in
            h_unexpected s = 1%nat /\ h_result s = None /\ h_sp s = [SWait; SDel] /\ h_dp s = [] /\ h_event s = false.
Proof. exists [ASender; ADisp; ADisp; ADisp; ADisp; ASender]. vm_compute. repeat split. Qed.

(* membership test, then indexing (the code before commit 1995032): the sender's timeout between the two raises *)
Lemma test_then_index_refuted :
  exists l, h_crashed (hrun l (hinit sender_prog disp_prog_test_then_index)) = true.
Proof. exists [ASender; ASender; ADisp; ATimeout; ASender; ADisp]. vm_compute. reflexivity. Qed.

(* the event set before the answer is stored: the sender can wake up to an empty slot *)
Lemma set_first_refuted :
  exists l, h_result (hrun l (hinit sender_prog disp_prog_set_first)) = Some REmpty.
Proof. exists [ASender; ASender; ADisp; ADisp; ASender]. vm_compute. reflexivity. Qed.

(* non-vacuity: the good outcome is reachable, and so is the late answer *)
Example handoff_answer_reachable :
  let s := hrun [ASender; ASender; ADisp; ADisp; ADisp; ADisp; ASender; ASender] s0 in
  h_result s = Some RAnswer /\ h_sp s = [] /\ h_dp s = [] /\ h_unexpected s = 0%nat.
Proof. vm_compute. repeat split. Qed.
Example handoff_late_answer_reachable :
  let s := hrun [ASender; ASender; ATimeout; ASender; ADisp; ADisp; ADisp; ADisp] s0 in
  h_result s = Some RTimeout /\ h_unexpected s = 1%nat.
Proof. vm_compute. repeat split. Qed.
