(* Lemmas about the Prelude: big-endian codec, bit identities. *)
From DV Require Import Prelude.Base.

Lemma be_enc_length n x : List.length (be_enc n x) = n.
Proof. revert x; induction n as [|n IH]; intros x; cbn [be_enc]; [reflexivity|].
  rewrite app_length, IH; simpl; lia. Qed.

Lemma be_enc_wf n x : wf_bytes (be_enc n x).
Proof. revert x; induction n as [|n IH]; intros x; cbn [be_enc]; [constructor|].
  apply Forall_app; split; [apply IH|]. constructor; [|constructor].
  apply Z.mod_pos_bound; lia. Qed.

Lemma be_dec_app a b : be_dec (a ++ [b]) = be_dec a * 256 + b.
Proof. unfold be_dec; rewrite fold_left_app; reflexivity. Qed.

Lemma be_dec_enc n x : 0 <= x < 256 ^ Z.of_nat n -> be_dec (be_enc n x) = x.
Proof.
  revert x; induction n as [|n IH]; intros x Hx.
  - simpl in *. unfold be_dec; simpl. lia.
  - cbn [be_enc]. rewrite be_dec_app, IH.
    + pose proof (Z.div_mod x 256); lia.
    + rewrite Nat2Z.inj_succ, Z.pow_succ_r in Hx by lia.
      split; [apply Z.div_pos; lia|]. apply Z.div_lt_upper_bound; lia.
Qed.

Lemma be_dec_bound bs : wf_bytes bs -> 0 <= be_dec bs < 256 ^ Z.of_nat (List.length bs).
Proof.
  induction bs as [|b bs IH] using rev_ind; intros H.
  - unfold be_dec; simpl; lia.
  - apply Forall_app in H as [H1 H2]. inversion H2 as [|? ? Hb _]; subst.
    rewrite be_dec_app, app_length; simpl List.length.
    replace (Z.of_nat (List.length bs + 1)) with (Z.succ (Z.of_nat (List.length bs))) by lia.
    rewrite Z.pow_succ_r by lia. specialize (IH H1). nia.
Qed.

Lemma be_enc_dec bs : wf_bytes bs -> be_enc (List.length bs) (be_dec bs) = bs.
Proof.
  induction bs as [|b bs IH] using rev_ind; intros H; [reflexivity|].
  apply Forall_app in H as [H1 H2]. inversion H2 as [|? ? Hb _]; subst.
  rewrite app_length; simpl List.length. rewrite Nat.add_1_r. cbn [be_enc].
  rewrite be_dec_app.
  replace ((be_dec bs * 256 + b) / 256) with (be_dec bs)
    by lia.
  replace ((be_dec bs * 256 + b) mod 256) with b
    by lia.
  rewrite IH by assumption. reflexivity.
Qed.

Lemma be_enc_inj n x y :
  0 <= x < 256 ^ Z.of_nat n -> 0 <= y < 256 ^ Z.of_nat n ->
  be_enc n x = be_enc n y -> x = y.
Proof. intros Hx Hy E. rewrite <- (be_dec_enc n x Hx), <- (be_dec_enc n y Hy), E. reflexivity. Qed.

(* ---- bit identities used by the header / AVP codecs ------------------ *)
Lemma lor_shiftl_add a b n :
  0 <= n -> 0 <= a < 2 ^ n -> Z.lor a (Z.shiftl b n) = a + b * 2 ^ n.
Proof.
  intros Hn Ha. rewrite Z.shiftl_mul_pow2 by lia.
  assert (H0 : Z.land a (b * 2 ^ n) = 0).
  { apply Z.bits_inj'; intros k Hk; rewrite Z.land_spec, Z.bits_0.
    destruct (Z.lt_ge_cases k n) as [Hlt|Hge].
    - rewrite Z.mul_pow2_bits_low by lia. apply andb_false_r.
    - destruct (Z.eq_dec a 0) as [->|Hne]; [rewrite Z.bits_0; reflexivity|].
      rewrite (Z.bits_above_log2 a k); [reflexivity|lia|].
      apply Z.lt_le_trans with n; [|lia]. apply Z.log2_lt_pow2; lia. }
  rewrite <- (Z.lxor_lor _ _ H0). symmetry. apply Z.add_nocarry_lxor. exact H0.
Qed.

Lemma shiftr_div a n : 0 <= n -> Z.shiftr a n = a / 2 ^ n.
Proof. intros; apply Z.shiftr_div_pow2; lia. Qed.

Lemma land_ones_mod a n : 0 <= n -> Z.land a (2 ^ n - 1) = a mod 2 ^ n.
Proof. intros. replace (2 ^ n - 1) with (Z.ones n) by (rewrite Z.ones_equiv; lia). apply Z.land_ones; lia. Qed.

(* (n + 3) & ~3 : round up to a multiple of four *)
Lemma round4 n : 0 <= n -> Z.land (n + 3) (Z.lnot 3) = (n + 3) / 4 * 4.
Proof.
  intros Hn. rewrite <- Z.ldiff_land. change 3 with (Z.ones 2).
  rewrite Z.ldiff_ones_r by lia. rewrite Z.shiftr_div_pow2, Z.shiftl_mul_pow2 by lia.
  reflexivity.
Qed.

Lemma firstn_skipn_length {A} (l : list A) n :
  (n <= List.length l)%nat -> List.length (firstn n l) = n.
Proof. intros; rewrite firstn_length; lia. Qed.

Lemma NoDup_map_inj_in {A B} (f : A -> B) (l : list A) :
  (forall x y, In x l -> In y l -> f x = f y -> x = y) -> NoDup l -> NoDup (map f l).
Proof.
  induction l as [|a l IH]; intros Hinj Hnd; [constructor|].
  inversion Hnd as [|? ? Hna Hnd']; subst. cbn [map]. constructor.
  - intros Hin. apply in_map_iff in Hin as [x [Hfx Hx]].
    assert (x = a) by (apply Hinj; [right; exact Hx|left; reflexivity|exact Hfx]). subst; contradiction.
  - apply IH; [|exact Hnd']. intros x y Hx Hy; apply Hinj; right; assumption.
Qed.

Lemma NoDup_snoc {A} (l : list A) x : NoDup l -> ~ In x l -> NoDup (l ++ [x]).
Proof.
  induction l as [|a l IH]; intros Hnd Hx; cbn; [constructor; [intros []|constructor]|].
  inversion Hnd; subst. constructor.
  - rewrite in_app_iff; cbn. intros [H|[H|[]]]; [contradiction|subst; apply Hx; left; reflexivity].
  - apply IH; [assumption|]. intros H; apply Hx; right; exact H.
Qed.
