(* History theorems (whole runs) for C07: every answer the node transmits answers exactly one request
   previously received on that same connection and not yet answered.  "The node transmits" = OQueue
   (Node.send_message), as in NodeB; histories are `trace` / `strace` of NodeF.

   A. C07_history_no_answer_to_answer   (any n0, any history) no request read, no application answer:
                                        only requests are handed to connections
   B. C07_history_node_answers          (any n0, any history) an answer handed out outside an EAppAnswer event
                                        is handed out in the read that carries its request, on that
                                        connection, with the request's command, application id and identifiers
   C. C07_history_app_answers(_at)      an application's answer goes out unchanged on the connection from which
                                        a request with its pair was read AND delivered earlier
   D. C07_history_answers_le_requests,  per (connection, hop-by-hop, end-to-end): no more answers handed out
      C07_history_at_most_once          than requests read; at most one when the pairs read are distinct
   E. ExamplesE                         CER, watchdog, two requests answered in the other order, a duplicate
                                        application answer, a raising handler, a realm that is not served
   C and D assume NodeD's reach_g hypotheses: wf_init_g n0 (well-formed, no peer named "") and ce_guard n0 evs
   (= cer_guard, needed by C13_one_conn_per_peer, and conn_guard, needed by C19_waiting_hosts).  They fail
   without clause (i'): WitnessE.C07_history_app_answers_unguarded_refuted.

   Method for C/D.  `wit cid h n`: connection cid is past the capabilities exchange with host identity h and
   peer h points to it (so h has at most one witness).  Every function of the model keeps NodeC's frame and
   the witnesses unless it drops the host's lists (`kp`, sections 2); the reader adds a pair to h's list only
   with a delivery on h's witness (`rres`).  History invariant HI: every waiting pair was delivered on the
   witness of its host.  D counts answers against requests with `acct` (pending = the pair waits under the
   host of which cid is the witness). *)
From DV Require Import Prelude.Base Model.Node.
From DV Require Proofs.NodeA Proofs.NodeB Proofs.NodeD.
From DV Require Import Proofs.NodeC Proofs.NodeF.
From Coq Require String.
From Coq Require Import Lia.
Local Open Scope Z_scope.

(* ================================================================================== *)
(* 0. history helpers                                                                 *)
(* ================================================================================== *)
Lemma trace_In n evs e outs :
  List.In (e, outs) (trace n evs) ->
  exists evs1 ds evs2, evs = (evs1 ++ (ds, e) :: evs2)%list /\
                       outs = snd (step (fst (run n evs1)) ds e).
Proof.
  unfold trace. intros H. apply List.in_map_iff in H. destruct H as [[nk [e' o']] [E H]].
  cbn [snd] in E. injection E as -> ->.
  destruct (strace_In _ _ _ _ _ H) as (evs1 & ds & evs2 & E1 & E2 & E3).
  exists evs1, ds, evs2. subst nk. split; assumption.
Qed.

(* the history around one event *)
Lemma trace_split n evs1 ds e evs2 :
  trace n (evs1 ++ (ds, e) :: evs2)%list =
  (trace n evs1 ++ (e, snd (step (fst (run n evs1)) ds e)) :: trace (fst (run n (evs1 ++ [(ds, e)])%list)) evs2)%list.
Proof.
  rewrite trace_app, trace_cons. cbn [fst snd]. rewrite run_app, run_single. reflexivity.
Qed.

(* an answer handed to connection cid *)
Definition is_ans (a : omsg) : Prop := o_req a = false.

(* ================================================================================== *)
(* 1. node-generated answers (A, B)                                                   *)
(* ================================================================================== *)
(* the answers queued while a read is handled come from the reader thread *)
Lemma step_recv_answers n ds cid ms cid' a :
  List.In (OQueue cid' a) (snd (step n ds (ERecv cid ms))) -> o_req a = false ->
  cid' = cid /\ exists m, List.In m ms /\ m_req m = true /\
     o_cmd a = m_cmd m /\ o_app a = m_app m /\ o_hbh a = m_hbh m /\ o_e2e a = m_e2e m.
Proof.
  intros Hin Hq. cbn [step] in Hin. destruct (get_conn n cid) as [c0|]; [|destruct Hin].
  pose proof (NodeB.io_iteration_rq n ds) as R1.
  destruct (io_iteration n ds) as [[n1 o1] ds1]. cbn [fst snd] in R1.
  destruct (dispatch_all (upd_last_read n1 cid) cid ms) as [n3 o3] eqn:Hd.
  pose proof (NodeB.settle'_rq n3 ds1) as R4. destruct (settle' n3 ds1) as [n4 o4]. cbn [snd] in *.
  apply List.in_app_or in Hin. destruct Hin as [Hin|Hin].
  { pose proof (NodeB.rq_in _ R1 _ _ Hin). congruence. }
  apply List.in_app_or in Hin. destruct Hin as [Hin|Hin].
  2:{ pose proof (NodeB.rq_in _ R4 _ _ Hin). congruence. }
  destruct (NodeB.C07_dispatch_all_answers _ _ _ _ _ Hd) as [H _].
  destruct (H _ _ Hin) as (E & _ & m & Hm). split; [exact E|]. exists m. exact Hm.
Qed.

(* B, one step: outside EAppAnswer an answer is queued only by the read that carries its request *)
Lemma step_node_answers n ds e cid a :
  (forall i b, e <> EAppAnswer i b) ->
  List.In (OQueue cid a) (snd (step n ds e)) -> o_req a = false ->
  exists ms, e = ERecv cid ms /\ exists m, List.In m ms /\ m_req m = true /\
     o_cmd a = m_cmd m /\ o_app a = m_app m /\ o_hbh a = m_hbh m /\ o_e2e a = m_e2e m.
Proof.
  intros Hna Hin Hq. destruct (event_cases e) as [(cid0 & ms & ->)|Hnr].
  - destruct (step_recv_answers _ _ _ _ _ _ Hin Hq) as [-> H]. exists ms. split; [reflexivity|exact H].
  - pose proof (NodeB.C07_answers_only_from n ds e Hnr Hna _ _ Hin). congruence.
Qed.

(* B: node-generated answers are produced in the very step that reads the request, on the same
   connection, with the request's command, application id and identifiers (any history) *)
Theorem C07_history_node_answers n0 evs e outs cid a :
  List.In (e, outs) (trace n0 evs) -> (forall i b, e <> EAppAnswer i b) ->
  List.In (OQueue cid a) outs -> o_req a = false ->
  exists ms, e = ERecv cid ms /\ exists m, List.In m ms /\ m_req m = true /\
     o_cmd a = m_cmd m /\ o_app a = m_app m /\ o_hbh a = m_hbh m /\ o_e2e a = m_e2e m.
Proof.
  intros Ht Hna Hin Hq. destruct (trace_In _ _ _ _ Ht) as (evs1 & ds & evs2 & _ & ->).
  eapply step_node_answers; eassumption.
Qed.

(* A: a history without requests read and without application answers transmits no answer *)
Theorem C07_history_no_answer_to_answer n0 evs :
  (forall d i b, ~ List.In (d, EAppAnswer i b) evs) ->
  (forall d cid ms m, List.In (d, ERecv cid ms) evs -> List.In m ms -> m_req m = false) ->
  forall e outs cid a, List.In (e, outs) (trace n0 evs) -> List.In (OQueue cid a) outs -> o_req a = true.
Proof.
  intros Hna Hnr e outs cid a Ht Hin.
  destruct (o_req a) eqn:Hq; [reflexivity|exfalso].
  destruct (trace_In _ _ _ _ Ht) as (evs1 & ds & evs2 & E & ->).
  assert (Hev : List.In (ds, e) evs) by (rewrite E; apply List.in_or_app; right; left; reflexivity).
  assert (Hne : forall i b, e <> EAppAnswer i b) by (intros i b ->; exact (Hna _ _ _ Hev)).
  destruct (step_node_answers _ _ _ _ _ Hne Hin Hq) as (ms & -> & m & Hm & Hr & _).
  rewrite (Hnr _ _ _ _ Hev Hm) in Hr. discriminate.
Qed.

(* ================================================================================== *)
(* 2. the witness of a waiting list: the connection that filed it                     *)
(* ================================================================================== *)
Notation live := NodeD.live_st.
Notation pw := n_peer_waiting.

(* connection cid is past the capabilities exchange with host identity h, and the peer h points to it *)
Definition wit (cid : nat) (h : String.string) (n : node) : Prop :=
  exists c p, get_conn n cid = Some c /\ c_host c = h /\ live (c_state c) /\
              get_peer n h = Some p /\ p_conn p = Some cid.

(* a host identity has at most one witness (the peer points to one connection) *)
Lemma wit_unique cid1 cid2 h n : wit cid1 h n -> wit cid2 h n -> cid1 = cid2.
Proof. intros (c1 & p1 & _ & _ & _ & A1 & B1) (c2 & p2 & _ & _ & _ & A2 & B2). congruence. Qed.

(* a witness stays when its connection keeps host identity and liveness and the peer keeps its pointer *)
Lemma wit_transfer cid h n n' :
  (forall c, get_conn n cid = Some c -> live (c_state c) ->
     exists c', get_conn n' cid = Some c' /\ c_host c' = c_host c /\ live (c_state c')) ->
  (forall p, get_peer n h = Some p -> p_conn p = Some cid ->
     exists p', get_peer n' h = Some p' /\ p_conn p' = Some cid) ->
  wit cid h n -> wit cid h n'.
Proof.
  intros Hc Hp (c & p & A & B & C & D & E).
  destruct (Hc c A C) as (c' & A' & B' & C'). destruct (Hp p D E) as (p' & D' & E').
  exists c', p'. split; [exact A'|]. split; [congruence|]. split; [exact C'|]. split; assumption.
Qed.

(* every witness stays (strong), or stays unless the host's lists are dropped (weak) *)
Definition swk (n n' : node) : Prop := forall h cid, wit cid h n -> wit cid h n'.
Definition wk (n n' : node) : Prop :=
  forall h cid, wit cid h n -> wit cid h n' \/ forall k, ~ pw_has (pw n') h k.

(* strong preservation implies weak preservation *)
Lemma swk_wk n n' : swk n n' -> wk n n'.
Proof. intros H h cid W. left. exact (H h cid W). Qed.
(* strong preservation is reflexive *)
Lemma swk_refl n : swk n n. Proof. intros h cid W. exact W. Qed.
(* strong preservation is transitive *)
Lemma swk_trans a b c : swk a b -> swk b c -> swk a c.
Proof. intros H1 H2 h cid W. exact (H2 _ _ (H1 _ _ W)). Qed.
(* weak preservation composes when the lists only shrink in the second part *)
Lemma wk_trans a b c : wk a b -> wk b c -> pws b c -> wk a c.
Proof.
  intros H1 H2 P h cid W. destruct (H1 _ _ W) as [W1|N1]; [exact (H2 _ _ W1)|].
  right. intros k Hk. exact (N1 k (P _ _ Hk)).
Qed.

(* same connections and peers: every witness stays *)
Lemma swk_same n n' : n_conns n' = n_conns n -> n_peers n' = n_peers n -> swk n n'.
Proof.
  intros Ec Ep h cid. apply wit_transfer.
  - intros c A C. exists c. unfold get_conn in *. rewrite Ec. auto.
  - intros p D E. exists p. unfold get_peer in *. rewrite Ep. auto.
Qed.

(* one connection changed, keeping id and (when live) host identity and liveness: every witness stays *)
Lemma swk_conns n n' i f :
  n_conns n' = upd_conn (n_conns n) i f -> n_peers n' = n_peers n ->
  (forall c, c_id (f c) = c_id c) ->
  (forall c, get_conn n i = Some c -> live (c_state c) -> c_host (f c) = c_host c /\ live (c_state (f c))) ->
  swk n n'.
Proof.
  intros Ec Ep Hid Hf h cid. apply wit_transfer.
  - intros c A C. rewrite get_conn_unfold in *. rewrite Ec.
    destruct (Nat.eq_dec i cid) as [->|D].
    + exists (f c). rewrite (find_upd_conn_same _ _ _ _ Hid A).
      destruct (Hf c A C). auto.
    + exists c. rewrite find_upd_conn_other by assumption. auto.
  - intros p D E. exists p. unfold get_peer in *. rewrite Ep. auto.
Qed.

(* one peer changed, keeping its name and a set connection pointer: every witness stays *)
Lemma swk_peers n n' nm f :
  n_conns n' = n_conns n -> n_peers n' = upd_peer (n_peers n) nm f ->
  (forall p, p_name (f p) = p_name p) ->
  (forall p, get_peer n nm = Some p -> forall k, p_conn p = Some k -> p_conn (f p) = Some k) ->
  swk n n'.
Proof.
  intros Ec Ep Hnm Hf h cid. apply wit_transfer.
  - intros c A C. exists c. unfold get_conn in *. rewrite Ec. auto.
  - intros p D E. rewrite get_peer_unfold in *. rewrite Ep.
    destruct (String.string_dec nm h) as [->|Dn].
    + exists (f p). rewrite (find_upd_peer_same _ _ _ _ Hnm D). auto.
    + exists p. rewrite find_upd_peer_other by assumption. auto.
Qed.

(* a connection appended: every witness stays *)
Lemma swk_new_conn n n' c0 : n_conns n' = (n_conns n ++ [c0])%list -> n_peers n' = n_peers n -> swk n n'.
Proof.
  intros Ec Ep h cid. apply wit_transfer.
  - intros c A C. exists c. rewrite get_conn_unfold in *. rewrite Ec. rewrite (find_app_l _ _ _ _ A). auto.
  - intros p D E. exists p. unfold get_peer in *. rewrite Ep. auto.
Qed.

(* removing connection cid leaves a peer that points to another connection alone *)
Lemma remove_conn_peer_ptr n cid r h p cid1 :
  get_peer n h = Some p -> p_conn p = Some cid1 -> cid1 <> cid -> get_peer (remove_conn n cid r) h = Some p.
Proof.
  intros Hp Hk Hne. unfold remove_conn. destruct (get_conn n cid) as [c|]; [|exact Hp].
  rewrite get_peer_unfold in *. cbn [n_peers set_apps set_tables set_waiting].
  destruct (find_conn_peer n c) as [p'|] eqn:F; [|exact Hp].
  destruct (p_conn p') as [k0|] eqn:Ek; [|exact Hp].
  destruct (Nat.eqb k0 cid) eqn:E; [|exact Hp]. cbn [n_peers set_peers set_conns].
  apply Nat.eqb_eq in E. subst k0.
  destruct (String.string_dec (p_name p') h) as [En|Dn].
  - exfalso. apply find_conn_peer_get in F. rewrite En, get_peer_unfold, Hp in F. congruence.
  - rewrite find_upd_peer_other; [exact Hp|reflexivity|exact Dn].
Qed.

(* removing a connection drops its host's lists; every other witness stays *)
Lemma wk_remove_conn n cid r : wk n (remove_conn n cid r).
Proof.
  destruct (get_conn n cid) as [c|] eqn:Hc.
  2:{ unfold remove_conn. rewrite Hc. apply swk_wk, swk_refl. }
  intros h cid1 W. destruct (Nat.eq_dec cid1 cid) as [->|D].
  - right. intros k [l [Hin _]]. destruct W as (c1 & _ & A & B & _). rewrite Hc in A. injection A as <-.
    subst h. exact (C09_removed_on_close n cid r c Hc l Hin).
  - left. revert W. apply wit_transfer.
    + intros c1 A C. exists c1. rewrite remove_conn_get_conn_other by exact D. auto.
    + intros p A B. exists p. split; [|exact B]. eapply remove_conn_peer_ptr; eassumption.
Qed.

(* ---- the frame of NodeC together with the witnesses ------------------------------------------ *)
Definition kp (n n' : node) : Prop := frame n n' /\ wk n n'.

(* kp is reflexive *)
Lemma kp_refl n : kp n n.
Proof. split; [apply frame_refl|apply swk_wk, swk_refl]. Qed.
(* kp is transitive *)
Lemma kp_trans a b c : kp a b -> kp b c -> kp a c.
Proof.
  intros [F1 W1] [F2 W2]. split; [eapply frame_trans; eassumption|].
  eapply wk_trans; [exact W1|exact W2|apply F2].
Qed.
(* kp keeps connection ids fresh *)
Lemma kp_fresh n n' : kp n n' -> cid_fresh n -> cid_fresh n'.
Proof. intros [[[_ C] _] _]. apply cids_fresh, C. Qed.
(* sequencing when the second part needs fresh connection ids *)
Lemma kp_seq a b c : kp a b -> (cid_fresh b -> kp b c) -> cid_fresh a -> kp a c.
Proof. intros H1 H2 Fa. eapply kp_trans; [exact H1|]. apply H2. eapply kp_fresh; eassumption. Qed.

(* dropping an entry of the origin table changes nothing kp speaks about *)
Lemma kp_drop_origin n k0 h e : kp n (drop_origin n k0 h e).
Proof. split; [apply frame_same; reflexivity|apply swk_wk, swk_same; reflexivity]. Qed.

(* kp for send_message *)
Lemma send_message_kp n cid m : kp n (fst (send_message n cid m)).
Proof.
  split; [apply send_message_frame|]. apply swk_wk.
  destruct (send_message_conns n cid m) as [Ec Ep].
  eapply swk_conns; [exact Ec|exact Ep|reflexivity|]. intros c _ L. split; [reflexivity|exact L].
Qed.

(* kp for remove_conn *)
Lemma remove_conn_kp n cid r : kp n (remove_conn n cid r).
Proof. split; [apply remove_conn_frame|apply wk_remove_conn]. Qed.

(* kp for close_conn *)
Lemma close_conn_kp n cid r : kp n (fst (close_conn n cid r)).
Proof. unfold close_conn. destruct (get_conn n cid); [apply remove_conn_kp|apply kp_refl]. Qed.

(* the ready states are past the capabilities exchange *)
Lemma live_ready s : is_ready_state s = true -> live s.
Proof. destruct s; cbn; intros H; try discriminate; split; discriminate. Qed.

(* kp for flag_ready *)
Lemma flag_ready_kp n cid : kp n (flag_ready n cid).
Proof.
  split; [apply flag_ready_frame|]. apply swk_wk.
  eapply swk_conns with (i := cid) (f := fun c => set_cstate c SReady); try reflexivity.
  intros c _ _. split; [reflexivity|split; discriminate].
Qed.

(* kp for assign_peer_conn *)
Lemma assign_peer_conn_kp n cid : kp n (assign_peer_conn n cid).
Proof.
  split; [apply assign_peer_conn_frame|]. apply swk_wk.
  unfold assign_peer_conn. destruct (get_conn n cid) as [c|]; [|apply swk_refl].
  destruct (String.eqb (c_host c) String.EmptyString); [apply swk_refl|].
  destruct (get_peer n (c_host c)); [|apply swk_refl].
  match goal with |- swk n (if _ then set_tables ?x _ _ else _) => assert (S : swk n x) end.
  { eapply swk_peers; try reflexivity. intros p0 _ k0 E. cbn. rewrite E. reflexivity. }
  destruct (mem_nat cid (n_half_ready n)); [|exact S].
  eapply swk_trans; [exact S|]. apply swk_same; reflexivity.
Qed.

(* kp for own_request *)
Lemma own_request_kp n cid c : kp n (fst (own_request n cid c)).
Proof.
  split; [apply own_request_frame|]. apply swk_wk.
  unfold own_request. destruct (get_conn n cid) as [cn|]; [|apply swk_refl]. cbn [fst].
  eapply swk_conns with (i := cid); try reflexivity. intros c0 _ L. split; [reflexivity|exact L].
Qed.

(* a change of one connection that keeps id, host identity and liveness; peers and lists untouched *)
Lemma upd_conn_kp n i f :
  (forall c, c_id (f c) = c_id c) ->
  (forall c, get_conn n i = Some c -> live (c_state c) -> c_host (f c) = c_host c /\ live (c_state (f c))) ->
  kp n (set_conns n (upd_conn (n_conns n) i f)).
Proof.
  intros Hid Hf. split; [apply frame_upd_conn; exact Hid|]. apply swk_wk.
  eapply swk_conns; try reflexivity; assumption.
Qed.

(* same connections, peers, waiting lists and id counter: kp *)
Lemma same_kp n n' :
  n_conns n' = n_conns n -> n_peers n' = n_peers n -> pw n' = pw n -> n_next_cid n' = n_next_cid n -> kp n n'.
Proof.
  intros Ec Ep Ew En. split; [|apply swk_wk, swk_same; assumption].
  split; [split|].
  - unfold pmap. rewrite Ep. reflexivity.
  - split; [rewrite En; apply Nat.le_refl|]. intros i Hi. left. rewrite <- Ec. exact Hi.
  - intros h k. rewrite Ew. trivial.
Qed.

(* kp for send_cer *)
Lemma send_cer_kp n cid : kp n (fst (send_cer n cid)).
Proof.
  unfold send_cer. pose proof (own_request_kp n cid CE) as F.
  destruct (own_request n cid CE) as [n1 m]. cbn [fst] in F.
  eapply kp_trans; [exact F|apply send_message_kp].
Qed.

(* kp for send_dwr *)
Lemma send_dwr_kp n cid : kp n (fst (send_dwr n cid)).
Proof.
  unfold send_dwr. pose proof (own_request_kp n cid DW) as F.
  destruct (own_request n cid DW) as [n1 m]. cbn [fst] in F.
  pose proof (send_message_kp n1 cid m) as G. destruct (send_message n1 cid m) as [n2 o]. cbn [fst] in *.
  eapply kp_trans; [exact F|]. eapply kp_trans; [exact G|].
  apply upd_conn_kp; [intros c; destruct (is_ready_state (c_state c)); reflexivity|].
  intros c _ L. destruct (is_ready_state (c_state c)); cbn; split; try reflexivity; try exact L.
  split; discriminate.
Qed.

(* kp for send_dpr *)
Lemma send_dpr_kp n cid : kp n (fst (send_dpr n cid)).
Proof.
  unfold send_dpr. pose proof (own_request_kp n cid DP) as F.
  destruct (own_request n cid DP) as [n1 m]. cbn [fst] in F.
  eapply kp_trans; [exact F|]. eapply kp_trans; [|apply send_message_kp].
  apply upd_conn_kp; [reflexivity|]. intros c _ _. split; [reflexivity|split; discriminate].
Qed.

(* kp for check_timers *)
Lemma check_timers_kp n cid : kp n (fst (check_timers n cid)).
Proof.
  unfold check_timers. destruct (n_stopping n); [apply kp_refl|].
  destruct (get_conn n cid) as [c|]; [|apply kp_refl].
  destruct (c_state c); try apply kp_refl;
    match goal with |- context [if ?b then _ else _] => destruct b end;
    first [apply kp_refl|apply close_conn_kp|apply send_dwr_kp].
Qed.

(* kp for timers_all *)
Lemma timers_all_kp cids0 : forall n, kp n (fst (timers_all n cids0)).
Proof.
  induction cids0 as [|c r IH]; intros n; cbn [timers_all]; [apply kp_refl|].
  pose proof (check_timers_kp n c) as G1. destruct (check_timers n c) as [n1 o1].
  pose proof (IH n1) as G2. destruct (timers_all n1 r) as [n2 o2]. cbn [fst] in *.
  eapply kp_trans; eassumption.
Qed.

(* kp for flush_conns *)
Lemma flush_conns_kp cids0 : forall n, kp n (fst (flush_conns n cids0)).
Proof.
  induction cids0 as [|cid r IH]; intros n; cbn [flush_conns]; [apply kp_refl|].
  match goal with |- context [let '(_, _) := ?X in _] => assert (G1 : kp n (fst X)) end.
  { destruct (get_conn n cid) as [c|]; [|apply kp_refl].
    destruct (c_stalled c || negb (c_sock_open c)); [apply kp_refl|].
    assert (U : kp n (set_conns n (upd_conn (n_conns n) cid (fun c0 => set_cout c0 [])))).
    { apply upd_conn_kp; [reflexivity|]. intros c0 _ L. split; [reflexivity|exact L]. }
    destruct (c_out c) as [|m0 ms]; [exact U|].
    destruct (cstate_eqb (c_state c) SClosing); [|exact U].
    pose proof (close_conn_kp (set_conns n (upd_conn (n_conns n) cid (fun c0 => set_cout c0 []))) cid R_CLEAN) as G.
    destruct (close_conn _ cid R_CLEAN) as [n'' oc]. cbn [fst] in *. eapply kp_trans; eassumption. }
  match goal with |- context [let '(_, _) := ?X in _] => destruct X as [n1 o1] end.
  pose proof (IH n1) as G2. destruct (flush_conns n1 r) as [n2 o2]. cbn [fst] in *.
  eapply kp_trans; eassumption.
Qed.

(* kp for flush *)
Lemma flush_kp n : kp n (fst (flush n)).
Proof. apply flush_conns_kp. Qed.

(* dialling a peer (fresh connection id) keeps the witnesses *)
Lemma connect_to_peer_wk n name h res : cid_fresh n -> wk n (fst (connect_to_peer n name h res)).
Proof.
  intros Fr. unfold connect_to_peer. destruct (get_peer n name) as [p|] eqn:Hp; [|apply swk_wk, swk_refl].
  destruct (p_conn p) eqn:Hk; [apply swk_wk, swk_refl|].
  destruct (negb (p_has_addr p)); [apply swk_wk, swk_refl|].
  cbv zeta. set (cid := n_next_cid n). set (c := new_conn cid false SConnecting name (n_now n) h).
  match goal with |- context [close_conn ?x _ _] => set (n3 := x) end.
  assert (S3 : swk n n3).
  { eapply swk_trans with (b := set_conns n (n_conns n ++ [c])%list).
    - eapply swk_new_conn; reflexivity.
    - eapply swk_peers with (nm := name); try reflexivity.
      intros p0 E0 k0 E1. change (get_peer n name = Some p0) in E0. congruence. }
  assert (G3 : get_conn n3 cid = Some c).
  { rewrite get_conn_unfold. change (n_conns n3) with (n_conns n ++ [c])%list.
    rewrite find_app_r by (apply fresh_find_none; exact Fr). cbn. unfold by_cid. cbn. rewrite Nat.eqb_refl. reflexivity. }
  destruct res.
  - set (n4 := set_conns n3 (upd_conn (n_conns n3) cid (fun c0 => set_cstate c0 SConnected))).
    pose proof (send_cer_kp n4 cid) as [F W]. destruct (send_cer n4 cid) as [n5 o]. cbn [fst] in *.
    eapply wk_trans; [|exact W|apply F]. apply swk_wk. eapply swk_trans; [exact S3|].
    eapply swk_conns with (i := cid); try reflexivity.
    intros c0 E0 [L _]. rewrite G3 in E0. injection E0 as <-. exfalso. apply L. reflexivity.
  - pose proof (close_conn_kp n3 cid R_SOCKET_FAIL) as [F W]. destruct (close_conn n3 cid R_SOCKET_FAIL) as [n4 o].
    cbn [fst] in *. eapply wk_trans; [apply swk_wk; exact S3|exact W|apply F].
  - cbn [fst]. apply swk_wk. exact S3.
Qed.

(* kp for connect_to_peer *)
Lemma connect_to_peer_kp n name h res : cid_fresh n -> kp n (fst (connect_to_peer n name h res)).
Proof. intros Fr. split; [apply connect_to_peer_frame|apply connect_to_peer_wk; exact Fr]. Qed.

(* kp for reconnect_all *)
Lemma reconnect_all_kp names : forall n ds, cid_fresh n -> kp n (fst (fst (reconnect_all n names ds))).
Proof.
  induction names as [|nm r IH]; intros n ds Fr; cbn [reconnect_all]; [apply kp_refl|].
  destruct (get_peer n nm) as [p|]; [|apply IH; exact Fr].
  destruct (wants_reconnect n p && p_has_addr p); [|apply IH; exact Fr].
  destruct ds as [|[h0 res] dr].
  - pose proof (connect_to_peer_kp n nm 0 DialOk Fr) as G1. destruct (connect_to_peer n nm 0 DialOk) as [n1 o1].
    pose proof (IH n1 []) as G2. destruct (reconnect_all n1 r []) as [[n2 o2] d2]. cbn [fst] in *.
    eapply kp_seq; eassumption.
  - pose proof (connect_to_peer_kp n nm h0 res Fr) as G1. destruct (connect_to_peer n nm h0 res) as [n1 o1].
    pose proof (IH n1 dr) as G2. destruct (reconnect_all n1 r dr) as [[n2 o2] d2]. cbn [fst] in *.
    eapply kp_seq; eassumption.
Qed.

(* kp for io_iteration *)
Lemma io_iteration_kp n ds : cid_fresh n -> kp n (fst (fst (io_iteration n ds))).
Proof.
  intros Fr. unfold io_iteration.
  pose proof (timers_all_kp (List.map c_id (n_conns n)) n) as G1.
  destruct (timers_all n (List.map c_id (n_conns n))) as [n1 o1].
  pose proof (reconnect_all_kp (List.map p_name (n_peers n1)) n1 ds) as G2.
  destruct (reconnect_all n1 (List.map p_name (n_peers n1)) ds) as [[n2 o2] ds']. cbn [fst] in *.
  eapply kp_trans; [eapply kp_seq; eassumption|]. apply same_kp; reflexivity.
Qed.

(* kp for settle *)
Lemma settle_kp n ds : cid_fresh n -> kp n (fst (fst (settle n ds))).
Proof.
  intros Fr. unfold settle. pose proof (flush_kp n) as G1. destruct (flush n) as [n1 o1].
  pose proof (io_iteration_kp n1 ds) as G2. destruct (io_iteration n1 ds) as [[n2 o2] ds']. cbn [fst] in *.
  pose proof (flush_kp n2) as G3. destruct (flush n2) as [n3 o3]. cbn [fst] in *.
  eapply kp_trans; [eapply kp_seq; eassumption|exact G3].
Qed.

(* kp for settle' *)
Lemma settle'_kp n ds : cid_fresh n -> kp n (fst (settle' n ds)).
Proof. intros Fr. unfold settle'. pose proof (settle_kp n ds Fr) as G. destruct (settle n ds) as [[n1 o1] d]. exact G. Qed.

(* kp followed by the I/O thread settling *)
Lemma then_settle_kp n n1 o1 ds :
  cid_fresh n -> kp n n1 -> kp n (fst (let '(n2, o2) := settle' n1 ds in (n2, (o1 ++ o2)%list))).
Proof.
  intros Fr G. pose proof (settle'_kp n1 ds) as G2. destruct (settle' n1 ds) as [n2 o2]. cbn [fst] in *.
  eapply kp_seq; eassumption.
Qed.

(* kp for settle_app / settle_app' (application events) *)
Lemma settle_app_kp n ds : cid_fresh n -> kp n (fst (fst (settle_app n ds))).
Proof.
  intros Fr. unfold settle_app.
  pose proof (io_iteration_kp n ds) as G2. destruct (io_iteration n ds) as [[n2 o2] ds']. cbn [fst] in *.
  pose proof (flush_kp n2) as G3. destruct (flush n2) as [n3 o3]. cbn [fst] in *.
  eapply kp_trans; [apply G2; exact Fr|exact G3].
Qed.
Lemma settle_app'_kp n ds : cid_fresh n -> kp n (fst (settle_app' n ds)).
Proof. intros Fr. unfold settle_app'. pose proof (settle_app_kp n ds Fr) as G. destruct (settle_app n ds) as [[n1 o1] d]. exact G. Qed.
Lemma then_settle_app_kp n n1 o1 ds :
  cid_fresh n -> kp n n1 -> kp n (fst (let '(n2, o2) := settle_app' n1 ds in (n2, (o1 ++ o2)%list))).
Proof.
  intros Fr G. pose proof (settle_app'_kp n1 ds) as G2. destruct (settle_app' n1 ds) as [n2 o2]. cbn [fst] in *.
  eapply kp_seq; eassumption.
Qed.

(* kp for wake *)
Lemma wake_kp target fuel :
  forall n ds acc n0, cid_fresh n0 -> kp n0 n -> kp n0 (fst (wake target fuel n ds acc)).
Proof.
  induction fuel as [|f IH]; intros n ds acc n0 Fr F; cbn [wake].
  - cbn [fst]. eapply kp_trans; [exact F|]. apply same_kp; reflexivity.
  - destruct (n_io_deadline n <=? target).
    + cbv zeta. set (n1 := set_time n (n_io_deadline n) (n_io_deadline n)).
      assert (F1 : kp n0 n1) by (eapply kp_trans; [exact F|apply same_kp; reflexivity]).
      pose proof (settle_kp n1 ds (kp_fresh _ _ F1 Fr)) as G. destruct (settle n1 ds) as [[n2 o2] ds2]. cbn [fst] in G.
      apply IH; [exact Fr|]. eapply kp_trans; eassumption.
    + cbn [fst]. eapply kp_trans; [exact F|]. apply same_kp; reflexivity.
Qed.

(* kp for stop_go *)
Lemma stop_go_kp cids0 :
  forall n acc n0, kp n0 n -> kp n0 (fst (stop_go cids0 n acc)).
Proof.
  induction cids0 as [|c r IH]; intros n acc n0 F; cbn [stop_go]; [exact F|].
  destruct (get_conn n c) as [cn|]; [|apply IH; assumption].
  destruct (is_ready_state (c_state cn)); [|apply IH; assumption].
  pose proof (send_dpr_kp n c) as G. destruct (send_dpr n c) as [n1 o1]. cbn [fst] in G.
  apply IH. eapply kp_trans; eassumption.
Qed.

(* kp for finish_go *)
Lemma finish_go_kp cids0 :
  forall n acc n0, kp n0 n -> kp n0 (fst (finish_go cids0 n acc)).
Proof.
  induction cids0 as [|c r IH]; intros n acc n0 F; cbn [finish_go]; [exact F|].
  pose proof (close_conn_kp n c R_SHUTDOWN) as G. destruct (close_conn n c R_SHUTDOWN) as [n1 o1]. cbn [fst] in G.
  apply IH. eapply kp_trans; eassumption.
Qed.

(* kp for start_go *)
Lemma start_go_kp names :
  forall n ds acc n0, cid_fresh n0 -> kp n0 n -> kp n0 (fst (fst (start_go names n ds acc))).
Proof.
  induction names as [|nm r IH]; intros n ds acc n0 Fr F; cbn [start_go]; [exact F|].
  destruct (get_peer n nm) as [p|]; [|apply IH; assumption].
  destruct (p_persistent p); [|apply IH; assumption].
  destruct ds as [|[h0 res] dr].
  - pose proof (connect_to_peer_kp n nm 0 DialOk (kp_fresh _ _ F Fr)) as G. destruct (connect_to_peer n nm 0 DialOk) as [n1 o1].
    cbn [fst] in G. apply IH; [exact Fr|]. eapply kp_trans; eassumption.
  - pose proof (connect_to_peer_kp n nm h0 res (kp_fresh _ _ F Fr)) as G. destruct (connect_to_peer n nm h0 res) as [n1 o1].
    cbn [fst] in G. apply IH; [exact Fr|]. eapply kp_trans; eassumption.
Qed.

(* kp for close_all *)
Lemma close_all_kp cids0 r : forall n, kp n (fst (close_all n cids0 r)).
Proof.
  induction cids0 as [|k l IH]; intros n; cbn [close_all]; [apply kp_refl|].
  pose proof (close_conn_kp n k r) as G1. destruct (close_conn n k r) as [n1 o1].
  pose proof (IH n1) as G2. destruct (close_all n1 l r) as [n2 o2]. cbn [fst] in *.
  eapply kp_trans; eassumption.
Qed.

(* ---- the reader thread ------------------------------------------------------------------------ *)
Lemma not_live_connected s : cstate_eqb s SConnected = true -> ~ live s.
Proof. destruct s; cbn; try discriminate. intros _ [_ H]. apply H. reflexivity. Qed.

(* writing the host identity of a connection that still awaits the capabilities exchange *)
Lemma set_host_kp n cid host au ac :
  (forall c, get_conn n cid = Some c -> cstate_eqb (c_state c) SConnected = true) ->
  kp n (set_conns n (upd_conn (n_conns n) cid (fun c => set_cident c (c_node_name c) host (au c) (ac c)))).
Proof.
  intros Hs. apply upd_conn_kp; [reflexivity|]. intros c Hc L. exfalso.
  exact (not_live_connected _ (Hs c Hc) L).
Qed.

(* kp for recv_cer *)
Lemma recv_cer_kp n cid m : kp n (fst (recv_cer n cid m)).
Proof.
  unfold recv_cer. destruct (get_conn n cid) as [c0|] eqn:Hc0; [|apply kp_refl].
  destruct (cstate_eqb (c_state c0) SConnected) eqn:Hs0; cbn [negb]; [|apply kp_drop_origin].
  destruct (pres_get (m_origin m)) as [host|]; [|apply kp_refl].
  destruct (get_peer n host) as [p|].
  2:{ eapply kp_trans; [|apply send_message_kp]. apply upd_conn_kp; [reflexivity|].
      intros c _ _. split; [reflexivity|split; discriminate]. }
  cbv zeta.
  set (nf := fun c : conn => if String.eqb (c_node_name c) String.EmptyString
                             then set_cident c host (c_host c) (c_auth c) (c_acct c) else c).
  set (n0 := set_conns n (upd_conn (n_conns n) cid nf)).
  assert (Hid : forall c, c_id (nf c) = c_id c) by (intros c; unfold nf; destruct (String.eqb _ _); reflexivity).
  assert (F0 : kp n n0).
  { apply upd_conn_kp; [exact Hid|]. intros c _ L. unfold nf. destruct (String.eqb _ _); split; try reflexivity; exact L. }
  assert (G0 : forall c, get_conn n0 cid = Some c -> cstate_eqb (c_state c) SConnected = true).
  { intros c E. rewrite get_conn_unfold in E, Hc0. unfold n0 in E. cbn [n_conns set_conns] in E.
    rewrite (find_upd_conn_same _ _ _ _ Hid Hc0) in E. injection E as <-. unfold nf.
    destruct (String.eqb _ _); exact Hs0. }
  assert (L : kp n (fst (send_message (set_conns n0 (upd_conn (n_conns n0) cid (fun c => set_cstate c SClosing))) cid
                                 (answer_of m (Some RC_ELECTION_LOST) [])))).
  { eapply kp_trans; [exact F0|]. eapply kp_trans; [|apply send_message_kp]. apply upd_conn_kp; [reflexivity|].
    intros c _ _. split; [reflexivity|split; discriminate]. }
  pose proof (close_all_kp (election_rivals n0 cid host) R_CLEAN n0) as G.
  pose proof (NodeD.close_all_get (election_rivals n0 cid host) n0 R_CLEAN cid) as Gg.
  clearbody n0. clear Hid.
  destruct (close_all n0 (election_rivals n0 cid host) R_CLEAN) as [n1 oel]. cbn [fst] in *.
  assert (G' : kp n n1) by (eapply kp_trans; [exact F0|exact G]).
  assert (A : kp n (fst (let '(n2, o) := send_message n1 cid (answer_of m (Some RC_NO_COMMON_APP) []) in (n2, (oel ++ o)%list)))).
  { pose proof (send_message_kp n1 cid (answer_of m (Some RC_NO_COMMON_APP) [])) as G2.
    destruct (send_message n1 cid (answer_of m (Some RC_NO_COMMON_APP) [])) as [n2 o]. eapply kp_trans; [exact G'|exact G2]. }
  match goal with |- context [flag_ready (assign_peer_conn ?x cid) cid] => set (n2 := x) end.
  assert (F2 : kp n1 n2).
  { apply (set_host_kp n1 cid host (fun _ => inter_z (node_auth n1) (m_auth m)) (fun _ => inter_z (node_acct n1) (m_acct m))).
    intros c E. apply G0, Gg, E. }
  set (n3 := flag_ready (assign_peer_conn n2 cid) cid).
  assert (F3 : kp n1 n3).
  { eapply kp_trans; [exact F2|]. eapply kp_trans; [apply assign_peer_conn_kp|apply flag_ready_kp]. }
  clearbody n3.
  assert (B : kp n (fst (let '(n4, o) := send_message n3 cid (answer_of m (Some RC_SUCCESS) []) in (n4, (oel ++ o)%list)))).
  { pose proof (send_message_kp n3 cid (answer_of m (Some RC_SUCCESS) [])) as G2.
    destruct (send_message n3 cid (answer_of m (Some RC_SUCCESS) [])) as [n4 o]. cbn [fst] in *.
    eapply kp_trans; [exact G'|]. eapply kp_trans; [exact F3|exact G2]. }
  assert (W : kp n (fst
                match inter_z (node_auth n1) (m_auth m), inter_z (node_acct n1) (m_acct m),
                      mem_z APP_RELAY (m_auth m) || mem_z APP_RELAY (m_acct m) with
                | [], [], false =>
                    let '(n2, o) := send_message n1 cid (answer_of m (Some RC_NO_COMMON_APP) []) in (n2, (oel ++ o)%list)
                | _, _, _ =>
                    let '(n4, o) := send_message n3 cid (answer_of m (Some RC_SUCCESS) []) in (n4, (oel ++ o)%list)
                end)).
  { destruct (inter_z (node_auth n1) (m_auth m)); [|exact B].
    destruct (inter_z (node_acct n1) (m_acct m)); [|exact B].
    destruct (mem_z APP_RELAY (m_auth m) || mem_z APP_RELAY (m_acct m)); [exact B|exact A]. }
  destruct (election_rivals n0 cid host) as [|k0 ks]; [exact W|].
  destruct (String.ltb host (g_host (n_cfg n0))); [exact W|exact L].
Qed.

(* kp for recv_cea *)
Lemma recv_cea_kp n cid m : kp n (fst (recv_cea n cid m)).
Proof.
  unfold recv_cea.
  assert (B : kp n (fst (close_conn n cid R_CER_REJECTED))) by apply close_conn_kp.
  destruct (get_conn n cid) as [c0|] eqn:Hc0; [|apply kp_refl].
  destruct (cstate_eqb (c_state c0) SConnected) eqn:Hs0; cbn [negb]; [|apply kp_refl].
  match goal with |- context [match pres_get (m_origin m) with Some h => @?f h | None => ?y end] =>
    assert (A : kp n (fst (match pres_get (m_origin m) with Some h => f h | None => y end))) end.
  { destruct (pres_get (m_origin m)) as [host|]; [|apply kp_refl]. cbv beta.
    destruct (negb (String.eqb (c_node_name c0) String.EmptyString) && negb (String.eqb host (c_node_name c0))); [exact B|].
    cbn [fst]. eapply kp_trans; [|eapply kp_trans; [apply assign_peer_conn_kp|apply flag_ready_kp]].
    apply (set_host_kp n cid host (fun _ => inter_z (node_auth n) (m_auth m)) (fun _ => inter_z (node_acct n) (m_acct m))).
    intros c E. rewrite Hc0 in E. injection E as <-. exact Hs0. }
  cbv beta in A.
  destruct (m_result m) as [| |z]; try exact B.
  destruct z as [|p|p]; try exact B.
  do 11 (destruct p as [p|p|]; try exact B). exact A.
Qed.

(* kp for recv_dwa *)
Lemma recv_dwa_kp n cid : kp n (fst (recv_dwa n cid)).
Proof.
  unfold recv_dwa. cbn [fst]. apply upd_conn_kp.
  - intros c. destruct (cstate_eqb (c_state c) SReadyWaitDwa); reflexivity.
  - intros c _ L. destruct (cstate_eqb (c_state c) SReadyWaitDwa); cbn; split; try reflexivity; try exact L.
    split; discriminate.
Qed.

(* kp for recv_dpr *)
Lemma recv_dpr_kp n cid m : kp n (fst (recv_dpr n cid m)).
Proof.
  unfold recv_dpr. eapply kp_trans; [|apply send_message_kp].
  set (n1 := set_conns n (upd_conn (n_conns n) cid (fun c => set_cstate c SDisconnecting))).
  assert (F1 : kp n n1).
  { apply upd_conn_kp; [reflexivity|]. intros c _ _. split; [reflexivity|split; discriminate]. }
  clearbody n1. eapply kp_trans; [exact F1|].
  destruct (get_conn n1 cid) as [c|]; [|apply kp_refl].
  destruct (find_conn_peer n1 c) as [p|]; [|apply kp_refl].
  split; [apply frame_upd_peer; reflexivity|]. apply swk_wk.
  eapply swk_peers; try reflexivity. intros p0 _ k0 E. exact E.
Qed.

(* kp for recv_dpa *)
Lemma recv_dpa_kp n cid : kp n (fst (recv_dpa n cid)).
Proof.
  unfold recv_dpa. set (n1 := set_conns n (upd_conn (n_conns n) cid (fun c => set_cstate c SClosing))).
  assert (F1 : kp n n1).
  { apply upd_conn_kp; [reflexivity|]. intros c _ _. split; [reflexivity|split; discriminate]. }
  clearbody n1.
  destruct (get_conn n1 cid) as [c|]; [|exact F1].
  destruct (c_out c); [|exact F1].
  eapply kp_trans; [exact F1|]. apply close_conn_kp.
Qed.

(* kp for recv_app_answer *)
Lemma recv_app_answer_kp n m : kp n (fst (recv_app_answer n m)).
Proof.
  unfold recv_app_answer.
  destruct (List.find _ (n_app_waiting n)) as [[[a b] i]|]; [|apply kp_refl].
  destruct (List.nth_error (n_apps n) i) as [a0|]; [|apply kp_refl].
  destruct (mem_z (m_hbh m) (List.map fst (a_waiting a0))); cbn [fst]; apply same_kp; reflexivity.
Qed.

(* ---- results of the reader thread for frames ms read from connection cid ------------------------
   the pair k is on host h's list afterwards only if one of the frames carrying it was delivered and cid is
   the witness of h, or it was there before and every witness of h has stayed *)
Definition rres (h : String.string) (k : Z * Z) (cid : nat) (ms : list msg) (n : node) (r : node * list output) : Prop :=
  pw_has (pw (fst r)) h k ->
  (exists i m, List.In m ms /\ m_req m = true /\ k = (m_hbh m, m_e2e m) /\
               List.In (ODeliver i m) (snd r) /\ wit cid h (fst r))
  \/ (pw_has (pw n) h k /\ forall cid1, wit cid1 h n -> wit cid1 h (fst r)).

(* a kp result is a reader result *)
Lemma rres_of_kp h k cid ms n r : kp n (fst r) -> rres h k cid ms n r.
Proof.
  intros [[_ P] W] H. right. split; [exact (P _ _ H)|].
  intros cid1 W1. destruct (W _ _ W1) as [W2|N]; [exact W2|]. exfalso. exact (N _ H).
Qed.

(* reader results compose *)
Lemma rres_app h k cid ms1 ms2 n n1 o1 n2 o2 :
  rres h k cid ms1 n (n1, o1) -> rres h k cid ms2 n1 (n2, o2) -> rres h k cid (ms1 ++ ms2)%list n (n2, (o1 ++ o2)%list).
Proof.
  intros A B H. cbn [fst snd] in *. destruct (B H) as [(i & m & Hm & Hr & Hk & Hd & Hw)|[H1 Hw]].
  - left. exists i, m. repeat split; try assumption; apply List.in_or_app; right; assumption.
  - destruct (A H1) as [(i & m & Hm & Hr & Hk & Hd & Hw1)|[H0 Hw0]].
    + left. exists i, m. repeat split; try assumption; try (apply List.in_or_app; left; assumption).
      apply Hw, Hw1.
    + right. split; [exact H0|]. intros cid1 W. apply Hw, Hw0, W.
Qed.

(* kp before a reader result *)
Lemma rres_pre h k cid ms n n0 r : kp n n0 -> rres h k cid ms n0 r -> rres h k cid ms n r.
Proof.
  intros K A. destruct r as [n' o].
  apply (rres_app h k cid [] ms n n0 [] n' o); [|exact A]. apply rres_of_kp. exact K.
Qed.

(* kp after a reader result (outputs may grow) *)
Lemma rres_post h k cid ms n n1 o n2 o' :
  rres h k cid ms n (n1, o) -> kp n1 n2 -> (forall x, List.In x o -> List.In x o') -> rres h k cid ms n (n2, o').
Proof.
  intros A K Ho H.
  pose proof (rres_app h k cid ms [] n n1 o n2 [] A (rres_of_kp _ _ _ _ _ (n2, []) K) H) as R.
  cbn [fst snd] in *. rewrite !List.app_nil_r in R.
  destruct R as [(i & m & Hm & Hr & Hk & Hd & Hw)|R]; [left|right; exact R].
  exists i, m. repeat split; try assumption. apply Ho, Hd.
Qed.

(* an application request: the new pair comes with a delivery and the connection is the witness of its host *)
Lemma recv_app_request_r h k n cid m :
  m_req m = true -> (forall c, get_conn n cid = Some c -> wit cid (c_host c) n) ->
  rres h k cid [m] n (recv_app_request n cid m).
Proof.
  intros Hr Hw. unfold recv_app_request.
  destruct (get_conn n cid) as [c|] eqn:Hc; [|apply rres_of_kp, kp_refl].
  destruct (m_drealm m) as [| |realm]; try (apply rres_of_kp, send_message_kp).
  destruct (route_lookup n realm) as [entries|]; [|apply rres_of_kp, send_message_kp].
  destruct (List.find _ entries) as [[[i|] l]|]; try (apply rres_of_kp, send_message_kp).
  cbv zeta.
  set (n1 := set_waiting n (n_app_waiting n) (pw_add (pw n) (c_host c) (m_hbh m, m_e2e m))
                          (n_origin_waiting n) (n_sent_answers n)).
  assert (S1 : swk n n1) by (apply swk_same; reflexivity).
  assert (D : rres h k cid [m] n (n1, [ODeliver i m])).
  { intros H. cbn [fst snd] in *. apply pw_has_add in H. destruct H as [H|[-> ->]].
    - right. split; [exact H|]. intros cid1. apply S1.
    - left. exists i, m. repeat split; try (left; reflexivity); try assumption. apply S1, Hw. reflexivity. }
  destruct (handler_raises m); [|exact D].
  pose proof (send_message_kp n1 cid (answer_of m (Some RC_UNABLE) [])) as K.
  destruct (send_message n1 cid (answer_of m (Some RC_UNABLE) [])) as [n2 o]. cbn [fst] in K.
  eapply rres_post; [exact D|exact K|]. intros x [<-|[]]. left. reflexivity.
Qed.

(* one message handled by the node *)
Lemma receive_message_r h k n cid m :
  (m_req m = true -> (exists a, m_cmd m = App a) -> forall c, get_conn n cid = Some c -> wit cid (c_host c) n) ->
  rres h k cid [m] n (receive_message n cid m).
Proof.
  intros Hw. unfold receive_message. cbv zeta.
  match goal with |- context [send_message ?x cid (answer_of m (Some RC_MISSING_AVP) _)] => set (n0 := x) end.
  assert (K0 : kp n n0).
  { unfold n0. destruct (m_origin m); [apply kp_refl| |]; destruct (m_req m); try apply kp_refl;
      apply same_kp; reflexivity. }
  assert (S0 : swk n n0).
  { unfold n0. destruct (m_origin m); [apply swk_refl| |]; destruct (m_req m); try apply swk_refl;
      apply swk_same; reflexivity. }
  assert (G0 : forall i, get_conn n0 i = get_conn n i).
  { intros i. unfold n0. destruct (m_origin m); [reflexivity| |]; destruct (m_req m); reflexivity. }
  clearbody n0.
  apply (rres_pre h k cid [m] n n0 _ K0).
  destruct (if m_req m && g_validate (n_cfg n0) then m_missing m else []); [|apply rres_of_kp, send_message_kp].
  match goal with |- context [if ?d then _ else _] => destruct d end; [apply rres_of_kp, send_message_kp|].
  destruct (m_req m) eqn:Hr, (m_cmd m) eqn:Hcmd.
  - destruct (m_origin m); first [apply rres_of_kp, send_message_kp|apply rres_of_kp, recv_cer_kp].
  - apply rres_of_kp. unfold recv_dwr. apply send_message_kp.
  - apply rres_of_kp, recv_dpr_kp.
  - apply recv_app_request_r; [exact Hr|]. intros c Hc. apply S0. rewrite G0 in Hc. apply Hw; eauto.
  - apply rres_of_kp, recv_cea_kp.
  - apply rres_of_kp, recv_dwa_kp.
  - apply rres_of_kp, recv_dpa_kp.
  - apply rres_of_kp, recv_app_answer_kp.
Qed.

(* what the reader needs of the connection it reads from: not CONNECTING, and once past the capabilities
   exchange the peer named by its host identity points to it *)
Definition dpre (n : node) (cid : nat) : Prop :=
  forall c, get_conn n cid = Some c ->
    c_state c <> SConnecting /\
    (NodeD.est (c_state c) -> exists p, get_peer n (c_host c) = Some p /\ p_conn p = Some cid).

(* one frame through the gate *)
Lemma dispatch_r h k n cid m : dpre n cid -> rres h k cid [m] n (dispatch n cid m).
Proof.
  intros Hp. unfold dispatch. destruct (get_conn n cid) as [c|] eqn:Hc; [|apply rres_of_kp, kp_refl].
  destruct (gate_passes c m) eqn:Hg; [|apply rres_of_kp, kp_refl].
  apply receive_message_r. intros Hr [a Ha] c' Hc'. rewrite Hc in Hc'. injection Hc' as <-.
  destruct (Hp c Hc) as [Hn He].
  assert (E : NodeD.est (c_state c)).
  { unfold gate_passes in Hg. rewrite Ha in Hg. destruct (c_state c); cbn in *; try exact I; try discriminate.
    exfalso. apply Hn. reflexivity. }
  destruct (He E) as (p & P1 & P2). exists c, p. repeat split; try assumption; apply (NodeD.est_live _ E).
Qed.

Fixpoint dpres (n : node) (cid : nat) (ms : list msg) : Prop :=
  match ms with
  | [] => True
  | m :: r => dpre n cid /\ dpres (fst (dispatch n cid m)) cid r
  end.

(* the frames of one read *)
Lemma dispatch_all_r h k cid ms : forall n, dpres n cid ms -> rres h k cid ms n (dispatch_all n cid ms).
Proof.
  induction ms as [|m r IH]; intros n Hp; cbn [dispatch_all]; [apply rres_of_kp, kp_refl|].
  destruct Hp as [Hp1 Hp2].
  pose proof (dispatch_r h k n cid m Hp1) as G1. destruct (dispatch n cid m) as [n1 o1]. cbn [fst] in Hp2.
  pose proof (IH n1 Hp2) as G2. destruct (dispatch_all n1 cid r) as [n2 o2].
  exact (rres_app h k cid [m] r n n1 o1 n2 o2 G1 G2).
Qed.

(* ---- the step function ------------------------------------------------------------------------- *)
Lemma route_answer_kp n a : kp n (snd (route_answer n a)).
Proof.
  split; [apply route_answer_frame|]. apply swk_wk. unfold route_answer.
  destruct (List.find _ (n_peer_waiting n)) as [[host l]|]; [|apply swk_refl].
  match goal with |- context [List.find ?f (n_conns ?x)] => destruct (List.find f (n_conns x)) as [c|] end.
  - destruct (is_ready_state (c_state c)); apply swk_same; reflexivity.
  - apply swk_same; reflexivity.
Qed.

(* kp for req_core *)
Lemma req_core_kp n0 e2e ds i m realm pick tmo : cid_fresh n0 -> kp n0 (fst (req_core n0 e2e ds i m realm pick tmo)).
Proof.
  intros Fr. unfold req_core. destruct (route_request n0 i realm) as [[|u us]|]; try apply kp_refl.
  destruct (choose (u :: us) pick) as [p|]; [|apply kp_refl].
  destruct (p_conn p) as [cid|]; [|apply kp_refl].
  destruct (get_conn n0 cid) as [c|]; [|apply kp_refl].
  match goal with |- context [if o_hbh m =? 0 then (?a, ?b) else _] => assert (K1 : kp n0 (fst (if o_hbh m =? 0 then (a, b) else (n0, o_hbh m)))) end.
  { destruct (o_hbh m =? 0); [|apply kp_refl]. cbn [fst]. apply upd_conn_kp; [reflexivity|].
    intros c0 _ L. split; [reflexivity|exact L]. }
  match goal with |- context [let '(_, _) := ?X in _] => destruct X as [n1 hbh] end. cbn [fst] in K1. cbv zeta.
  match goal with |- context [send_message ?x cid ?mm] =>
    assert (K3 : kp n1 x) by (apply same_kp; reflexivity);
    pose proof (send_message_kp x cid mm) as K4; destruct (send_message x cid mm) as [n4 o4] end.
  cbn [fst] in K4. apply then_settle_app_kp; [exact Fr|].
  eapply kp_trans; [exact K1|]. eapply kp_trans; [exact K3|exact K4].
Qed.

(* every event but a network read *)
Lemma step_other_kp n ds e : (forall cid ms, e <> ERecv cid ms) -> cid_fresh n -> kp n (fst (step n ds e)).
Proof.
  intros Hne Fr.
  destruct e as [hbh0|cid ms|cid|cid hard|cid ok|cid b|dt|i m|i m realm pick timeout|force|tclose tend|].
  - (* EAccept *)
    cbn [step]. destruct (n_stopping n).
    + cbn [fst]. split; [|apply swk_wk, swk_same; reflexivity].
      split; [split; [reflexivity|]|intros h k H; exact H]. split; [cbn; lia|]. intros j Hj. left. exact Hj.
    + cbv zeta. match goal with |- context [settle' ?x ds] => set (n2 := x) end.
      assert (K2 : kp n n2).
      { split; [|apply swk_wk; eapply swk_new_conn; reflexivity].
        split; [split; [reflexivity|]|intros h k H; exact H]. split; [cbn; lia|]. intros j Hj. cbn in Hj.
        rewrite List.map_app in Hj. apply List.in_app_or in Hj. destruct Hj as [Hj|[<-|[]]]; [left; exact Hj|].
        right. cbn. lia. }
      eapply kp_seq; [exact K2|apply settle'_kp|exact Fr].
  - exfalso. eapply Hne. reflexivity.
  - (* EPeerClose *)
    cbn [step]. pose proof (close_conn_kp n cid R_GONE) as G. destruct (close_conn n cid R_GONE) as [n1 o1].
    apply then_settle_kp; [exact Fr|exact G].
  - (* EReadErr *)
    cbn [step].
    assert (G : kp n (fst (if hard then close_conn n cid R_SOCKET_FAIL else (n, [])))).
    { destruct hard; [apply close_conn_kp|apply kp_refl]. }
    destruct (if hard then close_conn n cid R_SOCKET_FAIL else (n, [])) as [n1 o1].
    apply then_settle_kp; [exact Fr|exact G].
  - (* EConnDone *)
    cbn [step]. destruct (get_conn n cid) as [c|] eqn:Hc; [|apply kp_refl].
    destruct (cstate_eqb (c_state c) SConnecting) eqn:Hs; [|apply kp_refl].
    destruct ok.
    + cbv zeta. match goal with |- context [send_cer ?x cid] => set (n2 := x) end.
      assert (F : kp n n2).
      { unfold n2. eapply kp_trans.
        - apply (upd_conn_kp n cid (fun c0 => set_cstate c0 SConnected)); [reflexivity|].
          intros c0 E [L _]. rewrite Hc in E. injection E as <-. exfalso. apply L.
          destruct (c_state c); try discriminate; reflexivity.
        - match goal with |- context [find_conn_peer ?a ?b] => destruct (find_conn_peer a b) as [p|] end; [|apply kp_refl].
          split; [apply frame_upd_peer; reflexivity|]. apply swk_wk.
          eapply swk_peers; try reflexivity. intros p0 _ k0 E. exact E. }
      clearbody n2.
      pose proof (send_cer_kp n2 cid) as G3. destruct (send_cer n2 cid) as [n3 o3]. cbn [fst] in G3.
      assert (G3' : kp n n3) by (eapply kp_trans; [exact F|exact G3]).
      pose proof (io_iteration_kp n3 ds (kp_fresh _ _ G3' Fr)) as G4. destruct (io_iteration n3 ds) as [[n4 o4] ds4].
      cbn [fst] in G4.
      assert (G4' : kp n n4) by (eapply kp_trans; [exact G3'|exact G4]).
      pose proof (then_settle_kp n n4 (o3 ++ o4)%list ds4 Fr G4') as G5.
      destruct (settle' n4 ds4) as [n5 o5]. exact G5.
    + pose proof (close_conn_kp n cid R_FAILED_CONNECT) as G.
      destruct (close_conn n cid R_FAILED_CONNECT) as [n1 o1]. apply then_settle_kp; [exact Fr|exact G].
  - (* EStall *)
    cbn [step]. destruct (get_conn n cid) as [c|]; [|apply kp_refl].
    cbv zeta.
    assert (K1 : kp n (set_conns n (upd_conn (n_conns n) cid (fun c0 => set_csock c0 (c_sock_open c0) b (c_workers c0))))).
    { apply upd_conn_kp; [reflexivity|]. intros c0 _ L. split; [reflexivity|exact L]. }
    destruct b; [exact K1|]. destruct (c_out c); [exact K1|].
    eapply kp_seq; [exact K1|apply settle'_kp|exact Fr].
  - (* ETick *)
    rewrite step_tick. apply wake_kp; [exact Fr|apply kp_refl].
  - (* EAppAnswer *)
    cbn [step]. pose proof (route_answer_kp n m) as F. destruct (route_answer n m) as [[cid|] n1]; cbn [snd] in F.
    + pose proof (send_message_kp n1 cid m) as G. destruct (send_message n1 cid m) as [n2 o2].
      apply then_settle_app_kp; [exact Fr|]. eapply kp_trans; [exact F|exact G].
    + exact F.
  - (* EAppRequest *)
    rewrite step_app_request.
    assert (K0 : kp n (fst (e2e_prep n m))).
    { unfold e2e_prep. destruct (o_e2e m =? 0); [|apply kp_refl]. apply same_kp; reflexivity. }
    eapply kp_seq; [exact K0|apply req_core_kp|exact Fr].
  - (* EStop *)
    rewrite step_stop. cbv zeta. set (n0 := set_misc n true (n_next_cid n) (n_e2e n)).
    assert (K0 : kp n n0) by (apply same_kp; reflexivity).
    destruct force; [exact K0|].
    pose proof (stop_go_kp (List.map c_id (n_conns n0)) n0 [] n K0) as G.
    destruct (stop_go (List.map c_id (n_conns n0)) n0 []) as [n1 o1]. apply then_settle_kp; [exact Fr|exact G].
  - (* EStopFinish *)
    rewrite step_stop_finish. cbv zeta. set (n0 := set_time n tclose (n_io_deadline n)).
    assert (K0 : kp n n0) by (apply same_kp; reflexivity).
    pose proof (finish_go_kp (List.map c_id (n_conns n0)) n0 [] n K0) as G.
    destruct (finish_go (List.map c_id (n_conns n0)) n0 []) as [n1 o1]. cbn [fst] in *.
    eapply kp_trans; [exact G|apply same_kp; reflexivity].
  - (* EStart *)
    rewrite step_start.
    pose proof (start_go_kp (List.map p_name (n_peers n)) n ds [] n Fr (kp_refl n)) as G.
    destruct (start_go (List.map p_name (n_peers n)) n ds []) as [[n1 o1] ds1]. cbn [fst] in G.
    apply then_settle_kp; [exact Fr|exact G].
Qed.

(* a network read *)
Lemma step_recv_r h k n ds cid ms :
  cid_fresh n -> (get_conn n cid <> None -> dpres (NodeD.read_state n ds cid) cid ms) ->
  rres h k cid ms n (step n ds (ERecv cid ms)).
Proof.
  intros Fr Hp. cbn [step]. destruct (get_conn n cid); [|apply rres_of_kp, kp_refl].
  assert (Hp' := Hp ltac:(discriminate)). clear Hp. rename Hp' into Hp.
  unfold NodeD.read_state in Hp.
  pose proof (io_iteration_kp n ds Fr) as G1. destruct (io_iteration n ds) as [[n1 o1] ds1]. cbn [fst] in G1, Hp.
  assert (K2 : kp n (upd_last_read n1 cid)).
  { eapply kp_trans; [exact G1|]. apply upd_conn_kp; [reflexivity|]. intros c0 _ L. split; [reflexivity|exact L]. }
  pose proof (dispatch_all_r h k cid ms _ Hp) as D.
  pose proof (dispatch_all_d cid ms (upd_last_read n1 cid)) as [[_ C] _].
  destruct (dispatch_all (upd_last_read n1 cid) cid ms) as [n3 o3]. cbn [fst] in C.
  assert (Fr3 : cid_fresh n3) by (eapply cids_fresh; [exact C|eapply kp_fresh; eassumption]).
  pose proof (settle'_kp n3 ds1 Fr3) as G4. destruct (settle' n3 ds1) as [n4 o4]. cbn [fst] in G4.
  apply (rres_pre h k cid ms n _ _ K2).
  eapply rres_post; [exact D|exact G4|]. intros x Hx. apply List.in_or_app. right. apply List.in_or_app. left. exact Hx.
Qed.

(* one event: a pair on host h's list afterwards was delivered in this very read, on the connection that
   is h's witness, or was there before with every witness of h unchanged *)
Lemma step_pw h k n ds e :
  cid_fresh n ->
  (forall cid ms, e = ERecv cid ms -> get_conn n cid <> None -> dpres (NodeD.read_state n ds cid) cid ms) ->
  pw_has (pw (fst (step n ds e))) h k ->
  (exists cid ms i m, e = ERecv cid ms /\ List.In m ms /\ m_req m = true /\ k = (m_hbh m, m_e2e m) /\
                      List.In (ODeliver i m) (snd (step n ds e)) /\ wit cid h (fst (step n ds e)))
  \/ (pw_has (pw n) h k /\ forall cid1, wit cid1 h n -> wit cid1 h (fst (step n ds e))).
Proof.
  intros Fr Hp H. destruct (event_cases e) as [(cid & ms & ->)|Hne].
  - destruct (step_recv_r h k n ds cid ms Fr (Hp _ _ eq_refl) H) as [(i & m & A)|B]; [left|right; exact B].
    exists cid, ms, i, m. split; [reflexivity|exact A].
  - right. exact (match rres_of_kp h k 0%nat [] n _ (step_other_kp n ds e Hne Fr) H with
                  | or_introl (ex_intro _ _ (ex_intro _ _ (conj F _))) => match F with end
                  | or_intror B => B end).
Qed.

(* ---- the state invariants of NodeD under both guards ------------------------------------------ *)
Definition GN (n : node) : Prop := NodeD.GC n /\ NodeD.NI n.
Notation gmode := (NodeD.MG true NodeD.WAll).

(* the invariants hold initially *)
Lemma GN_init n : NodeD.wf_init_g n -> GN n.
Proof. intros [Hw Hne]. split; [apply NodeD.GC_init|apply NodeD.NI_init]; assumption. Qed.

(* the invariants are kept by derivations in the guarded mode *)
Lemma GN_trans n n' : NodeD.trans gmode n n' -> GN n -> GN n'.
Proof.
  apply (NodeD.trans_inv gmode GN). intros a b Hab [A B].
  split; [exact (NodeD.astep_GC gmode a b I Hab A)|exact (NodeD.astep_NI gmode a b I Hab B)].
Qed.

(* the basic well-formedness of NodeD *)
Lemma GN_W n : GN n -> NodeD.W n.
Proof. intros [G _]. apply (NodeD.GC_parts _ G). Qed.

(* connection ids are below the counter *)
Lemma GN_fresh n : GN n -> cid_fresh n.
Proof. intros G c Hc. destruct (GN_W _ G) as [[_ Hlt] _]. apply Hlt, Hc. Qed.

(* in a guarded state the peer named by the host identity of an established connection points to it *)
Lemma GN_ptr n cid c : GN n -> get_conn n cid = Some c -> NodeD.est (c_state c) ->
  c_host c = c_node_name c /\ exists p, get_peer n (c_host c) = Some p /\ p_conn p = Some cid.
Proof.
  intros [G [_ [_ [_ [Hh _]]]]] Hc E.
  destruct (NodeD.GC_parts _ G) as (HW & Hne & Ho & Hk & Hi & _ & Hv).
  destruct (NodeD.get_conn_some _ _ _ Hc) as [Hin Eid].
  assert (En : c_host c = c_node_name c).
  { destruct (Hi c Hin) as [A|A]; [|exact A]. exfalso. exact (Hh c Hin E A). }
  split; [exact En|].
  assert (Hp : exists p, List.In p (n_peers n) /\ p_name p = c_node_name c).
  { destruct (c_recv c) eqn:Er.
    - pose proof (Hk c Hin Er E) as A. apply List.in_map_iff in A. destruct A as [p [A B]]. eauto.
    - destruct (Ho c Hin Er) as [p [A [B _]]]. eauto. }
  destruct Hp as [p [Hp Ep]]. exists p. split.
  - rewrite En, <- Ep. apply NodeD.get_peer_in; [apply HW|exact Hp].
  - rewrite (Hv c p Hin E Hp Ep). rewrite Eid. reflexivity.
Qed.

(* the reader precondition from the invariants *)
Lemma GN_dpre n cid : GN n -> (forall c, get_conn n cid = Some c -> c_state c <> SConnecting) -> dpre n cid.
Proof.
  intros G Hn c Hc. split; [exact (Hn c Hc)|]. intros E. exact (proj2 (GN_ptr n cid c G Hc E)).
Qed.

(* the reader precondition for every frame of a read *)
Lemma dpres_of cid ms : forall n, GN n -> NodeD.msgs_pre gmode n cid ms -> dpres n cid ms.
Proof.
  induction ms as [|m r IH]; intros n G Hp; cbn [dpres]; [exact I|].
  cbn [NodeD.msgs_pre] in Hp. destruct Hp as [Hm Hr]. split.
  - apply GN_dpre; [exact G|]. destruct Hm as [A _]. exact (A I).
  - apply IH; [|exact Hr]. eapply GN_trans; [|exact G]. apply NodeD.dispatch_t; [exact Hm|constructor].
Qed.

(* the guard of one event gives the reader's precondition for every frame of a read *)
Lemma guard_dpres n ds e : GN n -> NodeD.ev_guard true true n ds e ->
  forall cid ms, e = ERecv cid ms -> get_conn n cid <> None -> dpres (NodeD.read_state n ds cid) cid ms.
Proof.
  intros G Hg cid ms -> Hex. destruct (get_conn n cid) as [c|] eqn:Ec; [clear Hex|congruence].
  cbn [NodeD.ev_guard] in Hg. destruct (Hg c Ec) as [Hst Hid].
  destruct (NodeD.get_conn_some _ _ _ Ec) as [Hin Eid].
  assert (Hlt : (cid < n_next_cid n)%nat) by (rewrite <- Eid; apply (GN_fresh n G c Hin)).
  assert (Ht : NodeD.trans gmode n (NodeD.read_state n ds cid)).
  { unfold NodeD.read_state, upd_last_read. eapply NodeD.t_a; [|apply NodeD.io_iteration_t; constructor].
    apply NodeD.A_soft. intros c0. repeat split. }
  apply dpres_of; [eapply GN_trans; eassumption|].
  apply NodeD.cers_ok_msgs_pre; [|exact Hid]. intros _.
  eapply NodeD.trans_ncon; [exact Ht|]. split; [exact Hlt|].
  intros c' E'. rewrite Ec in E'. injection E' as <-. exact Hst.
Qed.

(* ================================================================================== *)
(* 3. application answers go back where the request came from (C)                     *)
(* ================================================================================== *)
(* a request with the pair k was read from connection cid and delivered to an application in that step *)
Definition delivered (tr : list (event * list output)) (cid : nat) (k : Z * Z) : Prop :=
  exists ms outs i m, List.In (ERecv cid ms, outs) tr /\ List.In m ms /\ m_req m = true /\
                      k = (m_hbh m, m_e2e m) /\ List.In (ODeliver i m) outs.

(* deliveries stay in a longer history *)
Lemma delivered_mono tr tr' cid k : delivered tr cid k -> delivered (tr ++ tr')%list cid k.
Proof.
  intros (ms & outs & i & m & H & R). exists ms, outs, i, m. split; [apply List.in_or_app; left; exact H|exact R].
Qed.

(* the history invariant: every waiting pair was delivered on the connection that is its host's witness *)
Definition HI (tr : list (event * list output)) (n : node) : Prop :=
  forall h k, pw_has (pw n) h k -> exists cid, delivered tr cid k /\ wit cid h n.

(* one guarded event keeps the history invariant and the state invariants *)
Lemma step_HI tr n ds e : GN n -> NodeD.ev_guard true true n ds e -> HI tr n ->
  HI (tr ++ [(e, snd (step n ds e))])%list (fst (step n ds e)) /\ GN (fst (step n ds e)).
Proof.
  intros G Hg Hi. split.
  - intros h k H.
    destruct (step_pw h k n ds e (GN_fresh n G) (guard_dpres n ds e G Hg) H)
      as [(cid & ms & i & m & -> & Hm & Hr & Hk & Hd & Hw)|[H0 Hw]].
    + exists cid. split; [|exact Hw]. exists ms, (snd (step n ds (ERecv cid ms))), i, m.
      split; [apply List.in_or_app; right; left; reflexivity|]. repeat split; assumption.
    + destruct (Hi h k H0) as (cid & D & W). exists cid. split; [apply delivered_mono, D|apply Hw, W].
  - eapply GN_trans; [|exact G]. apply (NodeD.step_guarded true true); [apply GN_W, G|exact Hg].
Qed.

(* a guarded run keeps the history invariant and the state invariants *)
Lemma run_HI evs : forall n tr, GN n -> NodeD.ce_guard n evs -> HI tr n ->
  HI (tr ++ trace n evs)%list (fst (run n evs)) /\ GN (fst (run n evs)).
Proof.
  induction evs as [|de r IH]; intros n tr G Hg Hi.
  - cbn. rewrite List.app_nil_r. split; assumption.
  - destruct Hg as [Hg1 Hg2]. rewrite trace_cons, NodeD.run_cons.
    destruct (step_HI tr n (fst de) (snd de) G Hg1 Hi) as [Hi1 G1].
    destruct (IH _ _ G1 Hg2 Hi1) as [Hi2 G2]. split; [|exact G2].
    rewrite <- List.app_assoc in Hi2. exact Hi2.
Qed.

(* the guard of a prefix and of the rest *)
Lemma guard_from_app id nc a : forall n b, NodeD.guard_from id nc n (a ++ b)%list ->
  NodeD.guard_from id nc n a /\ NodeD.guard_from id nc (fst (run n a)) b.
Proof.
  induction a as [|de r IH]; intros n b H; [split; [exact I|exact H]|].
  cbn [List.app NodeD.guard_from] in *. destruct H as [H1 H2]. rewrite NodeD.run_cons.
  destruct (IH _ _ H2) as [A B]. split; [split; assumption|exact B].
Qed.

(* every state of a guarded run from a well-formed initial state satisfies both invariants *)
Lemma reach_HI n0 evs : NodeD.wf_init_g n0 -> NodeD.ce_guard n0 evs ->
  HI (trace n0 evs) (fst (run n0 evs)) /\ GN (fst (run n0 evs)).
Proof.
  intros Hw Hg. apply (run_HI evs n0 [] (GN_init _ Hw) Hg).
  intros h k [l [Hin _]]. destruct Hw as [[_ [_ [_ [E _]]]] _]. rewrite E in Hin. destruct Hin.
Qed.

(* the answer of an application is routed to the witness of the host under which its pair waits *)
Lemma app_answer_witness n ds i a cid a' :
  GN n -> List.In (OQueue cid a') (snd (step n ds (EAppAnswer i a))) -> o_req a' = false ->
  a' = a /\ exists h, pw_has (pw n) h (o_hbh a, o_e2e a) /\
                      (forall cid1, wit cid1 h n -> cid1 = cid) /\
                      exists c, get_conn n cid = Some c /\ c_host c = h.
Proof.
  intros G Hin Hq.
  destruct (C09_to_requester n ds i a _ _ cid a' (surjective_pairing _) Hin Hq)
    as (-> & (c & l & Hc & Hid & Hr & Hpw & Hm) & _).
  split; [reflexivity|]. exists (c_host c). split; [exists l; split; assumption|].
  assert (Gc : get_conn n cid = Some c).
  { rewrite <- Hid. apply get_conn_of_in; [apply (GN_W n G)|exact Hc]. }
  split; [|exists c; split; [exact Gc|reflexivity]].
  intros cid1 (c1 & p1 & _ & _ & _ & P1 & P2).
  assert (E : NodeD.est (c_state c)) by (destruct (c_state c); try discriminate; exact I).
  destruct (GN_ptr n cid c G Gc E) as [_ (p & Q1 & Q2)]. congruence.
Qed.

(* C: under wf_init_g + ce_guard (= reach_g of NodeD: the hypotheses of C13_one_conn_per_peer, reach_c, and
   of C19_waiting_hosts, reach_nc, together), an answer that an application hands to the node goes out,
   unchanged, on the very connection from which a request with its (hop-by-hop, end-to-end) pair was read
   and delivered to an application earlier in the history *)
Theorem C07_history_app_answers n0 evs1 ds i a evs2 cid a' :
  NodeD.wf_init_g n0 -> NodeD.ce_guard n0 (evs1 ++ (ds, EAppAnswer i a) :: evs2)%list ->
  List.In (OQueue cid a') (snd (step (fst (run n0 evs1)) ds (EAppAnswer i a))) -> o_req a' = false ->
  a' = a /\
  exists ms outs j m,
    List.In (ERecv cid ms, outs) (trace n0 evs1) /\ List.In m ms /\ m_req m = true /\
    m_hbh m = o_hbh a /\ m_e2e m = o_e2e a /\ List.In (ODeliver j m) outs.
Proof.
  intros Hw Hg Hin Hq. apply guard_from_app in Hg. destruct Hg as [Hg1 _].
  destruct (reach_HI n0 evs1 Hw Hg1) as [Hi G].
  destruct (app_answer_witness _ ds i a cid a' G Hin Hq) as (-> & h & Hpw & Hu & _).
  split; [reflexivity|].
  destruct (Hi h _ Hpw) as (cid1 & (ms & outs & j & m & H1 & H2 & H3 & H4 & H5) & W).
  rewrite (Hu _ W) in H1. injection H4 as E1 E2.
  exists ms, outs, j, m. repeat split; try assumption; symmetry; assumption.
Qed.

(* C, stated on a point of the history: the event, the state before it and its outputs *)
Theorem C07_history_app_answers_at n0 evs nk i a outs cid a' :
  NodeD.wf_init_g n0 -> NodeD.ce_guard n0 evs ->
  List.In (nk, (EAppAnswer i a, outs)) (strace n0 evs) -> List.In (OQueue cid a') outs -> o_req a' = false ->
  a' = a /\
  exists evs1 ds evs2 ms outs0 j m,
    evs = (evs1 ++ (ds, EAppAnswer i a) :: evs2)%list /\
    List.In (ERecv cid ms, outs0) (trace n0 evs1) /\ List.In m ms /\ m_req m = true /\
    m_hbh m = o_hbh a /\ m_e2e m = o_e2e a /\ List.In (ODeliver j m) outs0.
Proof.
  intros Hw Hg Hs Hin Hq. destruct (strace_In _ _ _ _ _ Hs) as (evs1 & ds & evs2 & -> & -> & ->).
  destruct (C07_history_app_answers n0 evs1 ds i a evs2 cid a' Hw Hg Hin Hq) as (E & ms & outs0 & j & m & H).
  split; [exact E|]. exists evs1, ds, evs2, ms, outs0, j, m. split; [reflexivity|exact H].
Qed.

(* ================================================================================== *)
(* 4. never two answers for one request (D)                                           *)
(* ================================================================================== *)
(* an answer with the pair k handed to connection cid / a request with the pair k *)
Definition ansk (cid : nat) (k : Z * Z) (o : output) : bool :=
  match o with
  | OQueue c a => Nat.eqb c cid && negb (o_req a) && (o_hbh a =? fst k) && (o_e2e a =? snd k)
  | _ => false
  end.
Definition reqk (k : Z * Z) (m : msg) : bool := m_req m && (m_hbh m =? fst k) && (m_e2e m =? snd k).
Definition cnt (cid : nat) (k : Z * Z) (outs : list output) : nat := List.length (List.filter (ansk cid k) outs).
Definition nrq (k : Z * Z) (ms : list msg) : nat := List.length (List.filter (reqk k) ms).
Definition ev_req (cid : nat) (k : Z * Z) (e : event) : nat :=
  match e with ERecv c ms => if Nat.eqb c cid then nrq k ms else 0%nat | _ => 0%nat end.
(* answers with pair k handed to cid / requests with pair k read from cid, along a history *)
Fixpoint qans (cid : nat) (k : Z * Z) (tr : list (event * list output)) : nat :=
  match tr with [] => 0%nat | x :: r => (cnt cid k (snd x) + qans cid k r)%nat end.
Fixpoint qreq (cid : nat) (k : Z * Z) (tr : list (event * list output)) : nat :=
  match tr with [] => 0%nat | x :: r => (ev_req cid k (fst x) + qreq cid k r)%nat end.

(* answers counted in a concatenation *)
Lemma cnt_app cid k a b : cnt cid k (a ++ b)%list = (cnt cid k a + cnt cid k b)%nat.
Proof. unfold cnt. rewrite List.filter_app, List.app_length. reflexivity. Qed.

(* what a counted answer is *)
Lemma ansk_true cid k c a : ansk cid k (OQueue c a) = true -> c = cid /\ o_req a = false /\ akey a = k.
Proof.
  cbn [ansk]. intros H. apply andb_true_iff in H. destruct H as [H H3]. apply andb_true_iff in H. destruct H as [H H2].
  apply andb_true_iff in H. destruct H as [H0 H1]. apply Nat.eqb_eq in H0. apply Z.eqb_eq in H2, H3.
  split; [exact H0|]. split; [destruct (o_req a); [discriminate|reflexivity]|].
  unfold akey. destruct k; cbn in *. congruence.
Qed.

(* outputs that queue requests only contain no counted answer *)
Lemma cnt_rq cid k outs : NodeB.rq outs -> cnt cid k outs = 0%nat.
Proof.
  unfold cnt. induction 1 as [|o l Ho _ IH]; [reflexivity|]. cbn [List.filter].
  destruct (ansk cid k o) eqn:E; [|exact IH]. exfalso. destruct o; try discriminate.
  apply ansk_true in E. destruct E as (_ & E & _). cbn in Ho. congruence.
Qed.

(* a positive count gives an occurrence *)
Lemma cnt_pos cid k outs : (1 <= cnt cid k outs)%nat ->
  exists a, List.In (OQueue cid a) outs /\ o_req a = false /\ akey a = k.
Proof.
  unfold cnt. induction outs as [|o l IH]; cbn [List.filter List.length]; [lia|].
  destruct (ansk cid k o) eqn:E.
  - intros _. destruct o; try discriminate. apply ansk_true in E. destruct E as (-> & E1 & E2).
    exists m. split; [left; reflexivity|split; assumption].
  - intros H. destruct (IH H) as (a & A & B). exists a. split; [right; exact A|exact B].
Qed.

(* counted answers are queued messages *)
Lemma cnt_le_queue cid k outs : (cnt cid k outs <= List.length (List.filter NodeB.is_queue outs))%nat.
Proof.
  unfold cnt. induction outs as [|o l IH]; [apply Nat.le_refl|]. cbn [List.filter].
  destruct o; cbn [ansk NodeB.is_queue]; try exact IH.
  destruct (_ && _); cbn [List.length]; lia.
Qed.

(* ---- bookkeeping: P / P' = "a request with the pair is pending on the connection" before / after;
   a answers were handed out for r requests read ---- *)
Definition acct (P : Prop) (a r : nat) (P' : Prop) : Prop :=
  ((a <= r)%nat \/ (P /\ (a <= r + 1)%nat)) /\ (P' -> (a + 1 <= r)%nat \/ (P /\ (a <= r)%nat)).

(* bookkeeping composes *)
Lemma acct_app P a1 r1 P1 a2 r2 P2 :
  acct P a1 r1 P1 -> acct P1 a2 r2 P2 -> acct P (a1 + a2) (r1 + r2) P2.
Proof.
  intros [A1 A2] [B1 B2]. split.
  - destruct B1 as [B|[p1 B]].
    + destruct A1 as [A|[p A]]; [left; lia|right; split; [exact p|lia]].
    + destruct (A2 p1) as [A|[p A]]; [left; lia|right; split; [exact p|lia]].
  - intros p2. destruct (B2 p2) as [B|[p1 B]].
    + destruct A1 as [A|[p A]]; [left; lia|right; split; [exact p|lia]].
    + destruct (A2 p1) as [A|[p A]]; [left; lia|right; split; [exact p|lia]].
Qed.

(* no answers: pending afterwards only if pending before *)
Lemma acct_zero (P P' : Prop) r : (P' -> P) -> acct P 0 r P'.
Proof. intros H. split; [left; lia|]. intros p'. right. split; [exact (H p')|lia]. Qed.

(* the pair k waits under the host identity of which connection cid is the witness *)
Definition pend (cid : nat) (k : Z * Z) (n : node) : Prop := exists h, pw_has (pw n) h k /\ wit cid h n.
(* every waiting list has a witness *)
Definition EW (n : node) : Prop := forall h k, pw_has (pw n) h k -> exists cid, wit cid h n.

(* the history invariant gives every list a witness *)
Lemma HI_EW tr n : HI tr n -> EW n.
Proof. intros H h k Hk. destruct (H h k Hk) as (cid & _ & W). exists cid. exact W. Qed.

(* kp keeps a witness for every list *)
Lemma kp_EW n n' : kp n n' -> EW n -> EW n'.
Proof.
  intros [[_ P] W] E h k H. destruct (E h k (P _ _ H)) as [cid Wc]. exists cid.
  destruct (W _ _ Wc) as [W'|N]; [exact W'|]. exfalso. exact (N _ H).
Qed.

(* kp creates no pending pair *)
Lemma kp_back cid k n n' : kp n n' -> EW n -> pend cid k n' -> pend cid k n.
Proof.
  intros [[_ P] W] E (h & H & Wc). exists h. pose proof (P _ _ H) as H0. split; [exact H0|].
  destruct (E h k H0) as [cid0 W0]. destruct (W _ _ W0) as [W'|N]; [|exfalso; exact (N _ H)].
  rewrite (wit_unique _ _ _ _ Wc W'). exact W0.
Qed.

(* reader results keep a witness for every list *)
Lemma rres_EW cid0 ms n r : (forall h k, rres h k cid0 ms n r) -> EW n -> EW (fst r).
Proof.
  intros R E h k H. destruct (R h k H) as [(i & m & _ & _ & _ & _ & W)|[H0 W]]; [exists cid0; exact W|].
  destruct (E h k H0) as [cid Wc]. exists cid. apply W, Wc.
Qed.

(* a removed pair is not on the host's list *)
Lemma pw_removed pw0 h k : ~ pw_has (pw_remove pw0 h k) h k.
Proof.
  intros [l [Hin Hm]]. unfold pw_remove in Hin. apply List.in_map_iff in Hin. destruct Hin as [e [E _]].
  destruct (String.eqb (fst e) h) eqn:Eh.
  - injection E as _ <-. rewrite mem_zz_remove_zz in Hm. discriminate.
  - subst e. cbn [fst] in Eh. rewrite String.eqb_refl in Eh. discriminate.
Qed.

(* after an answer has been handed to cid, its pair is on no list filed under cid's host identity *)
Lemma send_message_es n cid a : o_req a = false ->
  forall c, get_conn (fst (send_message n cid a)) cid = Some c ->
            ~ pw_has (pw (fst (send_message n cid a))) (c_host c) (akey a).
Proof.
  intros Hq c Hc. destruct (send_message_conns n cid a) as [Ec _].
  rewrite get_conn_unfold, Ec in Hc.
  destruct (get_conn n cid) as [c0|] eqn:H0.
  - rewrite get_conn_unfold in H0. rewrite (find_upd_conn_same _ _ (fun c1 => set_cout c1 (c_out c1 ++ [a])%list) _ (fun _ => eq_refl) H0) in Hc.
    injection Hc as <-. rewrite <- get_conn_unfold in H0. rewrite (send_message_answer_pw n cid a c0 Hq H0).
    apply pw_removed.
  - rewrite get_conn_unfold in H0. rewrite (upd_conn_none _ _ _ H0) in Hc. congruence.
Qed.

(* a result of the reader for connection cid: nothing was handed to any connection, or afterwards the
   pair k is on no list filed under cid's host identity *)
Definition es (cid : nat) (k : Z * Z) (r : node * list output) : Prop :=
  (forall c a, ~ List.In (OQueue c a) (snd r)) \/
  (forall c, get_conn (fst r) cid = Some c -> ~ pw_has (pw (fst r)) (c_host c) k).

(* an answer built from m handed to cid *)
Lemma es_send n cid m code f : es cid (m_hbh m, m_e2e m) (send_message n cid (answer_of m code f)).
Proof. right. apply (send_message_es n cid (answer_of m code f) eq_refl). Qed.

(* the same after other outputs *)
Lemma es_send_after n cid m code f (pre : list output) :
  es cid (m_hbh m, m_e2e m) (let '(n2, o) := send_message n cid (answer_of m code f) in (n2, (pre ++ o)%list)).
Proof.
  pose proof (es_send n cid m code f) as [H|H].
  - exfalso. rewrite send_message_out in H. exact (H _ _ (or_introl eq_refl)).
  - destruct (send_message n cid (answer_of m code f)) as [n2 o]. right. exact H.
Qed.

(* nothing handed out *)
Lemma es_nil cid k n : es cid k (n, []).
Proof. left. intros c a []. Qed.

(* receive_cer ends with its answer, if any *)
Lemma recv_cer_es n cid m : es cid (m_hbh m, m_e2e m) (recv_cer n cid m).
Proof.
  unfold recv_cer. destruct (get_conn n cid) as [c0|]; [|apply es_nil].
  destruct (negb (cstate_eqb (c_state c0) SConnected)); [apply es_nil|].
  destruct (pres_get (m_origin m)) as [host|]; [|apply es_nil].
  destruct (get_peer n host) as [p|]; [|apply es_send].
  cbv zeta.
  destruct (election_rivals _ cid host) as [|k0 ks]; [|destruct (String.ltb _ _); [|apply es_send]];
  (match goal with |- context [close_all ?x ?l ?r] => destruct (close_all x l r) as [n1 oel] end;
   destruct (inter_z (node_auth n1) (m_auth m)); [|apply es_send_after];
   destruct (inter_z (node_acct n1) (m_acct m)); [|apply es_send_after];
   destruct (mem_z APP_RELAY (m_auth m) || mem_z APP_RELAY (m_acct m)); apply es_send_after).
Qed.

(* _receive_app_request ends with its answer, if any *)
Lemma recv_app_request_es n cid m : es cid (m_hbh m, m_e2e m) (recv_app_request n cid m).
Proof.
  unfold recv_app_request. destruct (get_conn n cid) as [c|]; [|apply es_nil].
  destruct (m_drealm m) as [| |realm]; try apply es_send.
  destruct (route_lookup n realm) as [entries|]; [|apply es_send].
  destruct (List.find _ entries) as [[[i|] l]|]; try apply es_send.
  cbv zeta. destruct (handler_raises m).
  - match goal with |- context [send_message ?x cid ?a] => pose proof (es_send x cid m (Some RC_UNABLE) []) as [H|H] end.
    + exfalso. rewrite send_message_out in H. exact (H _ _ (or_introl eq_refl)).
    + match goal with |- context [send_message ?x cid ?a] => destruct (send_message x cid a) as [n2 o] end.
      right. exact H.
  - left. intros c0 a [H|[]]. discriminate.
Qed.

(* _receive_message of a request ends with its answer, if any *)
Lemma receive_message_es n cid m : m_req m = true -> es cid (m_hbh m, m_e2e m) (receive_message n cid m).
Proof.
  intros Hr. unfold receive_message. cbv zeta. rewrite Hr.
  match goal with |- context [send_message ?x cid (answer_of m (Some RC_MISSING_AVP) _)] => generalize x; intros n0 end.
  destruct (if true && g_validate (n_cfg n0) then m_missing m else []); [|apply es_send].
  match goal with |- context [if ?d then _ else _] => destruct d end; [apply es_send|].
  destruct (m_cmd m).
  - destruct (m_origin m); first [apply es_send|apply recv_cer_es].
  - unfold recv_dwr. apply es_send.
  - unfold recv_dpr. apply es_send.
  - apply recv_app_request_es.
Qed.

(* a dispatched frame ends with its answer, if any *)
Lemma dispatch_es n cid m : es cid (m_hbh m, m_e2e m) (dispatch n cid m).
Proof.
  destruct (m_req m) eqn:Hr.
  - unfold dispatch. destruct (get_conn n cid) as [c|]; [|apply es_nil].
    destruct (gate_passes c m); [|apply es_nil]. apply receive_message_es, Hr.
  - left. intros c a. apply NodeB.C07_no_answer_to_answer, Hr.
Qed.

Definition rq1 (cid0 cid : nat) (k : Z * Z) (m : msg) : nat :=
  if Nat.eqb cid0 cid then (if reqk k m then 1%nat else 0%nat) else 0%nat.

(* a request with the pair k is counted *)
Lemma reqk_intro k m : m_req m = true -> k = (m_hbh m, m_e2e m) -> reqk k m = true.
Proof. intros Hr ->. unfold reqk. cbn [fst snd]. rewrite Hr, !Z.eqb_refl. reflexivity. Qed.

(* one frame dispatched on connection cid0, seen from connection cid and the pair k *)
Lemma dispatch_acct cid k n cid0 m : dpre n cid0 -> EW n ->
  EW (fst (dispatch n cid0 m)) /\
  acct (pend cid k n) (cnt cid k (snd (dispatch n cid0 m))) (rq1 cid0 cid k m) (pend cid k (fst (dispatch n cid0 m))).
Proof.
  intros Hp E.
  assert (R : forall h k0, rres h k0 cid0 [m] n (dispatch n cid0 m)) by (intros; apply dispatch_r, Hp).
  split; [exact (rres_EW _ _ _ _ R E)|].
  pose proof (dispatch_es n cid0 m) as S.
  destruct (dispatch n cid0 m) as [n' outs] eqn:Hd. cbn [fst snd] in *.
  destruct (NodeB.C07_dispatch_answers _ _ _ _ _ Hd) as [A1 A2].
  pose proof (cnt_le_queue cid k outs) as Hle.
  assert (Hone : (1 <= cnt cid k outs)%nat -> rq1 cid0 cid k m = 1%nat /\ ~ pend cid k n').
  { intros H1. destruct (cnt_pos _ _ _ H1) as (a & Ha & Hq & Hk).
    destruct (A1 _ _ Ha) as (-> & _ & Hr & _ & _ & Eh & Ee). unfold akey in Hk. rewrite Eh, Ee in Hk.
    split.
    - unfold rq1. rewrite Nat.eqb_refl, (reqk_intro k m Hr (eq_sym Hk)). reflexivity.
    - intros (h & H & (c & p & Gc & Hh & _)). destruct S as [S|S]; [exact (S _ _ Ha)|].
      apply (S c Gc). rewrite Hh, Hk. exact H. }
  destruct (cnt cid k outs) as [|[|x]] eqn:Ec; [| |lia].
  - split; [left; lia|]. intros P'. unfold rq1. destruct (Nat.eqb cid0 cid) eqn:Ei.
    + destruct (reqk k m) eqn:Er; [left; lia|]. right. split; [|lia].
      destruct P' as (h & H & W). exists h.
      destruct (R h k H) as [(i & m0 & [<-|[]] & Hr & Hk & _ & _)|[H0 Hw]].
      { rewrite (reqk_intro k m Hr Hk) in Er. discriminate. }
      split; [exact H0|]. destruct (E h k H0) as [cid1 W1]. rewrite (wit_unique _ _ _ _ W (Hw _ W1)). exact W1.
    + right. split; [|lia]. destruct P' as (h & H & W). exists h.
      destruct (R h k H) as [(i & m0 & _ & _ & _ & _ & W0)|[H0 Hw]].
      { apply Nat.eqb_neq in Ei. exfalso. apply Ei. exact (wit_unique _ _ _ _ W0 W). }
      split; [exact H0|]. destruct (E h k H0) as [cid1 W1]. rewrite (wit_unique _ _ _ _ W (Hw _ W1)). exact W1.
  - destruct (Hone (Nat.le_refl 1)) as [Hr Hn]. rewrite Hr. split; [left; lia|]. intros P'. destruct (Hn P').
Qed.

(* the frames of one read, seen from connection cid and the pair k *)
Lemma dispatch_all_acct cid k cid0 ms : forall n, dpres n cid0 ms -> EW n ->
  EW (fst (dispatch_all n cid0 ms)) /\
  acct (pend cid k n) (cnt cid k (snd (dispatch_all n cid0 ms)))
       (if Nat.eqb cid0 cid then nrq k ms else 0%nat) (pend cid k (fst (dispatch_all n cid0 ms))).
Proof.
  induction ms as [|m r IH]; intros n Hp E; cbn [dispatch_all].
  - split; [exact E|]. apply acct_zero. trivial.
  - destruct Hp as [Hp1 Hp2]. destruct (dispatch_acct cid k n cid0 m Hp1 E) as [E1 A1].
    destruct (dispatch n cid0 m) as [n1 o1]. cbn [fst snd] in *.
    destruct (IH n1 Hp2 E1) as [E2 A2]. destruct (dispatch_all n1 cid0 r) as [n2 o2]. cbn [fst snd] in *.
    split; [exact E2|]. rewrite cnt_app.
    replace (if Nat.eqb cid0 cid then nrq k (m :: r) else 0%nat)
      with (rq1 cid0 cid k m + (if Nat.eqb cid0 cid then nrq k r else 0%nat))%nat.
    + eapply acct_app; eassumption.
    + unfold rq1, nrq. cbn [List.filter]. destruct (Nat.eqb cid0 cid); [|reflexivity].
      destruct (reqk k m); reflexivity.
Qed.

(* kp in the bookkeeping *)
Lemma acct_kp cid k n n' r : kp n n' -> EW n -> acct (pend cid k n) 0 r (pend cid k n').
Proof. intros K E. apply acct_zero. apply kp_back; assumption. Qed.

(* one event, seen from connection cid and the pair k *)
Lemma step_acct cid k n ds e : GN n -> NodeD.ev_guard true true n ds e -> EW n ->
  acct (pend cid k n) (cnt cid k (snd (step n ds e))) (ev_req cid k e) (pend cid k (fst (step n ds e))).
Proof.
  intros G Hg E. pose proof (GN_fresh n G) as Fr.
  destruct (event_cases e) as [(cid0 & ms & ->)|Hnr].
  - (* a read *)
    pose proof (guard_dpres n ds _ G Hg cid0 ms eq_refl) as Hp. cbn [step ev_req].
    destruct (get_conn n cid0) as [c0|]; [|apply acct_zero; trivial].
    specialize (Hp ltac:(discriminate)). unfold NodeD.read_state in Hp.
    pose proof (io_iteration_kp n ds Fr) as K1. pose proof (NodeB.io_iteration_rq n ds) as R1.
    destruct (io_iteration n ds) as [[n1 o1] ds1]. cbn [fst snd] in *.
    assert (K2 : kp n (upd_last_read n1 cid0)).
    { eapply kp_trans; [exact K1|]. apply upd_conn_kp; [reflexivity|]. intros c1 _ L. split; [reflexivity|exact L]. }
    destruct (dispatch_all_acct cid k cid0 ms _ Hp (kp_EW _ _ K2 E)) as [E3 A3].
    pose proof (dispatch_all_d cid0 ms (upd_last_read n1 cid0)) as [[_ C] _].
    destruct (dispatch_all (upd_last_read n1 cid0) cid0 ms) as [n3 o3]. cbn [fst snd] in *.
    assert (Fr3 : cid_fresh n3) by (eapply cids_fresh; [exact C|eapply kp_fresh; eassumption]).
    pose proof (settle'_kp n3 ds1 Fr3) as K4. pose proof (NodeB.settle'_rq n3 ds1) as R4.
    destruct (settle' n3 ds1) as [n4 o4]. cbn [fst snd] in *.
    rewrite !cnt_app, (cnt_rq _ _ _ R1), (cnt_rq _ _ _ R4), Nat.add_0_r. cbn [Nat.add].
    pose proof (acct_app _ _ _ _ _ _ _ (acct_kp cid k _ _ 0 K2 E) A3) as A.
    pose proof (acct_app _ _ _ _ _ _ _ A (acct_kp cid k _ _ 0 K4 E3)) as A'.
    cbn [Nat.add] in A'. rewrite !Nat.add_0_r in A'. exact A'.
  - destruct e as [hbh0|cid0 ms|cid0|cid0 hard|cid0 ok|cid0 b|dt|i a|i a realm pick timeout|force|tclose tend|];
      try (cbn [ev_req]; rewrite (cnt_rq cid k _ (NodeB.step_rq n ds _ Hnr ltac:(intros; discriminate)));
           apply acct_kp; [apply step_other_kp; [exact Hnr|exact Fr]|exact E]).
    (* EAppAnswer is left *)
    cbn [ev_req].
      pose proof (step_other_kp n ds (EAppAnswer i a) Hnr Fr) as K.
      destruct (cnt cid k (snd (step n ds (EAppAnswer i a)))) as [|x] eqn:Ec; [apply acct_kp; assumption|].
      destruct (cnt_pos cid k (snd (step n ds (EAppAnswer i a))) ltac:(lia)) as (a' & Hin & Hq & Hk).
      destruct (app_answer_witness n ds i a cid a' G Hin Hq) as (-> & h & Hpw & Hu & _).
      unfold akey in Hk. rewrite Hk in Hpw.
      assert (P0 : pend cid k n).
      { exists h. split; [exact Hpw|]. destruct (E h k Hpw) as [cid1 W1]. rewrite <- (Hu _ W1). exact W1. }
      revert Ec Hin K. cbn [step]. pose proof (route_answer_kp n a) as F.
      destruct (route_answer n a) as [[cid1|] n1]; cbn [snd] in F.
      2:{ intros _ [Hin|[]]. discriminate. }
      pose proof (send_message_kp n1 cid1 a) as K2. pose proof (send_message_es n1 cid1 a Hq) as S.
      pose proof (send_message_out n1 cid1 a) as O. destruct (send_message n1 cid1 a) as [n2 o2]. cbn [fst snd] in *.
      assert (K02 : kp n n2) by (eapply kp_trans; eassumption).
      pose proof (settle_app'_kp n2 ds (kp_fresh _ _ K02 Fr)) as K3. pose proof (NodeB.settle_app'_rq n2 ds) as R3.
      destruct (settle_app' n2 ds) as [n3 o3]. cbn [fst snd] in *. subst o2.
      rewrite cnt_app, (cnt_rq _ _ _ R3), Nat.add_0_r. unfold cnt. cbn [List.filter].
      destruct (ansk cid k (OQueue cid1 a)) eqn:Ea; cbn [List.length]; [|discriminate].
      intros Ex _ _. injection Ex as <-. apply ansk_true in Ea. destruct Ea as (-> & _ & _).
      split; [right; split; [exact P0|lia]|]. intros P3. exfalso.
      destruct (kp_back cid k n2 n3 K3 (kp_EW _ _ K02 E) P3) as (h2 & H2 & (c2 & p2 & Gc & Hh & _)).
      apply (S c2 Gc). unfold akey. rewrite Hh, Hk. exact H2.
Qed.

(* a guarded run, seen from connection cid and the pair k *)
Lemma run_acct cid k evs : forall n tr, GN n -> NodeD.ce_guard n evs -> HI tr n ->
  acct (pend cid k n) (qans cid k (trace n evs)) (qreq cid k (trace n evs)) (pend cid k (fst (run n evs))).
Proof.
  induction evs as [|de r IH]; intros n tr G Hg Hi.
  - cbn. apply acct_zero. trivial.
  - destruct Hg as [Hg1 Hg2]. rewrite trace_cons, NodeD.run_cons. cbn [qans qreq fst snd].
    destruct (step_HI tr n (fst de) (snd de) G Hg1 Hi) as [Hi1 G1].
    eapply acct_app; [apply step_acct; [exact G|exact Hg1|exact (HI_EW _ _ Hi)]|].
    exact (IH _ _ G1 Hg2 Hi1).
Qed.

(* D: under the guard of C, on every connection and for every (hop-by-hop, end-to-end) pair the node hands
   out no more answers than it has read requests with that pair from that connection *)
Theorem C07_history_answers_le_requests n0 evs cid k :
  NodeD.wf_init_g n0 -> NodeD.ce_guard n0 evs ->
  (qans cid k (trace n0 evs) <= qreq cid k (trace n0 evs))%nat.
Proof.
  intros Hw Hg.
  assert (Hi : HI [] n0).
  { intros h k0 [l [Hin _]]. destruct Hw as [[_ [_ [_ [E _]]]] _]. rewrite E in Hin. destruct Hin. }
  destruct (run_acct cid k evs n0 [] (GN_init _ Hw) Hg Hi) as [[A|[(h & [l [Hin _]] & _) _]] _]; [exact A|].
  destruct Hw as [[_ [_ [_ [E _]]]] _]. rewrite E in Hin. destruct Hin.
Qed.

(* the (hop-by-hop, end-to-end) pairs of the requests read from connection cid, in order *)
Definition req_keys_on (cid : nat) (evs : list (dials * event)) : list (Z * Z) :=
  List.flat_map (fun de => match snd de with
                           | ERecv c ms => if Nat.eqb c cid
                                           then List.map (fun m => (m_hbh m, m_e2e m)) (List.filter m_req ms) else []
                           | _ => []
                           end) evs.

(* requests counted through their pairs *)
Lemma nrq_keys k ms :
  nrq k ms = List.length (List.filter (key_eqb (fst k) (snd k)) (List.map (fun m => (m_hbh m, m_e2e m)) (List.filter m_req ms))).
Proof.
  unfold nrq. induction ms as [|m r IH]; [reflexivity|]. cbn [List.filter]. unfold reqk at 1.
  destruct (m_req m); cbn [andb List.map List.filter]; [|exact IH].
  unfold key_eqb at 1. cbn [fst snd]. destruct ((m_hbh m =? fst k) && (m_e2e m =? snd k)); cbn [List.length]; rewrite IH; reflexivity.
Qed.

(* requests read from cid counted through req_keys_on *)
Lemma qreq_keys cid k n evs :
  qreq cid k (trace n evs) = List.length (List.filter (key_eqb (fst k) (snd k)) (req_keys_on cid evs)).
Proof.
  revert n. induction evs as [|de r IH]; intros n; [reflexivity|].
  rewrite trace_cons. cbn [qreq fst snd req_keys_on List.flat_map]. rewrite List.filter_app, List.app_length, IH.
  f_equal. destruct (snd de); try reflexivity. cbn [ev_req]. destruct (Nat.eqb cid0 cid); [apply nrq_keys|reflexivity].
Qed.

(* D: when the requests read from a connection carry pairwise distinct (hop-by-hop, end-to-end) pairs, the
   node hands that connection at most one answer per pair in the whole history *)
Theorem C07_history_at_most_once n0 evs cid k :
  NodeD.wf_init_g n0 -> NodeD.ce_guard n0 evs -> List.NoDup (req_keys_on cid evs) ->
  (qans cid k (trace n0 evs) <= 1)%nat.
Proof.
  intros Hw Hg Hnd. pose proof (C07_history_answers_le_requests n0 evs cid k Hw Hg) as H.
  rewrite qreq_keys in H. pose proof (nodup_count (fst k) (snd k) _ Hnd). lia.
Qed.

(* every counted answer is an occurrence in the history, and conversely *)
Lemma qans_pos cid k tr e outs a :
  List.In (e, outs) tr -> List.In (OQueue cid a) outs -> o_req a = false -> akey a = k -> (1 <= qans cid k tr)%nat.
Proof.
  intros Ht Hin Hq Hk. induction tr as [|x r IH]; [destruct Ht|]. cbn [qans]. destruct Ht as [->|Ht]; [|specialize (IH Ht); lia].
  cbn [snd]. enough (1 <= cnt cid k outs)%nat by lia. clear IH. unfold cnt.
  induction outs as [|o l IH]; [destruct Hin|]. cbn [List.filter]. destruct Hin as [->|Hin].
  - cbn [ansk]. unfold akey in Hk. subst k. cbn [fst snd]. rewrite Nat.eqb_refl, Hq, !Z.eqb_refl. cbn. lia.
  - specialize (IH Hin). destruct (ansk cid k o); cbn [List.length]; lia.
Qed.

(* ================================================================================== *)
(* 5. examples (E)                                                                    *)
(* ================================================================================== *)
Module ExamplesE.
Import String.
Import NodeF.Examples.
Local Open Scope string_scope.

Definition xm (c : cmd) (req : bool) (app hbh e2e : Z) (o : string) (realm : pres string) (tag : Z) : msg :=
  {| m_cmd := c; m_req := req; m_p := false; m_e := false; m_t := false; m_app := app; m_hbh := hbh; m_e2e := e2e;
     m_origin := Present o; m_drealm := realm; m_result := Absent; m_missing := []; m_has_failed_avp_slot := false;
     m_auth := [4; 5]; m_acct := []; m_tag := tag |}.
Definition xa (hbh e2e : Z) : omsg :=
  {| o_cmd := App 272; o_req := false; o_app := 4; o_hbh := hbh; o_e2e := e2e; o_result := Some 2001; o_failed := []; o_tag := 3 |}.
Definition xreq (hbh e2e tag : Z) (realm : string) : msg := xm (App 272) true 4 hbh e2e "pa" (Present realm) tag.

(* peer pa connects and sends its CER, a watchdog request, two application requests (both delivered); the
   application answers them in the other order, then answers the first one again; then a request whose
   handler raises (tag 1) and a request for a realm that is not served; the application answers the former *)
Definition ex7_evs : list (dials * event) :=
  [ ([], EAccept 1);
    ([], ERecv 0 [xm CE true 0 1 1 "pa" Undeclared 0]);
    ([], ERecv 0 [xm DW true 0 5 6 "pa" Undeclared 0]);
    ([], ERecv 0 [xreq 10 11 0 "r"; xreq 12 13 0 "r"]);
    ([], EAppAnswer 0 (xa 12 13));
    ([], EAppAnswer 0 (xa 10 11));
    ([], EAppAnswer 0 (xa 10 11));
    ([], ERecv 0 [xreq 14 15 1 "r"; xreq 16 17 0 "x"]);
    ([], EAppAnswer 0 (xa 14 15)) ].

Definition show7 (o : output) : list (string * nat * Z * Z) :=
  match o with
  | OQueue cid m => [((if o_req m then "request" else "answer"), cid, o_hbh m, o_e2e m)]
  | ODeliver i m => [("deliver", i, m_hbh m, m_e2e m)]
  | ONotRoutable => [("not-routable", 0%nat, 0, 0)]
  | _ => []
  end.

(* the history, event by event: what is handed to connections and to applications *)
Example ex7_history :
  List.map (fun x => List.flat_map show7 (snd x)) (trace ex_n0 ex7_evs) =
  [ [];
    [("answer", 0%nat, 1, 1)];                                      (* CEA *)
    [("answer", 0%nat, 5, 6)];                                      (* DWA *)
    [("deliver", 0%nat, 10, 11); ("deliver", 0%nat, 12, 13)];
    [("answer", 0%nat, 12, 13)];                                    (* the second request is answered first *)
    [("answer", 0%nat, 10, 11)];
    [("not-routable", 0%nat, 0, 0)];                                (* the duplicate answer is refused *)
    [("deliver", 0%nat, 14, 15); ("answer", 0%nat, 14, 15);         (* handler raises: 5012 by the node *)
     ("answer", 0%nat, 16, 17)];                                    (* realm not served: 3003 by the node *)
    [("not-routable", 0%nat, 0, 0)] ]                               (* the application's answer comes too late *)
  /\ List.map snd (trace ex_n0 ex7_evs) = snd (run ex_n0 ex7_evs).
Proof. split; [vm_compute; reflexivity|apply trace_run]. Qed.

(* the history satisfies the hypotheses of C and D *)
Example ex7_guard : NodeD.wf_init_g ex_n0 /\ NodeD.ce_guard ex_n0 ex7_evs.
Proof.
  split; [split; [exact ex_wf|cbn; intuition discriminate]|].
  unfold ex_n0, ex7_evs. NodeD.Witness.ce_guard_tac.
Qed.

(* C on event 4: the answer (12,13) goes out on connection 0, from which the request (12,13) was read and
   delivered in event 3 *)
Example ex7_C07_history_app_answers :
  exists ms outs j m,
    List.In (ERecv 0 ms, outs) (trace ex_n0 (List.firstn 4 ex7_evs)) /\ List.In m ms /\ m_req m = true /\
    m_hbh m = 12 /\ m_e2e m = 13 /\ List.In (ODeliver j m) outs.
Proof.
  destruct ex7_guard as [Hw Hg].
  refine (proj2 (C07_history_app_answers ex_n0 (List.firstn 4 ex7_evs) [] 0%nat (xa 12 13) (List.skipn 5 ex7_evs)
                   0%nat (xa 12 13) Hw Hg _ eq_refl)).
  vm_compute. left. reflexivity.
Qed.

(* B on event 7: the 3003 answer (16,17) is produced in the read that carries the request (16,17) *)
Example ex7_C07_history_node_answers :
  exists m, List.In m [xreq 14 15 1 "r"; xreq 16 17 0 "x"] /\ m_req m = true /\ m_hbh m = 16 /\ m_e2e m = 17.
Proof.
  pose (a := answer_of (xreq 16 17 0 "x") (Some RC_REALM_NOT_SERVED) []).
  destruct (C07_history_node_answers ex_n0 ex7_evs (ERecv 0 [xreq 14 15 1 "r"; xreq 16 17 0 "x"])
              (snd (step (fst (run ex_n0 (List.firstn 7 ex7_evs))) [] (ERecv 0 [xreq 14 15 1 "r"; xreq 16 17 0 "x"])))
              0%nat a) as (ms & E & m & Hm & Hr & _ & _ & Hh & He).
  - vm_compute. do 7 right. left. reflexivity.
  - intros i b. discriminate.
  - vm_compute. do 2 right. left. reflexivity.
  - reflexivity.
  - injection E as <-. exists m. repeat split; try assumption; symmetry; assumption.
Qed.

(* D: the requests read from connection 0 carry distinct pairs; every pair is answered at most (here:
   exactly) once, by the node or by the application, never by both; no answer for a pair never read *)
Example ex7_C07_history_at_most_once :
  req_keys_on 0 ex7_evs = [(1, 1); (5, 6); (10, 11); (12, 13); (14, 15); (16, 17)] /\
  (forall k, (qans 0 k (trace ex_n0 ex7_evs) <= 1)%nat) /\
  List.map (fun k => (qans 0 k (trace ex_n0 ex7_evs), qreq 0 k (trace ex_n0 ex7_evs)))
           [(1, 1); (5, 6); (10, 11); (12, 13); (14, 15); (16, 17); (20, 20)]
  = [(1, 1); (1, 1); (1, 1); (1, 1); (1, 1); (1, 1); (0, 0)]%nat.
Proof.
  destruct ex7_guard as [Hw Hg]. split; [vm_compute; reflexivity|]. split; [|vm_compute; reflexivity].
  intros k. apply (C07_history_at_most_once ex_n0 ex7_evs 0%nat k Hw Hg).
  change (req_keys_on 0 ex7_evs) with [(1, 1); (5, 6); (10, 11); (12, 13); (14, 15); (16, 17)].
  repeat constructor; cbn; intuition discriminate.
Qed.

(* A on the history of NodeF (CERs out, CEAs in, application requests out, their answers in): only requests
   are handed to connections *)
Example ex7_C07_history_no_answer_to_answer :
  forall e outs cid a, List.In (e, outs) (trace ex_n0 ex_evs1) -> List.In (OQueue cid a) outs -> o_req a = true.
Proof.
  apply C07_history_no_answer_to_answer.
  - intros d i b H. cbn in H. repeat (destruct H as [H|H]; [discriminate H|]). exact H.
  - intros d cid ms m H Hm. cbn in H.
    repeat (destruct H as [H|H]; [first [discriminate H|injection H as _ _ <-; destruct Hm as [<-|[]]; reflexivity]|]).
    destruct H.
Qed.
End ExamplesE.

(* ================================================================================== *)
(* 6. the guard is needed                                                             *)
(* ================================================================================== *)
(* FINDING: without clause (i') of the guard (a second CER with another Origin-Host on a connection that was
   answered 5010) C and D fail.  Connection 0 is READY with node name p and host identity q; connection 1
   completes a capabilities exchange as q (no rival is NAMED q): two ready connections with host identity q.
   The request (7,7) is read from connection 1 and delivered; the application's answer is routed to the
   FIRST connection with host identity q: it goes out on connection 0, from which no request was ever read
   with that pair.  The history satisfies clause (iii) (conn_guard). *)
Module WitnessE.
Import String.
Local Open Scope string_scope.
(* C and D fail without clause (i') of the guard *)
Theorem C07_history_app_answers_unguarded_refuted :
  exists n0 evs cid k,
    NodeD.wf_init_g n0 /\ NodeD.conn_guard n0 evs /\
    qans cid k (trace n0 evs) = 1%nat /\ qreq cid k (trace n0 evs) = 0%nat /\ qreq 1%nat k (trace n0 evs) = 1%nat /\
    List.map (fun x => List.flat_map ExamplesE.show7 (snd x)) (List.skipn 4 (trace n0 evs)) =
      [[("deliver", 0%nat, 7, 7)];
       [("answer", 0%nat, 7, 7)]].
Proof.
  exists (NodeD.Witness.node0 [NodeD.Witness.mkpeer "p" false;
                               NodeD.Witness.mkpeer "q" false]).
  exists [([], EAccept 1);
          ([], ERecv 0 [NodeD.Witness.ce_apps true "p" 1 [5];
                        NodeD.Witness.ce true "q" 2]);
          ([], EAccept 1);
          ([], ERecv 1 [NodeD.Witness.ce true "q" 1]);
          ([], ERecv 1 [NodeD.Witness.appreq "q" 7]);
          ([], EAppAnswer 0 (ExamplesE.xa 7 7))].
  exists 0%nat, (7, 7).
  split; [split; [NodeD.Witness.wf_tac|cbn; intuition discriminate]|]. split; [NodeD.Witness.ce_guard_tac|].
  vm_compute. repeat split.
Qed.
End WitnessE.

(* ================================================================================== *)
(* assumptions                                                                        *)
(* ================================================================================== *)
Print Assumptions C07_history_no_answer_to_answer.
Print Assumptions C07_history_node_answers.
Print Assumptions C07_history_app_answers.
Print Assumptions C07_history_app_answers_at.
Print Assumptions C07_history_answers_le_requests.
Print Assumptions C07_history_at_most_once.
Print Assumptions qans_pos.
Print Assumptions WitnessE.C07_history_app_answers_unguarded_refuted.
Print Assumptions ExamplesE.ex7_history.
Print Assumptions ExamplesE.ex7_guard.
Print Assumptions ExamplesE.ex7_C07_history_app_answers.
Print Assumptions ExamplesE.ex7_C07_history_node_answers.
Print Assumptions ExamplesE.ex7_C07_history_at_most_once.
Print Assumptions ExamplesE.ex7_C07_history_no_answer_to_answer.
