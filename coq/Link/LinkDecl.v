(* Table obligation for C03: what a class declares to its users (annotations) and what it defines (avp_def) agree
   (exhaustive over Gen/GenDefs.v). *)
From DV Require Import Prelude.Base Model.Wire Model.Types Model.Defs Gen.GenDefs.
From Coq Require Import String.

(* every attribute a class declares (annotation) has exactly the definitions' names, and vice versa: an attribute that is
   declared but not defined is silently not encoded, a definition under an undeclared name is unreachable for a user who
   reads the class *)
Definition str_mem (x : string) (l : list string) : bool := List.existsb (String.eqb x) l.
Definition declared_ok (c : clsdef) : bool :=
  match List.find (fun p => String.eqb (fst p) (d_name c)) declared_attrs with
  | None => false
  | Some p =>
      let defs := List.map f_attr (d_defs c) in
      List.forallb (fun a => str_mem a (snd p)) defs && List.forallb (fun a => str_mem a defs) (snd p)
  end.
Lemma defs_declared_agree : List.forallb declared_ok def_classes = true.
Proof. vm_compute. reflexivity. Qed.
