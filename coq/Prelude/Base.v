(* Prelude: conventions shared by every model file.
   - Python int = Z (unbounded); bytes = list Z (each 0..255)
   - exceptions = result monad with an enum of error kinds
   - String is Required but never Imported (it shadows length / ++). *)
From Coq Require Export ZArith List Bool Lia ZifyBool.
From Coq Require Import Ascii String.
Export ListNotations.
Open Scope Z_scope.

Ltac Zify.zify_post_hook ::= Z.to_euclidean_division_equations.

(* ---- errors ---------------------------------------------------------- *)
Inductive err : Set :=
| ConversionError      (* diameter.message.packer.ConversionError *)
| AvpDecodeError       (* diameter.message.avp.errors.AvpDecodeError *)
| AvpEncodeError       (* diameter.message.avp.errors.AvpEncodeError *)
| StructError          (* struct.error escaping *)
| ValueError
| UnicodeError
| OverflowError
| TypeError
| AttributeError
| NotRoutable
| OutOfFuel.           (* model-only: recursion fuel exhausted *)

Inductive result (A : Type) : Type :=
| Ok  (a : A)
| Err (e : err).
Arguments Ok {A} a.
Arguments Err {A} e.

Definition bind {A B} (r : result A) (f : A -> result B) : result B :=
  match r with Ok a => f a | Err e => Err e end.
Notation "'let!' x ':=' r 'in' k" := (bind r (fun x => k))
  (at level 200, x pattern, r at level 100, k at level 200, right associativity).

Definition is_ok {A} (r : result A) : bool :=
  match r with Ok _ => true | Err _ => false end.

Definition err_eqb (a b : err) : bool :=
  match a, b with
  | ConversionError, ConversionError | AvpDecodeError, AvpDecodeError
  | AvpEncodeError, AvpEncodeError | StructError, StructError
  | ValueError, ValueError | UnicodeError, UnicodeError
  | OverflowError, OverflowError | TypeError, TypeError
  | AttributeError, AttributeError | NotRoutable, NotRoutable
  | OutOfFuel, OutOfFuel => true
  | _, _ => false
  end.

(* ---- bytes ----------------------------------------------------------- *)
Definition bytes := list Z.
Definition isbyte (b : Z) : bool := (0 <=? b) && (b <? 256).
Definition wf_bytes (bs : bytes) : Prop := Forall (fun b => 0 <= b < 256) bs.
Definition wf_bytesb (bs : bytes) : bool := forallb isbyte bs.

Definition blen (bs : bytes) : Z := Z.of_nat (List.length bs).

(* Python slicing bs[i:j] for 0 <= i; clamps like Python does *)
Definition bslice (bs : bytes) (i j : Z) : bytes :=
  firstn (Z.to_nat (j - i)) (skipn (Z.to_nat i) bs).
Definition bdrop (bs : bytes) (i : Z) : bytes := skipn (Z.to_nat i) bs.
Definition btake (bs : bytes) (i : Z) : bytes := firstn (Z.to_nat i) bs.
Definition zeros (n : Z) : bytes := repeat 0 (Z.to_nat n).

(* big-endian, n bytes; only meaningful for 0 <= x < 256^n *)
Fixpoint be_enc (n : nat) (x : Z) : bytes :=
  match n with
  | O => []
  | S n' => be_enc n' (x / 256) ++ [x mod 256]
  end.
Definition be_dec (bs : bytes) : Z := fold_left (fun acc b => acc * 256 + b) bs 0.

(* struct.pack('>L'/'!I', x) etc.: range check then big-endian *)
Definition pack_u (n : nat) (x : Z) : result bytes :=
  if (0 <=? x) && (x <? 256 ^ Z.of_nat n) then Ok (be_enc n x) else Err StructError.
Definition pack_s (n : nat) (x : Z) : result bytes :=
  let h := 256 ^ Z.of_nat n / 2 in
  if (- h <=? x) && (x <? h) then Ok (be_enc n (x mod 256 ^ Z.of_nat n)) else Err StructError.
Definition unpack_u (n : nat) (bs : bytes) : result Z :=
  if Nat.eqb (List.length bs) n then Ok (be_dec bs) else Err StructError.
Definition unpack_s (n : nat) (bs : bytes) : result Z :=
  if Nat.eqb (List.length bs) n then
    let u := be_dec bs in
    let m := 256 ^ Z.of_nat n in
    Ok (if u <? m / 2 then u else u - m)
  else Err StructError.

(* ---- hex strings (the boundary format between Python and Coq) -------- *)
Definition hexval (c : ascii) : Z :=
  let n := Z.of_nat (nat_of_ascii c) in
  if (48 <=? n) && (n <=? 57) then n - 48
  else if (97 <=? n) && (n <=? 102) then n - 87
  else if (65 <=? n) && (n <=? 70) then n - 55
  else 0.
Fixpoint unhex (s : string) : bytes :=
  match s with
  | String a (String b r) => (hexval a * 16 + hexval b) :: unhex r
  | _ => []
  end.
Definition hexdigit (n : Z) : ascii :=
  ascii_of_nat (Z.to_nat (if n <? 10 then n + 48 else n + 87)).
Fixpoint tohex (bs : bytes) : string :=
  match bs with
  | [] => EmptyString
  | b :: r => String (hexdigit (b / 16)) (String (hexdigit (b mod 16)) (tohex r))
  end.

(* list helpers *)
Fixpoint list_eqb {A} (eqb : A -> A -> bool) (a b : list A) : bool :=
  match a, b with
  | [], [] => true
  | x :: a', y :: b' => eqb x y && list_eqb eqb a' b'
  | _, _ => false
  end.
Definition bytes_eqb := list_eqb Z.eqb.

Fixpoint iter {A} (n : nat) (f : A -> A) (x : A) : A :=
  match n with O => x | S n' => f (iter n' f x) end.

(* indices of the cases whose model observation differs from the implementation's *)
Fixpoint mismatches_from {A} (i : Z) (ok : A -> bool) (cs : list A) : list Z :=
  match cs with
  | [] => []
  | c :: r => if ok c then mismatches_from (i + 1) ok r else i :: mismatches_from (i + 1) ok r
  end.
Definition mismatches {A} (ok : A -> bool) (cs : list A) : list Z := mismatches_from 0 ok cs.
